(** An order-theoretic specification of the [min] and [max] aggregates, readable without
    knowing the fold: the cell is a candidate, and it is below (above) every candidate in
    the total order [vcmp] on values.  Also: every duration has a text. *)
From Coq Require Import List ZArith NArith Bool Lia Reals Floats.SpecFloat.
From Flocq Require Import Core IEEE754.BinarySingleNaN.
From AG Require Import Str F64 Value Json Expr Ops Pipeline Display.
From AG Require Import Str_proofs F64_proofs F64_exact_proofs Value_proofs Agg_proofs.
Import ListNotations.
Open Scope list_scope.
Open Scope Z_scope.

(** the values min / max choose from: the integer arguments (an integer, or text holding one),
    exactly, and the other numeric arguments as [from_float] presents them *)
Definition candidates (e : expr) (rows : list data) : list value :=
  map VInt (int_args e rows) ++ map from_float (float_args e rows).

(** a well-formed double: canonical mantissa, exponent in range (every double Rust produces) *)
Definition wf (f : f64) : Prop := valid_binary prec emax f = true.

(** ** integers: [minZ] / [maxZ] are the least / greatest element *)
Lemma fold_min_spec : forall l z,
  (fold_left Z.min l z = z \/ In (fold_left Z.min l z) l) /\
  fold_left Z.min l z <= z /\ (forall x, In x l -> fold_left Z.min l z <= x).
Proof.
  induction l as [|a l IH]; intro z.
  - cbn [fold_left]. split; [left; reflexivity|]. split; [lia|]. intros x [].
  - cbn [fold_left]. destruct (IH (Z.min z a)) as (H1 & H2 & H3).
    split; [|split].
    + destruct H1 as [H1|H1].
      * rewrite H1. destruct (Z.min_spec z a) as [[_ E]|[_ E]]; rewrite E.
        -- left; reflexivity.
        -- right; left; reflexivity.
      * right; right; exact H1.
    + lia.
    + intros x [Hx|Hx]; [subst x; lia|apply H3; exact Hx].
Qed.

Lemma fold_max_spec : forall l z,
  (fold_left Z.max l z = z \/ In (fold_left Z.max l z) l) /\
  z <= fold_left Z.max l z /\ (forall x, In x l -> x <= fold_left Z.max l z).
Proof.
  induction l as [|a l IH]; intro z.
  - cbn [fold_left]. split; [left; reflexivity|]. split; [lia|]. intros x [].
  - cbn [fold_left]. destruct (IH (Z.max z a)) as (H1 & H2 & H3).
    split; [|split].
    + destruct H1 as [H1|H1].
      * rewrite H1. destruct (Z.max_spec z a) as [[_ E]|[_ E]]; rewrite E.
        -- right; left; reflexivity.
        -- left; reflexivity.
      * right; right; exact H1.
    + lia.
    + intros x [Hx|Hx]; [subst x; lia|apply H3; exact Hx].
Qed.

Lemma minZ_spec : forall l i, minZ l = Some i -> In i l /\ (forall x, In x l -> i <= x).
Proof.
  intros [|z r] i H; [discriminate H|]. cbn [minZ] in H. inversion H; subst i; clear H.
  destruct (fold_min_spec r z) as (H1 & H2 & H3). split.
  - destruct H1 as [H1|H1]; [left; symmetry; exact H1|right; exact H1].
  - intros x [Hx|Hx]; [subst x; exact H2|apply H3; exact Hx].
Qed.

Lemma maxZ_spec : forall l i, maxZ l = Some i -> In i l /\ (forall x, In x l -> x <= i).
Proof.
  intros [|z r] i H; [discriminate H|]. cbn [maxZ] in H. inversion H; subst i; clear H.
  destruct (fold_max_spec r z) as (H1 & H2 & H3). split.
  - destruct H1 as [H1|H1]; [left; symmetry; exact H1|right; exact H1].
  - intros x [Hx|Hx]; [subst x; exact H2|apply H3; exact Hx].
Qed.

Lemma minZ_none : forall l, minZ l = None -> l = [].
Proof. intros [|z r] H; [reflexivity|discriminate H]. Qed.
Lemma maxZ_none : forall l, maxZ l = None -> l = [].
Proof. intros [|z r] H; [reflexivity|discriminate H]. Qed.

(** ** doubles: the IEEE [<] against the total order [ocmp] *)
Lemma SFcompare_some : forall x y, f_is_nan x = false -> f_is_nan y = false ->
  exists c, SFcompare x y = Some c.
Proof.
  intros x y Hx Hy.
  destruct x as [sx|sx| |sx mx ex]; try discriminate Hx;
    destruct y as [sy|sy| |sy my ey]; try discriminate Hy;
    cbn [SFcompare]; eexists; reflexivity.
Qed.

Lemma fltb_true : forall v a, fltb v a = true ->
  ocmp v a = Lt /\ f_is_nan v = false /\ f_is_nan a = false.
Proof.
  intros v a H. unfold fltb, SFltb in H. unfold ocmp, fcmp.
  destruct (SFcompare v a) as [[| |]|] eqn:E; try discriminate H.
  split; [reflexivity|]. split.
  - destruct v; try reflexivity. discriminate E.
  - destruct a; try reflexivity. destruct v; discriminate E.
Qed.

Lemma fltb_false : forall v a, f_is_nan a = false -> fltb v a = false -> ocmp v a <> Lt.
Proof.
  intros v a Ha H. unfold fltb, SFltb in H. unfold ocmp, fcmp.
  destruct (SFcompare v a) as [[| |]|] eqn:E; try discriminate H; try discriminate.
  destruct (f_is_nan v) eqn:Nv.
  - rewrite Ha. discriminate.
  - destruct (SFcompare_some v a Nv Ha) as [c Hc]. rewrite Hc in E. discriminate E.
Qed.

Lemma ocmp_flip : forall a b, ocmp a b <> Lt -> ocmp b a <> Gt.
Proof. intros a b H. rewrite (ocmp_antisym a b). destruct (ocmp a b); cbn [CompOpp]; congruence. Qed.

(** the running minimum of the doubles: never a NaN, the initial value or an element, below both *)
Lemma fmin_fold_spec : forall l m0, f_is_nan m0 = false ->
  let m := fold_left (fun acc v => if fltb v acc then v else acc) l m0 in
  f_is_nan m = false /\ (m = m0 \/ In m l) /\ ocmp m m0 <> Gt /\
  (forall x, In x l -> ocmp m x <> Gt).
Proof.
  induction l as [|v l IH]; intros m0 Hm0.
  - cbn [fold_left]. split; [exact Hm0|]. split; [left; reflexivity|].
    split; [rewrite ocmp_refl; discriminate|]. intros x [].
  - cbn [fold_left].
    set (m1 := if fltb v m0 then v else m0).
    assert (S : f_is_nan m1 = false /\ (m1 = m0 \/ m1 = v) /\ ocmp m1 m0 <> Gt /\ ocmp m1 v <> Gt).
    { unfold m1. destruct (fltb v m0) eqn:E.
      - destruct (fltb_true _ _ E) as (H1 & H2 & _).
        split; [exact H2|]. split; [right; reflexivity|].
        split; [rewrite H1; discriminate|rewrite ocmp_refl; discriminate].
      - split; [exact Hm0|]. split; [left; reflexivity|].
        split; [rewrite ocmp_refl; discriminate|].
        apply ocmp_flip. apply fltb_false; assumption. }
    destruct S as (S1 & S2 & S3 & S4).
    destruct (IH m1 S1) as (I1 & I2 & I3 & I4).
    split; [exact I1|]. split; [|split].
    + destruct I2 as [I2|I2].
      * rewrite I2. destruct S2 as [S2|S2]; rewrite S2; [left; reflexivity|right; left; reflexivity].
      * right; right; exact I2.
    + eapply ocmp_trans_le; eassumption.
    + intros x [Hx|Hx].
      * subst x. eapply ocmp_trans_le; eassumption.
      * apply I4; exact Hx.
Qed.

(** the running maximum: a NaN argument would be skipped although it is the greatest value of
    the order, hence the hypothesis *)
Lemma fmax_fold_spec : forall l m0, f_is_nan m0 = false ->
  Forall (fun f => f_is_nan f = false) l ->
  let m := fold_left (fun acc v => if fltb acc v then v else acc) l m0 in
  f_is_nan m = false /\ (m = m0 \/ In m l) /\ ocmp m0 m <> Gt /\
  (forall x, In x l -> ocmp x m <> Gt).
Proof.
  induction l as [|v l IH]; intros m0 Hm0 HN.
  - cbn [fold_left]. split; [exact Hm0|]. split; [left; reflexivity|].
    split; [rewrite ocmp_refl; discriminate|]. intros x [].
  - inversion HN as [|v' l' Nv Nl]; subst. cbn [fold_left].
    set (m1 := if fltb m0 v then v else m0).
    assert (S : f_is_nan m1 = false /\ (m1 = m0 \/ m1 = v) /\ ocmp m0 m1 <> Gt /\ ocmp v m1 <> Gt).
    { unfold m1. destruct (fltb m0 v) eqn:E.
      - destruct (fltb_true _ _ E) as (H1 & _ & _).
        split; [exact Nv|]. split; [right; reflexivity|].
        split; [rewrite H1; discriminate|rewrite ocmp_refl; discriminate].
      - split; [exact Hm0|]. split; [left; reflexivity|].
        split; [rewrite ocmp_refl; discriminate|].
        apply ocmp_flip. apply fltb_false; assumption. }
    destruct S as (S1 & S2 & S3 & S4).
    destruct (IH m1 S1 Nl) as (I1 & I2 & I3 & I4).
    split; [exact I1|]. split; [|split].
    + destruct I2 as [I2|I2].
      * rewrite I2. destruct S2 as [S2|S2]; rewrite S2; [left; reflexivity|right; left; reflexivity].
      * right; right; exact I2.
    + eapply ocmp_trans_le; eassumption.
    + intros x [Hx|Hx].
      * subst x. eapply ocmp_trans_le; eassumption.
      * apply I4; exact Hx.
Qed.

(** ** [from_float] keeps the numeric value, so the order of the cells is the order of the doubles *)
Lemma from_float_key : forall f, num_key (from_float f) = f_key f.
Proof.
  intro f. unfold from_float.
  destruct (f_is_integral f && (i64_min <=? ftrunc_Z f) && (ftrunc_Z f <=? i64_max)) eqn:E;
    [|reflexivity].
  apply andb_true_iff in E. destruct E as [E _].
  apply andb_true_iff in E. destruct E as [E _].
  destruct f as [s|s| |s m e]; try discriminate E.
  - reflexivity.
  - cbn [num_key f_key]. f_equal. cbn [SF2R].
    apply Rcompare_Eq_inv. rewrite <- cmp_int_F2R.
    cbn [ftrunc_Z f_is_integral] in *.
    destruct (Z.leb_spec 0 e) as [He|He]; apply Z.compare_eq_iff.
    + destruct s; cbn [cond_Zopp]; [|reflexivity].
      change (Z.neg m) with (- Z.pos m). ring.
    + apply Z.eqb_eq in E.
      assert (Hp : 0 < 2 ^ (- e)) by (apply Z.pow_pos_nonneg; lia).
      pose proof (Z.div_mod (Z.pos m) (2 ^ (- e)) ltac:(lia)) as D.
      rewrite E, Z.add_0_r in D.
      destruct s; cbn [cond_Zopp].
      * change (Z.neg m) with (- Z.pos m). rewrite D at 2. ring.
      * rewrite D at 2. ring.
Qed.

Lemma from_float_rank : forall f, rank (from_float f) = 2%N.
Proof.
  intro f. unfold from_float.
  destruct (f_is_integral f && (i64_min <=? ftrunc_Z f) && (ftrunc_Z f <=? i64_max)); reflexivity.
Qed.

Lemma from_float_small : forall f, wf f -> small_ints (from_float f) = true.
Proof.
  intros f Hf. unfold from_float.
  destruct (f_is_integral f && (i64_min <=? ftrunc_Z f) && (ftrunc_Z f <=? i64_max));
    [reflexivity|exact Hf].
Qed.

Lemma vcmp_from_float : forall f g, wf f -> wf g ->
  vcmp (from_float f) (from_float g) = ocmp f g.
Proof.
  intros f g Hf Hg.
  rewrite vcmp_num by (try apply from_float_rank; apply from_float_small; assumption).
  rewrite !from_float_key. symmetry. apply ocmp_key_R; assumption.
Qed.

(** ** [Ord::min] / [Ord::max] on two values *)
Lemma vmin_spec : forall a b,
  (vmin a b = a \/ vmin a b = b) /\ vcmp (vmin a b) a <> Gt /\ vcmp (vmin a b) b <> Gt.
Proof.
  intros a b. unfold vmin. pose proof (vcmp_antisym b a) as A.
  destruct (vcmp b a) eqn:E; cbn [CompOpp] in A.
  - split; [left; reflexivity|]. rewrite vcmp_refl, A. split; discriminate.
  - split; [right; reflexivity|]. rewrite vcmp_refl, E. split; discriminate.
  - split; [left; reflexivity|]. rewrite vcmp_refl, A. split; discriminate.
Qed.

Lemma vmax_spec : forall a b,
  (vmax a b = a \/ vmax a b = b) /\ vcmp (vmax a b) a <> Lt /\ vcmp (vmax a b) b <> Lt.
Proof.
  intros a b. unfold vmax. pose proof (vcmp_antisym b a) as A.
  destruct (vcmp b a) eqn:E; cbn [CompOpp] in A.
  - split; [right; reflexivity|]. rewrite vcmp_refl, E. split; discriminate.
  - split; [left; reflexivity|]. rewrite vcmp_refl, A. split; discriminate.
  - split; [right; reflexivity|]. rewrite vcmp_refl, E. split; discriminate.
Qed.

Lemma vcmp_flip : forall a b, vcmp a b <> Lt -> vcmp b a <> Gt.
Proof. intros a b H. rewrite (vcmp_antisym a b). destruct (vcmp a b); cbn [CompOpp]; congruence. Qed.
Lemma vcmp_flip' : forall a b, vcmp a b <> Gt -> vcmp b a <> Lt.
Proof. intros a b H. rewrite (vcmp_antisym a b). destruct (vcmp a b); cbn [CompOpp]; congruence. Qed.

Lemma minmax_emit_min : forall m mi,
  minmax_emit true (Some m) mi =
  match mi with Some i => vmin (VInt i) (from_float m) | None => from_float m end.
Proof. intros m [i|]; reflexivity. Qed.
Lemma minmax_emit_max : forall m mi,
  minmax_emit false (Some m) mi =
  match mi with Some i => vmax (VInt i) (from_float m) | None => from_float m end.
Proof. intros m [i|]; reflexivity. Qed.
Lemma minmax_emit_none : forall is_min mi,
  minmax_emit is_min None mi = match mi with Some i => VInt i | None => VNone end.
Proof. intros is_min [i|]; reflexivity. Qed.

(** ** the double extremum [minF] / [maxF]: the least / greatest of the non-NaN elements *)
Lemma not_nan_true : forall f, not_nan f = true <-> f_is_nan f = false.
Proof. intro f. unfold not_nan. destruct (f_is_nan f); cbn [negb]; split; congruence. Qed.

(** NaN is the greatest value of [ocmp] *)
Lemma ocmp_nan_r : forall m g, f_is_nan g = true -> ocmp m g <> Gt.
Proof.
  intros m g Hg. destruct g; try discriminate Hg. destruct m; cbv; discriminate.
Qed.

Lemma minF_spec : forall l m, minF l = Some m ->
  f_is_nan m = false /\ In m l /\ (forall x, In x l -> ocmp m x <> Gt).
Proof.
  intros l m H. unfold minF in H.
  destruct (filter not_nan l) as [|x r] eqn:E; [discriminate H|].
  inversion H as [Hm]; clear H.
  assert (Nx : f_is_nan x = false).
  { apply not_nan_true. eapply proj2. apply filter_In. rewrite E. left; reflexivity. }
  destruct (fmin_fold_spec r x Nx) as (N & I & Lx & L).
  split; [exact N|]. split.
  - eapply proj1. apply filter_In. rewrite E.
    destruct I as [I|I]; [left; symmetry; exact I|right; exact I].
  - intros g Hg. destruct (f_is_nan g) eqn:Ng; [apply ocmp_nan_r; exact Ng|].
    assert (Hg' : In g (x :: r)).
    { rewrite <- E. apply filter_In. split; [exact Hg|apply not_nan_true; exact Ng]. }
    destruct Hg' as [Hg'|Hg']; [subst g; exact Lx|apply L; exact Hg'].
Qed.

(** for max the NaN elements are skipped although they are the greatest of the order *)
Lemma maxF_spec : forall l m, maxF l = Some m ->
  f_is_nan m = false /\ In m l /\ (forall x, In x l -> f_is_nan x = false -> ocmp x m <> Gt).
Proof.
  intros l m H. unfold maxF in H.
  destruct (filter not_nan l) as [|x r] eqn:E; [discriminate H|].
  inversion H as [Hm]; clear H.
  assert (NA : Forall (fun f => f_is_nan f = false) (x :: r)).
  { apply Forall_forall. intros g Hg. apply not_nan_true. eapply proj2. apply filter_In.
    rewrite E. exact Hg. }
  inversion NA as [|x' r' Nx Nr]; subst x' r'.
  destruct (fmax_fold_spec r x Nx Nr) as (N & I & Lx & L).
  split; [exact N|]. split.
  - eapply proj1. apply filter_In. rewrite E.
    destruct I as [I|I]; [left; symmetry; exact I|right; exact I].
  - intros g Hg Ng.
    assert (Hg' : In g (x :: r)).
    { rewrite <- E. apply filter_In. split; [exact Hg|apply not_nan_true; exact Ng]. }
    destruct Hg' as [Hg'|Hg']; [subst g; exact Lx|apply L; exact Hg'].
Qed.

Lemma filter_not_nan_nil : forall l,
  filter not_nan l = [] <-> Forall (fun f => f_is_nan f = true) l.
Proof.
  induction l as [|x l IH]; [split; [constructor|reflexivity]|].
  cbn [filter]. unfold not_nan at 1. destruct (f_is_nan x) eqn:Nx; cbn [negb].
  - split.
    + intro H. constructor; [exact Nx|apply IH; exact H].
    + intro H. inversion H; subst. apply IH. assumption.
  - split; [discriminate|]. intro H. inversion H; subst. congruence.
Qed.

Lemma minF_none : forall l, minF l = None <-> Forall (fun f => f_is_nan f = true) l.
Proof.
  intro l. rewrite <- filter_not_nan_nil. unfold minF.
  destruct (filter not_nan l); split; congruence.
Qed.
Lemma maxF_none : forall l, maxF l = None <-> Forall (fun f => f_is_nan f = true) l.
Proof.
  intro l. rewrite <- filter_not_nan_nil. unfold maxF.
  destruct (filter not_nan l); split; congruence.
Qed.

(** ** assembling: a value below the least integer and below the least double is below everything *)
Lemma finish_min : forall ints floats i m v,
  Forall wf floats -> wf m ->
  In i ints -> (forall z, In z ints -> i <= z) ->
  (forall g, In g floats -> ocmp m g <> Gt) ->
  (v = VInt i \/ (v = from_float m /\ In m floats)) ->
  vcmp v (VInt i) <> Gt -> vcmp v (from_float m) <> Gt ->
  In v (map VInt ints ++ map from_float floats) /\
  (forall x, In x (map VInt ints ++ map from_float floats) -> vcmp v x <> Gt).
Proof.
  intros ints floats i m v HW Wm Hi Hleast Hf Hv Hvi Hvm.
  assert (Sv : small_ints v = true).
  { destruct Hv as [Hv|[Hv _]]; subst v; [reflexivity|apply from_float_small; exact Wm]. }
  split.
  - apply in_or_app. destruct Hv as [Hv|[Hv Hm]]; subst v.
    + left. apply in_map. exact Hi.
    + right. apply in_map. exact Hm.
  - intros x Hx. apply in_app_or in Hx. destruct Hx as [Hx|Hx]; apply in_map_iff in Hx.
    + destruct Hx as [z [Ez Hz]]. subst x.
      apply (vcmp_trans_le v (VInt i) (VInt z)); try reflexivity; try assumption.
      cbn [vcmp]. intro G. apply Z.compare_gt_iff in G. specialize (Hleast z Hz). lia.
    + destruct Hx as [g [Eg Hg]]. subst x.
      assert (Wg : wf g) by (rewrite Forall_forall in HW; apply HW; exact Hg).
      apply (vcmp_trans_le v (from_float m) (from_float g)); try assumption;
        try (apply from_float_small; assumption).
      rewrite vcmp_from_float by assumption. apply Hf. exact Hg.
Qed.

Lemma finish_max : forall ints floats i m v,
  Forall wf floats -> wf m ->
  In i ints -> (forall z, In z ints -> z <= i) ->
  (forall g, In g floats -> ocmp g m <> Gt) ->
  (v = VInt i \/ (v = from_float m /\ In m floats)) ->
  vcmp v (VInt i) <> Lt -> vcmp v (from_float m) <> Lt ->
  In v (map VInt ints ++ map from_float floats) /\
  (forall x, In x (map VInt ints ++ map from_float floats) -> vcmp v x <> Lt).
Proof.
  intros ints floats i m v HW Wm Hi Hgreatest Hf Hv Hvi Hvm.
  assert (Sv : small_ints v = true).
  { destruct Hv as [Hv|[Hv _]]; subst v; [reflexivity|apply from_float_small; exact Wm]. }
  split.
  - apply in_or_app. destruct Hv as [Hv|[Hv Hm]]; subst v.
    + left. apply in_map. exact Hi.
    + right. apply in_map. exact Hm.
  - intros x Hx. apply vcmp_flip'.
    apply in_app_or in Hx. destruct Hx as [Hx|Hx]; apply in_map_iff in Hx.
    + destruct Hx as [z [Ez Hz]]. subst x.
      apply (vcmp_trans_le (VInt z) (VInt i) v); try reflexivity; try assumption.
      * cbn [vcmp]. intro G. apply Z.compare_gt_iff in G. specialize (Hgreatest z Hz). lia.
      * apply vcmp_flip. exact Hvi.
    + destruct Hx as [g [Eg Hg]]. subst x.
      assert (Wg : wf g) by (rewrite Forall_forall in HW; apply HW; exact Hg).
      apply (vcmp_trans_le (from_float g) (from_float m) v); try assumption;
        try (apply from_float_small; assumption).
      * rewrite vcmp_from_float by assumption. apply Hf. exact Hg.
      * apply vcmp_flip. exact Hvm.
Qed.

(** ** min *)

(** The sharp form.  Hypotheses: every non-integer numeric argument is a well-formed double, and
    there is something to report: an integer argument, or a double that is not NaN (a NaN is
    skipped).  NaN arguments are otherwise harmless for min: NaN is the greatest value of the
    order.  Infinite arguments need no care: an all-+inf group has minimum +inf.
    [min_degenerate] below shows that the second hypothesis cannot be dropped. *)
Theorem min_is_least_sharp : forall e rows v,
  Forall wf (float_args e rows) ->
  (int_args e rows <> [] \/
   Exists (fun f => f_is_nan f = false) (float_args e rows)) ->
  acc_emit (fold_left acc_step rows (acc_empty (FMin e))) = Ok v ->
  In v (candidates e rows) /\ (forall x, In x (candidates e rows) -> vcmp v x <> Gt).
Proof.
  intros e rows v HW HE H. rewrite min_emit in H. inversion H as [Hv]; clear H.
  unfold candidates.
  set (ints := int_args e rows) in *. set (floats := float_args e rows) in *.
  destruct (minF floats) as [m|] eqn:Em.
  - destruct (minF_spec _ _ Em) as (N & I & L).
    assert (Wm : wf m) by (rewrite Forall_forall in HW; apply HW; exact I).
    rewrite minmax_emit_min.
    destruct (minZ ints) as [i|] eqn:Emi.
    + destruct (minZ_spec _ _ Emi) as [Hi Hleast].
      destruct (vmin_spec (VInt i) (from_float m)) as (V1 & V2 & V3).
      apply (finish_min ints floats i m); try assumption.
      destruct V1 as [V1|V1]; [left; exact V1|right]. split; [exact V1|exact I].
    + apply minZ_none in Emi. rewrite Emi. cbn [map app].
      split; [apply in_map; exact I|].
      intros x Hx. apply in_map_iff in Hx. destruct Hx as [g [Eg Hg]]. subst x.
      assert (Wg : wf g) by (rewrite Forall_forall in HW; apply HW; exact Hg).
      rewrite vcmp_from_float by assumption. apply L. exact Hg.
  - (* NaN doubles only *)
    apply minF_none in Em. rewrite minmax_emit_none.
    destruct (minZ ints) as [i|] eqn:Emi.
    + destruct (minZ_spec _ _ Emi) as [Hi Hleast].
      apply (finish_min ints floats i S754_nan); try assumption.
      * reflexivity.
      * intros g Hg. apply ocmp_nan_r. rewrite Forall_forall in Em. apply Em. exact Hg.
      * left; reflexivity.
      * cbn [vcmp]. rewrite Z.compare_refl. discriminate.
      * vm_compute. discriminate.
    + exfalso. apply minZ_none in Emi. destruct HE as [HE|HE]; [apply HE; exact Emi|].
      apply Exists_exists in HE. destruct HE as [g [Hg Ng]].
      rewrite Forall_forall in Em. rewrite (Em g Hg) in Ng. discriminate Ng.
Qed.

(** without an integer argument, and with NaN doubles only, min reports None -
    which is not a candidate as soon as there is such a double *)
Theorem min_degenerate : forall e rows,
  int_args e rows = [] ->
  Forall (fun f => f_is_nan f = true) (float_args e rows) ->
  acc_emit (fold_left acc_step rows (acc_empty (FMin e))) = Ok VNone.
Proof.
  intros e rows Hi HF. rewrite min_emit, Hi. apply minF_none in HF. rewrite HF. reflexivity.
Qed.

(** The form with one [Forall] over the non-integer numeric arguments: well-formed, not NaN.
    Every other double, the infinities included, is allowed. *)
Theorem min_is_least : forall e rows v,
  Forall (fun f => valid_binary prec emax f = true /\ f_is_nan f = false)
         (float_args e rows) ->
  acc_emit (fold_left acc_step rows (acc_empty (FMin e))) = Ok v ->
  candidates e rows <> [] ->
  In v (candidates e rows) /\ (forall x, In x (candidates e rows) -> vcmp v x <> Gt).
Proof.
  intros e rows v HF H Hne. apply min_is_least_sharp; [| |exact H].
  - eapply Forall_impl; [|exact HF]. intros f Hf. apply Hf.
  - unfold candidates in Hne.
    destruct (int_args e rows) as [|i l]; [|left; discriminate]. right.
    destruct (float_args e rows) as [|g l]; [exfalso; apply Hne; reflexivity|].
    inversion HF as [|g' l' Hg Hl]; subst. apply Exists_cons_hd. apply Hg.
Qed.

(** ** max *)

(** The sharp form.  Here a NaN argument must be excluded altogether: it is skipped, although it
    is the greatest value of the order (see [max_nan_counterexample]).  Beyond that there only
    has to be something to report. *)
Theorem max_is_greatest_sharp : forall e rows v,
  Forall wf (float_args e rows) ->
  Forall (fun f => f_is_nan f = false) (float_args e rows) ->
  (int_args e rows <> [] \/ float_args e rows <> []) ->
  acc_emit (fold_left acc_step rows (acc_empty (FMax e))) = Ok v ->
  In v (candidates e rows) /\ (forall x, In x (candidates e rows) -> vcmp v x <> Lt).
Proof.
  intros e rows v HW HN HE H. rewrite max_emit in H. inversion H as [Hv]; clear H.
  unfold candidates.
  set (ints := int_args e rows) in *. set (floats := float_args e rows) in *.
  destruct (maxF floats) as [m|] eqn:Em.
  - destruct (maxF_spec _ _ Em) as (N & I & L0).
    assert (L : forall g, In g floats -> ocmp g m <> Gt).
    { intros g Hg. apply L0; [exact Hg|]. rewrite Forall_forall in HN. apply HN. exact Hg. }
    assert (Wm : wf m) by (rewrite Forall_forall in HW; apply HW; exact I).
    rewrite minmax_emit_max.
    destruct (maxZ ints) as [i|] eqn:Emi.
    + destruct (maxZ_spec _ _ Emi) as [Hi Hgreatest].
      destruct (vmax_spec (VInt i) (from_float m)) as (V1 & V2 & V3).
      apply (finish_max ints floats i m); try assumption.
      destruct V1 as [V1|V1]; [left; exact V1|right]. split; [exact V1|exact I].
    + apply maxZ_none in Emi. rewrite Emi. cbn [map app].
      split; [apply in_map; exact I|].
      intros x Hx. apply in_map_iff in Hx. destruct Hx as [g [Eg Hg]]. subst x.
      assert (Wg : wf g) by (rewrite Forall_forall in HW; apply HW; exact Hg).
      apply vcmp_flip'. rewrite vcmp_from_float by assumption. apply L. exact Hg.
  - (* no double at all: each would be a NaN *)
    apply maxF_none in Em. rewrite minmax_emit_none.
    assert (Hnil : floats = []).
    { destruct floats as [|g l]; [reflexivity|exfalso].
      inversion Em as [|g1 l1 E1 _]; inversion HN as [|g2 l2 E2 _]; subst. congruence. }
    destruct (maxZ ints) as [i|] eqn:Emi.
    + destruct (maxZ_spec _ _ Emi) as [Hi Hgreatest].
      apply (finish_max ints floats i f_neg_inf); try assumption.
      * reflexivity.
      * intros g Hg. rewrite Hnil in Hg. destruct Hg.
      * left; reflexivity.
      * cbn [vcmp]. rewrite Z.compare_refl. discriminate.
      * vm_compute. discriminate.
    + exfalso. apply maxZ_none in Emi. destruct HE as [HE|HE]; apply HE; assumption.
Qed.

(** without an integer argument, and with NaN doubles only, max reports None *)
Theorem max_degenerate : forall e rows,
  int_args e rows = [] ->
  Forall (fun f => f_is_nan f = true) (float_args e rows) ->
  acc_emit (fold_left acc_step rows (acc_empty (FMax e))) = Ok VNone.
Proof.
  intros e rows Hi HF. rewrite max_emit, Hi. apply maxF_none in HF. rewrite HF. reflexivity.
Qed.

Theorem max_is_greatest : forall e rows v,
  Forall (fun f => valid_binary prec emax f = true /\ f_is_nan f = false)
         (float_args e rows) ->
  acc_emit (fold_left acc_step rows (acc_empty (FMax e))) = Ok v ->
  candidates e rows <> [] ->
  In v (candidates e rows) /\ (forall x, In x (candidates e rows) -> vcmp v x <> Lt).
Proof.
  intros e rows v HF H Hne. apply max_is_greatest_sharp; [| | |exact H].
  - eapply Forall_impl; [|exact HF]. intros f Hf. apply Hf.
  - eapply Forall_impl; [|exact HF]. intros f Hf. apply Hf.
  - unfold candidates in Hne.
    destruct (int_args e rows) as [|i l]; [|left; discriminate]. right.
    destruct (float_args e rows) as [|g l]; [exfalso; apply Hne; reflexivity|discriminate].
Qed.

(** ** nothing to choose from: None *)
Theorem min_max_none : forall e rows, candidates e rows = [] ->
  acc_emit (fold_left acc_step rows (acc_empty (FMin e))) = Ok VNone /\
  acc_emit (fold_left acc_step rows (acc_empty (FMax e))) = Ok VNone.
Proof.
  intros e rows H. unfold candidates in H. apply app_eq_nil in H. destruct H as [Hi Hf].
  apply map_eq_nil in Hi. apply map_eq_nil in Hf.
  rewrite min_emit, max_emit, Hi, Hf. split; reflexivity.
Qed.

(** ** closed examples *)
Definition ex_e : expr := ECol (lit "v") [].
Definition ex_row (v : value) : data := [(lit "v", v)].
(** 1.5, canonical *)
Definition f_1_5 : f64 := S754_finite false 6755399441055744 (-52).

(** integers beyond 2^53 are reported exactly (both are odd: neither is a double) *)
Example min_big_ints :
  acc_emit (fold_left acc_step [ex_row (VInt 9007199254740995); ex_row (VInt 9007199254740993)]
                      (acc_empty (FMin ex_e))) = Ok (VInt 9007199254740993).
Proof. vm_compute. reflexivity. Qed.
Example max_big_ints :
  acc_emit (fold_left acc_step [ex_row (VInt 9007199254740995); ex_row (VInt 9007199254740993)]
                      (acc_empty (FMax ex_e))) = Ok (VInt 9007199254740995).
Proof. vm_compute. reflexivity. Qed.

(** FALSE without the NaN hypothesis:
      forall e rows v, Forall wf (float_args e rows) ->
        acc_emit (fold_left acc_step rows (acc_empty (FMax e))) = Ok v -> candidates e rows <> [] ->
        In v (candidates e rows) /\ (forall x, In x (candidates e rows) -> vcmp v x <> Lt).
    The arguments NaN and 1.5: the NaN is skipped, max reports 1.5, and 1.5 < NaN in [vcmp]. *)
Example max_nan_counterexample :
  let rows := [ex_row (VFloat S754_nan); ex_row (VFloat f_1_5)] in
  Forall wf (float_args ex_e rows) /\
  candidates ex_e rows = [VFloat S754_nan; VFloat f_1_5] /\
  acc_emit (fold_left acc_step rows (acc_empty (FMax ex_e))) = Ok (VFloat f_1_5) /\
  vcmp (VFloat f_1_5) (VFloat S754_nan) = Lt.
Proof.
  cbv zeta. split; [|vm_compute; repeat split].
  vm_compute. repeat constructor.
Qed.

(** an infinite extremum is reported as such: a group whose only argument is +inf has minimum
    +inf, one whose only argument is -inf has maximum -inf (both are candidates) *)
Example min_inf_example :
  let rows := [ex_row (VFloat f_inf)] in
  candidates ex_e rows = [VFloat f_inf] /\
  acc_emit (fold_left acc_step rows (acc_empty (FMin ex_e))) = Ok (VFloat f_inf).
Proof. vm_compute. split; reflexivity. Qed.
Example max_neg_inf_example :
  let rows := [ex_row (VFloat f_neg_inf)] in
  candidates ex_e rows = [VFloat f_neg_inf] /\
  acc_emit (fold_left acc_step rows (acc_empty (FMax ex_e))) = Ok (VFloat f_neg_inf).
Proof. vm_compute. split; reflexivity. Qed.

(** FALSE when NaN may be the only argument of min: None is reported, which is not a candidate
    (an instance of [min_degenerate]) *)
Example min_nan_counterexample :
  let rows := [ex_row (VFloat S754_nan)] in
  candidates ex_e rows = [VFloat S754_nan] /\
  acc_emit (fold_left acc_step rows (acc_empty (FMin ex_e))) = Ok VNone.
Proof. vm_compute. split; reflexivity. Qed.

(** ... whereas NaN and +inf next to anything else are fine for min *)
Example min_with_nan_and_inf :
  let rows := [ex_row (VFloat S754_nan); ex_row (VFloat f_inf); ex_row (VFloat f_1_5)] in
  acc_emit (fold_left acc_step rows (acc_empty (FMin ex_e))) = Ok (VFloat f_1_5).
Proof. vm_compute. reflexivity. Qed.

(** ** every duration has a text *)
Lemma part_nil : forall v (sym : str), sym <> [] ->
  (if v =? 0 then [] else Z_to_str v ++ sym) = [] -> v = 0.
Proof.
  intros v sym Hs H. destruct (Z.eqb_spec v 0) as [E|E]; [exact E|].
  apply app_eq_nil in H. destruct H as [_ H]. contradiction.
Qed.

Theorem dur_display_nonempty : forall ns, dur_display ns <> [].
Proof.
  intros ns. unfold dur_display. cbv zeta beta.
  destruct (Z.eqb_spec ns 0) as [E|E]; [cbv; discriminate|].
  intro H.
  repeat (apply app_eq_nil in H; let H' := fresh "P" in destruct H as [H' H]).
  apply part_nil in P; [|cbv; discriminate].
  rewrite P, ?Z.mul_0_l, ?Z.sub_0_r in *.
  apply part_nil in P0; [|cbv; discriminate].
  rewrite P0, ?Z.mul_0_l, ?Z.sub_0_r in *.
  apply part_nil in P1; [|cbv; discriminate].
  rewrite P1, ?Z.mul_0_l, ?Z.sub_0_r in *.
  apply part_nil in P2; [|cbv; discriminate].
  rewrite P2, ?Z.mul_0_l, ?Z.sub_0_r in *.
  apply part_nil in P3; [|cbv; discriminate].
  rewrite P3, ?Z.mul_0_l, ?Z.sub_0_r in *.
  apply part_nil in P4; [|cbv; discriminate].
  rewrite P4, ?Z.mul_0_l, ?Z.sub_0_r in *.
  apply part_nil in P5; [|cbv; discriminate].
  rewrite P5, ?Z.mul_0_l, ?Z.sub_0_r in *.
  apply part_nil in H; [|cbv; discriminate].
  apply E. exact H.
Qed.

Print Assumptions min_is_least_sharp.
Print Assumptions min_is_least.
Print Assumptions min_degenerate.
Print Assumptions max_is_greatest_sharp.
Print Assumptions max_is_greatest.
Print Assumptions max_degenerate.
Print Assumptions min_max_none.
Print Assumptions dur_display_nonempty.
Print Assumptions min_big_ints.
Print Assumptions max_big_ints.
Print Assumptions max_nan_counterexample.
Print Assumptions min_inf_example.
Print Assumptions min_nan_counterexample.
