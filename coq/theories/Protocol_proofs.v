(** C15 / C17: the reader / channel / renderer protocol (Stream.v). *)
From Coq Require Import List ZArith NArith Bool Lia.
From AG Require Import Str F64 Value Json Expr Ops Pipeline Stream Stream_proofs.
Import ListNotations.
Open Scope nat_scope.

(** the reference: everything the pipeline lets through for the whole input *)
Definition reference (filter_ok : str -> bool) (ops : list opstate) (lines : list str) : list record :=
  rev (p_sent (run_preagg ops (map (fun l => mkRec [] l) (filter filter_ok lines)))).

Definition reachable (s0 s : sys) : Prop := exists sched, run_schedule sched s0 = s.

(** ** helpers *)

Lemma cap_pos : 0 < cap.
Proof. unfold cap, Generated.chan_capacity. lia. Qed.

Global Opaque cap.

(** generic invariant principle for schedules *)
Lemma run_schedule_inv (P : sys -> Prop) :
  (forall s s', P s -> reader_step s = Some s' -> P s') ->
  (forall s s', P s -> renderer_step s = Some s' -> P s') ->
  forall sched s, P s -> P (run_schedule sched s).
Proof.
  intros Hr Hw sched. induction sched as [|a sched IH]; intros s Hs; cbn [run_schedule]; [exact Hs|].
  apply IH. destruct a; cbn [step].
  - destruct (reader_step s) as [s'|] eqn:E; [eapply Hr; eauto | exact Hs].
  - destruct (renderer_step s) as [s'|] eqn:E; [eapply Hw; eauto | exact Hs].
Qed.

(** what was already sent does not influence the rest of the computation *)
Definition addsent (x : list record) (st : pstate) : pstate :=
  mkP (p_ops st) (p_sent st ++ x) (p_err st) (p_bad st).

Lemma feed_addsent x st r : feed (addsent x st) r = addsent x (feed st r).
Proof.
  destruct st as [ops sent e b]. unfold addsent, feed; cbn [p_ops p_sent p_err p_bad].
  destruct (proc_preagg ops r) as [[ops' res] k].
  destruct res as [[r'|]| | |]; cbn [p_ops p_sent p_err p_bad]; reflexivity.
Qed.

Lemma feed_all_addsent x l : forall st,
  fold_left feed l (addsent x st) = addsent x (fold_left feed l st).
Proof.
  induction l as [|y l IH]; intros st; cbn [fold_left]; [reflexivity|].
  now rewrite feed_addsent, IH.
Qed.

Lemma drain_loop_addsent x fuel : forall st,
  drain_loop fuel (addsent x st) = addsent x (drain_loop fuel st).
Proof.
  induction fuel as [|f IH]; intros st; [reflexivity|].
  destruct st as [ops sent e b]. destruct ops as [|o rest]; [reflexivity|].
  change (addsent x (mkP (o :: rest) sent e b)) with (mkP (o :: rest) (sent ++ x) e b).
  cbn [drain_loop p_ops p_sent p_err p_bad].
  change (mkP rest (sent ++ x) e b) with (addsent x (mkP rest sent e b)).
  rewrite feed_all_addsent. apply IH.
Qed.

Lemma sent_general k recs ops sent e b :
  p_sent (drain_loop k (fold_left feed recs (mkP ops sent e b))) =
  p_sent (drain_loop k (fold_left feed recs (mkP ops [] 0 no_bad))) ++ sent.
Proof.
  assert (E : mkP ops sent e b = addsent sent (shift e b (mkP ops [] 0 no_bad))).
  { unfold addsent, shift; cbn [p_ops p_sent p_err p_bad app]. now rewrite bad_or_no_l. }
  rewrite E, feed_all_addsent, drain_loop_addsent, feed_all_shift, drain_loop_shift.
  reflexivity.
Qed.

(** the rows still to come from operators [ops] and pending records [recs] *)
Definition tl_of (ops : list opstate) (recs : list record) : list record :=
  rev (p_sent (drain_loop (S (length ops)) (fold_left feed recs (mkP ops [] 0 no_bad)))).

Definition res_rows (res : res (option record)) : list record :=
  match res with Ok (Some r') => [r'] | _ => [] end.

Lemma tl_step ops r recs ops' res n :
  proc_preagg ops r = (ops', res, n) ->
  tl_of ops (r :: recs) = res_rows res ++ tl_of ops' recs.
Proof.
  intros H. unfold tl_of.
  pose proof (proc_preagg_length ops r) as HL. rewrite H in HL. cbn [fst] in HL.
  rewrite <- HL. cbn [fold_left].
  assert (E : feed (mkP ops [] 0 no_bad) r =
              mkP ops' (res_rows res) n
                  (match res with Panic => bad_or no_bad (mkBad true false)
                             | Unm => bad_or no_bad (mkBad false true)
                             | _ => no_bad end)).
  { unfold feed; cbn [p_ops p_sent p_err p_bad]. rewrite H.
    destruct res as [[r'|]| | |]; reflexivity. }
  rewrite E, sent_general, rev_app_distr. f_equal.
  destruct res as [[r'|]| | |]; reflexivity.
Qed.

Lemma tl_nil_nil : tl_of [] [] = [].
Proof. reflexivity. Qed.

Lemma tl_drain o rest : tl_of (o :: rest) [] = tl_of rest (op_drain o).
Proof. reflexivity. Qed.

Lemma reader_rest_tl s :
  reader_rest s =
  match y_phase s with
  | PRead => tl_of (y_ops s) (map (fun l => mkRec [] l) (y_lines s))
  | PDrainOp => tl_of (y_ops s) []
  | PDrainRows pending => tl_of (y_ops s) pending
  | PDone => []
  end.
Proof. unfold reader_rest, tl_of, run_preagg. destruct (y_phase s); reflexivity. Qed.

(** ** the safety invariant *)
Definition SInv (R : list record) (s : sys) : Prop :=
  y_budget s = None /\ (y_rx s = true \/ y_phase s = PDone) /\
  y_out s ++ y_chan s ++ reader_rest s = R.

Lemma SInv_reader R s s' : SInv R s -> reader_step s = Some s' -> SInv R s'.
Proof.
  unfold SInv. rewrite !reader_rest_tl.
  destruct s as [lines ops ph ch rx out bud errs rd].
  cbn [y_lines y_ops y_phase y_chan y_rx y_out y_budget y_errs y_rdone].
  intros (Hb & Hrx & HR) Hstep.
  unfold reader_step in Hstep.
  cbn [y_lines y_ops y_phase y_chan y_rx y_out y_budget y_errs y_rdone] in Hstep.
  destruct ph as [| |pending|].
  - (* PRead *)
    destruct lines as [|l rest].
    + inversion Hstep; subst s'; clear Hstep.
      cbn [y_lines y_ops y_phase y_chan y_rx y_out y_budget y_errs y_rdone map] in *.
      repeat split; try assumption.
      destruct Hrx as [Hrx|Hrx]; [now left | discriminate].
    + destruct Hrx as [Hrx|Hrx]; [|discriminate]. subst rx. cbn [negb] in Hstep.
      destruct (proc_preagg ops (mkRec [] l)) as [[ops' res] n] eqn:E.
      cbn [map] in HR. rewrite (tl_step _ _ _ _ _ _ E) in HR.
      destruct res as [[r'|]| | |]; cbn [res_rows app] in HR;
        try (inversion Hstep; subst s'; clear Hstep;
             cbn [y_lines y_ops y_phase y_chan y_rx y_out y_budget y_errs y_rdone];
             repeat split; [assumption | now left | assumption]).
      unfold try_send in Hstep.
      cbn [y_lines y_ops y_phase y_chan y_rx y_out y_budget y_errs y_rdone] in Hstep.
      destruct (Nat.ltb (length ch) cap); [|discriminate].
      inversion Hstep; subst s'; clear Hstep.
      cbn [y_lines y_ops y_phase y_chan y_rx y_out y_budget y_errs y_rdone].
      repeat split; [assumption | now left |].
      rewrite <- HR, <- !app_assoc. reflexivity.
  - (* PDrainOp *)
    destruct ops as [|o rest]; inversion Hstep; subst s'; clear Hstep;
      cbn [y_lines y_ops y_phase y_chan y_rx y_out y_budget y_errs y_rdone] in *.
    + repeat split; [assumption | now right | ]. now rewrite tl_nil_nil in HR.
    + repeat split; [assumption | | ].
      * destruct Hrx as [Hrx|Hrx]; [now left | discriminate].
      * now rewrite tl_drain in HR.
  - (* PDrainRows *)
    destruct pending as [|r0 pending].
    + inversion Hstep; subst s'; clear Hstep.
      cbn [y_lines y_ops y_phase y_chan y_rx y_out y_budget y_errs y_rdone] in *.
      repeat split; try assumption.
      destruct Hrx as [Hrx|Hrx]; [now left | discriminate].
    + destruct (proc_preagg ops r0) as [[ops' res] n] eqn:E.
      rewrite (tl_step _ _ _ _ _ _ E) in HR.
      destruct Hrx as [Hrx|Hrx]; [|discriminate]. subst rx.
      destruct res as [[r'|]| | |]; cbn [res_rows app] in HR;
        try (inversion Hstep; subst s'; clear Hstep;
             cbn [y_lines y_ops y_phase y_chan y_rx y_out y_budget y_errs y_rdone];
             repeat split; [assumption | now left | assumption]).
      unfold try_send in Hstep.
      cbn [y_lines y_ops y_phase y_chan y_rx y_out y_budget y_errs y_rdone] in Hstep.
      destruct (Nat.ltb (length ch) cap); [|discriminate].
      inversion Hstep; subst s'; clear Hstep.
      cbn [y_lines y_ops y_phase y_chan y_rx y_out y_budget y_errs y_rdone].
      repeat split; [assumption | now left |].
      rewrite <- HR, <- !app_assoc. reflexivity.
  - discriminate.
Qed.

Lemma SInv_renderer R s s' : SInv R s -> renderer_step s = Some s' -> SInv R s'.
Proof.
  unfold SInv. rewrite !reader_rest_tl.
  destruct s as [lines ops ph ch rx out bud errs rd].
  cbn [y_lines y_ops y_phase y_chan y_rx y_out y_budget y_errs y_rdone].
  intros (Hb & Hrx & HR) Hstep. subst bud.
  unfold renderer_step in Hstep.
  cbn [y_lines y_ops y_phase y_chan y_rx y_out y_budget y_errs y_rdone] in Hstep.
  destruct rd; [discriminate|].
  destruct ch as [|r c].
  - destruct ph; try discriminate.
    inversion Hstep; subst s'; clear Hstep.
    cbn [y_lines y_ops y_phase y_chan y_rx y_out y_budget y_errs y_rdone].
    repeat split; [now right | assumption].
  - inversion Hstep; subst s'; clear Hstep.
    cbn [y_lines y_ops y_phase y_chan y_rx y_out y_budget y_errs y_rdone].
    repeat split; [now left |].
    rewrite <- HR, <- !app_assoc. reflexivity.
Qed.

Lemma SInv_init f ops lines : SInv (reference f ops lines) (init f ops lines None).
Proof.
  unfold SInv, init, reference, reader_rest.
  cbn [y_lines y_ops y_phase y_chan y_rx y_out y_budget y_errs y_rdone app].
  repeat split. now left.
Qed.

Lemma SInv_run f ops lines sched :
  SInv (reference f ops lines) (run_schedule sched (init f ops lines None)).
Proof.
  apply run_schedule_inv; [apply SInv_reader | apply SInv_renderer | apply SInv_init].
Qed.

(** ** once the renderer has returned, the receiver is gone and the queue is empty *)
Definition JInv (s : sys) : Prop := y_rdone s = true -> y_rx s = false /\ y_chan s = [].

Lemma JInv_reader s s' : JInv s -> reader_step s = Some s' -> JInv s'.
Proof.
  unfold JInv.
  destruct s as [lines ops ph ch rx out bud errs rd].
  cbn [y_lines y_ops y_phase y_chan y_rx y_out y_budget y_errs y_rdone].
  intros HJ Hstep. unfold reader_step, try_send in Hstep.
  cbn [y_lines y_ops y_phase y_chan y_rx y_out y_budget y_errs y_rdone] in Hstep.
  destruct ph as [| |pending|].
  - destruct lines as [|l rest].
    + inversion Hstep; subst s'; exact HJ.
    + destruct rx; cbn [negb] in Hstep; [|inversion Hstep; subst s'; exact HJ].
      destruct (proc_preagg ops (mkRec [] l)) as [[ops' res] n].
      destruct res as [[r'|]| | |]; try (inversion Hstep; subst s'; exact HJ).
      destruct (Nat.ltb (length ch) cap); [|discriminate].
      inversion Hstep; subst s'.
      cbn [y_lines y_ops y_phase y_chan y_rx y_out y_budget y_errs y_rdone].
      intros Hd. destruct (HJ Hd) as [Hx _]. discriminate.
  - destruct ops as [|o rest]; inversion Hstep; subst s'; exact HJ.
  - destruct pending as [|r0 pending].
    + inversion Hstep; subst s'; exact HJ.
    + destruct (proc_preagg ops r0) as [[ops' res] n].
      destruct res as [[r'|]| | |]; try (inversion Hstep; subst s'; exact HJ).
      destruct rx.
      * destruct (Nat.ltb (length ch) cap); [|discriminate].
        inversion Hstep; subst s'.
        cbn [y_lines y_ops y_phase y_chan y_rx y_out y_budget y_errs y_rdone].
        intros Hd. destruct (HJ Hd) as [Hx _]. discriminate.
      * inversion Hstep; subst s'; exact HJ.
  - discriminate.
Qed.

Lemma JInv_renderer s s' : JInv s -> renderer_step s = Some s' -> JInv s'.
Proof.
  unfold JInv.
  destruct s as [lines ops ph ch rx out bud errs rd].
  cbn [y_lines y_ops y_phase y_chan y_rx y_out y_budget y_errs y_rdone].
  intros HJ Hstep. unfold renderer_step in Hstep.
  cbn [y_lines y_ops y_phase y_chan y_rx y_out y_budget y_errs y_rdone] in Hstep.
  destruct rd; [discriminate|].
  destruct ch as [|r c].
  - destruct ph; try discriminate. inversion Hstep; subst s'.
    cbn [y_lines y_ops y_phase y_chan y_rx y_out y_budget y_errs y_rdone]. now split.
  - destruct bud as [[|k]|]; inversion Hstep; subst s';
      cbn [y_lines y_ops y_phase y_chan y_rx y_out y_budget y_errs y_rdone];
      intros Hd; try discriminate; now split.
Qed.

Lemma JInv_run f ops lines budget sched :
  JInv (run_schedule sched (init f ops lines budget)).
Proof.
  apply run_schedule_inv; [apply JInv_reader | apply JInv_renderer |].
  unfold JInv, init; cbn [y_rdone]. discriminate.
Qed.

(** *** no loss, duplication or reordering: in every reachable state (any interleaving),
    as long as the output has not failed, what is written, then what is queued, then what the
    reader will still send, is exactly the reference output *)
Theorem stream_safety : forall f ops lines sched,
  let s := run_schedule sched (init f ops lines None) in
  y_out s ++ y_chan s ++ reader_rest s = reference f ops lines.
Proof.
  intros f ops lines sched s. subst s.
  destruct (SInv_run f ops lines sched) as (_ & _ & H). exact H.
Qed.

(** written rows are always a prefix of the reference output *)
Theorem written_is_prefix : forall f ops lines sched,
  let s := run_schedule sched (init f ops lines None) in
  exists rest, reference f ops lines = y_out s ++ rest.
Proof.
  intros f ops lines sched s.
  exists (y_chan s ++ reader_rest s). symmetry. apply stream_safety.
Qed.

(** the queue never exceeds the channel capacity *)
Lemma QInv_reader s s' : length (y_chan s) <= cap -> reader_step s = Some s' -> length (y_chan s') <= cap.
Proof.
  destruct s as [lines ops ph ch rx out bud errs rd].
  cbn [y_lines y_ops y_phase y_chan y_rx y_out y_budget y_errs y_rdone].
  intros HQ Hstep. unfold reader_step, try_send in Hstep.
  cbn [y_lines y_ops y_phase y_chan y_rx y_out y_budget y_errs y_rdone] in Hstep.
  destruct ph as [| |pending|].
  - destruct lines as [|l rest].
    + inversion Hstep; subst s'; exact HQ.
    + destruct rx; cbn [negb] in Hstep; [|inversion Hstep; subst s'; exact HQ].
      destruct (proc_preagg ops (mkRec [] l)) as [[ops' res] n].
      destruct res as [[r'|]| | |]; try (inversion Hstep; subst s'; exact HQ).
      destruct (Nat.ltb_spec (length ch) cap) as [Hlt|Hge]; [|discriminate].
      inversion Hstep; subst s'.
      cbn [y_lines y_ops y_phase y_chan y_rx y_out y_budget y_errs y_rdone].
      rewrite app_length; cbn [length]. lia.
  - destruct ops as [|o rest]; inversion Hstep; subst s'; exact HQ.
  - destruct pending as [|r0 pending].
    + inversion Hstep; subst s'; exact HQ.
    + destruct (proc_preagg ops r0) as [[ops' res] n].
      destruct res as [[r'|]| | |]; try (inversion Hstep; subst s'; exact HQ).
      destruct rx.
      * destruct (Nat.ltb_spec (length ch) cap) as [Hlt|Hge]; [|discriminate].
        inversion Hstep; subst s'.
        cbn [y_lines y_ops y_phase y_chan y_rx y_out y_budget y_errs y_rdone].
        rewrite app_length; cbn [length]. lia.
      * inversion Hstep; subst s'; exact HQ.
  - discriminate.
Qed.

Lemma QInv_renderer s s' : length (y_chan s) <= cap -> renderer_step s = Some s' -> length (y_chan s') <= cap.
Proof.
  destruct s as [lines ops ph ch rx out bud errs rd].
  cbn [y_lines y_ops y_phase y_chan y_rx y_out y_budget y_errs y_rdone].
  intros HQ Hstep. unfold renderer_step in Hstep.
  cbn [y_lines y_ops y_phase y_chan y_rx y_out y_budget y_errs y_rdone] in Hstep.
  destruct rd; [discriminate|].
  destruct ch as [|r c].
  - destruct ph; try discriminate. inversion Hstep; subst s'. exact HQ.
  - cbn [length] in HQ.
    destruct bud as [[|k]|]; inversion Hstep; subst s';
      cbn [y_lines y_ops y_phase y_chan y_rx y_out y_budget y_errs y_rdone length]; lia.
Qed.

Theorem queue_bounded : forall f ops lines budget sched,
  length (y_chan (run_schedule sched (init f ops lines budget))) <= cap.
Proof.
  intros f ops lines budget sched.
  apply (run_schedule_inv (fun s => length (y_chan s) <= cap));
    [apply QInv_reader | apply QInv_renderer |].
  unfold init; cbn [y_chan length]. lia.
Qed.

(** at the end everything has been written exactly once, in order *)
Theorem stream_complete : forall f ops lines sched,
  let s := run_schedule sched (init f ops lines None) in
  terminal s = true -> y_out s = reference f ops lines.
Proof.
  intros f ops lines sched s Ht.
  pose proof (stream_safety f ops lines sched) as HS. fold s in HS.
  pose proof (JInv_run f ops lines None sched) as HJ. fold s in HJ.
  unfold terminal in Ht. unfold reader_rest in HS.
  destruct (y_phase s); try discriminate.
  destruct (HJ Ht) as [_ Hc]. rewrite Hc in HS. cbn [app] in HS.
  now rewrite app_nil_r in HS.
Qed.

(** no deadlock: a state that is not terminal always has an enabled action *)
Theorem no_deadlock : forall f ops lines budget sched,
  let s := run_schedule sched (init f ops lines budget) in
  terminal s = false -> (exists s', reader_step s = Some s') \/ (exists s', renderer_step s = Some s').
Proof.
  intros f ops lines budget sched s Ht.
  pose proof (JInv_run f ops lines budget sched) as HJ. fold s in HJ.
  clearbody s. unfold JInv in HJ.
  destruct s as [lines' ops' ph ch rx out bud errs rd].
  unfold terminal in Ht.
  cbn [y_lines y_ops y_phase y_chan y_rx y_out y_budget y_errs y_rdone] in *.
  assert (Hrend : rx = true -> cap <= length ch ->
            exists s', renderer_step (mkSys lines' ops' ph ch rx out bud errs rd) = Some s').
  { intros Hx Hfull. unfold renderer_step.
    cbn [y_lines y_ops y_phase y_chan y_rx y_out y_budget y_errs y_rdone].
    destruct rd. { destruct (HJ eq_refl) as [Hx' _]. congruence. }
    destruct ch as [|r c]. { cbn [length] in Hfull. pose proof cap_pos. lia. }
    destruct bud as [[|k]|]; eexists; reflexivity. }
  destruct ph as [| |pending|].
  - unfold reader_step, try_send.
    cbn [y_lines y_ops y_phase y_chan y_rx y_out y_budget y_errs y_rdone].
    destruct lines' as [|l rest]; [left; eexists; reflexivity|].
    destruct rx eqn:Erx; cbn [negb]; [|left; eexists; reflexivity].
    destruct (proc_preagg ops' (mkRec [] l)) as [[ops'' res] n].
    destruct res as [[r'|]| | |]; try (left; eexists; reflexivity).
    destruct (Nat.ltb_spec (length ch) cap) as [Hlt|Hge]; [left; eexists; reflexivity|].
    right. apply Hrend; [reflexivity | exact Hge].
  - left. unfold reader_step.
    cbn [y_lines y_ops y_phase y_chan y_rx y_out y_budget y_errs y_rdone].
    destruct ops'; eexists; reflexivity.
  - unfold reader_step, try_send.
    cbn [y_lines y_ops y_phase y_chan y_rx y_out y_budget y_errs y_rdone].
    destruct pending as [|r0 pending]; [left; eexists; reflexivity|].
    destruct (proc_preagg ops' r0) as [[ops'' res] n].
    destruct res as [[r'|]| | |]; try (left; eexists; reflexivity).
    destruct rx eqn:Erx; [|left; eexists; reflexivity].
    destruct (Nat.ltb_spec (length ch) cap) as [Hlt|Hge]; [left; eexists; reflexivity|].
    right. apply Hrend; [reflexivity | exact Hge].
  - right. subst rd. unfold renderer_step.
    cbn [y_lines y_ops y_phase y_chan y_rx y_out y_budget y_errs y_rdone].
    destruct ch as [|r c]; [eexists; reflexivity|].
    destruct bud as [[|k]|]; eexists; reflexivity.
Qed.

(** promptness: a queued row can be written at once, without any further input or EOF *)
Theorem queued_row_writable : forall f ops lines sched,
  let s := run_schedule sched (init f ops lines None) in
  y_chan s <> [] -> exists s', renderer_step s = Some s' /\ length (y_out s') = S (length (y_out s)).
Proof.
  intros f ops lines sched s Hc.
  pose proof (JInv_run f ops lines None sched) as HJ. fold s in HJ.
  destruct (SInv_run f ops lines sched) as (Hb & _ & _). fold s in Hb.
  clearbody s. unfold JInv in HJ.
  destruct s as [lines' ops' ph ch rx out bud errs rd].
  cbn [y_lines y_ops y_phase y_chan y_rx y_out y_budget y_errs y_rdone] in *.
  subst bud. unfold renderer_step.
  cbn [y_lines y_ops y_phase y_chan y_rx y_out y_budget y_errs y_rdone].
  destruct rd. { destruct (HJ eq_refl) as [_ Hc']. contradiction. }
  destruct ch as [|r c]; [contradiction|].
  eexists; split; [reflexivity|].
  cbn [y_out]. rewrite app_length; cbn [length]. lia.
Qed.

(** ... and a complete line that is available is processed unless the queue is full *)
Theorem reader_enabled_unless_full : forall f ops lines budget sched,
  let s := run_schedule sched (init f ops lines budget) in
  y_phase s <> PDone -> length (y_chan s) < cap -> exists s', reader_step s = Some s'.
Proof.
  intros f ops lines budget sched s Hp Hlt. clearbody s.
  destruct s as [lines' ops' ph ch rx out bud errs rd].
  cbn [y_lines y_ops y_phase y_chan y_rx y_out y_budget y_errs y_rdone] in *.
  apply Nat.ltb_lt in Hlt.
  unfold reader_step, try_send.
  cbn [y_lines y_ops y_phase y_chan y_rx y_out y_budget y_errs y_rdone].
  rewrite Hlt.
  destruct ph as [| |pending|].
  - destruct lines' as [|l rest]; [eexists; reflexivity|].
    destruct rx; cbn [negb]; [|eexists; reflexivity].
    destruct (proc_preagg ops' (mkRec [] l)) as [[ops'' res] n].
    destruct res as [[r'|]| | |]; eexists; reflexivity.
  - destruct ops'; eexists; reflexivity.
  - destruct pending as [|r0 pending]; [eexists; reflexivity|].
    destruct (proc_preagg ops' r0) as [[ops'' res] n].
    destruct res as [[r'|]| | |]; try (eexists; reflexivity).
    destruct rx; eexists; reflexivity.
  - congruence.
Qed.

(** *** faults (C17): once a write has failed nothing more is ever written, exactly one
    error line comes from the renderer, and the reader stops sending *)

(** the failed state: receiver dropped and renderer returned.  In the system these always
    come together ([rx_false_rdone] below). *)
Definition FInv (o : list record) (s : sys) : Prop :=
  y_rx s = false /\ y_rdone s = true /\ y_out s = o.

Lemma FInv_reader o s s' : FInv o s -> reader_step s = Some s' -> FInv o s'.
Proof.
  unfold FInv.
  destruct s as [lines ops ph ch rx out bud errs rd].
  cbn [y_lines y_ops y_phase y_chan y_rx y_out y_budget y_errs y_rdone].
  intros (Hx & Hd & Ho) Hstep. subst rx rd.
  unfold reader_step, try_send in Hstep.
  cbn [y_lines y_ops y_phase y_chan y_rx y_out y_budget y_errs y_rdone] in Hstep.
  destruct ph as [| |pending|].
  - destruct lines as [|l rest].
    + inversion Hstep; subst s'; now repeat split.
    + cbn [negb] in Hstep. inversion Hstep; subst s'; now repeat split.
  - destruct ops as [|o' rest]; inversion Hstep; subst s'; now repeat split.
  - destruct pending as [|r0 pending].
    + inversion Hstep; subst s'; now repeat split.
    + destruct (proc_preagg ops r0) as [[ops' res] n].
      destruct res as [[r'|]| | |]; inversion Hstep; subst s'; now repeat split.
  - discriminate.
Qed.

Lemma FInv_renderer o s s' : FInv o s -> renderer_step s = Some s' -> FInv o s'.
Proof.
  unfold FInv. intros (Hx & Hd & Ho) Hstep.
  unfold renderer_step in Hstep. rewrite Hd in Hstep. discriminate.
Qed.

Lemma FInv_run o sched s : FInv o s -> FInv o (run_schedule sched s).
Proof.
  apply run_schedule_inv; [apply FInv_reader | apply FInv_renderer].
Qed.

(** in every reachable state a dropped receiver means the renderer has returned *)
Definition XInv (s : sys) : Prop := y_rx s = false -> y_rdone s = true.

Lemma XInv_reader s s' : XInv s -> reader_step s = Some s' -> XInv s'.
Proof.
  unfold XInv.
  destruct s as [lines ops ph ch rx out bud errs rd].
  cbn [y_lines y_ops y_phase y_chan y_rx y_out y_budget y_errs y_rdone].
  intros HX Hstep. unfold reader_step, try_send in Hstep.
  cbn [y_lines y_ops y_phase y_chan y_rx y_out y_budget y_errs y_rdone] in Hstep.
  destruct ph as [| |pending|].
  - destruct lines as [|l rest].
    + inversion Hstep; subst s'; exact HX.
    + destruct rx; cbn [negb] in Hstep; [|inversion Hstep; subst s'; exact HX].
      destruct (proc_preagg ops (mkRec [] l)) as [[ops' res] n].
      destruct res as [[r'|]| | |]; try (inversion Hstep; subst s'; exact HX).
      destruct (Nat.ltb (length ch) cap); [|discriminate].
      inversion Hstep; subst s'.
      cbn [y_lines y_ops y_phase y_chan y_rx y_out y_budget y_errs y_rdone]. discriminate.
  - destruct ops as [|o rest]; inversion Hstep; subst s'; exact HX.
  - destruct pending as [|r0 pending].
    + inversion Hstep; subst s'; exact HX.
    + destruct (proc_preagg ops r0) as [[ops' res] n].
      destruct res as [[r'|]| | |]; try (inversion Hstep; subst s'; exact HX).
      destruct rx.
      * destruct (Nat.ltb (length ch) cap); [|discriminate].
        inversion Hstep; subst s'.
        cbn [y_lines y_ops y_phase y_chan y_rx y_out y_budget y_errs y_rdone]. discriminate.
      * inversion Hstep; subst s'; exact HX.
  - discriminate.
Qed.

Lemma XInv_renderer s s' : XInv s -> renderer_step s = Some s' -> XInv s'.
Proof.
  unfold XInv.
  destruct s as [lines ops ph ch rx out bud errs rd].
  cbn [y_lines y_ops y_phase y_chan y_rx y_out y_budget y_errs y_rdone].
  intros HX Hstep. unfold renderer_step in Hstep.
  cbn [y_lines y_ops y_phase y_chan y_rx y_out y_budget y_errs y_rdone] in Hstep.
  destruct rd; [discriminate|].
  destruct ch as [|r c].
  - destruct ph; try discriminate. inversion Hstep; subst s'. reflexivity.
  - destruct bud as [[|k]|]; inversion Hstep; subst s';
      cbn [y_lines y_ops y_phase y_chan y_rx y_out y_budget y_errs y_rdone];
      intros Hd; try discriminate; reflexivity.
Qed.

Lemma rx_false_rdone : forall f ops lines budget sched,
  let s := run_schedule sched (init f ops lines budget) in
  y_rx s = false -> y_rdone s = true.
Proof.
  intros f ops lines budget sched.
  apply (run_schedule_inv XInv); [apply XInv_reader | apply XInv_renderer |].
  unfold XInv, init; cbn [y_rx]. discriminate.
Qed.

(* STATEMENT FALSE: after_failure_no_more_output
     forall s sched, y_rx s = false -> y_out (run_schedule sched s) = y_out s
   quantifies over ARBITRARY states, including unreachable ones where the receiver is
   marked dropped but the renderer has not returned.  Counterexample (Eval vm_compute):
     s = mkSys [] [] PDone [mkRec [] []] false [] None 0 false,  sched = [ARenderer]
   gives y_out s = [] but y_out (run_schedule sched s) = [mkRec [] []].
   What must change: add the hypothesis y_rdone s = true (which holds in every reachable
   state with y_rx s = false, see rx_false_rdone), or restrict s to reachable states. *)
Theorem after_failure_no_more_output_weak : forall s sched,
  y_rx s = false -> y_rdone s = true -> y_out (run_schedule sched s) = y_out s.
Proof.
  intros s sched Hx Hd.
  destruct (FInv_run (y_out s) sched s) as (_ & _ & H); [now repeat split | exact H].
Qed.

(** the same for the states of the system: any reachable state *)
Theorem after_failure_no_more_output_reachable_weak : forall f ops lines budget sched1 sched2,
  let s := run_schedule sched1 (init f ops lines budget) in
  y_rx s = false -> y_out (run_schedule sched2 s) = y_out s.
Proof.
  intros f ops lines budget sched1 sched2 s Hx.
  apply after_failure_no_more_output_weak; [exact Hx|].
  apply rx_false_rdone; exact Hx.
Qed.

(* STATEMENT FALSE: failure_is_sticky
     forall s sched, y_rx s = false -> y_rx (run_schedule sched s) = false
   Same counterexample: s = mkSys [] [] PDone [mkRec [] []] false [] None 0 false,
   sched = [ARenderer] gives y_rx (run_schedule sched s) = true (the renderer step writes
   the queued row and re-asserts the receiver).  What must change: add y_rdone s = true,
   or restrict s to reachable states. *)
Theorem failure_is_sticky_weak : forall s sched,
  y_rx s = false -> y_rdone s = true -> y_rx (run_schedule sched s) = false.
Proof.
  intros s sched Hx Hd.
  destruct (FInv_run (y_out s) sched s) as (H & _ & _); [now repeat split | exact H].
Qed.

Theorem failure_is_sticky_reachable_weak : forall f ops lines budget sched1 sched2,
  let s := run_schedule sched1 (init f ops lines budget) in
  y_rx s = false -> y_rx (run_schedule sched2 s) = false.
Proof.
  intros f ops lines budget sched1 sched2 s Hx.
  apply failure_is_sticky_weak; [exact Hx|].
  apply rx_false_rdone; exact Hx.
Qed.

(** the renderer reports at most one error: it returns right after the failed write *)
Lemma rdone_reader s s' : y_rdone s = true -> reader_step s = Some s' -> y_rdone s' = true.
Proof.
  destruct s as [lines ops ph ch rx out bud errs rd].
  cbn [y_lines y_ops y_phase y_chan y_rx y_out y_budget y_errs y_rdone].
  intros Hd Hstep. subst rd. unfold reader_step, try_send in Hstep.
  cbn [y_lines y_ops y_phase y_chan y_rx y_out y_budget y_errs y_rdone] in Hstep.
  destruct ph as [| |pending|].
  - destruct lines as [|l rest].
    + inversion Hstep; subst s'; reflexivity.
    + destruct rx; cbn [negb] in Hstep; [|inversion Hstep; subst s'; reflexivity].
      destruct (proc_preagg ops (mkRec [] l)) as [[ops' res] n].
      destruct res as [[r'|]| | |]; try (inversion Hstep; subst s'; reflexivity).
      destruct (Nat.ltb (length ch) cap); [|discriminate].
      inversion Hstep; subst s'; reflexivity.
  - destruct ops as [|o rest]; inversion Hstep; subst s'; reflexivity.
  - destruct pending as [|r0 pending].
    + inversion Hstep; subst s'; reflexivity.
    + destruct (proc_preagg ops r0) as [[ops' res] n].
      destruct res as [[r'|]| | |]; try (inversion Hstep; subst s'; reflexivity).
      destruct rx.
      * destruct (Nat.ltb (length ch) cap); [|discriminate].
        inversion Hstep; subst s'; reflexivity.
      * inversion Hstep; subst s'; reflexivity.
  - discriminate.
Qed.

Theorem renderer_done_is_final : forall s sched, y_rdone s = true -> renderer_step (run_schedule sched s) = None.
Proof.
  intros s sched Hd.
  assert (H : y_rdone (run_schedule sched s) = true).
  { apply (run_schedule_inv (fun s => y_rdone s = true)); [apply rdone_reader | | exact Hd].
    intros s1 s2 H1 H2. unfold renderer_step in H2. rewrite H1 in H2. discriminate. }
  unfold renderer_step. now rewrite H.
Qed.

Definition BInv (k : nat) (s : sys) : Prop :=
  exists j, y_budget s = Some j /\ length (y_out s) + j <= k.

Lemma BInv_reader k s s' : BInv k s -> reader_step s = Some s' -> BInv k s'.
Proof.
  unfold BInv.
  destruct s as [lines ops ph ch rx out bud errs rd].
  cbn [y_lines y_ops y_phase y_chan y_rx y_out y_budget y_errs y_rdone].
  intros HB Hstep. unfold reader_step, try_send in Hstep.
  cbn [y_lines y_ops y_phase y_chan y_rx y_out y_budget y_errs y_rdone] in Hstep.
  destruct ph as [| |pending|].
  - destruct lines as [|l rest].
    + inversion Hstep; subst s'; exact HB.
    + destruct rx; cbn [negb] in Hstep; [|inversion Hstep; subst s'; exact HB].
      destruct (proc_preagg ops (mkRec [] l)) as [[ops' res] n].
      destruct res as [[r'|]| | |]; try (inversion Hstep; subst s'; exact HB).
      destruct (Nat.ltb (length ch) cap); [|discriminate].
      inversion Hstep; subst s'; exact HB.
  - destruct ops as [|o rest]; inversion Hstep; subst s'; exact HB.
  - destruct pending as [|r0 pending].
    + inversion Hstep; subst s'; exact HB.
    + destruct (proc_preagg ops r0) as [[ops' res] n].
      destruct res as [[r'|]| | |]; try (inversion Hstep; subst s'; exact HB).
      destruct rx.
      * destruct (Nat.ltb (length ch) cap); [|discriminate].
        inversion Hstep; subst s'; exact HB.
      * inversion Hstep; subst s'; exact HB.
  - discriminate.
Qed.

Lemma BInv_renderer k s s' : BInv k s -> renderer_step s = Some s' -> BInv k s'.
Proof.
  unfold BInv.
  destruct s as [lines ops ph ch rx out bud errs rd].
  cbn [y_lines y_ops y_phase y_chan y_rx y_out y_budget y_errs y_rdone].
  intros (j & Hj & Hle) Hstep. subst bud. unfold renderer_step in Hstep.
  cbn [y_lines y_ops y_phase y_chan y_rx y_out y_budget y_errs y_rdone] in Hstep.
  destruct rd; [discriminate|].
  destruct ch as [|r c].
  - destruct ph; try discriminate. inversion Hstep; subst s'.
    cbn [y_lines y_ops y_phase y_chan y_rx y_out y_budget y_errs y_rdone].
    exists j; split; [reflexivity | exact Hle].
  - destruct j as [|j]; inversion Hstep; subst s';
      cbn [y_lines y_ops y_phase y_chan y_rx y_out y_budget y_errs y_rdone].
    + exists 0; split; [reflexivity | exact Hle].
    + exists j; split; [reflexivity|]. rewrite app_length; cbn [length]. lia.
Qed.

Theorem output_respects_budget : forall f ops lines k sched,
  length (y_out (run_schedule sched (init f ops lines (Some k)))) <= k.
Proof.
  intros f ops lines k sched.
  assert (H : BInv k (run_schedule sched (init f ops lines (Some k)))).
  { apply run_schedule_inv; [apply BInv_reader | apply BInv_renderer |].
    exists k; unfold init; cbn [y_budget y_out length]. split; [reflexivity | lia]. }
  destruct H as (j & _ & Hle). lia.
Qed.

(** after the receiver is gone, the first row that the reader would send ends the read loop *)
Theorem reader_stops_on_failed_send : forall s l rest ops' r n,
  y_rx s = false -> y_phase s = PRead -> y_lines s = l :: rest ->
  proc_preagg (y_ops s) (mkRec [] l) = (ops', Ok (Some r), n) ->
  exists s', reader_step s = Some s' /\ y_phase s' = PDrainOp /\ y_chan s' = y_chan s /\ y_out s' = y_out s.
Proof.
  intros s l rest ops' r n Hx Hp Hl Hproc.
  unfold reader_step. rewrite Hp, Hl, Hx. cbn [negb].
  eexists; split; [reflexivity|].
  cbn [y_phase y_chan y_out]. repeat split.
Qed.

(** *** chunking (C15): the lines the reader sees depend only on the concatenation of the chunks *)
Lemma split_lines_tail bytes : forall cur,
  split_lines bytes cur =
  (fst (split_lines bytes cur), snd (split_lines bytes cur)).
Proof. intros cur. now destruct (split_lines bytes cur). Qed.

Lemma split_lines_app a : forall b cur,
  split_lines (a ++ b) cur =
  let '(ls1, t1) := split_lines a cur in
  let '(ls2, t2) := split_lines b (rev t1) in
  (ls1 ++ ls2, t2).
Proof.
  induction a as [|x a IH]; intros b cur.
  - cbn [app split_lines]. rewrite rev_involutive.
    destruct (split_lines b cur) as [ls2 t2]. reflexivity.
  - cbn [app split_lines]. destruct (x =? 10)%N.
    + rewrite IH. destruct (split_lines a []) as [ls1 t1].
      destruct (split_lines b (rev t1)) as [ls2 t2]. reflexivity.
    + apply IH.
Qed.

Lemma feed_chunks_concat chunks : forall done partial,
  fold_left feed_chunk chunks (done, partial) =
  let '(ls, t) := split_lines (concat chunks) (rev partial) in (done ++ ls, t).
Proof.
  induction chunks as [|c chunks IH]; intros done partial.
  - cbn [fold_left concat split_lines]. now rewrite rev_involutive, app_nil_r.
  - cbn [fold_left concat]. unfold feed_chunk at 2.
    rewrite split_lines_app.
    destruct (split_lines c (rev partial)) as [ls1 t1].
    rewrite IH.
    destruct (split_lines (concat chunks) (rev t1)) as [ls2 t2].
    now rewrite app_assoc.
Qed.

Theorem chunking_irrelevant : forall chunks, lines_of_chunks chunks = lines_of (concat chunks).
Proof.
  intros chunks. unfold lines_of_chunks, lines_of.
  rewrite feed_chunks_concat. cbn [rev].
  destruct (split_lines (concat chunks) []) as [ls t]. reflexivity.
Qed.

(** the lines are exactly the input, cut after every newline: nothing lost, a final line without newline included *)
Lemma split_lines_concat bytes : forall cur,
  concat (fst (split_lines bytes cur)) ++ snd (split_lines bytes cur) = rev cur ++ bytes.
Proof.
  induction bytes as [|b r IH]; intros cur.
  - cbn [split_lines fst snd concat app]. now rewrite app_nil_r.
  - cbn [split_lines]. destruct (b =? 10)%N.
    + specialize (IH []). destruct (split_lines r []) as [ls t].
      cbn [fst snd concat rev app] in *. rewrite <- !app_assoc. cbn [app].
      now rewrite IH.
    + rewrite IH. cbn [rev]. now rewrite <- app_assoc.
Qed.

Theorem lines_concat : forall bytes, concat (lines_of bytes) = bytes.
Proof.
  intros bytes. unfold lines_of.
  pose proof (split_lines_concat bytes []) as H.
  destruct (split_lines bytes []) as [ls t]. cbn [fst snd rev app] in H.
  destruct t as [|x t].
  - now rewrite app_nil_r in H.
  - rewrite concat_app. cbn [concat]. now rewrite app_nil_r.
Qed.

Print Assumptions stream_safety.
Print Assumptions stream_complete.
Print Assumptions no_deadlock.
Print Assumptions queue_bounded.
Print Assumptions chunking_irrelevant.
