(** The query language accepted by src/lang.rs, transcribed combinator for
    combinator (ordered choice as in nom), followed by the static checks of
    src/typecheck.rs, producing the model's pipeline AST.

    Error recovery collapses to rejection: the real parser reports an error,
    resynchronises and finally fails because the error count is non-zero; here
    every such point is [PFatal], which aborts the whole parse.  [PFail] is nom's
    recoverable error (the enclosing [alt] tries the next alternative). *)
From Coq Require Import List ZArith NArith Bool Floats.SpecFloat.
From AG Require Import Str F64 Value Json Expr Ops Pipeline Filter.
From AG Require Generated.
Import ListNotations.
Open Scope string_scope.
Open Scope list_scope.
Open Scope N_scope.

Inductive pres (A : Type) : Type :=
| POk (a : A) (rest : str)
| PFail
| PFatal.
Arguments POk {A} a rest. Arguments PFail {A}. Arguments PFatal {A}.

Definition parser (A : Type) := str -> pres A.

Definition pbind {A B} (p : pres A) (k : A -> str -> pres B) : pres B :=
  match p with POk a r => k a r | PFail => PFail | PFatal => PFatal end.
Notation "'LET' x , r <- p 'IN' k" := (pbind p (fun x r => k))
  (at level 200, x name, r name, p at level 100, k at level 200).

Definition palt {A} (p q : parser A) : parser A :=
  fun s => match p s with POk a r => POk a r | PFail => q s | PFatal => PFatal end.
Infix "<|>" := palt (at level 50, left associativity).

Definition popt {A} (p : parser A) : parser (option A) :=
  fun s => match p s with POk a r => POk (Some a) r | PFail => POk None s | PFatal => PFatal end.

(** nom's [expect*] family: report an error => the query is rejected *)
Definition pexpect {A} (p : parser A) : parser A :=
  fun s => match p s with PFail => PFatal | x => x end.

Definition pmap {A B} (f : A -> B) (p : parser A) : parser B :=
  fun s => match p s with POk a r => POk (f a) r | PFail => PFail | PFatal => PFatal end.

Definition ppeek {A} (p : parser A) : parser unit :=
  fun s => match p s with POk _ _ => POk tt s | PFail => PFail | PFatal => PFatal end.

Definition ptag (t : String.string) : parser unit :=
  fun s => match strip_prefix (lit t) s with Some r => POk tt r | None => PFail end.

Definition is_space (c : N) : bool := (c =? 32) || (c =? 9) || (c =? 13) || (c =? 10).

Fixpoint skip_spaces (s : str) : str :=
  match s with c :: r => if is_space c then skip_spaces r else s | [] => [] end.

Definition ms0 : parser unit := fun s => POk tt (skip_spaces s).
Definition ms1 : parser unit :=
  fun s => match s with c :: r => if is_space c then POk tt (skip_spaces r) else PFail | [] => PFail end.

Definition peof : parser unit := fun s => match s with [] => POk tt [] | _ => PFail end.

(** peek(multispace0 then (peek "|" or eof)) *)
Definition end_of_query : parser unit :=
  fun s => match skip_spaces s with
           | [] => POk tt s
           | c :: _ => if c =? 124 then POk tt s else PFail
           end.

(** expect(peek(multispace0.and(tag("|").or(eof)))) *)
Definition expect_pipe : parser unit := pexpect end_of_query.

Fixpoint take_while (f : N -> bool) (s : str) : str * str :=
  match s with
  | c :: r => if f c then let '(a, b) := take_while f r in (c :: a, b) else ([], s)
  | [] => ([], [])
  end.

(** nom's is_alphanumeric / is_alphabetic on [c as u8] (the truncation is in the source) *)
Definition low_byte (c : N) : N := c mod 256.
Definition is_alpha8 (c : N) : bool := let b := low_byte c in is_ascii_upper b || is_ascii_lower b.
Definition is_alnum8 (c : N) : bool := is_alpha8 c || is_digit (low_byte c).
Definition is_ident_char (c : N) : bool := is_alnum8 c || (c =? 95).
Definition starts_ident (c : N) : bool := is_alpha8 c || (c =? 95).
(** a keyword: the tag, and — for the keywords the source wraps in [word(..)] (re-read into
    Generated.word_keywords) — not followed by a character that would continue an identifier *)
Definition is_word_kw (t : String.string) : bool := existsb (String.eqb t) Generated.word_keywords.
Definition pkw (t : String.string) : parser unit :=
  fun s => match strip_prefix (lit t) s with
           | Some r => if is_word_kw t && (match r with c :: _ => is_ident_char c | [] => false end)
                       then PFail else POk tt r
           | None => PFail
           end.
Fixpoint pkws (tags : list String.string) : parser unit :=
  fun s => match tags with
           | [] => PFail
           | t :: r => match pkw t s with POk u x => POk u x | _ => pkws r s end
           end.

Definition is_keyword_char (c : N) : bool :=
  (c =? 45) || (c =? 95) || (c =? 58) || (c =? 47) || (c =? 46) || (c =? 43) || (c =? 64) || (c =? 35)
  || (c =? 36) || (c =? 37) || (c =? 94) || (c =? 42) || is_alnum8 c.

Definition pdigit1 : parser str :=
  fun s => let '(d, r) := take_digits s in if is_nil d then PFail else POk d r.

(** *** quoted strings *)
(** body of a quoted string: [escaped(none_of("\\<q>"), '\\', escaped_chars)] or empty;
    returns the raw body and the rest (which should start with the closing quote) *)
Fixpoint quoted_body (fuel : nat) (q : N) (s : str) (acc : str) : str * str :=
  match fuel with
  | O => (rev acc, s)
  | S f =>
      match s with
      | [] => (rev acc, [])
      | c :: r =>
          if c =? q then (rev acc, s)
          else if c =? 92 then
            match r with
            | e :: r' => quoted_body f q r' (e :: 92 :: acc)
            | [] => ([], s)            (* escaped() fails: alt falls back to tag("") *)
            end
          else quoted_body f q r (c :: acc)
      end
  end.

(** [escaped_str_transformer] *)
Fixpoint unescape (s : str) : str :=
  match s with
  | [] => []
  | c :: r =>
      if c =? 92 then
        match r with
        | e :: r' =>
            if e =? 92 then 92 :: unescape r'
            else if e =? 116 then 9 :: unescape r'
            else if e =? 114 then 13 :: unescape r'
            else if e =? 110 then 10 :: unescape r'
            else if e =? 48 then 0 :: unescape r'
            else if e =? 39 then 39 :: unescape r'
            else if e =? 34 then 34 :: unescape r'
            else 92 :: e :: unescape r'
        | [] => []
        end
      else c :: unescape r
  end.

Definition quoted_string : parser str :=
  fun s =>
    match s with
    | q :: r =>
        if (q =? 39) || (q =? 34) then
          let '(body, rest) := quoted_body (S (length r)) q r [] in
          match rest with
          | c :: rest' => if c =? q then POk (unescape body) rest' else PFatal   (* unterminated string *)
          | [] => PFatal
          end
        else PFail
    | [] => PFail
    end.

(** [req_quoted_string]: anything else is an error *)
Definition req_quoted_string : parser str := pexpect quoted_string.

(** *** identifiers *)
Definition bare_ident : parser str :=
  fun s => match s with
           | c :: r => if starts_ident c then let '(a, b) := take_while is_ident_char r in POk (c :: a) b else PFail
           | [] => PFail
           end.

(** ["name"] : expect_delimited(tag("["), quoted_string, tag("]")) *)
Definition escaped_ident : parser str :=
  fun s => match eat 91 s with
           | Some r =>
               match quoted_string r with
               | POk name r' => match eat 93 r' with Some r'' => POk name r'' | None => PFatal end
               | PFail => PFail
               | PFatal => PFatal
               end
           | None => PFail
           end.

Definition ident : parser str := bare_ident <|> escaped_ident.
Definition req_ident : parser str := pexpect ident.

(** *** numbers and durations *)
Definition i64_parse : parser Z :=
  fun s =>
    let '(neg, r) := strip_minus s in
    let '(d, rest) := take_digits r in
    if is_nil d then PFail else
    let n := Z.of_N (digits_val d 0) in
    let z := if neg then (- n)%Z else n in
    if in_i64 z then POk z rest else PFail.

Definition dur_unit_ns (u : String.string) : option Z :=
  (if String.eqb u "ns" then Some 1
   else if String.eqb u "us" then Some 1000
   else if String.eqb u "ms" then Some 1000000
   else if String.eqb u "s" then Some 1000000000
   else if String.eqb u "m" then Some 60000000000
   else if String.eqb u "h" then Some 3600000000000
   else if String.eqb u "d" then Some 86400000000000
   else if String.eqb u "w" then Some 604800000000000
   else None)%Z.

(** suffix alternatives in source order (Generated.duration_suffixes) *)
Fixpoint dur_suffix (alts : list (String.string * String.string)) (s : str) : option (Z * str) :=
  match alts with
  | [] => None
  | (t, _) :: r =>
      match strip_prefix (lit t) s with
      | Some rest => match dur_unit_ns t with Some k => Some (k, rest) | None => None end
      | None => dur_suffix r s
      end
  end.

(** chrono's range: |milliseconds| <= i64::MAX (the try_* constructors, after the fix) *)
Definition duration_fragment : parser Z :=
  fun s =>
    LET amount, r <- i64_parse s IN
    match dur_suffix Generated.duration_suffixes r with
    | Some (k, rest) => let ns := (amount * k)%Z in if dur_ok ns then POk ns rest else PFail
    | None => PFail
    end.

Fixpoint duration_more (fuel : nat) (acc : Z) (s : str) : pres Z :=
  match fuel with
  | O => POk acc s
  | S f => match duration_fragment s with
           | POk d r => duration_more f (acc + d)%Z r
           | _ => POk acc s
           end
  end.

Definition duration : parser Z :=
  fun s =>
    LET d, r <- duration_fragment s IN
    LET total, r' <- duration_more (length r) d r IN
    if dur_ok total then POk total r' else PFail.

(** nom's [double]: sign? (digits [. digits?] | . digits) (e sign? digits)? | nan | inf | infinity (no case) *)
Definition starts_no_case (t : String.string) (s : str) : option str :=
  let p := lit t in
  if str_eqb (map ascii_lower (firstn (length p) s)) p && Nat.leb (length p) (length s)
  then Some (skipn (length p) s) else None.

Definition double_text : parser str :=
  fun s =>
    let '(sgn, r0) := match s with
                      | c :: r => if (c =? 45) || (c =? 43) then ([c], r) else ([], s)
                      | [] => ([], []) end in
    let '(ip, r1) := take_digits r0 in
    let '(fp, r2, dot) := match eat 46 r1 with
                          | Some r' => let '(f, r'') := take_digits r' in (f, r'', true)
                          | None => ([], r1, false) end in
    if is_nil ip && is_nil fp then
      (* recognize_float failed: the exceptions are tried on the ORIGINAL input *)
      match starts_no_case "nan" s with
      | Some r => POk (lit "nan") r
      | None => match starts_no_case "inf" s with
                | Some r => POk (lit "inf") r
                | None => PFail
                end
      end
    else
      let mant := sgn ++ ip ++ (if dot then 46 :: fp else []) in
      match r2 with
      | c :: r3 =>
          if (c =? 101) || (c =? 69) then
            let '(esgn, r4) := match r3 with
                               | x :: r => if (x =? 45) || (x =? 43) then ([x], r) else ([], r3)
                               | [] => ([], []) end in
            let '(ed, r5) := take_digits r4 in
            if is_nil ed then POk mant r2 else POk (mant ++ c :: esgn ++ ed) r5
          else POk mant r2
      | [] => POk mant r2
      end.

Definition pdouble : parser f64 :=
  fun s => LET t, r <- double_text s IN
           match parse_f64 t with Some f => POk f r | None => PFail end.

(** sort_mode: the alternatives in source order (Generated.sort_mode_tags) *)
Fixpoint first_tag (tags : list String.string) (s : str) : option str :=
  match tags with
  | [] => None
  | t :: r => match strip_prefix (lit t) s with Some rest => Some rest | None => first_tag r s end
  end.

Fixpoint sort_mode_from (table : list (String.string * list String.string)) (s : str) : option (bool * str) :=
  match table with
  | [] => None
  | (ctor, tags) :: r =>
      match first_tag tags s with
      | Some rest => Some (String.eqb ctor "Descending", rest)
      | None => sort_mode_from r s
      end
  end.

(** one of several tags, tried in the given order *)
Definition ptags (tags : list String.string) : parser unit :=
  fun s => match first_tag tags s with Some r => POk tt r | None => PFail end.

(** *** expressions *)
(** comp_op: the alternatives in source order (Generated.comp_op_tags) *)
Definition cmpop_of_name (n : String.string) : option cmpop :=
  if String.eqb n "Eq" then Some CEq else if String.eqb n "Neq" then Some CNeq
  else if String.eqb n "Gte" then Some CGte else if String.eqb n "Lte" then Some CLte
  else if String.eqb n "Gt" then Some CGt else if String.eqb n "Lt" then Some CLt else None.

Fixpoint comp_op_from (table : list (String.string * String.string)) (s : str) : pres cmpop :=
  match table with
  | [] => PFail
  | (t, ctor) :: r =>
      match strip_prefix (lit t) s with
      | Some rest => match cmpop_of_name ctor with Some op => POk op rest | None => PFatal end
      | None => comp_op_from r s
      end
  end.

Definition comp_op : parser cmpop := comp_op_from Generated.comp_op_tags.

Definition muldiv_op : parser arop := pmap (fun _ => AMul) (ptag "*") <|> pmap (fun _ => ADiv) (ptag "/").
Definition addsub_op : parser arop := pmap (fun _ => AAdd) (ptag "+") <|> pmap (fun _ => ASub) (ptag "-").

Definition index_access : parser vref :=
  fun s => match eat 91 s with
           | Some r => match i64_parse r with
                       | POk i r' => match eat 93 r' with Some r'' => POk (RIndex i) r'' | None => PFail end
                       | _ => PFail
                       end
           | None => PFail
           end.

Definition dot_property : parser vref :=
  fun s => match eat 46 s with
           | Some r => pmap RField ident r
           | None => PFail
           end.

Fixpoint many_refs (fuel : nat) (s : str) (acc : list vref) : pres (list vref) :=
  match fuel with
  | O => POk (rev acc) s
  | S f => match (dot_property <|> index_access) s with
           | POk x r => many_refs f r (x :: acc)
           | PFail => POk (rev acc) s
           | PFatal => PFatal
           end
  end.

Definition column_ref : parser expr :=
  fun s => LET h, r <- ident s IN
           LET refs, r' <- many_refs (length r) r [] IN
           POk (ECol h refs) r'.

Definition literal_value : parser expr :=
  pmap (fun x => EVal (VStr x)) quoted_string
  <|> pmap (fun ns => EVal (VDur ns)) duration
  <|> pmap (fun d => EVal (from_string d)) pdigit1
  <|> pmap (fun _ => EVal (VBool true)) (pkw "true")
  <|> pmap (fun _ => EVal (VBool false)) (pkw "false")
  <|> pmap (fun _ => EVal VNone) (pkw "null").

(** the expression levels of lang.rs (arg_list, atomic, unary, term, arith_expr, cmp_expr,
    logical_and, logical_or), each written over the parser [opt_e] for a nested expression
    ([opt_expr]: whitespace, then logical_or); the knot is tied on one fuel in [p_expr] *)
Section Levels.
Variable opt_e : parser expr.

(** the rest of a comma separated argument list, up to and including the closing paren *)
Fixpoint args_more (k : nat) (s : str) (acc : list expr) : pres (list expr) :=
  match k with
  | O => PFatal
  | S k' =>
      let s' := skip_spaces s in
      match eat 44 s' with
      | Some r3 =>
          match opt_e r3 with
          | POk e' r4 => args_more k' r4 (e' :: acc)
          | PFail => (* separated_list0 stops before the comma *)
              match eat 41 s' with Some r => POk (rev acc) r | None => PFatal end
          | PFatal => PFatal
          end
      | None => match eat 41 s' with Some r => POk (rev acc) r | None => PFatal end
      end
  end.

(** open paren, optional comma separated expressions, closing paren required *)
Definition p_args : parser (list expr) :=
  fun s =>
    match eat 40 s with
    | None => PFail
    | Some r0 =>
        let r1 := skip_spaces r0 in
        match opt_e r1 with
        | PFatal => PFatal
        | PFail => match eat 41 (skip_spaces r1) with Some r => POk [] r | None => PFatal end
        | POk e r2 => args_more (length r2 + 1)%nat r2 [e]
        end
    end.

Definition p_if : parser expr :=
  fun s => match strip_prefix (lit "if") s with
           | Some r => match p_args r with
                       | POk [c; t; e] r' => POk (EIf c t e) r'
                       | POk _ _ => PFatal
                       | PFail => PFail
                       | PFatal => PFatal
                       end
           | None => PFail
           end.

Definition p_fcall : parser expr :=
  fun s => match ident s with
           | POk name r => match p_args r with
                           | POk args r' => POk (ECall name args) r'
                           | PFail => PFail
                           | PFatal => PFatal
                           end
           | PFail => PFail
           | PFatal => PFatal
           end.

Definition p_paren : parser expr :=
  fun s => match eat 40 s with
           | Some r => match pexpect opt_e r with
                       | POk e r' => match eat 41 (skip_spaces r') with Some r'' => POk e r'' | None => PFatal end
                       | PFail => PFatal
                       | PFatal => PFatal
                       end
           | None => PFail
           end.

Definition p_atomic : parser expr :=
  p_if <|> p_fcall <|> literal_value <|> column_ref <|> p_paren.

Definition p_unary : parser expr :=
  fun s => match eat 33 s with
           | Some r => pmap ENot (pexpect p_atomic) (skip_spaces r)
           | None => p_atomic s
           end.

(** a left-associative chain  operand (op operand)*  with optional whitespace around the operator *)
Fixpoint chain_more {A} (op : parser A) (mk : A -> expr -> expr -> expr) (operand : parser expr)
         (k : nat) (lhs : expr) (s : str) : pres expr :=
  match k with
  | O => POk lhs s
  | S k' =>
      match op (skip_spaces s) with
      | POk o r1 =>
          match operand (skip_spaces r1) with
          | POk rhs r2 => chain_more op mk operand k' (mk o lhs rhs) r2
          | PFail => PFatal            (* dangling binary operator *)
          | PFatal => PFatal
          end
      | _ => POk lhs s
      end
  end.

Definition p_term : parser expr :=
  fun s => LET init, r <- p_unary s IN chain_more muldiv_op EArith p_unary (length r) init r.

Definition p_arith : parser expr :=
  fun s => LET init, r <- p_term s IN chain_more addsub_op EArith p_term (length r) init r.

(** comparisons do not chain *)
Definition p_cmp : parser expr :=
  fun s =>
    LET lhs, r <- p_arith (skip_spaces s) IN
    match comp_op (skip_spaces r) with
    | POk op r1 =>
        match p_arith (skip_spaces r1) with
        | POk rhs r2 => POk (ECmp op lhs rhs) r2
        | PFail => PFatal
        | PFatal => PFatal
        end
    | _ => POk lhs r
    end.

(** either: spaces, the word, spaces, operand; or: the symbol between optional spaces, operand *)
Fixpoint logic_more (word sym : String.string) (lo : lgop) (operand : parser expr)
         (k : nat) (lhs : expr) (s : str) : pres expr :=
  match k with
  | O => POk lhs s
  | S k' =>
      match (match ms1 s with
             | POk _ r1 => match strip_prefix (lit word) r1 with
                           | Some r2 => match ms1 r2 with
                                        | POk _ r3 => match operand r3 with
                                                      | POk e r4 => POk (Some e) r4
                                                      | PFail => POk None r2
                                                      | PFatal => PFatal
                                                      end
                                        | _ => POk None r2
                                        end
                           | None => PFail
                           end
             | _ => PFail
             end) with
      | POk (Some e) r => logic_more word sym lo operand k' (ELogic lo lhs e) r
      | POk None _ => PFatal
      | PFatal => PFatal
      | PFail =>
          match strip_prefix (lit sym) (skip_spaces s) with
          | Some r2 => match operand (skip_spaces r2) with
                       | POk e r3 => logic_more word sym lo operand k' (ELogic lo lhs e) r3
                       | _ => PFatal
                       end
          | None => POk lhs s
          end
      end
  end.

Definition p_land : parser expr :=
  fun s => LET init, r <- p_cmp s IN logic_more "and" "&&" LAnd p_cmp (length r) init r.

Definition p_lor : parser expr :=
  fun s => LET init, r <- p_land s IN logic_more "or" "||" LOr p_land (length r) init r.
End Levels.

Fixpoint p_expr (fuel : nat) : parser expr :=
  match fuel with
  | O => fun _ => PFatal
  | S f => p_lor (fun s => p_expr f (skip_spaces s))
  end.

Definition expr_fuel (s : str) : nat := S (S (length s)).
(** [opt_expr]: whitespace then logical_or *)
Definition opt_expr : parser expr := fun s => p_expr (expr_fuel s) (skip_spaces s).
(** [expr]: a required expression *)
Definition req_expr : parser expr := pexpect opt_expr.

(** text consumed by a parser: recognize(p) *)
Definition consumed (s rest : str) : str := firstn (length s - length rest) s.

(** [sourced_expr]: the expression and its source text, trimmed *)
Definition sourced_expr : parser (str * expr) :=
  fun s => LET e, r <- req_expr s IN POk (trim (consumed s r), e) r.

Fixpoint sep_list_more {A} (fuel : nat) (sep : parser unit) (p : parser A) (s : str) (acc : list A) : pres (list A) :=
  match fuel with
  | O => POk (rev acc) s
  | S f =>
      match sep s with
      | POk _ r => match p r with
                   | POk x r' => sep_list_more f sep p r' (x :: acc)
                   | PFail => POk (rev acc) s
                   | PFatal => PFatal
                   end
      | PFail => POk (rev acc) s
      | PFatal => PFatal
      end
  end.

(** separated_list1 *)
Definition sep_list1 {A} (sep : parser unit) (p : parser A) : parser (list A) :=
  fun s => LET x, r <- p s IN sep_list_more (length r) sep p r [x].

Definition comma_ws : parser unit := fun s => LET _u, r <- ms0 s IN LET _v, r2 <- ptag "," r IN ms0 r2.

Definition sourced_expr_list : parser (list (str * expr)) := sep_list1 comma_ws sourced_expr.

(** var_list: idents separated by commas, whitespace allowed before both (after the fix) *)
Definition var_list : parser (list str) :=
  sep_list1 (fun s => LET _u, r <- ms0 s IN ptag "," r) (fun s => ident (skip_spaces s)).

(** *** filters *)
Definition trim_stars (s : str) : str :=
  let f := fix go (s : str) := match s with c :: r => if c =? 42 then go r else s | [] => [] end in
  rev (f (rev (f s))).

Definition filter_atom : parser (option filter) :=
  pmap (fun q => if is_nil q then None else Some (FKw KExact q)) quoted_string
  <|> (fun s => let '(k, r) := take_while is_keyword_char s in
                if is_nil k then PFail
                else let t := trim_stars k in POk (if is_nil t then None else Some (FKw KWild t)) r).

(** [None] stands for the filter that selects every line ([*], [""]): the identity of AND,
    absorbing for OR (and_filters / or_filters, after fix 291b1f9) *)
Definition combine2 (is_or : bool) (a b : option filter) : option filter :=
  match a, b with
  | Some l, Some r => Some (if is_or then FOr [l; r] else FAnd [l; r])
  | Some l, None => if is_or then None else Some l
  | None, Some r => if is_or then None else Some r
  | None, None => None
  end.

(** [filter_not]: the negation of "every line" selects no line *)
Definition not_filter (a : option filter) : option filter :=
  Some (FNot (match a with Some g => g | None => FAnd [] end)).

Fixpoint p_filter (fuel : nat) : parser (option filter) :=
  match fuel with
  | O => fun _ => PFatal
  | S f =>
      let high := p_filter f in
      let low : parser (option filter) :=
        (fix low (k : nat) : parser (option filter) :=
           match k with
           | O => fun _ => PFatal
           | S k' =>
               fun s =>
                 (* filter_not *)
                 match (match strip_prefix (lit "NOT") s with
                        | Some r => match ms1 r with
                                    | POk _ r' => pmap not_filter (low k') r'
                                    | _ => PFail
                                    end
                        | None => PFail
                        end) with
                 | POk x r => POk x r
                 | PFatal => PFatal
                 | PFail =>
                     (filter_atom <|>
                      (fun s => match eat 40 s with
                                | Some r => match high (skip_spaces r) with
                                            | POk x r' => match eat 41 (skip_spaces r') with Some r'' => POk x r'' | None => PFatal end
                                            | PFail => PFail
                                            | PFatal => PFatal
                                            end
                                | None => PFail
                                end)) s
                 end
           end) (S f) in
      (* the left operand once, then an optional operator part (after the fix of the exponential re-parsing) *)
      let then_opt (word : String.string) (sub : parser (option filter)) (mk : bool) : parser (option filter) :=
        fun s => LET a, r <- sub s IN
                 match (LET _u, r1 <- ms1 r IN LET _v, r2 <- ptag word r1 IN LET _w, r3 <- ms1 r2 IN sub r3) with
                 | POk b r4 => POk (combine2 mk a b) r4
                 | PFail => POk a r
                 | PFatal => PFatal
                 end in
      let mid : parser (option filter) := then_opt "AND" low false in
      then_opt "OR" mid true
  end.

Definition high_filter : parser (option filter) := fun s => p_filter (S (length s)) s.

(** parse_search: many_till(high_filter.delimited_by(multispace0), end_of_query) *)
Fixpoint search_loop (fuel : nat) (s : str) (acc : list filter) : pres filter :=
  match fuel with
  | O => PFail
  | S f =>
      match end_of_query s with
      | POk _ _ => POk (FAnd (rev acc)) s
      | _ =>
          match high_filter (skip_spaces s) with
          | POk x r =>
              let r' := skip_spaces r in
              if Nat.eqb (length r') (length s) then PFail    (* many_till: no progress *)
              else search_loop f r' (match x with Some g => g :: acc | None => acc end)
          | PFail => PFail
          | PFatal => PFatal
          end
      end
  end.

Definition parse_search : parser filter := fun s => search_loop (S (length s)) s [].

(** *** operators: the lang-level AST, close to the model's [stage] *)
Inductive lstage : Type :=
| LStage (s : stage)                       (* already in model form *)
| LLimit (count : option f64)
| LTimeslice (e : expr) (dur : option Z) (name : option str)
| LWhere (e : option expr)
| LCountDistinct_bad                        (* count_distinct with 0 or >1 arguments *)
| LAlias (name : str).

(** single_arg: "(" ws* expr ws* ")" with everything after "(" required (whitespace before ")" since 4f14fd7) *)
Definition single_arg : parser expr :=
  fun s => match eat 40 s with
           | Some r => match pexpect opt_expr (skip_spaces r) with
                       | POk e r' => match eat 41 (skip_spaces r') with Some r'' => POk e r'' | None => PFatal end
                       | _ => PFatal
                       end
           | None => PFail
           end.
Definition req_single_arg : parser expr := pexpect single_arg.

(** oper_0_args(name): the name, not followed by "(", then whitespace or end of stage *)
Definition oper_0_args (name : String.string) : parser unit :=
  fun s => LET _u, r <- ptag name s IN
           if head_is 40 r then PFatal
           else match r with
                | c :: _ => if is_space c then POk tt r else end_of_query r
                | [] => POk tt r
                end.

(** kw_expr(kw): optional " kw expr" *)
Definition kw_expr (kw : String.string) : parser (option expr) :=
  fun s => match ms1 s with
           | POk _ r => match strip_prefix (lit kw) r with
                        | Some r' => match ms1 r' with
                                     | POk _ r'' => pmap Some (pexpect opt_expr) r''
                                     | _ => PFatal
                                     end
                        | None => POk None s
                        end
           | _ => POk None s
           end.

Definition opt_ws1_then {A} (p : parser A) : parser (option A) :=
  fun s => match ms1 s with
           | POk _ r => match p r with POk x r' => POk (Some x) r' | PFail => POk None s | PFatal => PFatal end
           | _ => POk None s
           end.

(** " as " ident etc.: tag(w).delimited_by(multispace1).precedes(p) *)
Definition word_then {A} (w : String.string) (p : parser A) : parser A :=
  fun s => LET _a, r <- ms1 s IN LET _b, r1 <- ptag w r IN LET _c, r2 <- ms1 r1 IN p r2.

Definition p_json (name : String.string) (mk : option expr -> stage) : parser lstage :=
  fun s => LET _u, r <- oper_0_args name s IN LET from, r1 <- kw_expr "from" r IN
           LET _e, r2 <- expect_pipe r1 IN POk (LStage (mk from)) r2.

Definition p_limit : parser lstage :=
  fun s => LET _u, r <- oper_0_args "limit" s IN
           LET c, r1 <- opt_ws1_then pdouble r IN
           LET _e, r2 <- expect_pipe r1 IN POk (LLimit c) r2.

Definition from_clause : parser expr :=
  fun s => LET _a, r <- ptag "from" s IN LET _b, r1 <- ms1 r IN req_expr r1.

Definition p_parse : parser lstage :=
  fun s =>
    LET _u, r <- ptag "parse" s IN LET _v, r0 <- ms1 r IN
    LET is_regex, r1 <- popt (fun s => LET _a, x <- ptag "regex" s IN ms1 x) r0 IN
    LET pat, r2 <- req_quoted_string r1 IN
    LET from1, r3 <- opt_ws1_then from_clause r2 IN
    LET flds, r4 <- popt (fun s => LET _a, x <- ms1 s IN LET _b, y <- ptag "as" x IN LET _c, z <- ms1 y IN var_list z) r3 IN
    LET from2, r5 <- opt_ws1_then from_clause r4 IN
    LET nodrop, r6 <- opt_ws1_then (ptag "nodrop") r5 IN
    LET noconv, r7 <- opt_ws1_then (ptag "noconvert") r6 IN
    LET _e, r8 <- expect_pipe r7 IN
    match is_regex with
    | Some _ => POk (LStage SUnmodelled) r8
    | None =>
        match from1, from2 with
        | Some _, Some _ => PFatal         (* DoubleFromClause *)
        | _, _ =>
            let from := match from1 with Some e => Some e | None => from2 end in
            POk (LStage (SParse pat (match flds with Some l => l | None => [] end) from
                                (match nodrop with Some _ => true | None => false end)
                                (match noconv with Some _ => true | None => false end))) r8
        end
    end.

(** fields_mode: the alternatives in source order (Generated.fields_mode_tags); a tag flagged [true]
    is a whole word: it must be followed by whitespace (peek(multispace1), since a6b1cfe) *)
Fixpoint first_word_tag (tags : list (String.string * bool)) (s : str) : option str :=
  match tags with
  | [] => None
  | (t, word) :: r =>
      match strip_prefix (lit t) s with
      | Some rest =>
          if word && negb (match rest with c :: _ => is_space c | [] => false end)
          then first_word_tag r s else Some rest
      | None => first_word_tag r s
      end
  end.

Fixpoint fields_mode_from (table : list (String.string * list (String.string * bool))) (s : str) : pres bool :=
  match table with
  | [] => PFail
  | (ctor, tags) :: r =>
      match first_word_tag tags s with
      | Some rest => POk (String.eqb ctor "Only") rest
      | None => fields_mode_from r s
      end
  end.
Definition fields_mode : parser bool := fields_mode_from Generated.fields_mode_tags.

Definition p_fields : parser lstage :=
  fun s => LET _u, r <- ptag "fields" s IN LET _v, r1 <- ms1 r IN
           LET mode, r2 <- popt fields_mode r1 IN
           LET fs, r3 <- var_list r2 IN
           POk (LStage (SFields (match mode with Some m => m | None => true end) fs)) r3.

Definition p_split : parser lstage :=
  fun s => LET _u, r <- pkw "split" s IN
           LET arg, r1 <- popt single_arg r IN
           LET on, r2 <- popt (word_then "on" req_quoted_string) r1 IN
           LET as_, r3 <- popt (word_then "as" req_expr) r2 IN
           LET _e, r4 <- expect_pipe r3 IN
           POk (LStage (SSplit (match on with Some x => x | None => lit "," end) arg
                               (match as_ with Some x => Some x | None => arg end))) r4.

Definition p_timeslice : parser lstage :=
  fun s => LET _u, r <- pkw "timeslice" s IN
           LET e, r1 <- req_single_arg r IN
           LET d, r2 <- opt_ws1_then duration r1 IN
           LET n, r3 <- popt (word_then "as" ident) r2 IN
           LET _e, r4 <- expect_pipe r3 IN POk (LTimeslice e d n) r4.

Definition p_total : parser lstage :=
  fun s => LET _u, r <- pkw "total" s IN
           LET e, r1 <- req_single_arg r IN
           LET n, r2 <- popt (word_then "as" req_ident) r1 IN
           LET _e, r3 <- expect_pipe r2 IN
           POk (LStage (STotal e (match n with Some x => x | None => lit "_total" end))) r3.

Definition p_where : parser lstage :=
  fun s => LET _u, r <- pkw "where" s IN
           LET e, r1 <- (fun s => match ms1 s with
                                  | POk _ x => match req_expr x with
                                               | POk e y => POk (Some e) (skip_spaces y)
                                               | PFail => PFatal | PFatal => PFatal end
                                  | _ => POk None s
                                  end) r IN
           LET _e, r2 <- expect_pipe r1 IN POk (LWhere e) r2.

Definition inline_opers : parser lstage :=
  p_parse <|> p_json "json" SJson <|> p_json "logfmt" SLogfmt <|> p_fields <|> p_limit
  <|> p_split <|> p_timeslice <|> p_total <|> p_where.

(** *** aggregates *)
Inductive lagg := LAgg (f : aggfn) | LAggDistinctBad.

Fixpoint lookup_name (table : list (String.string * String.string)) (ctor : String.string) : str :=
  match table with
  | [] => []
  | (c, n) :: r => if String.eqb c ctor then lit n else lookup_name r ctor
  end.

(** AggregateFunction::default_name, the table re-read from the source *)
Definition default_name_of (a : lagg) (pct_str : str) : str :=
  let dn := lookup_name Generated.default_names in
  match a with
  | LAgg (FCount _) => dn "Count" | LAgg (FSum _) => dn "Sum" | LAgg (FMin _) => dn "Min"
  | LAgg (FAvg _) => dn "Average" | LAgg (FMax _) => dn "Max"
  | LAgg (FPct _ _) => lit Generated.pct_prefix ++ pct_str
  | LAgg (FDistinct _) | LAggDistinctBad => dn "CountDistinct"
  end.

(** all arguments of count_distinct: an arg_list *)
Definition p_arg_list : parser (list expr) := p_args opt_expr.

(** the decimal text of a percentile as Rust prints the parsed f64 (an integer below 100) *)
Definition pct_string (d : str) : str := N_to_str (digits_val d 0).

Definition p_pct : parser (lagg * str) :=
  fun s => LET _u, r <- ptags Generated.pct_tags s IN
           LET d, r1 <- pdigit1 r IN
           (* only an operator when an argument list follows (peek(tag("("))): `p90 - p10 as x` is an expression *)
           if negb (head_is 40 r1) then PFail else
           LET e, r2 <- req_single_arg r1 IN
           let v := Z.of_N (digits_val d 0) in
           if (0 <? v)%Z && (v <? 100)%Z
           then POk (LAgg (FPct (fdiv (f_of_Z v) (f_of_Z 100)) e), pct_string d) r2
           else PFatal.

Definition p_aggfn : parser (lagg * str) :=
  (fun s => LET _u, r <- pkw "count_distinct" s IN
            LET args, r1 <- popt p_arg_list r IN
            match args with
            | Some [e] => POk (LAgg (FDistinct e), []) r1
            | _ => POk (LAggDistinctBad, []) r1
            end)
  <|> (fun s => LET _u, r <- pkw "count" s IN LET c, r1 <- popt single_arg r IN POk (LAgg (FCount c), []) r1)
  <|> (fun s => LET _u, r <- pkw "min" s IN LET e, r1 <- req_single_arg r IN POk (LAgg (FMin e), []) r1)
  <|> (fun s => LET _u, r <- pkw "max" s IN LET e, r1 <- req_single_arg r IN POk (LAgg (FMax e), []) r1)
  <|> p_pct
  <|> (fun s => LET _u, r <- pkw "sum" s IN LET e, r1 <- req_single_arg r IN POk (LAgg (FSum e), []) r1)
  <|> (fun s => LET _u, r <- pkws Generated.avg_tags s IN LET e, r1 <- req_single_arg r IN POk (LAgg (FAvg e), []) r1).

Definition p_agg_oper : parser (str * lagg) :=
  fun s => LET a, r <- p_aggfn (skip_spaces s) IN
           LET n, r1 <- popt (word_then "as" req_ident) r IN
           POk (match n with Some x => x | None => default_name_of (fst a) (snd a) end, fst a) (skip_spaces r1).

Inductive lop : Type :=
| LInline (s : lstage)
| LMultiAgg (fns : list (str * lagg)) (keys : list (str * expr))
| LSort (keys : list expr) (desc : bool)
| LFieldExpr (e : expr) (name : str)
| LAliasOp (name : str).

Definition p_multi_agg : parser lop :=
  fun s => LET fns, r <- sep_list1 (ptag ",") p_agg_oper s IN
           LET keys, r1 <- popt (fun s => LET _a, x <- ptag "by" s IN LET _b, y <- ms1 x IN sourced_expr_list y) r IN
           LET _e, r2 <- end_of_query r1 IN
           POk (LMultiAgg fns (match keys with Some k => k | None => [] end)) r2.

Definition p_sort : parser lop :=
  fun s => LET _u, r <- pkw "sort" s IN
           LET keys, r1 <- popt (word_then "by" sourced_expr_list) r IN
           LET mode, r2 <- (fun s => match ms1 s with
                                     | POk _ x => match sort_mode_from Generated.sort_mode_tags x with
                                                  | Some (d, y) => POk (Some d) y
                                                  | None => POk None s
                                                  end
                                     | _ => POk None s
                                     end) r1 IN
           POk (LSort (map snd (match keys with Some k => k | None => [] end))
                      (match mode with Some d => d | None => false end)) r2.

Definition p_field_expr : parser lop :=
  fun s => LET e, r <- req_expr s IN
           LET n, r1 <- word_then "as" req_ident r IN POk (LFieldExpr e n) r1.

Definition alias_names : list str := map (fun kv => lit (fst kv)) Generated.alias_table.

Definition p_alias : parser lop :=
  fun s => LET n, r <- ident s IN
           if existsb (str_eqb n) alias_names then POk (LAliasOp n) r else PFail.

(** did_you_mean: an identifier (with optional argument list) at the start of the stage always ends in an error *)
Definition p_did_you_mean : parser lop :=
  fun s => match ident (skip_spaces s) with
           | POk _ _ => PFatal
           | PFail => PFail
           | PFatal => PFatal
           end.

(** garbage: expect(alt(tag("|"), eof)) *)
Definition p_garbage : parser lop := fun _ => PFatal.

Definition p_oper : parser lop :=
  fun s0 =>
    let s := skip_spaces s0 in
    LET o, r <- (pmap LInline inline_opers <|> p_multi_agg <|> p_sort <|> p_field_expr <|> p_alias
                 <|> p_did_you_mean <|> p_garbage) s IN
    POk o (skip_spaces r).

Definition parse_operators : parser (list lop) := sep_list1 (ptag "|") p_oper.

Record lquery := mkLQ { lq_filter : filter; lq_ops : list lop }.

(** query(): the search, optionally "|" operators, then (after the fix) only whitespace *)
Definition parse_query (s : str) : option lquery :=
  match parse_search s with
  | POk f r =>
      match (match eat 124 r with
             | Some r' => parse_operators r'
             | None => POk [] r
             end) with
      | POk ops r2 => if is_nil (trim r2) then Some (mkLQ f ops) else None
      | _ => None
      end
  | _ => None
  end.

(** *** typecheck.rs + the alias splice of Pipeline::new *)
Definition check_lstage (l : lstage) : option (list stage) :=
  match l with
  | LStage s => Some [s]
  | LLimit c => option_map (fun n => [SLimit n]) (typecheck_limit c)
  | LTimeslice e (Some d) n => Some [STimeslice e d n]
  | LTimeslice _ None _ => None
  | LWhere (Some e) => Some [SWhere e]
  | LWhere None => None
  | LCountDistinct_bad => None
  | LAlias _ => None
  end.

Definition check_agg (na : str * lagg) : option (str * aggfn) :=
  match snd na with LAgg f => Some (fst na, f) | LAggDistinctBad => None end.

Fixpoint map_opt_list {A B} (f : A -> option B) (l : list A) : option (list B) :=
  match l with
  | [] => Some []
  | x :: r => match f x, map_opt_list f r with Some y, Some ys => Some (y :: ys) | _, _ => None end
  end.

Definition lop_is_agg_or_sort (o : lop) : bool := match o with LMultiAgg _ _ | LSort _ _ => true | _ => false end.

(** alias templates are parsed with parse_operators (pipeline_template) *)
Fixpoint alias_template (table : list (String.string * String.string)) (n : str) : option str :=
  match table with
  | [] => None
  | (k, t) :: r => if str_eqb n (lit k) then Some (lit t) else alias_template r n
  end.

Definition check_lop (expand : bool) (o : lop) : option (list stage) :=
  match o with
  | LInline l => check_lstage l
  | LMultiAgg fns keys => option_map (fun fs => [SAgg fs keys]) (map_opt_list check_agg fns)
  | LSort keys d => Some [SSort keys d]
  | LFieldExpr e n => Some [SLet e n]
  | LAliasOp n =>
      if expand then
        match alias_template Generated.alias_table n with
        | Some t =>
            match parse_operators t with
            | POk ops r =>
                if is_nil (trim r) then
                  option_map (@concat stage)
                    (map_opt_list (fun o' => match o' with
                                             | LAliasOp _ => None
                                             | LInline l => check_lstage l
                                             | LMultiAgg fns keys => option_map (fun fs => [SAgg fs keys]) (map_opt_list check_agg fns)
                                             | LSort keys d => Some [SSort keys d]
                                             | LFieldExpr e n => Some [SLet e n]
                                             end) ops)
                else None
            | _ => None
            end
        | None => None
        end
      else None
  end.

(** the accepted language: Some (filter, stages) iff the query compiles *)
Definition accepts (s : str) : option (filter * list stage) :=
  match parse_query s with
  | Some q =>
      match map_opt_list (check_lop true) (lq_ops q) with
      | Some sts => let stages := concat sts in
                    if forallb stage_ok stages then Some (lq_filter q, stages) else None
      | None => None
      end
  | None => None
  end.
