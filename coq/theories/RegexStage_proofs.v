(** Properties of the [parse regex] row operator (RegexStage.v). *)
From Coq Require Import List ZArith NArith Bool Lia.
From AG Require Import Str Str_proofs Value Json Expr Ops Regex Regex_proofs RegexStage NoPanic_proofs.
Import ListNotations.
Open Scope list_scope.

(** * The two folds over a row *)
Lemma rx_bind_row_raw kvs : forall r, rraw (rx_bind_row kvs r) = rraw r.
Proof.
  unfold rx_bind_row. induction kvs as [|[k v] kvs IH]; intros r; cbn [fold_left]; [reflexivity|].
  rewrite IH. reflexivity.
Qed.

Lemma rx_bind_row_other kvs : forall r k,
  ~ In k (map fst kvs) -> get k (rdata (rx_bind_row kvs r)) = get k (rdata r).
Proof.
  unfold rx_bind_row. induction kvs as [|[k' v'] kvs IH]; intros r k Hn; cbn [fold_left]; [reflexivity|].
  cbn [map fst In] in Hn. rewrite IH by tauto. cbn [fst snd rput rdata].
  apply get_put_other. intros ->. tauto.
Qed.

Lemma rx_bind_row_in kvs : forall r k v,
  NoDup (map fst kvs) -> In (k, v) kvs -> get k (rdata (rx_bind_row kvs r)) = Some v.
Proof.
  induction kvs as [|[k' v'] kvs IH]; intros r k v Hnd Hin; [contradiction|].
  cbn [map fst] in Hnd. inversion Hnd as [|? ? Hnotin Hnd']; subst.
  change (rx_bind_row ((k', v') :: kvs) r) with (rx_bind_row kvs (rput k' v' r)).
  destruct Hin as [Heq|Hin].
  - injection Heq as -> ->. rewrite rx_bind_row_other by exact Hnotin.
    cbn [rput rdata]. apply get_put_same.
  - now apply IH.
Qed.

Lemma rx_nodrop_row_raw fields r0 : forall acc,
  rraw (fold_left (fun acc f => if has f (rdata r0) then acc else rput f VNone acc) fields acc) = rraw acc.
Proof.
  induction fields as [|f fields IH]; intros acc; cbn [fold_left]; [reflexivity|].
  rewrite IH. destruct (has f (rdata r0)); reflexivity.
Qed.

Lemma nodrop_fold_kept fields r0 k : has k (rdata r0) = true -> forall acc,
  get k (rdata (fold_left (fun acc f => if has f (rdata r0) then acc else rput f VNone acc) fields acc))
  = get k (rdata acc).
Proof.
  intros Hk. induction fields as [|f fields IH]; intros acc; cbn [fold_left]; [reflexivity|].
  rewrite IH. destruct (has f (rdata r0)) eqn:Hf; [reflexivity|].
  cbn [rput rdata]. apply get_put_other. intros ->. congruence.
Qed.

Lemma nodrop_fold_other fields r0 k : ~ In k fields -> forall acc,
  get k (rdata (fold_left (fun acc f => if has f (rdata r0) then acc else rput f VNone acc) fields acc))
  = get k (rdata acc).
Proof.
  induction fields as [|f fields IH]; intros Hn acc; cbn [fold_left]; [reflexivity|].
  cbn [In] in Hn. rewrite IH by tauto. destruct (has f (rdata r0)); [reflexivity|].
  cbn [rput rdata]. apply get_put_other. intros ->. tauto.
Qed.

Lemma nodrop_fold_stays fields r0 k : forall acc,
  get k (rdata acc) = Some VNone ->
  get k (rdata (fold_left (fun acc f => if has f (rdata r0) then acc else rput f VNone acc) fields acc))
  = Some VNone.
Proof.
  induction fields as [|f fields IH]; intros acc H; cbn [fold_left]; [exact H|].
  apply IH. destruct (has f (rdata r0)); [exact H|]. cbn [rput rdata].
  destruct (str_eqb k f) eqn:E.
  - apply str_eqb_eq in E. subst f. apply get_put_same.
  - apply str_eqb_neq in E. rewrite get_put_other by exact E. exact H.
Qed.

Lemma nodrop_fold_new fields r0 k : In k fields -> has k (rdata r0) = false -> forall acc,
  get k (rdata (fold_left (fun acc f => if has f (rdata r0) then acc else rput f VNone acc) fields acc))
  = Some VNone.
Proof.
  induction fields as [|f fields IH]; intros Hin Hk acc; [contradiction|].
  cbn [fold_left]. destruct (str_eqb k f) eqn:E.
  - apply str_eqb_eq in E. subst f. rewrite Hk. apply nodrop_fold_stays.
    cbn [rput rdata]. apply get_put_same.
  - apply str_eqb_neq in E. destruct Hin as [->|Hin]; [congruence|]. now apply IH.
Qed.

(** * What [rx_stage] reduces to *)
Lemma rx_stage_unfold pat from nodrop noconv r rx inp :
  parse_regex pat = Some rx -> unnamed_count rx = 0%nat -> get_input r from = Ok inp ->
  rx_stage pat from nodrop noconv r =
  match parse_regex_captures pat (trim inp) with
  | RxUnsupported => Unm
  | RxFuel => Unm
  | RxNoMatch => if nodrop then Ok (Some (rx_nodrop_row (regex_named rx) r)) else Ok None
  | RxMatch l => Ok (Some (rx_bind_row (rx_bindings noconv l) r))
  end.
Proof.
  intros Hp Hu Hi. unfold rx_stage. rewrite Hp, Hu, Hi. reflexivity.
Qed.

Lemma map_fst_bindings noconv l : map fst (rx_bindings noconv l) = map fst l.
Proof. unfold rx_bindings. rewrite map_map. reflexivity. Qed.

(** (a) on a match, the row keeps its line and its other fields, and gains
    exactly the named groups of the pattern; every named group is bound to
    [VNone] or to the (converted) text that [parse_regex_captures] reports,
    whatever fields the row had before *)
Theorem rx_stage_match : forall pat from nodrop noconv r rx inp l,
  parse_regex pat = Some rx -> unnamed_count rx = 0%nat ->
  get_input r from = Ok inp ->
  parse_regex_captures pat (trim inp) = RxMatch l ->
  exists row',
    rx_stage pat from nodrop noconv r = Ok (Some row') /\
    rraw row' = rraw r /\
    map fst l = regex_named rx /\
    (forall k, has k (rdata row') = true <-> has k (rdata r) = true \/ In k (regex_named rx)) /\
    (forall n o, In (n, o) l -> get n (rdata row') = Some (rx_value noconv o)) /\
    (forall k, ~ In k (regex_named rx) -> get k (rdata row') = get k (rdata r)).
Proof.
  intros pat from nodrop noconv r rx inp l Hp Hu Hi Hm.
  exists (rx_bind_row (rx_bindings noconv l) r).
  rewrite (rx_stage_unfold _ _ _ _ _ _ _ Hp Hu Hi), Hm.
  destruct (parse_regex_captures_names _ _ _ Hm) as (rx' & Hp' & Hn).
  rewrite Hp in Hp'. injection Hp' as <-.
  pose proof (parse_regex_named_nodup _ _ Hp) as Hnd.
  assert (Hin : forall n o, In (n, o) l ->
            get n (rdata (rx_bind_row (rx_bindings noconv l) r)) = Some (rx_value noconv o)).
  { intros n o Hno. apply rx_bind_row_in.
    - rewrite map_fst_bindings, Hn. exact Hnd.
    - unfold rx_bindings. apply in_map_iff. exists (n, o). split; [reflexivity | exact Hno]. }
  assert (Hother : forall k, ~ In k (regex_named rx) ->
            get k (rdata (rx_bind_row (rx_bindings noconv l) r)) = get k (rdata r)).
  { intros k Hk. apply rx_bind_row_other. rewrite map_fst_bindings, Hn. exact Hk. }
  split; [reflexivity|]. split; [apply rx_bind_row_raw|]. split; [exact Hn|].
  split; [|split; assumption].
  intros k. destruct (in_dec (list_eq_dec N.eq_dec) k (regex_named rx)) as [Hk|Hk].
  - split; [tauto|]. intros _. rewrite <- Hn in Hk. apply in_map_iff in Hk.
    destruct Hk as ([n o] & Hfst & Hno). cbn [fst] in Hfst. subst n.
    unfold has. rewrite (Hin _ _ Hno). reflexivity.
  - unfold has. rewrite (Hother _ Hk). tauto.
Qed.

(** (b) a named group that took no part in the match is [VNone] in the result,
    even when the row already had a field of that name *)
Theorem rx_stage_nonparticipating : forall pat from nodrop noconv r rx inp l n v0,
  parse_regex pat = Some rx -> unnamed_count rx = 0%nat ->
  get_input r from = Ok inp ->
  parse_regex_captures pat (trim inp) = RxMatch l ->
  In (n, None) l ->
  get n (rdata r) = Some v0 ->
  exists row', rx_stage pat from nodrop noconv r = Ok (Some row') /\
               get n (rdata row') = Some VNone.
Proof.
  intros pat from nodrop noconv r rx inp l n v0 Hp Hu Hi Hm Hin _.
  destruct (rx_stage_match pat from nodrop noconv r rx inp l Hp Hu Hi Hm)
    as (row' & Hs & _ & _ & _ & Hv & _).
  exists row'. split; [exact Hs|]. exact (Hv _ _ Hin).
Qed.

(** (c) no match: the row is dropped; under [nodrop] it is kept, the fields it
    had are untouched and the other group names are bound to [VNone] *)
Theorem rx_stage_nomatch_drop : forall pat from noconv r rx inp,
  parse_regex pat = Some rx -> unnamed_count rx = 0%nat ->
  get_input r from = Ok inp ->
  parse_regex_captures pat (trim inp) = RxNoMatch ->
  rx_stage pat from false noconv r = Ok None.
Proof.
  intros pat from noconv r rx inp Hp Hu Hi Hm.
  rewrite (rx_stage_unfold _ _ _ _ _ _ _ Hp Hu Hi), Hm. reflexivity.
Qed.

Theorem rx_stage_nomatch_nodrop : forall pat from noconv r rx inp,
  parse_regex pat = Some rx -> unnamed_count rx = 0%nat ->
  get_input r from = Ok inp ->
  parse_regex_captures pat (trim inp) = RxNoMatch ->
  exists row',
    rx_stage pat from true noconv r = Ok (Some row') /\
    rraw row' = rraw r /\
    (forall k, has k (rdata r) = true -> get k (rdata row') = get k (rdata r)) /\
    (forall k, In k (regex_named rx) -> has k (rdata r) = false -> get k (rdata row') = Some VNone) /\
    (forall k, ~ In k (regex_named rx) -> get k (rdata row') = get k (rdata r)).
Proof.
  intros pat from noconv r rx inp Hp Hu Hi Hm.
  exists (rx_nodrop_row (regex_named rx) r).
  rewrite (rx_stage_unfold _ _ _ _ _ _ _ Hp Hu Hi), Hm.
  split; [reflexivity|]. unfold rx_nodrop_row. split; [apply rx_nodrop_row_raw|]. split; [|split].
  - intros k Hk. now apply nodrop_fold_kept.
  - intros k Hin Hk. now apply nodrop_fold_new.
  - intros k Hk. now apply nodrop_fold_other.
Qed.

(** (d) the operator never panics (and never runs out of fuel: the only [Unm]
    are an unsupported pattern and a non-ASCII input) *)
Theorem rx_stage_no_panic : forall pat from nodrop noconv r,
  rx_stage pat from nodrop noconv r <> Panic.
Proof.
  intros pat from nodrop noconv r. unfold rx_stage.
  destruct (parse_regex pat) as [rx|]; [|discriminate].
  destruct (unnamed_count rx); [|discriminate].
  apply bind_np; [apply get_input_np|]. intros inp.
  destruct (parse_regex_captures pat (trim inp)); try discriminate.
  destruct nodrop; discriminate.
Qed.

Theorem rx_stage_unm : forall pat from nodrop noconv r,
  rx_stage pat from nodrop noconv r = Unm ->
  parse_regex pat = None \/
  (exists rx, parse_regex pat = Some rx /\ unnamed_count rx <> 0%nat) \/
  get_input r from = Unm \/
  (exists inp, get_input r from = Ok inp /\ is_ascii_str (trim inp) = false).
Proof.
  intros pat from nodrop noconv r H. unfold rx_stage in H.
  destruct (parse_regex pat) as [rx|] eqn:Hp; [|now left].
  destruct (unnamed_count rx) eqn:Hu; [|right; left; exists rx; split; [reflexivity | congruence]].
  destruct (get_input r from) as [inp| | |] eqn:Hi; cbn [bind] in H; try discriminate H; [|tauto].
  right; right; right. exists inp. split; [reflexivity|].
  pose proof (parse_regex_captures_no_fuel pat (trim inp)) as Hnf.
  unfold parse_regex_captures in *. rewrite Hp in *.
  destruct (is_ascii_str (trim inp)); [|reflexivity]. cbn [negb] in *.
  unfold regex_captures in *.
  destruct (search (default_fuel rx (trim inp)) (trim inp) rx).
  - congruence.
  - destruct nodrop; discriminate H.
  - discriminate H.
Qed.

(** * Examples (each checked on the real binary with
    [agrind -o json '* | json | parse regex "..." from msg ...']) *)
Open Scope string_scope.
Definition ex_pat := lit "^(?P<method>\w+) (?P<path>\S+)(?: -> (?P<status>\d+))?".
Definition ex_from := Some (ECol (lit "msg") []).
Definition ex_row (msg : String.string) : record :=
  mkRec (put (lit "msg") (VStr (lit msg)) (put (lit "status") (VStr (lit "cached")) [])) (lit "{}").

(** the seeded defect: an optional group that takes no part overrides the old field with None *)
Example ex_status_none :
  option_map (fun r => get (lit "status") (rdata r))
    (match rx_stage ex_pat ex_from false false (ex_row "GET /x") with Ok o => o | _ => None end)
  = Some (Some VNone).
Proof. vm_compute. reflexivity. Qed.

Example ex_match_row :
  rx_stage ex_pat ex_from false false (ex_row "GET /x")
  = Ok (Some (mkRec [(lit "method", VStr (lit "GET")); (lit "msg", VStr (lit "GET /x"));
                     (lit "path", VStr (lit "/x")); (lit "status", VNone)] (lit "{}"))).
Proof. vm_compute. reflexivity. Qed.

Example ex_convert :
  option_map (fun r => get (lit "status") (rdata r))
    (match rx_stage ex_pat ex_from false false (ex_row "GET /x -> 200") with Ok o => o | _ => None end)
  = Some (Some (VInt 200)).
Proof. vm_compute. reflexivity. Qed.

Example ex_noconvert :
  option_map (fun r => get (lit "status") (rdata r))
    (match rx_stage ex_pat ex_from false true (ex_row "GET /x -> 200") with Ok o => o | _ => None end)
  = Some (Some (VStr (lit "200"))).
Proof. vm_compute. reflexivity. Qed.

Example ex_dropped : rx_stage ex_pat ex_from false false (ex_row "nothing") = Ok None.
Proof. vm_compute. reflexivity. Qed.

Example ex_nodrop :
  rx_stage ex_pat ex_from true false (ex_row "nothing")
  = Ok (Some (mkRec [(lit "method", VNone); (lit "msg", VStr (lit "nothing"));
                     (lit "path", VNone); (lit "status", VStr (lit "cached"))] (lit "{}"))).
Proof. vm_compute. reflexivity. Qed.

(** from the line, trimmed *)
Example ex_line :
  rx_stage ex_pat None false false (mkRec [] (lit "  GET /y -> 404  "))
  = Ok (Some (mkRec [(lit "method", VStr (lit "GET")); (lit "path", VStr (lit "/y"));
                     (lit "status", VInt 404)] (lit "  GET /y -> 404  "))).
Proof. vm_compute. reflexivity. Qed.

(** a [from] column that is missing or not a string is an error, not a panic *)
Example ex_from_missing :
  rx_stage ex_pat (Some (ECol (lit "nope") [])) true false (ex_row "GET /x") = Err.
Proof. vm_compute. reflexivity. Qed.

Example ex_unm : rx_stage (lit "(?i)(?P<a>x)") None false false (mkRec [] (lit "x")) = Unm.
Proof. vm_compute. reflexivity. Qed.

Print Assumptions rx_stage_match.
Print Assumptions rx_stage_nonparticipating.
Print Assumptions rx_stage_nomatch_drop.
Print Assumptions rx_stage_nomatch_nodrop.
Print Assumptions rx_stage_no_panic.
Print Assumptions rx_stage_unm.
