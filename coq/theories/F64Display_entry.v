(** Runner entry for the float text: [(f64disp <bits>)] -> a string atom *)
From Coq Require Import List ZArith NArith Bool.
From AG Require Import Str F64 Sexp F64Display.
Import ListNotations.

Definition f64disp_case (c : sexp) : sexp :=
  match c with
  | SList [h; n] =>
      if is_sym h "f64disp" then
        match atom_Z n with
        | Some b => sstr (f64_display (f_of_bits b))
        | None => SList [sym "error"; sstr (lit "f64disp: bad bits")]
        end
      else SList [sym "error"; sstr (lit "f64disp: bad case")]
  | _ => SList [sym "error"; sstr (lit "f64disp: bad case")]
  end.
