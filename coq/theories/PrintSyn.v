(** The stage printer with the documented keyword synonyms and defaults as further spelling
    choices: fields +/only/include/(nothing) and -/except/drop, asc/ascending/(nothing),
    desc/dsc/descending, avg/average, pNN/pctNN/percentileNN, bare `limit` for `limit 10`, an omitted
    `as` when the name is the default one, `from` before or after `as` in parse. *)
From Coq Require Import List ZArith NArith Bool.
From AG Require Import Str F64 Value Json Expr Ops Pipeline Filter Grammar Print.
From AG Require Generated.
Import ListNotations.
Open Scope string_scope.
Open Scope list_scope.
Open Scope N_scope.

Record sopts := mkSO {
  so_only : N;            (* 0: no mode word, 1: `+`, 2: `only`, otherwise: `include` *)
  so_except : N;          (* 0: `except`, 1: `-`, otherwise: `drop` *)
  so_asc : N;             (* 0: no direction word, 1: `asc`, otherwise: `ascending` *)
  so_desc : N;            (* 0: `desc`, 1: `dsc`, otherwise: `descending` *)
  so_average : bool;      (* `average` instead of `avg` *)
  so_pct : N;             (* 0: `p`, 1: `pct`, otherwise: `percentile` *)
  so_bare_limit : bool;   (* `limit` for `limit 10` *)
  so_default_as : bool;   (* omit `as name` where the name is the default one *)
  so_from_last : bool     (* parse "..." as a, b from e  instead of  parse "..." from e as a, b *)
}.

Definition default_agg_name (f : aggfn) : str :=
  match f with
  | FPct q _ => match pct_of q with Some v => default_name_of (LAgg f) (Z_to_str v) | None => [] end
  | _ => default_name_of (LAgg f) []
  end.

Definition aggfn_text_syn (o : popts) (so : sopts) (f : aggfn) : option str :=
  match f with
  | FAvg e => Some ((if so_average so then lit "average" else lit "avg") ++ arg_text o e)
  | FPct q e => match pct_of q with
                | Some v => Some ((if so_pct so =? 0 then lit "p" else if so_pct so =? 1 then lit "pct" else lit "percentile")
                                  ++ Z_to_str v ++ arg_text o e)
                | None => None
                end
  | _ => aggfn_text o f
  end.

Definition agg_item_syn (o : popts) (so : sopts) (nf : str * aggfn) : option str :=
  option_map (fun t => if so_default_as so && str_eqb (fst nf) (default_agg_name (snd nf)) then t
                       else t ++ as_text o (fst nf))
             (aggfn_text_syn o so (snd nf)).

Definition pp_stage_syn (o : popts) (so : sopts) (st : stage) : option str :=
  let w0 := po_ws0 o in
  let w1 := po_ws1 o in
  match st with
  | SParse pat fields f nodrop noconv =>
      let as_part := match fields with [] => [] | _ => w1 ++ lit "as" ++ w1 ++ names_text o fields end in
      Some (lit "parse" ++ w1 ++ quote_str o pat
            ++ (if so_from_last so then as_part ++ from_text o f else from_text o f ++ as_part)
            ++ (if nodrop then w1 ++ lit "nodrop" else [])
            ++ (if noconv then w1 ++ lit "noconvert" else []))
  | SFields only fs =>
      Some (lit "fields" ++ w1
            ++ (if only
                then (if so_only so =? 0 then [] else if so_only so =? 1 then 43 :: w0
                      else if so_only so =? 2 then lit "only" ++ w1 else lit "include" ++ w1)
                else (if so_except so =? 0 then lit "except" ++ w1 else if so_except so =? 1 then 45 :: w0
                      else lit "drop" ++ w1))
            ++ names_text o fs)
  | STimeslice e ns n =>
      Some (lit "timeslice" ++ arg_text o e ++ w1 ++ dur_text ns
            ++ (match n with
                | Some x => as_text o x
                | None => []
                end))
  | SLimit n => if so_bare_limit so && (n =? 10)%Z then Some (lit "limit") else pp_stage o st
  | STotal e n =>
      Some (lit "total" ++ arg_text o e
            ++ (if so_default_as so && str_eqb n (lit "_total") then [] else as_text o n))
  | SAgg fns keys =>
      match all_some (map (agg_item_syn o so) fns) with
      | Some ts =>
          Some (sep_join (comma o) ts
                ++ (match keys with
                    | [] => []
                    | _ => w1 ++ lit "by" ++ w1 ++ sep_join (comma o) (map (fun ke => pp o 0 (snd ke)) keys)
                    end))
      | None => None
      end
  | SSort keys desc =>
      Some (lit "sort"
            ++ (match keys with [] => [] | _ => w1 ++ lit "by" ++ w1 ++ sep_join (comma o) (map (pp o 0) keys) end)
            ++ (if desc
                then w1 ++ (if so_desc so =? 0 then lit "desc" else if so_desc so =? 1 then lit "dsc" else lit "descending")
                else (if so_asc so =? 0 then [] else w1 ++ (if so_asc so =? 1 then lit "asc" else lit "ascending"))))
  | _ => pp_stage o st
  end.

Definition pp_query_syn (o : popts) (so : sopts) (fs : list filter) (stages : list stage) : option str :=
  match all_some (map (pp_stage_syn o so) stages) with
  | Some ts =>
      Some ((match fs with [] => lit "*" | _ => fpp_top o fs end)
            ++ flat_map (fun t => po_ws0 o ++ 124 :: po_ws0 o ++ t) ts)
  | None => None
  end.

(** the canonical keywords are one of the choices *)
Definition so_canonical : sopts := mkSO 0 0 0 0 false 0 false false false.

(** which stages it covers: as [wf_stage], except that a first field named like a mode word is fine
    as soon as a mode word is written out *)
Definition wf_stage_syn (o : popts) (so : sopts) (st : stage) : bool :=
  match st with
  | SFields true fs =>
      negb (is_nil fs) && (negb (so_only so =? 0) || negb (match fs with n :: _ => mode_word n | [] => false end))
  | _ => wf_stage o st
  end.
