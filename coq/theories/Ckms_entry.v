(** s-expression entry point of the CKMS model:
    [(ckms <q-bits> (<v-bits> ...))] -> [(none)] | [(some <rank> <value-bits>)]
    | [(unmodelled)] (a NaN among the values or as q: the tool never inserts a
    NaN and never queries with one).  Numbers are IEEE-754 binary64 bit patterns. *)
From Coq Require Import List ZArith Bool Floats.SpecFloat.
From AG Require Import Str F64 Sexp Ckms.
Import ListNotations.
Open Scope string_scope.
Open Scope Z_scope.

Definition ckms_err : f64 := f_of_bits 4562254508917369340.   (* 0.001 *)

Definition dec_bits (x : sexp) : option f64 :=
  match atom_Z x with
  | Some z => if (0 <=? z) && (z <? 2 ^ 64) then Some (f_of_bits z) else None
  | None => None
  end.

Definition ckms_case (c : sexp) : sexp :=
  match c with
  | SList [h; qb; SList vs] =>
      if is_sym h "ckms" then
        match dec_bits qb, map_opt dec_bits vs with
        | Some q, Some vals =>
            if f_is_nan q || existsb f_is_nan vals then SList [sym "unmodelled"]
            else
              match ckms_run ckms_err vals q with
              | None => SList [sym "none"]
              | Some (r, v) => SList [sym "some"; sint r; sint (bits_of_f v)]
              end
        | _, _ => sym "bad-case"
        end
      else sym "bad-case"
  | _ => sym "bad-case"
  end.
