(** The render thread of an aggregate pipeline (src/lib.rs [render_aggregate], src/render.rs
    [Renderer::render] / [should_print]) as a state machine over what the thread observes:

      loop {  recv_timeout(50ms):  Ok(row) -> head.process(row) | Timeout -> () | Disconnected -> break;
              if renderer.should_print() { render(run_agg_pipeline(head, rest), false) }  }
      render(run_agg_pipeline(head, rest), true)

    [should_print]: on a terminal, and no frame yet or more than [interval] since the last one; never when
    stdout is not a terminal.  A frame is the printed table of ALL rows absorbed so far ([table]); the last
    call prints [final] of all rows.  Time is what the thread reads from the clock when it asks. *)
From Coq Require Import List Arith Bool Lia.
Import ListNotations.

Section Loop.
Variables (A F : Type).
Variable table : list A -> F.      (* AggregatePrinter::print of run_agg_pipeline on the rows so far *)
Variable final : list A -> F.      (* AggregatePrinter::final_print of the same *)
Variable interval : nat.

Inductive ev := Recv (r : A) (t : nat) | Timeout (t : nat).

Record rstate := mkR { r_rows : list A; r_last : option nat; r_out : list (bool * F) }.   (* (is the final call, text), oldest first *)

Definition ev_time (e : ev) : nat := match e with Recv _ t | Timeout t => t end.
Definition ev_rows (e : ev) : list A := match e with Recv r _ => [r] | Timeout _ => [] end.

Definition should_print (tty : bool) (last : option nat) (now : nat) : bool :=
  tty && match last with None => true | Some l => Nat.ltb interval (now - l) end.

Definition loop_step (tty : bool) (s : rstate) (e : ev) : rstate :=
  let rows' := r_rows s ++ ev_rows e in
  if should_print tty (r_last s) (ev_time e)
  then mkR rows' (Some (ev_time e)) (r_out s ++ [(false, table rows')])
  else mkR rows' (r_last s) (r_out s).

Definition init : rstate := mkR [] None [].

(** the whole run: the events until the channel is disconnected, then the final call *)
Definition run_loop (tty : bool) (evs : list ev) : list (bool * F) :=
  let s := fold_left (loop_step tty) evs init in
  r_out s ++ [(true, final (r_rows s))].

Definition received (evs : list ev) : list A := flat_map ev_rows evs.

Lemma rows_fold tty : forall evs s, r_rows (fold_left (loop_step tty) evs s) = r_rows s ++ received evs.
Proof.
  induction evs as [|e evs IH]; intros s; cbn [fold_left received flat_map]; [now rewrite app_nil_r|].
  rewrite IH. unfold loop_step. destruct (should_print tty (r_last s) (ev_time e)); cbn [r_rows];
    now rewrite <- app_assoc.
Qed.

(** every frame drawn inside the loop is the table of a PREFIX of what was received, in order, never marked final *)
Definition prefix_frame (all : list A) (f : bool * F) : Prop :=
  exists k, f = (false, table (firstn k all)).

Lemma out_fold tty : forall evs s all,
  (exists k, r_rows s = firstn k all /\ firstn k all ++ received evs = all) ->
  Forall (prefix_frame all) (r_out s) ->
  Forall (prefix_frame all) (r_out (fold_left (loop_step tty) evs s)).
Proof.
  induction evs as [|e evs IH]; intros s all (k & Hk & Hall) HF; cbn [fold_left]; [exact HF|].
  cbn [received flat_map] in Hall.
  assert (Hpre : exists k', r_rows s ++ ev_rows e = firstn k' all /\ firstn k' all ++ received evs = all).
  { rewrite Hk. remember (firstn k all ++ ev_rows e) as P eqn:HP.
    assert (Hall' : all = P ++ received evs) by (subst P; rewrite <- app_assoc; symmetry; exact Hall).
    assert (HF' : firstn (length P) all = P).
    { rewrite Hall'. rewrite firstn_app, firstn_all, Nat.sub_diag. cbn [firstn]. apply app_nil_r. }
    exists (length P). rewrite HF'. split; [reflexivity|symmetry; exact Hall']. }
  apply IH.
  - unfold loop_step. destruct (should_print tty (r_last s) (ev_time e)); cbn [r_rows]; exact Hpre.
  - unfold loop_step. destruct (should_print tty (r_last s) (ev_time e)); cbn [r_out]; [|exact HF].
    apply Forall_app. split; [exact HF|]. constructor; [|constructor].
    destruct Hpre as (k' & Hk' & _). exists k'. now rewrite Hk'.
Qed.

(** THE RUN: some frames, each the table of a prefix of the rows received, then exactly one final
    call, on ALL the rows received - whatever the pacing of rows and timeouts *)
Theorem run_loop_shape : forall tty evs,
  exists frames, run_loop tty evs = frames ++ [(true, final (received evs))] /\
                 Forall (prefix_frame (received evs)) frames.
Proof.
  intros tty evs. unfold run_loop. exists (r_out (fold_left (loop_step tty) evs init)). split.
  - rewrite rows_fold. reflexivity.
  - apply out_fold; [|constructor]. exists 0. cbn. split; reflexivity.
Qed.

(** not a terminal: nothing but the final call, exactly once *)
Lemma no_tty_fold : forall evs s, r_out (fold_left (loop_step false) evs s) = r_out s.
Proof. induction evs as [|e evs IH]; intros s; cbn [fold_left]; [reflexivity|]. rewrite IH. reflexivity. Qed.

Theorem run_loop_no_tty : forall evs, run_loop false evs = [(true, final (received evs))].
Proof. intros evs. unfold run_loop. rewrite no_tty_fold, rows_fold. reflexivity. Qed.

(** catching up: a frame drawn at an iteration shows EVERYTHING received up to and including it *)
Theorem drawn_frame_is_current : forall tty evs e,
  let s := fold_left (loop_step tty) evs init in
  should_print tty (r_last s) (ev_time e) = true ->
  r_out (loop_step tty s e) = r_out s ++ [(false, table (received (evs ++ [e])))].
Proof.
  intros tty evs e s H. unfold loop_step. rewrite H. cbn [r_out]. subst s. rewrite rows_fold. cbn [init r_rows app].
  unfold received. rewrite flat_map_app. cbn [flat_map]. now rewrite app_nil_r.
Qed.

(** bounded delay while input is idle: of two consecutive timeouts more than [interval] apart at least one
    draws a frame, and that frame shows every row received so far *)
(* (hypothesis on the clock: see the statement) *)
Theorem idle_catches_up : forall evs t t',
  interval < t' - t ->
  let s0 := fold_left (loop_step true) evs init in
  (forall l, r_last s0 = Some l -> l <= t) ->            (* the clock is monotone: the last frame was not drawn after t *)
  let s2 := fold_left (loop_step true) [Timeout t; Timeout t'] s0 in
  exists pre, r_out s2 = pre ++ [(false, table (received evs))] /\ r_rows s2 = received evs.
Proof.
  intros evs t t' Ht s0 Hmono s2. subst s2. cbn [fold_left].
  assert (Hr0 : r_rows s0 = received evs) by (subst s0; rewrite rows_fold; reflexivity).
  assert (H1 : loop_step true s0 (Timeout t) =
               if should_print true (r_last s0) t
               then mkR (r_rows s0) (Some t) (r_out s0 ++ [(false, table (r_rows s0))])
               else mkR (r_rows s0) (r_last s0) (r_out s0)).
  { unfold loop_step. cbn [ev_rows ev_time]. rewrite app_nil_r. reflexivity. }
  rewrite H1. clear H1. destruct (should_print true (r_last s0) t) eqn:E1.
  - (* drew at t: the second timeout may or may not draw again; either way the last frame is current *)
    unfold loop_step. cbn [r_rows r_last r_out ev_rows ev_time]. rewrite app_nil_r.
    destruct (should_print true (Some t) t'); cbn [r_out r_rows]; rewrite Hr0; eexists; split; reflexivity.
  - (* too early at t: then t' is late enough *)
    assert (E2 : should_print true (r_last s0) t' = true).
    { unfold should_print in *. cbn [andb] in *. destruct (r_last s0) as [l|]; [|discriminate].
      specialize (Hmono l eq_refl). apply Nat.ltb_ge in E1. apply Nat.ltb_lt. lia. }
    unfold loop_step. cbn [r_rows r_last r_out ev_rows ev_time]. rewrite app_nil_r, E2.
    cbn [r_out r_rows]. rewrite Hr0. eexists. split; reflexivity.
Qed.

End Loop.
