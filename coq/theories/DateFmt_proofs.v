(** Theorems about the date texts of DateFmt.v: the civil-date algorithm inverts [days_from_civil]
    (all of Z), the three texts determine the instant (a left inverse [unfmt]), the JSON text parses
    back with the model of parseDate ([parse_rfc3339_utc], which reads the years 1678..2261 only). *)
From Coq Require Import List ZArith NArith Bool Lia.
From AG Require Import Str Value Expr DateFmt.
Import ListNotations.
Open Scope Z_scope.
Ltac Zify.zify_post_hook ::= Z.div_mod_to_equations.

(** * civil dates *)
Lemma yoe_ok doe :
  0 <= doe < 146097 ->
  let yoe := (doe - doe / 1460 + doe / 36524 - doe / 146096) / 365 in
  let doy := doe - (365 * yoe + yoe / 4 - yoe / 100) in
  0 <= yoe <= 399 /\ 0 <= doy <= 365 /\
  (doy = 365 -> (yoe mod 4 = 3 /\ yoe mod 100 <> 99) \/ yoe = 399).
Proof.
  intros Hd yoe doy. subst doy yoe. lia.
Qed.

(** the components of [civil_from_days], named *)
Definition cfd_era (d : Z) := (d + 719468) / 146097.
Definition cfd_doe (d : Z) := (d + 719468) - cfd_era d * 146097.
Definition cfd_yoe (d : Z) := let doe := cfd_doe d in (doe - doe / 1460 + doe / 36524 - doe / 146096) / 365.
Definition cfd_doy (d : Z) := let yoe := cfd_yoe d in cfd_doe d - (365 * yoe + yoe / 4 - yoe / 100).
Definition cfd_mp (d : Z) := (5 * cfd_doy d + 2) / 153.

Lemma cfd_eq d :
  civil_from_days d =
  (let m := if cfd_mp d <? 10 then cfd_mp d + 3 else cfd_mp d - 9 in
   (if m <=? 2 then cfd_yoe d + cfd_era d * 400 + 1 else cfd_yoe d + cfd_era d * 400,
    m, cfd_doy d - (153 * cfd_mp d + 2) / 5 + 1)).
Proof. reflexivity. Qed.

Lemma cfd_doe_range d : 0 <= cfd_doe d < 146097.
Proof. unfold cfd_doe, cfd_era. lia. Qed.

Lemma cfd_parts d :
  0 <= cfd_yoe d <= 399 /\ 0 <= cfd_doy d <= 365 /\
  (cfd_doy d = 365 -> (cfd_yoe d mod 4 = 3 /\ cfd_yoe d mod 100 <> 99) \/ cfd_yoe d = 399).
Proof. exact (yoe_ok (cfd_doe d) (cfd_doe_range d)). Qed.

Lemma cfd_mp_range d : 0 <= cfd_mp d <= 11.
Proof. pose proof (cfd_parts d) as (_ & Hdoy & _). unfold cfd_mp. lia. Qed.

Theorem civil_roundtrip : forall d,
  let '(y, m, dd) := civil_from_days d in days_from_civil y m dd = d.
Proof.
  intros d. rewrite cfd_eq. cbv zeta.
  pose proof (cfd_parts d) as (Hyoe & Hdoy & _).
  pose proof (cfd_mp_range d) as Hmp.
  pose proof (cfd_doe_range d) as Hdoe.
  assert (cfd_doe d = 365 * cfd_yoe d + cfd_yoe d / 4 - cfd_yoe d / 100 + cfd_doy d) as Edoe
    by (unfold cfd_doy; lia).
  assert (d = cfd_era d * 146097 + cfd_doe d - 719468) as Ed by (unfold cfd_doe; lia).
  set (mp := cfd_mp d) in *. set (yoe := cfd_yoe d) in *. set (era := cfd_era d) in *.
  set (doy := cfd_doy d) in *. set (doe := cfd_doe d) in *.
  unfold days_from_civil.
  destruct (mp <? 10) eqn:Emp.
  - assert ((mp + 3 <=? 2) = false) as -> by lia.
    assert ((2 <? mp + 3) = true) as -> by lia.
    replace ((yoe + era * 400) / 400) with era by lia.
    replace (mp + 3 - 3) with mp by lia. lia.
  - assert ((mp - 9 <=? 2) = true) as -> by lia.
    assert ((2 <? mp - 9) = false) as -> by lia.
    replace (yoe + era * 400 + 1 - 1) with (yoe + era * 400) by lia.
    replace ((yoe + era * 400) / 400) with era by lia.
    replace (mp - 9 + 9) with mp by lia. lia.
Qed.

Theorem civil_ranges : forall d,
  let '(y, m, dd) := civil_from_days d in 1 <= m <= 12 /\ 1 <= dd <= days_in_month y m.
Proof.
  intros d. rewrite cfd_eq. cbv zeta.
  pose proof (cfd_parts d) as (Hyoe & Hdoy & Hleap).
  pose proof (cfd_mp_range d) as Hmp.
  assert (cfd_mp d = (5 * cfd_doy d + 2) / 153) as Emp by reflexivity.
  set (mp := cfd_mp d) in *. set (yoe := cfd_yoe d) in *. set (era := cfd_era d) in *.
  set (doy := cfd_doy d) in *.
  set (m := if mp <? 10 then mp + 3 else mp - 9).
  assert (m = mp + 3 /\ mp < 10 \/ m = mp - 9 /\ 10 <= mp) as Hm
    by (subst m; destruct (mp <? 10) eqn:Elt; lia).
  clearbody m. unfold days_in_month.
  destruct (Z.eqb_spec m 2) as [E2|N2].
  - assert ((m <=? 2) = true) as -> by lia.
    split; [lia|].
    destruct (Z.eq_dec doy 365) as [E365|N365].
    + destruct (Hleap E365) as [[H4 H100]|H399].
      * assert (((yoe + era * 400 + 1) mod 4 =? 0) = true) as -> by lia.
        assert (((yoe + era * 400 + 1) mod 100 =? 0) = false) as -> by lia.
        cbn [negb andb orb]. lia.
      * assert (((yoe + era * 400 + 1) mod 400 =? 0) = true) as -> by lia.
        rewrite orb_true_r. lia.
    + destruct (_ || _); lia.
  - destruct (Z.eqb_spec m 4), (Z.eqb_spec m 6), (Z.eqb_spec m 9), (Z.eqb_spec m 11); cbn [orb]; lia.
Qed.

(** * digits *)
Lemma dig_is_digit z : is_digit (dig z) = true.
Proof. unfold is_digit, dig. apply andb_true_intro; split; apply N.leb_le; lia. Qed.

Lemma dig_not c z : is_digit c = false -> (dig z =? c)%N = false.
Proof.
  intros Hc. destruct (N.eqb_spec (dig z) c) as [E|N]; [|reflexivity].
  rewrite <- E, dig_is_digit in Hc. discriminate.
Qed.

Lemma digs_length k : forall z, length (digs k z) = k.
Proof. induction k as [|k IH]; intros z; cbn [digs]; [reflexivity|]. rewrite app_length, IH. cbn. lia. Qed.

Lemma digs_all_digits k : forall z, forallb is_digit (digs k z) = true.
Proof.
  induction k as [|k IH]; intros z; cbn [digs]; [reflexivity|].
  rewrite forallb_app, IH. cbn [forallb]. now rewrite dig_is_digit.
Qed.

Lemma digits_val_app : forall a b acc, digits_val (a ++ b) acc = digits_val b (digits_val a acc).
Proof. induction a as [|x a IH]; intros b acc; cbn [app digits_val]; [reflexivity|apply IH]. Qed.

Lemma digs_val k : forall z acc, 0 <= z ->
  Z.of_N (digits_val (digs k z) acc) = Z.of_N acc * 10 ^ Z.of_nat k + z mod 10 ^ Z.of_nat k.
Proof.
  induction k as [|k IH]; intros z acc Hz.
  - cbn [digs digits_val]. change (10 ^ Z.of_nat 0) with 1. rewrite Z.mod_1_r. lia.
  - cbn [digs]. rewrite digits_val_app. cbn [digits_val].
    rewrite Nat2Z.inj_succ, Z.pow_succ_r by lia.
    assert (0 < 10 ^ Z.of_nat k) as Hp by (apply Z.pow_pos_nonneg; lia).
    rewrite (Z.rem_mul_r z 10 (10 ^ Z.of_nat k)) by lia.
    assert (0 <= z / 10) as Hz' by lia.
    specialize (IH (z / 10) acc Hz').
    set (p := 10 ^ Z.of_nat k) in *. set (v := digits_val (digs k (z / 10)) acc) in *.
    unfold dig.
    assert (Z.of_N (v * 10 + (48 + Z.to_N (z mod 10) - 48)) = Z.of_N v * 10 + z mod 10) as -> by lia.
    rewrite IH. set (q := (z / 10) mod p). nia.
Qed.

Definition val (s : str) : Z := Z.of_N (digits_val s 0).

Lemma val_digs k z : 0 <= z < 10 ^ Z.of_nat k -> val (digs k z) = z.
Proof. intros Hz. unfold val. rewrite digs_val by lia. rewrite Z.mod_small by lia. reflexivity. Qed.

Definition nondigit_head (s : str) : bool :=
  match s with [] => true | c :: _ => negb (is_digit c) end.

Lemma take_digits_app : forall ds rest,
  forallb is_digit ds = true -> nondigit_head rest = true -> take_digits (ds ++ rest) = (ds, rest).
Proof.
  induction ds as [|c ds IH]; intros rest Hd Hr.
  - cbn [app]. destruct rest as [|x r]; [reflexivity|]. cbn [take_digits].
    cbn [nondigit_head] in Hr. apply negb_true_iff in Hr. now rewrite Hr.
  - cbn [forallb] in Hd. apply andb_prop in Hd as [Hc Hd].
    cbn [app take_digits]. rewrite Hc, (IH rest Hd Hr). reflexivity.
Qed.

Lemma ndig_fuel_bound : forall f a, 0 <= a < 2 ^ Z.of_nat f -> a < 10 ^ Z.of_nat (ndig_fuel f a).
Proof.
  induction f as [|f IH]; intros a Ha.
  - cbn [ndig_fuel]. change (2 ^ Z.of_nat 0) with 1 in Ha. change (10 ^ Z.of_nat 0) with 1. lia.
  - cbn [ndig_fuel]. destruct (Z.ltb_spec a 10) as [Hlt|Hge].
    + change (10 ^ Z.of_nat 1) with 10. lia.
    + rewrite Nat2Z.inj_succ, Z.pow_succ_r in Ha by lia.
      assert (0 <= a / 10 < 2 ^ Z.of_nat f) as Hq by lia.
      specialize (IH (a / 10) Hq).
      rewrite Nat2Z.inj_succ, Z.pow_succ_r by lia. lia.
Qed.

Lemma ndig_bound a : 0 <= a -> a < 10 ^ Z.of_nat (ndig a).
Proof.
  intros Ha. unfold ndig. apply ndig_fuel_bound. split; [lia|].
  destruct (Z.eq_dec a 0) as [->|Hnz]; [reflexivity|].
  rewrite Nat2Z.inj_succ, Z2Nat.id by apply Z.log2_nonneg.
  apply Z.log2_spec. lia.
Qed.

Lemma year_digits_bound a : 0 <= a -> a < 10 ^ Z.of_nat (Nat.max 4 (ndig a)).
Proof.
  intros Ha. pose proof (ndig_bound a Ha) as Hb.
  eapply Z.lt_le_trans; [exact Hb|]. apply Z.pow_le_mono_r; lia.
Qed.

(** * a reader for the three texts (a left inverse; used for injectivity only) *)
Definition un_year (s : str) : Z * str :=
  let '(sg, r0) := match s with
                   | c :: r => if (c =? 45)%N then (-1, r) else if (c =? 43)%N then (1, r) else (1, s)
                   | [] => (1, s)
                   end in
  let '(yd, r1) := take_digits r0 in (sg * val yd, r1).

Definition un_frac (s : str) : Z :=
  match s with
  | c :: r => if (c =? 46)%N
              then let '(fd, _) := take_digits r in val fd * 10 ^ (9 - Z.of_nat (length fd))
              else 0
  | [] => 0
  end.

Definition unfmt (s : str) : option Z :=
  let '(y, r1) := un_year s in
  match r1 with
  | _ :: m1 :: m2 :: _ :: d1 :: d2 :: _ :: h1 :: h2 :: _ :: i1 :: i2 :: _ :: s1 :: s2 :: rest =>
      Some ((((days_from_civil y (val [m1; m2]) (val [d1; d2]) * 24 + val [h1; h2]) * 60 + val [i1; i2]) * 60
             + val [s1; s2]) * 1000000000 + un_frac rest)
  | _ => None
  end.

Lemma digs2 z : digs 2 z = [dig (z / 10); dig z].
Proof. reflexivity. Qed.
Lemma digs4 z : digs 4 z = [dig (z / 10 / 10 / 10); dig (z / 10 / 10); dig (z / 10); dig z].
Proof. reflexivity. Qed.

Lemma val2 x : 0 <= x < 100 -> val [dig (x / 10); dig x] = x.
Proof. intros Hx. rewrite <- digs2. apply val_digs. change (10 ^ Z.of_nat 2) with 100. lia. Qed.

Lemma un_year_str y rest :
  nondigit_head rest = true -> un_year (year_str y ++ rest) = (y, rest).
Proof.
  intros Hr. unfold year_str, un_year.
  destruct ((0 <=? y) && (y <=? 9999)) eqn:Er.
  - rewrite digs4. cbn [app].
    rewrite !dig_not by reflexivity.
    change (dig (y / 10 / 10 / 10) :: dig (y / 10 / 10) :: dig (y / 10) :: dig y :: rest)
      with (digs 4 y ++ rest).
    rewrite take_digits_app by (auto using digs_all_digits).
    rewrite val_digs by (change (10 ^ Z.of_nat 4) with 10000; lia).
    f_equal. lia.
  - cbn [app].
    pose proof (year_digits_bound (Z.abs y) (Z.abs_nonneg y)) as Hb.
    destruct (y <? 0) eqn:Eneg.
    + rewrite N.eqb_refl.
      rewrite take_digits_app by (auto using digs_all_digits).
      rewrite val_digs by lia. f_equal. lia.
    + change ((43 =? 45)%N) with false. rewrite N.eqb_refl.
      rewrite take_digits_app by (auto using digs_all_digits).
      rewrite val_digs by lia. f_equal. lia.
Qed.

Definition tail_ok (t : str) : bool :=
  match t with [] => true | c :: _ => negb (is_digit c) && negb (c =? 46)%N end.

Lemma tail_ok_nondigit t : tail_ok t = true -> nondigit_head t = true.
Proof. destruct t as [|c t]; [reflexivity|]. cbn. intros H. now apply andb_prop in H as [-> _]. Qed.

Lemma un_frac_str nano tail :
  0 <= nano < 1000000000 -> tail_ok tail = true -> un_frac (frac_str nano ++ tail) = nano.
Proof.
  intros Hn Ht. pose proof (tail_ok_nondigit tail Ht) as Hnd. unfold frac_str.
  destruct (Z.eqb_spec nano 0) as [E0|N0].
  - cbn [app]. unfold un_frac. destruct tail as [|c t]; [lia|].
    cbn [tail_ok] in Ht. apply andb_prop in Ht as [_ Ht]. apply negb_true_iff in Ht. rewrite Ht. lia.
  - destruct (Z.eqb_spec (nano mod 1000000) 0) as [E6|N6]; [|destruct (Z.eqb_spec (nano mod 1000) 0) as [E3|N3]];
      cbn [app]; unfold un_frac; rewrite N.eqb_refl;
      rewrite take_digits_app by (auto using digs_all_digits);
      rewrite digs_length.
    + rewrite val_digs by (change (10 ^ Z.of_nat 3) with 1000; lia).
      change (10 ^ (9 - Z.of_nat 3)) with 1000000. lia.
    + rewrite val_digs by (change (10 ^ Z.of_nat 6) with 1000000; lia).
      change (10 ^ (9 - Z.of_nat 6)) with 1000. lia.
    + rewrite val_digs by (change (10 ^ Z.of_nat 9) with 1000000000; lia).
      change (10 ^ (9 - Z.of_nat 9)) with 1. lia.
Qed.

Lemma ns_split ns :
  0 <= ns_hour ns < 24 /\ 0 <= ns_min ns < 60 /\ 0 <= ns_sec ns < 60 /\ 0 <= ns_nanos ns < 1000000000 /\
  (((ns_days ns * 24 + ns_hour ns) * 60 + ns_min ns) * 60 + ns_sec ns) * 1000000000 + ns_nanos ns = ns.
Proof. unfold ns_hour, ns_min, ns_sec, ns_nanos, ns_days, ns_sod, ns_secs, ns_per_s. lia. Qed.

Theorem unfmt_fmt_gen sep tail ns :
  tail_ok tail = true -> unfmt (fmt_gen sep tail ns) = Some ns.
Proof.
  intros Ht. unfold fmt_gen, unfmt.
  pose proof (civil_roundtrip (ns_days ns)) as Hrt.
  pose proof (civil_ranges (ns_days ns)) as Hrg.
  destruct (civil_from_days (ns_days ns)) as [[y m] d].
  destruct Hrg as [Hm Hd].
  assert (days_in_month y m <= 31) as Hdim
    by (unfold days_in_month; repeat match goal with |- context [if ?b then _ else _] => destruct b end; lia).
  pose proof (ns_split ns) as (Hh & Hmi & Hs & Hn & Hns).
  rewrite un_year_str by reflexivity.
  rewrite !digs2. cbn [app].
  rewrite !val2 by lia.
  rewrite un_frac_str by assumption.
  rewrite Hrt. f_equal. exact Hns.
Qed.

(** * injectivity: the text determines the instant (every [ns : Z], no range hypothesis needed) *)
Theorem rfc3339_injective a b : fmt_rfc3339 a = fmt_rfc3339 b -> a = b.
Proof.
  intros H. apply (f_equal unfmt) in H. unfold fmt_rfc3339 in H.
  rewrite !unfmt_fmt_gen in H by reflexivity. now injection H.
Qed.
Theorem display_injective a b :
  date_ok a = true -> date_ok b = true -> fmt_date_display a = fmt_date_display b -> a = b.
Proof.
  intros _ _ H. apply (f_equal unfmt) in H. unfold fmt_date_display in H.
  rewrite !unfmt_fmt_gen in H by reflexivity. now injection H.
Qed.
Theorem debug_injective a b :
  date_ok a = true -> date_ok b = true -> fmt_date_debug a = fmt_date_debug b -> a = b.
Proof.
  intros _ _ H. apply (f_equal unfmt) in H. unfold fmt_date_debug in H.
  rewrite !unfmt_fmt_gen in H by reflexivity. now injection H.
Qed.

(** * the JSON text parses back ([parse_rfc3339_utc] = the model of parseDate: years 1678..2261 only) *)
Definition year_parseable (ns : Z) : bool := (1678 <=? ns_year ns) && (ns_year ns <=? 2261).

Lemma two_digits_dig x : two_digits (dig (x / 10)) (dig x) = Some (x mod 100).
Proof.
  unfold two_digits. rewrite !dig_is_digit. cbn [andb]. f_equal. unfold dig. lia.
Qed.

Theorem rfc3339_roundtrip ns :
  date_ok ns = true -> year_parseable ns = true -> parse_rfc3339_utc (fmt_rfc3339 ns) = Some ns.
Proof.
  intros _ Hy. unfold year_parseable, ns_year in Hy.
  unfold fmt_rfc3339, fmt_gen.
  pose proof (civil_roundtrip (ns_days ns)) as Hrt.
  pose proof (civil_ranges (ns_days ns)) as Hrg.
  destruct (civil_from_days (ns_days ns)) as [[y m] d].
  destruct Hrg as [Hm Hd].
  assert (days_in_month y m <= 31) as Hdim
    by (unfold days_in_month; repeat match goal with |- context [if ?b then _ else _] => destruct b end; lia).
  pose proof (ns_split ns) as (Hh & Hmi & Hs & Hn & Hns).
  apply andb_prop in Hy as [Hy1 Hy2]. apply Z.leb_le in Hy1, Hy2.
  unfold year_str. assert ((0 <=? y) && (y <=? 9999) = true) as -> by lia.
  rewrite digs4, !digs2. cbn [app].
  unfold parse_rfc3339_utc.
  rewrite !two_digits_dig.
  assert ((y / 10 / 10) mod 100 * 100 + y mod 100 = y) as -> by lia.
  rewrite !(Z.mod_small _ 100) by lia.
  assert ((1678 <=? y) && (y <=? 2261) && (1 <=? m) && (m <=? 12) && (1 <=? d) && (d <=? days_in_month y m)
          && (ns_hour ns <? 24) && (ns_min ns <? 60) && (ns_sec ns <? 60) = true) as Hok.
  { repeat (apply andb_true_intro; split); lia. }
  unfold frac_str.
  destruct (Z.eqb_spec (ns_nanos ns) 0) as [E0|N0].
  - cbn [app]. change (parse_zone [43; 48; 48; 58; 48; 48]%N) with (Some 0).
    cbv beta iota. rewrite Hok. f_equal. lia.
  - destruct (Z.eqb_spec (ns_nanos ns mod 1000000) 0) as [E6|N6];
      [|destruct (Z.eqb_spec (ns_nanos ns mod 1000) 0) as [E3|N3]];
      cbn [app]; rewrite take_digits_app by (auto using digs_all_digits);
      change (parse_zone [43; 48; 48; 58; 48; 48]%N) with (Some 0);
      rewrite digs_length; cbv beta iota; cbn [Nat.leb andb Nat.sub];
      fold (val (digs 3 (ns_nanos ns / 1000000))); fold (val (digs 6 (ns_nanos ns / 1000)));
      fold (val (digs 9 (ns_nanos ns))).
    + rewrite val_digs by (change (10 ^ Z.of_nat 3) with 1000; lia). rewrite Hok. f_equal.
      change (10 ^ Z.of_nat 6) with 1000000. lia.
    + rewrite val_digs by (change (10 ^ Z.of_nat 6) with 1000000; lia). rewrite Hok. f_equal.
      change (10 ^ Z.of_nat 3) with 1000. lia.
    + rewrite val_digs by (change (10 ^ Z.of_nat 9) with 1000000000; lia). rewrite Hok. f_equal.
      change (10 ^ Z.of_nat 0) with 1. lia.
Qed.

(** * shape *)
Definition year_4digit (ns : Z) : bool := (0 <=? ns_year ns) && (ns_year ns <=? 9999).

Lemma frac_str_length nano :
  length (frac_str nano) = 0%nat \/ length (frac_str nano) = 4%nat \/
  length (frac_str nano) = 7%nat \/ length (frac_str nano) = 10%nat.
Proof.
  unfold frac_str. destruct (nano =? 0); [left; reflexivity|].
  destruct (nano mod 1000000 =? 0); [right; left; cbn [length]; now rewrite digs_length|].
  destruct (nano mod 1000 =? 0); right; right; [left|right]; cbn [length]; now rewrite digs_length.
Qed.

Lemma fmt_gen_length sep tail ns :
  year_4digit ns = true ->
  length (fmt_gen sep tail ns) = (19 + length (frac_str (ns_nanos ns)) + length tail)%nat.
Proof.
  unfold year_4digit, ns_year, fmt_gen. destruct (civil_from_days (ns_days ns)) as [[y m] d]. intros Hy.
  unfold year_str. rewrite Hy. rewrite digs4, !digs2. cbn [app length]. rewrite app_length. lia.
Qed.

(** the Display text of a date with a four-digit year: 23 characters, plus 0 / 4 / 7 / 10 for the fraction *)
Theorem display_length ns :
  year_4digit ns = true ->
  exists k, (k = 0 \/ k = 4 \/ k = 7 \/ k = 10)%nat /\ length (fmt_date_display ns) = (23 + k)%nat.
Proof.
  intros Hy. unfold fmt_date_display. rewrite fmt_gen_length by assumption.
  exists (length (frac_str (ns_nanos ns))). split; [apply frac_str_length|]. cbn [length]. lia.
Qed.
Theorem rfc3339_length ns :
  year_4digit ns = true ->
  exists k, (k = 0 \/ k = 4 \/ k = 7 \/ k = 10)%nat /\ length (fmt_rfc3339 ns) = (25 + k)%nat.
Proof.
  intros Hy. unfold fmt_rfc3339. rewrite fmt_gen_length by assumption.
  exists (length (frac_str (ns_nanos ns))). split; [apply frac_str_length|]. cbn [length]. lia.
Qed.
Theorem debug_length ns :
  year_4digit ns = true ->
  exists k, (k = 0 \/ k = 4 \/ k = 7 \/ k = 10)%nat /\ length (fmt_date_debug ns) = (20 + k)%nat.
Proof.
  intros Hy. unfold fmt_date_debug. rewrite fmt_gen_length by assumption.
  exists (length (frac_str (ns_nanos ns))). split; [apply frac_str_length|]. cbn [length]. lia.
Qed.

Lemma fmt_gen_tail sep tail ns : exists p, fmt_gen sep tail ns = p ++ tail.
Proof.
  unfold fmt_gen. destruct (civil_from_days (ns_days ns)) as [[y m] d].
  eexists. repeat (rewrite ?app_comm_cons, ?app_assoc). reflexivity.
Qed.
Theorem display_ends_utc ns : exists p, fmt_date_display ns = p ++ [32; 85; 84; 67]%N.
Proof. apply fmt_gen_tail. Qed.
Theorem rfc3339_ends_offset ns : exists p, fmt_rfc3339 ns = p ++ [43; 48; 48; 58; 48; 48]%N.
Proof. apply fmt_gen_tail. Qed.
Theorem debug_ends_z ns : exists p, fmt_date_debug ns = p ++ [90%N].
Proof. apply fmt_gen_tail. Qed.

(** * examples *)
Local Open Scope string_scope.
Example ex_epoch_rfc : fmt_rfc3339 0 = lit "1970-01-01T00:00:00+00:00". Proof. vm_compute. reflexivity. Qed.
Example ex_epoch_disp : fmt_date_display 0 = lit "1970-01-01 00:00:00 UTC". Proof. vm_compute. reflexivity. Qed.
Example ex_epoch_dbg : fmt_date_debug 0 = lit "1970-01-01T00:00:00Z". Proof. vm_compute. reflexivity. Qed.
Example ex_before_epoch : fmt_rfc3339 (-1) = lit "1969-12-31T23:59:59.999999999+00:00". Proof. vm_compute. reflexivity. Qed.
Example ex_before_epoch_disp : fmt_date_display (-1) = lit "1969-12-31 23:59:59.999999999 UTC". Proof. vm_compute. reflexivity. Qed.
Example ex_leap_2000 : fmt_date_debug 951782400000000000 = lit "2000-02-29T00:00:00Z". Proof. vm_compute. reflexivity. Qed.
Example ex_1900_03_01 : fmt_date_display (-2203891200000000000) = lit "1900-03-01 00:00:00 UTC". Proof. vm_compute. reflexivity. Qed.
Example ex_1900_02_28 : fmt_date_display (-2203891200000000001) = lit "1900-02-28 23:59:59.999999999 UTC". Proof. vm_compute. reflexivity. Qed.
Example ex_9999 : fmt_rfc3339 253402300799999999999 = lit "9999-12-31T23:59:59.999999999+00:00". Proof. vm_compute. reflexivity. Qed.
Example ex_10000 : fmt_rfc3339 253402300800000000000 = lit "+10000-01-01T00:00:00+00:00". Proof. vm_compute. reflexivity. Qed.
Example ex_10000_ok : date_ok 253402300800000000000 = true. Proof. vm_compute. reflexivity. Qed.
Example ex_year0 : fmt_date_debug (-62167219200000000000) = lit "0000-01-01T00:00:00Z". Proof. vm_compute. reflexivity. Qed.
Example ex_year_m1 : fmt_date_display (-62167219200000000001) = lit "-0001-12-31 23:59:59.999999999 UTC". Proof. vm_compute. reflexivity. Qed.
Example ex_year_m1_ok : date_ok (-62167219200000000001) = true. Proof. vm_compute. reflexivity. Qed.
Example ex_min : fmt_rfc3339 date_min_ns = lit "-262144-01-01T00:00:00+00:00". Proof. vm_compute. reflexivity. Qed.
Example ex_max : fmt_date_debug (date_max_ns - 1) = lit "+262143-12-31T23:59:59.999999999Z". Proof. vm_compute. reflexivity. Qed.
Example ex_frac3 : fmt_rfc3339 1628640000500000000 = lit "2021-08-11T00:00:00.500+00:00". Proof. vm_compute. reflexivity. Qed.
Example ex_frac6 : fmt_date_display 1628640000000123000 = lit "2021-08-11 00:00:00.000123 UTC". Proof. vm_compute. reflexivity. Qed.
Example ex_frac9 : fmt_date_debug 1628640000123456789 = lit "2021-08-11T00:00:00.123456789Z". Proof. vm_compute. reflexivity. Qed.
(** the hypothesis of [rfc3339_roundtrip] is satisfiable, and the theorem's conclusion on an instance *)
Example ex_parseable : date_ok 1628640000500000000 && year_parseable 1628640000500000000 = true.
Proof. vm_compute. reflexivity. Qed.
Example ex_parse_back : parse_rfc3339_utc (fmt_rfc3339 1628640000123456789) = Some 1628640000123456789%Z.
Proof. vm_compute. reflexivity. Qed.
(** outside 1678..2261 the model of parseDate refuses the text (it is [Unm] there, not an error of the tool) *)
Example ex_unparseable : parse_rfc3339_utc (fmt_rfc3339 253402300800000000000) = None.
Proof. vm_compute. reflexivity. Qed.
Example ex_civil_0 : civil_from_days 0 = (1970, 1, 1)%Z. Proof. vm_compute. reflexivity. Qed.
Example ex_civil_m1 : civil_from_days (-1) = (1969, 12, 31)%Z. Proof. vm_compute. reflexivity. Qed.
Example ex_civil_leap : civil_from_days 11016 = (2000, 2, 29)%Z. Proof. vm_compute. reflexivity. Qed.

Print Assumptions civil_roundtrip.
Print Assumptions civil_ranges.
Print Assumptions unfmt_fmt_gen.
Print Assumptions rfc3339_roundtrip.
Print Assumptions rfc3339_injective.
Print Assumptions display_injective.
Print Assumptions debug_injective.
Print Assumptions display_length.
