(** Runner entry for the duration texts: [(durfmt iso|debug <ns>)] -> a string atom *)
From Coq Require Import List ZArith NArith Bool.
From AG Require Import Str Sexp DurFmt.
Import ListNotations.

Definition durfmt_case (c : sexp) : sexp :=
  match c with
  | SList [h; k; n] =>
      if is_sym h "durfmt" then
        match atom_Z n with
        | Some ns =>
            if is_sym k "iso" then sstr (fmt_dur_iso ns)
            else if is_sym k "debug" then sstr (fmt_dur_debug ns)
            else SList [sym "error"; sstr (lit "durfmt: unknown form")]
        | None => SList [sym "error"; sstr (lit "durfmt: bad duration")]
        end
      else SList [sym "error"; sstr (lit "durfmt: bad case")]
  | _ => SList [sym "error"; sstr (lit "durfmt: bad case")]
  end.
