(** C16: the Renderer's frame protocol converges on the terminal model. *)
From Coq Require Import List ZArith NArith Bool Lia.
From AG Require Import Str Term.
Import ListNotations.
Open Scope nat_scope.

Definition printable (c : N) : Prop := (32 <= c)%N.
Definition good_line (w : nat) (l : str) : Prop := length l <= w /\ Forall printable l.
Definition frame_text (ls : list str) : str := flat_map (fun l => l ++ [10%N]) ls.
Definition good_frame (h w : nat) (ls : list str) : Prop := S (length ls) <= h /\ Forall (good_line w) ls.

(** the reset sequence is what the source says: (ESC[2K ESC[1A) per line, then ESC[2K *)
Lemma reset_sequences : lex reset_unit = [TEraseLine; TCursorUp] /\ lex reset_tail = [TEraseLine].
Proof. split; vm_compute; reflexivity. Qed.

(** *** lexing *)
Fixpoint digs (l : str) (acc : str) : str * str :=
  match l with
  | d :: l' => if is_digit d || (d =? 59)%N then digs l' (d :: acc) else (rev acc, l)
  | [] => (rev acc, [])
  end.

Definition esc_tok (fin : N) (ds : str) : tsym :=
  if (fin =? 75)%N && str_eqb ds [50%N] then TEraseLine
  else if (fin =? 65)%N && str_eqb ds [49%N] then TCursorUp
  else TOther.

Lemma lex_term_S f c r :
  lex_term (S f) (c :: r) =
  if (c =? 27)%N then
    match r with
    | b :: r1 =>
        if (b =? 91)%N then
          let '(ds, r2) := digs r1 [] in
          match r2 with
          | fin :: r3 => esc_tok fin ds :: lex_term f r3
          | [] => []
          end
        else TOther :: lex_term f r1
    | [] => []
    end
  else if (c =? 13)%N then TCR :: lex_term f r
  else if (c =? 10)%N then TLF :: lex_term f r
  else if (c <? 32)%N then TOther :: lex_term f r
  else TChar c :: lex_term f r.
Proof. reflexivity. Qed.

Lemma digs_len : forall l acc ds r2, digs l acc = (ds, r2) -> length r2 <= length l.
Proof.
  induction l as [|d l IH]; intros acc ds r2 E; cbn [digs] in E.
  - inversion E; subst. cbn [length]. lia.
  - destruct (is_digit d || (d =? 59)%N).
    + apply IH in E. cbn [length]. lia.
    + inversion E; subst. lia.
Qed.

Lemma lex_fuel : forall f s f', length s < f -> length s < f' -> lex_term f s = lex_term f' s.
Proof.
  induction f as [|f IH]; intros s f' H1 H2; [lia|].
  destruct f' as [|f']; [lia|].
  destruct s as [|c r]; [reflexivity|].
  rewrite !lex_term_S. cbn [length] in H1, H2.
  destruct (c =? 27)%N.
  - destruct r as [|b r1]; [reflexivity|]. cbn [length] in H1, H2.
    destruct (b =? 91)%N.
    + destruct (digs r1 []) as [ds r2] eqn:E. apply digs_len in E.
      destruct r2 as [|fin r3]; [reflexivity|]. cbn [length] in E.
      f_equal. apply IH; lia.
    + f_equal. apply IH; lia.
  - destruct (c =? 13)%N; [f_equal; apply IH; lia|].
    destruct (c =? 10)%N; [f_equal; apply IH; lia|].
    destruct (c <? 32)%N; f_equal; apply IH; lia.
Qed.

Lemma lex_nil : lex [] = [].
Proof. reflexivity. Qed.

Lemma lex_char c r : printable c -> lex (c :: r) = TChar c :: lex r.
Proof.
  unfold printable, lex. intros H. cbn [length]. rewrite lex_term_S.
  destruct (N.eqb_spec c 27); [lia|].
  destruct (N.eqb_spec c 13); [lia|].
  destruct (N.eqb_spec c 10); [lia|].
  destruct (N.ltb_spec c 32); [lia|]. reflexivity.
Qed.

Lemma lex_crlf r : lex (13%N :: 10%N :: r) = TCR :: TLF :: lex r.
Proof.
  unfold lex. cbn [length]. rewrite lex_term_S.
  change (13 =? 27)%N with false. change (13 =? 13)%N with true. cbv iota.
  rewrite lex_term_S.
  change (10 =? 27)%N with false. change (10 =? 13)%N with false.
  change (10 =? 10)%N with true. cbv iota. reflexivity.
Qed.

Lemma lex_term_2K f r : lex_term (S f) (27%N :: 91%N :: 50%N :: 75%N :: r) = TEraseLine :: lex_term f r.
Proof. reflexivity. Qed.
Lemma lex_term_1A f r : lex_term (S f) (27%N :: 91%N :: 49%N :: 65%N :: r) = TCursorUp :: lex_term f r.
Proof. reflexivity. Qed.

Lemma lex_2K r : lex (27%N :: 91%N :: 50%N :: 75%N :: r) = TEraseLine :: lex r.
Proof. unfold lex. rewrite lex_term_2K. f_equal. apply lex_fuel; cbn [length]; lia. Qed.
Lemma lex_1A r : lex (27%N :: 91%N :: 49%N :: 65%N :: r) = TCursorUp :: lex r.
Proof. unfold lex. rewrite lex_term_1A. f_equal. apply lex_fuel; cbn [length]; lia. Qed.

(** [a] lexes to [ta], ending on a symbol boundary *)
Definition lexes_to (a : str) (ta : list tsym) : Prop := forall rest, lex (a ++ rest) = ta ++ lex rest.

Lemma lexes_nil : lexes_to [] [].
Proof. intro; reflexivity. Qed.
Lemma lexes_app a b ta tb : lexes_to a ta -> lexes_to b tb -> lexes_to (a ++ b) (ta ++ tb).
Proof. intros Ha Hb rest. rewrite <- !app_assoc. rewrite Ha, Hb. reflexivity. Qed.
Lemma lexes_lex a ta : lexes_to a ta -> lex a = ta.
Proof. intros H. specialize (H []). rewrite !app_nil_r in H. exact H. Qed.

Lemma onlcr_app a b : onlcr (a ++ b) = onlcr a ++ onlcr b.
Proof.
  induction a as [|c a IH]; [reflexivity|]. cbn [app onlcr].
  destruct (c =? 10)%N; rewrite IH; reflexivity.
Qed.

Lemma onlcr_printable l : Forall printable l -> onlcr l = l.
Proof.
  induction 1 as [|c l Hc _ IH]; [reflexivity|]. cbn [onlcr].
  unfold printable in Hc. destruct (N.eqb_spec c 10); [lia|]. rewrite IH. reflexivity.
Qed.

Lemma lexes_chars l : Forall printable l -> lexes_to l (map TChar l).
Proof.
  induction 1 as [|c l Hc _ IH]; intro rest; [reflexivity|].
  cbn [app map]. rewrite lex_char by exact Hc. rewrite IH. reflexivity.
Qed.

Definition line_toks (l : str) : list tsym := map TChar l ++ [TCR; TLF].
Definition frame_toks (ls : list str) : list tsym := flat_map line_toks ls.
Definition reset_toks (n : nat) : list tsym := concat (repeat [TEraseLine; TCursorUp] n) ++ [TEraseLine].

Lemma lexes_line l : Forall printable l -> lexes_to (onlcr (l ++ [10%N])) (line_toks l).
Proof.
  intros H. rewrite onlcr_app, onlcr_printable by exact H.
  apply lexes_app; [apply lexes_chars; exact H|].
  intro rest. change (onlcr [10%N] ++ rest) with (13%N :: 10%N :: rest).
  rewrite lex_crlf. reflexivity.
Qed.

Lemma lexes_frame ls : Forall (Forall printable) ls -> lexes_to (onlcr (frame_text ls)) (frame_toks ls).
Proof.
  induction 1 as [|l ls Hl _ IH]; [apply lexes_nil|].
  unfold frame_text, frame_toks in *. cbn [flat_map]. rewrite onlcr_app.
  apply lexes_app; [apply lexes_line; exact Hl|exact IH].
Qed.

Lemma count_nl_app a b : count_nl (a ++ b) = count_nl a + count_nl b.
Proof. unfold count_nl. rewrite filter_app, app_length. reflexivity. Qed.

Lemma count_nl_printable l : Forall printable l -> count_nl l = 0.
Proof.
  unfold count_nl. induction 1 as [|c l Hc _ IH]; [reflexivity|]. cbn [filter].
  unfold printable in Hc. destruct (N.eqb_spec c 10); [lia|]. exact IH.
Qed.

Lemma count_nl_frame ls : Forall (Forall printable) ls -> count_nl (frame_text ls) = length ls.
Proof.
  induction 1 as [|l ls Hl _ IH]; [reflexivity|].
  unfold frame_text in *. cbn [flat_map length]. rewrite !count_nl_app, IH.
  rewrite count_nl_printable by exact Hl. reflexivity.
Qed.

Lemma lexes_reset n : lexes_to (onlcr (concat (repeat reset_unit n) ++ reset_tail)) (reset_toks n).
Proof.
  unfold reset_toks. induction n as [|n IH]; intro rest.
  - change (lex (27%N :: 91%N :: 50%N :: 75%N :: rest) = TEraseLine :: lex rest). apply lex_2K.
  - cbn [repeat concat]. rewrite <- !app_assoc.
    change (onlcr (reset_unit ++ concat (repeat reset_unit n) ++ reset_tail) ++ rest)
      with (27%N :: 91%N :: 50%N :: 75%N :: 27%N :: 91%N :: 49%N :: 65%N ::
            (onlcr (concat (repeat reset_unit n) ++ reset_tail) ++ rest)).
    rewrite lex_2K, lex_1A, IH. rewrite <- !app_assoc. reflexivity.
Qed.

Fixpoint rtoks (rt : list tsym) (frames : list (list str)) : list tsym :=
  match frames with
  | [] => []
  | f :: rest => rt ++ frame_toks f ++ rtoks (reset_toks (length f)) rest
  end.

Lemma lexes_render : forall frames reset rt,
  Forall (fun ls => Forall (Forall printable) ls) frames ->
  lexes_to (onlcr reset) rt ->
  lexes_to (onlcr (render_frames reset (map frame_text frames))) (rtoks rt frames).
Proof.
  induction frames as [|f frames IH]; intros reset rt HF Hr; [apply lexes_nil|].
  inversion HF as [|? ? Hf HF']; subst.
  cbn [map render_frames rtoks]. unfold render_frame.
  rewrite <- app_assoc, !onlcr_app.
  apply lexes_app; [exact Hr|]. apply lexes_app; [apply lexes_frame; exact Hf|].
  apply IH; [exact HF'|]. unfold reset_for. rewrite count_nl_frame by exact Hf.
  apply lexes_reset.
Qed.

(** *** the terminal *)
Lemma term_run_app s a b : term_run s (a ++ b) = term_run (term_run s a) b.
Proof. unfold term_run. apply fold_left_app. Qed.

Lemma set_nth_middle {A} (X : list A) x y Y : set_nth (length X) x (X ++ y :: Y) = X ++ x :: Y.
Proof. induction X as [|a X IH]; [reflexivity|]. cbn [length app set_nth]. rewrite IH. reflexivity. Qed.

Definition pad (w : nat) (l : str) : str := l ++ repeat 32%N (w - length l).

Lemma draw_chars w : forall l p X Y,
  length p + length l <= w ->
  term_run (mkScr w (X ++ pad w p :: Y) (length X) (length p)) (map TChar l)
  = mkScr w (X ++ pad w (p ++ l) :: Y) (length X) (length (p ++ l)).
Proof.
  induction l as [|ch l IH]; intros p X Y H.
  - rewrite app_nil_r. reflexivity.
  - cbn [length] in H. cbn [map]. unfold term_run. cbn [fold_left]. fold (term_run).
    change (fold_left term_step (map TChar l)) with (fun s => term_run s (map TChar l)). cbv beta.
    unfold term_step, put_char. cbn [sc_w sc_c sc_r sc_rows].
    destruct (Nat.leb_spec w (length p)) as [Hle|Hlt]; [lia|].
    cbn [sc_w sc_c sc_r sc_rows].
    rewrite nth_middle, set_nth_middle.
    assert (E : set_nth (length p) ch (pad w p) = pad w (p ++ [ch])).
    { unfold pad. rewrite app_length. cbn [length].
      replace (w - length p) with (S (w - (length p + 1))) by lia.
      cbn [repeat]. rewrite set_nth_middle, <- app_assoc. reflexivity. }
    rewrite E.
    replace (S (length p)) with (length (p ++ [ch])) by (rewrite app_length; cbn [length]; lia).
    rewrite IH by (rewrite app_length; cbn [length]; lia).
    rewrite <- app_assoc. reflexivity.
Qed.

Lemma pad_nil w : pad w [] = blank_row w.
Proof. unfold pad, blank_row. cbn [length app]. rewrite Nat.sub_0_r. reflexivity. Qed.

Lemma draw_line w l X k :
  length l <= w ->
  term_run (mkScr w (X ++ blank_row w :: repeat (blank_row w) (S k)) (length X) 0) (line_toks l)
  = mkScr w ((X ++ [pad w l]) ++ repeat (blank_row w) (S k)) (length (X ++ [pad w l])) 0.
Proof.
  intros H. unfold line_toks. rewrite term_run_app.
  rewrite <- pad_nil at 1.
  change 0 with (length (@nil N)) at 1.
  rewrite draw_chars by (cbn [length]; lia). cbn [app].
  unfold term_run. cbn [fold_left term_step sc_w sc_c sc_r sc_rows].
  unfold line_feed. cbn [sc_w sc_c sc_r sc_rows]. unfold sc_h. cbn [sc_rows].
  rewrite app_length. cbn [length]. rewrite repeat_length.
  match goal with |- context [Nat.ltb ?a ?b] => destruct (Nat.ltb_spec a b) as [_|Hge]; [|lia] end.
  rewrite <- app_assoc. cbn [app]. rewrite app_length. cbn [length].
  rewrite Nat.add_1_r. reflexivity.
Qed.

Lemma draw_frame w : forall ls X k,
  Forall (good_line w) ls ->
  term_run (mkScr w (X ++ repeat (blank_row w) (length ls + S k)) (length X) 0) (frame_toks ls)
  = mkScr w ((X ++ map (pad w) ls) ++ repeat (blank_row w) (S k)) (length (X ++ map (pad w) ls)) 0.
Proof.
  induction ls as [|l ls IH]; intros X k HF.
  - cbn [map length]. rewrite app_nil_r. reflexivity.
  - inversion HF as [|? ? [Hl _] HF']; subst.
    unfold frame_toks. cbn [flat_map]. fold (frame_toks ls). rewrite term_run_app.
    cbn [length]. replace (S (length ls) + S k) with (S (S (length ls + k))) by lia.
    cbn [repeat]. fold (repeat (blank_row w) (S (length ls + k))).
    change (blank_row w :: blank_row w :: repeat (blank_row w) (length ls + k))
      with (blank_row w :: repeat (blank_row w) (S (length ls + k))).
    rewrite draw_line by exact Hl.
    replace (S (length ls + k)) with (length ls + S k) by lia.
    rewrite IH by exact HF'. cbn [map]. rewrite <- !app_assoc. reflexivity.
Qed.

Definition drawn (h w : nat) (ls : list str) : screen :=
  mkScr w (map (pad w) ls ++ repeat (blank_row w) (h - length ls)) (length ls) 0.

Lemma draw_from_blank h w ls : good_frame h w ls ->
  term_run (blank_screen h w) (frame_toks ls) = drawn h w ls.
Proof.
  intros [Hh HF]. unfold blank_screen, drawn.
  replace h with (length ls + S (h - S (length ls))) at 1 by lia.
  change (repeat (blank_row w) (length ls + S (h - S (length ls))))
    with ([] ++ repeat (blank_row w) (length ls + S (h - S (length ls)))).
  change 0 with (length (@nil (list N))) at 1.
  rewrite draw_frame by exact HF. cbn [app]. rewrite map_length.
  replace (S (h - S (length ls))) with (h - length ls) by lia. reflexivity.
Qed.

Lemma reset_run w : forall n X y k,
  length X = n ->
  term_run (mkScr w (X ++ y :: repeat (blank_row w) k) n 0) (reset_toks n)
  = mkScr w (repeat (blank_row w) (n + S k)) 0 0.
Proof.
  induction n as [|n IH]; intros X y k HX.
  - destruct X; [|discriminate]. reflexivity.
  - destruct (exists_last (l:=X)) as [X' [x EX]]; [intro; subst; discriminate|]. subst X.
    rewrite app_length in HX. cbn [length] in HX.
    assert (HX' : length X' = n) by lia.
    unfold reset_toks. cbn [repeat concat app]. unfold term_run. cbn [fold_left]. fold (reset_toks n).
    unfold term_step at 2 3. cbn [sc_w sc_c sc_r sc_rows Nat.pred].
    replace (S n) with (length (X' ++ [x])) at 1 by (rewrite app_length; cbn [length]; lia).
    rewrite set_nth_middle. rewrite <- app_assoc. cbn [app].
    change (blank_row w :: repeat (blank_row w) k) with (repeat (blank_row w) (S k)).
    fold (term_run (mkScr w (X' ++ x :: repeat (blank_row w) (S k)) n 0) (reset_toks n)).
    rewrite IH by exact HX'. f_equal. f_equal. lia.
Qed.

Lemma reset_drawn h w ls : good_frame h w ls ->
  term_run (drawn h w ls) (reset_toks (length ls)) = blank_screen h w.
Proof.
  intros [Hh _]. unfold drawn, blank_screen.
  replace (h - length ls) with (S (h - S (length ls))) by lia. cbn [repeat].
  rewrite reset_run by apply map_length. f_equal. f_equal. lia.
Qed.

Lemma frames_run h w : forall frames last s rt,
  term_run s rt = blank_screen h w ->
  Forall (good_frame h w) (frames ++ [last]) ->
  term_run s (rtoks rt (frames ++ [last])) = drawn h w last.
Proof.
  induction frames as [|f frames IH]; intros last s rt Hs HF.
  - inversion HF as [|? ? Hl _]; subst. cbn [app rtoks].
    rewrite app_nil_r, term_run_app, Hs. apply draw_from_blank. exact Hl.
  - inversion HF as [|? ? Hf HF']; subst. cbn [app rtoks].
    rewrite app_assoc, term_run_app. apply IH; [|exact HF'].
    rewrite term_run_app, Hs, draw_from_blank by exact Hf.
    apply reset_drawn. exact Hf.
Qed.

(** *** reading the screen *)
Lemma trim_start_blanks k s : trim_start (repeat 32%N k ++ s) = trim_start s.
Proof. induction k as [|k IH]; [reflexivity|]. cbn [repeat app trim_start]. change (is_ws 32) with true. exact IH. Qed.

Lemma rev_repeat_N (x : N) k : rev (repeat x k) = repeat x k.
Proof.
  induction k as [|k IH]; [reflexivity|]. cbn [repeat rev]. rewrite IH.
  symmetry. apply repeat_cons.
Qed.

Lemma trim_end_pad w l : trim_end (pad w l) = trim_end l.
Proof. unfold trim_end, pad. rewrite rev_app_distr, rev_repeat_N, trim_start_blanks. reflexivity. Qed.

Lemma trim_end_blank w : trim_end (blank_row w) = [].
Proof. rewrite <- pad_nil. rewrite trim_end_pad. reflexivity. Qed.

Lemma screen_text_drawn h w ls :
  screen_text (drawn h w ls) = map trim_end ls ++ repeat [] (h - length ls).
Proof.
  unfold screen_text, drawn. cbn [sc_rows]. rewrite map_app, map_map. f_equal.
  - apply map_ext. intro l. apply trim_end_pad.
  - induction (h - length ls) as [|k IH]; [reflexivity|]. cbn [repeat map].
    rewrite trim_end_blank, IH. reflexivity.
Qed.

Lemma good_frame_printable h w ls : good_frame h w ls -> Forall (Forall printable) ls.
Proof.
  intros [_ HF]. induction HF as [|l ls [_ Hl] _ IH]; constructor; assumption.
Qed.

(** one frame on a blank screen *)
Theorem one_frame : forall h w ls,
  0 < w -> good_frame h w ls ->
  let sc := term_run (blank_screen h w) (lex (onlcr (frame_text ls))) in
  screen_text sc = map trim_end ls ++ repeat [] (h - length ls) /\ sc_r sc = length ls /\ sc_c sc = 0.
Proof.
  intros h w ls Hw Hg sc. subst sc.
  rewrite (lexes_lex _ _ (lexes_frame ls (good_frame_printable _ _ _ Hg))).
  rewrite draw_from_blank by exact Hg.
  split; [apply screen_text_drawn|split; reflexivity].
Qed.

(** any number of intermediate frames, then the final one: the screen shows exactly the
    final frame, with no residue of the earlier ones *)
Theorem frames_converge : forall h w frames last,
  0 < w -> Forall (good_frame h w) (frames ++ [last]) ->
  let bytes := onlcr (render_frames [] (map frame_text (frames ++ [last]))) in
  let sc := term_run (blank_screen h w) (lex bytes) in
  screen_text sc = map trim_end last ++ repeat [] (h - length last) /\ sc_r sc = length last /\ sc_c sc = 0.
Proof.
  intros h w frames last Hw HF bytes sc. subst sc bytes.
  assert (HP : Forall (fun ls => Forall (Forall printable) ls) (frames ++ [last])).
  { eapply Forall_impl; [|exact HF]. intros ls Hg. eapply good_frame_printable; exact Hg. }
  rewrite (lexes_lex _ _ (lexes_render _ [] [] HP lexes_nil)).
  rewrite (frames_run h w frames last (blank_screen h w) []) by (reflexivity || exact HF).
  split; [apply screen_text_drawn|split; reflexivity].
Qed.

Lemma rtoks_alphabet : forall frames rt,
  Forall (fun t => t <> TOther) rt ->
  Forall (fun t => t <> TOther) (rtoks rt frames).
Proof.
  assert (Hreset : forall n, Forall (fun t => t <> TOther) (reset_toks n)).
  { intro n. unfold reset_toks. apply Forall_app. split.
    - induction n as [|n IH]; [constructor|]. cbn [repeat concat app].
      constructor; [discriminate|]. constructor; [discriminate|]. exact IH.
    - constructor; [discriminate|constructor]. }
  assert (Hframe : forall ls, Forall (fun t => t <> TOther) (frame_toks ls)).
  { induction ls as [|l ls IH]; [constructor|]. unfold frame_toks. cbn [flat_map].
    apply Forall_app. split; [|exact IH]. unfold line_toks. apply Forall_app. split.
    - apply Forall_forall. intros t Ht. apply in_map_iff in Ht. destruct Ht as [c [E _]].
      subst t. discriminate.
    - constructor; [discriminate|]. constructor; [discriminate|constructor]. }
  induction frames as [|f frames IH]; intros rt Hrt; [constructor|].
  cbn [rtoks]. apply Forall_app. split; [exact Hrt|].
  apply Forall_app. split; [apply Hframe|]. apply IH. apply Hreset.
Qed.

(** the renderer emits nothing outside the five-symbol alphabet *)
Theorem frames_alphabet : forall frames,
  Forall (fun ls => Forall (Forall printable) ls) frames ->
  Forall (fun t => t <> TOther) (lex (onlcr (render_frames [] (map frame_text frames)))).
Proof.
  intros frames HP.
  rewrite (lexes_lex _ _ (lexes_render _ [] [] HP lexes_nil)).
  apply rtoks_alphabet. constructor.
Qed.

Print Assumptions one_frame.
Print Assumptions frames_converge.
Print Assumptions frames_alphabet.
Print Assumptions reset_sequences.
