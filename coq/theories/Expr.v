(** Type-checked expressions and their evaluation (src/operator/expr.rs,
    src/funcs.rs). *)
From Coq Require Import List ZArith NArith Bool Floats.SpecFloat.
From AG Require Import Str F64 Value Json DatePaths DurFmt.
From AG Require F64Display.
From AG Require Generated.
Import ListNotations.
Open Scope string_scope.
Open Scope list_scope.
Open Scope Z_scope.

Inductive vref := RField (k : str) | RIndex (i : Z).
Inductive cmpop := CEq | CNeq | CGt | CLt | CGte | CLte.
Inductive arop := AAdd | ASub | AMul | ADiv.
Inductive lgop := LAnd | LOr.

Inductive expr : Type :=
| ECol (head : str) (rest : list vref)
| ENot (e : expr)
| ECmp (o : cmpop) (l r : expr)
| EArith (o : arop) (l r : expr)
| ELogic (o : lgop) (l r : expr)
| ECall (f : str) (args : list expr)
| EIf (c t e : expr)
| EVal (v : value)
| EError.

Definition data := list (str * value).

(** [{:?}] of a string ([str::escape_debug] between double quotes) on the bytes whose rendering
    needs no Unicode table: printable ASCII, the named escapes, other ASCII controls as [\u{..}];
    [None] = outside the modelled fragment (non-ASCII text) *)
Definition dbg_hexd (n : N) : N := (if n <? 10 then 48 + n else 87 + n)%N.
Definition dbg_char (c : N) : option str :=
  (if c =? 34 then Some [92; 34] else if c =? 92 then Some [92; 92]
   else if c =? 10 then Some [92; 110] else if c =? 13 then Some [92; 114] else if c =? 9 then Some [92; 116]
   else if c =? 0 then Some [92; 48]
   else if (32 <=? c) && (c <? 127) then Some [c]
   else if c <? 16 then Some ([92; 117; 123] ++ [dbg_hexd c] ++ [125])
   else if c <? 128 then Some ([92; 117; 123] ++ [dbg_hexd (c / 16); dbg_hexd (c mod 16)] ++ [125])
   else None)%N.
Fixpoint dbg_chars (s : str) : option str :=
  match s with
  | [] => Some []
  | c :: r => match dbg_char c, dbg_chars r with
              | Some a, Some b => Some (a ++ b)
              | _, _ => None
              end
  end.
Definition dbg_string (s : str) : option str :=
  match dbg_chars s with Some b => Some (34%N :: b ++ [34%N]) | None => None end.

Fixpoint dbg_join (l : list str) : str :=
  match l with
  | [] => []
  | [x] => x
  | x :: r => x ++ lit ", " ++ dbg_join r
  end.

(** the derived [Debug] of a [Value], with the members of every object in key order (the model's
    objects are key-sorted association lists; the implementation sorts since f3ac142) *)
Fixpoint dbg_value (v : value) : option str :=
  match v with
  | VStr s => match dbg_string s with Some b => Some (lit "Str(" ++ b ++ lit ")") | None => None end
  | VInt z => Some (lit "Int(" ++ Z_to_str z ++ lit ")")
  | VBool true => Some (lit "Bool(true)")
  | VBool false => Some (lit "Bool(false)")
  | VNone => Some (lit "None")
  | VObj kvs =>
      let fix go (l : list (str * value)) : option (list str) :=
        match l with
        | [] => Some []
        | (k, x) :: r => match dbg_string k, dbg_value x, go r with
                         | Some a, Some b, Some c => Some ((a ++ lit ": " ++ b) :: c)
                         | _, _, _ => None
                         end
        end in
      match go kvs with Some items => Some (lit "Obj({" ++ dbg_join items ++ lit "})") | None => None end
  | VArr l =>
      let fix go (l : list value) : option (list str) :=
        match l with
        | [] => Some []
        | x :: r => match dbg_value x, go r with
                    | Some b, Some c => Some (b :: c)
                    | _, _ => None
                    end
        end in
      match go l with Some items => Some (lit "Array([" ++ dbg_join items ++ lit "])") | None => None end
  | VFloat _ | VDate _ | VDur _ => None     (* shortest float form, chrono's Debug *)
  end.

(** [Display for Value] (to_string) on the modelled fragment: containers print as the [{:?}] of
    their contents, without the variant name at the top *)
Definition to_display (v : value) : res str :=
  match v with
  | VStr s => Ok s
  | VInt z => Ok (Z_to_str z)
  | VBool true => Ok (lit "true")
  | VBool false => Ok (lit "false")
  | VNone => Ok (lit "None")
  | VObj _ =>
      match dbg_value v with
      | Some s => Ok (firstn (length s - 5) (skipn 4 s))         (* drop "Obj(" and ")" *)
      | None => Unm
      end
  | VArr _ =>
      match dbg_value v with
      | Some s => Ok (firstn (length s - 7) (skipn 6 s))         (* drop "Array(" and ")" *)
      | None => Unm
      end
  | VDate ns => match date_form "Display" with Some f => Ok (f ns) | None => Unm end   (* chrono's Debug (DateFmt.v) *)
  | VDur ns => Ok (fmt_dur_debug ns)   (* the derived Debug of chrono's TimeDelta (DurFmt.v) *)
  | VFloat f => Ok (F64Display.f64_display f)   (* Rust's {} for f64: shortest digits, positional (F64Display.v) *)
  end.

Definition is_ascii_str (s : str) : bool := forallb (fun c => (c <? 128)%N) s.

Definition float1 (f : f64 -> f64) (args : list value) : res value :=
  match args with
  | [a] => do x <- to_f64 a; Ok (from_float (f x))
  | _ => Err
  end.

(** [FunctionWrapper::Num1] (fix 43e6167): a function that maps integers to integers answers an
    integer argument (or text holding one) exactly, anything else through the double *)
Definition exact_int (args : list value) : option Z :=
  match args with
  | [VInt i] => Some i
  | [VStr s] => match from_string s with VInt i => Some i | _ => None end
  | _ => None
  end.
Definition num1 (fi : Z -> option Z) (f : f64 -> f64) (args : list value) : res value :=
  match (match exact_int args with Some i => fi i | None => None end) with
  | Some i => Ok (VInt i)
  | None => float1 f args
  end.
(** [i64::checked_abs] *)
Definition checked_abs (i : Z) : option Z := if in_i64 (Z.abs i) then Some (Z.abs i) else None.

Definition hex_digit_val (c : N) : option N := hex_val c.

Fixpoint hex_digits_val (s : str) (acc : Z) : option Z :=
  match s with
  | [] => Some acc
  | c :: r => match hex_val c with
              | Some d => hex_digits_val r (acc * 16 + Z.of_N d)
              | None => None
              end
  end.

(** [str::trim_start_matches("0x")]: strips the prefix repeatedly *)
Fixpoint strip_0x (fuel : nat) (s : str) : str :=
  match fuel with
  | O => s
  | S f => match strip_prefix [48%N; 120%N] s with
           | Some r => strip_0x f r
           | None => s
           end
  end.

(** i64::from_str_radix(s, 16): optional sign, 1+ hex digits, in range *)
Definition parse_hex (s : str) : res value :=
  let t := trim s in
  let t := strip_0x (length t) t in
  let '(neg, ds) := strip_sign t in
  match ds with
  | [] => Err
  | _ => match hex_digits_val ds 0 with
         | Some n => let z := if neg then - n else n in
                     if in_i64 z then Ok (VInt z) else Err
         | None => Err
         end
  end.

(** the function table of src/funcs.rs (FUNC_MAP), re-read from the source on every run *)
Definition known_funcs : list str := map lit Generated.func_names.

Definition is_known_func (f : str) : bool := existsb (str_eqb f) known_funcs.

Definition is_name (f : str) (n : String.string) : bool := str_eqb f (lit n).

Fixpoint concat_displays (args : list value) : res str :=
  match args with
  | [] => Ok []
  | a :: r => do s <- to_display a; do t <- concat_displays r; Ok (s ++ t)
  end.

(** [parseDate] on the one format the harness generates — RFC 3339 in UTC,
    YYYY-MM-DDTHH:MM:SS[.f{1,9}]Z, years 1678..2261 — for which dtparse's answer is the obvious
    instant; every other text is outside the model ([Unm]) *)
Definition two_digits (a b : N) : option Z :=
  if is_digit a && is_digit b then Some (Z.of_N ((a - 48) * 10 + (b - 48))) else None.
Definition days_from_civil (y m d : Z) : Z :=
  let y' := if m <=? 2 then y - 1 else y in
  let era := y' / 400 in
  let yoe := y' - era * 400 in
  let mp := if 2 <? m then m - 3 else m + 9 in
  let doy := (153 * mp + 2) / 5 + d - 1 in
  let doe := yoe * 365 + yoe / 4 - yoe / 100 + doy in
  era * 146097 + doe - 719468.
Definition days_in_month (y m : Z) : Z :=
  if (m =? 2) then (if ((y mod 4 =? 0) && negb (y mod 100 =? 0)) || (y mod 400 =? 0) then 29 else 28)
  else if (m =? 4) || (m =? 6) || (m =? 9) || (m =? 11) then 30 else 31.
(** the zone designator after the time: [Z], or a UTC offset [+hh:mm] / [-hh:mm] in seconds (fix 5dd747f:
    the offset is applied, the text is the LOCAL time) *)
Definition parse_zone (s : str) : option Z :=
  match s with
  | [90%N] => Some 0
  | sg :: h1 :: h2 :: 58%N :: m1 :: m2 :: [] =>
      match two_digits h1 h2, two_digits m1 m2 with
      | Some hh, Some mm =>
          if (hh <? 24) && (mm <? 60) then
            if (sg =? 43)%N then Some (hh * 3600 + mm * 60)
            else if (sg =? 45)%N then Some (- (hh * 3600 + mm * 60))
            else None
          else None
      | _, _ => None
      end
  | _ => None
  end.
Definition parse_rfc3339_utc (s : str) : option Z :=
  match s with
  | y1 :: y2 :: y3 :: y4 :: 45%N :: m1 :: m2 :: 45%N :: d1 :: d2 :: 84%N :: h1 :: h2 :: 58%N :: i1 :: i2 :: 58%N :: s1 :: s2 :: rest =>
      match two_digits y1 y2, two_digits y3 y4, two_digits m1 m2, two_digits d1 d2, two_digits h1 h2, two_digits i1 i2, two_digits s1 s2 with
      | Some ya, Some yb, Some mo, Some dd, Some hh, Some mi, Some ss =>
          let y := ya * 100 + yb in
          let frac : option (Z * Z) :=      (* nanoseconds, offset in seconds *)
            match rest with
            | 46%N :: r =>
                let '(ds, r') := take_digits r in
                match parse_zone r' with
                | Some off =>
                    let n := length ds in
                    if (Nat.leb 1 n && Nat.leb n 9)%bool
                    then Some (Z.of_N (digits_val ds 0) * 10 ^ Z.of_nat (9 - n), off) else None
                | None => None
                end
            | _ => match parse_zone rest with Some off => Some (0, off) | None => None end
            end in
          match frac with
          | Some (fr, off) =>
              if (1678 <=? y) && (y <=? 2261) && (1 <=? mo) && (mo <=? 12) && (1 <=? dd) && (dd <=? days_in_month y mo)
                 && (hh <? 24) && (mi <? 60) && (ss <? 60)
              then Some (((((days_from_civil y mo dd * 24 + hh) * 60 + mi) * 60 + ss) - off) * 1000000000 + fr)
              else None
          | None => None
          end
      | _, _, _, _, _, _, _ => None
      end
  | _ => None
  end.

Definition eval_func (f : str) (args : list value) : res value :=
  if is_name f "abs" then num1 checked_abs fabs args
  else if is_name f "ceil" then num1 Some fceil args
  else if is_name f "floor" then num1 Some ffloor args
  else if is_name f "round" then num1 Some fround args
  else if is_name f "sqrt" then float1 fsqrt args
  else if is_name f "num" then num1 Some (fun x => x) args
  else if is_name f "concat" then do s <- concat_displays args; Ok (VStr s)
  else if is_name f "contains" then
    match args with
    | [a; b] => do x <- to_display a; do y <- to_display b; Ok (VBool (contains_sub y x))
    | _ => Err
    end
  else if is_name f "length" then
    match args with
    | [VArr l] => Ok (VInt (Z.of_nat (length l)))
    | [VObj m] => Ok (VInt (Z.of_nat (length m)))
    | [a] => do s <- to_display a; Ok (VInt (Z.of_nat (length s)))
    | _ => Err
    end
  else if is_name f "parseHex" then
    match args with
    | [a] => do s <- to_display a; parse_hex s
    | _ => Err
    end
  else if is_name f "substring" then
    match args with
    | [a; b; c] =>
        do s <- to_display a; do st <- to_usize b; do en <- to_usize c;
        if en <? st then Err
        else let n := Z.of_nat (length s) in
             Ok (VStr (firstn (Z.to_nat (Z.min (en - st) n)) (skipn (Z.to_nat (Z.min st n)) s)))
    | [a; b] =>
        do s <- to_display a; do st <- to_usize b;
        Ok (VStr (skipn (Z.to_nat (Z.min st (Z.of_nat (length s)))) s))
    | _ => Err
    end
  else if is_name f "toLowerCase" then
    match args with
    | [a] => do s <- to_display a;
             if is_ascii_str s then Ok (VStr (map ascii_lower s)) else Unm
    | _ => Err
    end
  else if is_name f "toUpperCase" then
    match args with
    | [a] => do s <- to_display a;
             if is_ascii_str s then Ok (VStr (map ascii_upper s)) else Unm
    | _ => Err
    end
  else if is_name f "isNull" then
    match args with
    | [VNone] => Ok (VBool true) | [_] => Ok (VBool false) | _ => Err
    end
  else if is_name f "isEmpty" then
    match args with
    | [VNone] => Ok (VBool true)
    | [VStr s] => Ok (VBool (match s with [] => true | _ => false end))
    | [_] => Ok (VBool false)
    | _ => Err
    end
  else if is_name f "isBlank" then
    match args with
    | [VNone] => Ok (VBool true)
    | [VStr s] => Ok (VBool (match trim s with [] => true | _ => false end))
    | [_] => Ok (VBool false)
    | _ => Err
    end
  else if is_name f "isNumeric" then
    match args with
    | [a] => match to_f64 a with
             | Ok _ => Ok (VBool true) | Err => Ok (VBool false)
             | Panic => Panic | Unm => Unm end
    | _ => Err
    end
  else if is_name f "parseDate" then
    match args with
    | [VStr t] => match parse_rfc3339_utc t with Some ns => Ok (VDate ns) | None => Unm end
    | _ => Unm
    end
  else Unm.

Fixpoint walk_refs (rest : list vref) (v : value) : res value :=
  match rest with
  | [] => Ok v
  | RField k :: rest' =>
      match v with
      | VObj m => match get k m with Some v' => walk_refs rest' v' | None => Err end
      | _ => Err
      end
  | RIndex i :: rest' =>
      match v with
      | VArr l =>
          let len := Z.of_nat (length l) in
          let real := if i <? 0 then i + len else i in
          if (real <? 0) || (len <=? real) then Err
          else match nth_error l (Z.to_nat real) with
               | Some v' => walk_refs rest' v'
               | None => Err
               end
      | _ => Err
      end
  end.

Fixpoint eval (e : expr) (d : data) {struct e} : res value :=
  match e with
  | ECol h rest =>
      match get h d with
      | Some v => walk_refs rest v
      | None => Err
      end
  | ENot e1 =>
      do v <- eval e1 d;
      match v with VBool b => Ok (VBool (negb b)) | _ => Err end
  | ECmp o l r =>
      do a <- eval l d; do b <- eval r d;
      Ok (VBool (match o with
                 | CEq => veqb a b
                 | CNeq => negb (veqb a b)
                 | CGt => vgtb a b
                 | CLt => vltb a b
                 | CGte => vgeb a b
                 | CLte => vleb a b
                 end))
  | EArith o l r =>
      do a <- eval l d; do b <- eval r d;
      match o with
      | AAdd => vadd a b | ASub => vsub a b | AMul => vmul a b | ADiv => vdiv a b
      end
  | ELogic o l r =>
      do a <- eval l d;
      match a with
      | VBool lb =>
          match o with
          | LAnd => if lb then eval r d else Ok (VBool false)
          | LOr => if lb then Ok (VBool true) else eval r d
          end
      | _ => Err
      end
  | ECall f args =>
      do vs <- (fix go (args : list expr) : res (list value) :=
                  match args with
                  | [] => Ok []
                  | a :: r => do v <- eval a d; do vs <- go r; Ok (v :: vs)
                  end) args;
      eval_func f vs
  | EIf c t e2 =>
      do cv <- eval c d;
      match cv with
      | VBool true => eval t d
      | VBool false => eval e2 d
      | _ => Err
      end
  | EVal v => Ok v
  | EError => Err
  end.

Definition eval_bool (e : expr) (d : data) : res bool :=
  do v <- eval e d; match v with VBool b => Ok b | _ => Err end.

Definition eval_f64 (e : expr) (d : data) : res f64 :=
  do v <- eval e d; to_f64_agg v.

(** [Expr::eval_str] *)
Definition eval_str (e : expr) (d : data) : res str :=
  do v <- eval e d;
  match v with VStr s => Ok s | _ => Err end.

(** static checks of [TypeCheck for lang::Expr]: no [EError], known functions *)
Fixpoint expr_ok (e : expr) : bool :=
  match e with
  | ECol _ _ | EVal _ => true
  | ENot e1 => expr_ok e1
  | ECmp _ l r | EArith _ l r | ELogic _ l r => expr_ok l && expr_ok r
  | ECall f args => is_known_func f && forallb expr_ok args
  | EIf c t e2 => expr_ok c && expr_ok t && expr_ok e2
  | EError => false
  end.
