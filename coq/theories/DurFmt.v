(** The chrono texts of a duration: chrono 0.4.40 src/time_delta.rs on [TimeDelta { secs: i64, nanos: i32 }]
    ([secs] = floor of the seconds, [0 <= nanos < 10^9]).  MODEL ONLY.  A duration is [ns : Z] nanoseconds (Value.v, [VDur]).
    (1) [Display for TimeDelta] ([d.to_string()] in the JSON serializer of src/data.rs): sign, "P", then "0D" for zero,
        else "T", the whole seconds of the magnitude, the fraction without trailing zeros, "S";
    (2) [Debug for TimeDelta] is DERIVED: "TimeDelta { secs: -1, nanos: 999999999 }" ([Display for Value], i.e. to_string / concat).
    The third text, ValueDisplay's own weeks/days/hours rendering, is [Display.dur_display]. *)
From Coq Require Import List ZArith NArith Bool.
From AG Require Import Str DateFmt.
Import ListNotations.
Open Scope Z_scope.

(** decimal of a >= 0 without leading zeros ("0" for 0); of any integer *)
Definition udec (a : Z) : str := digs (ndig a) a.
Definition sdec (z : Z) : str := if z <? 0 then 45%N :: udec (- z) else udec z.

(** the loop of Display: drop the trailing zeros of the [k]-digit fraction *)
Fixpoint frac_digs (k : nat) (n : Z) : str :=
  match k with
  | O => []
  | S k' => if n mod 10 =? 0 then frac_digs k' (n / 10) else digs k n
  end.

Definition fmt_dur_iso (ns : Z) : str :=
  let a := Z.abs ns in
  let secs := a / 1000000000 in
  let nanos := a mod 1000000000 in
  (if ns <? 0 then [45%N] else []) ++ 80%N ::
  (if a =? 0 then [48; 68]%N
   else 84%N :: udec secs ++ (if 0 <? nanos then 46%N :: frac_digs 9 nanos else []) ++ [83%N]).

(** "TimeDelta { secs: " / ", nanos: " / " }" *)
Definition dbg_head : str := [84; 105; 109; 101; 68; 101; 108; 116; 97; 32; 123; 32; 115; 101; 99; 115; 58; 32]%N.
Definition dbg_mid : str := [44; 32; 110; 97; 110; 111; 115; 58; 32]%N.
Definition dbg_tail : str := [32; 125]%N.

Definition fmt_dur_debug (ns : Z) : str :=
  dbg_head ++ sdec (ns / 1000000000) ++ dbg_mid ++ udec (ns mod 1000000000) ++ dbg_tail.
