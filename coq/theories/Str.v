(** Strings as lists of Unicode scalar values (code points).
    Rust [String: Ord] is byte-wise on UTF-8, which coincides with
    lexicographic order on code points. *)
From Coq Require Import List NArith ZArith Bool Lia.
Import ListNotations.
Open Scope N_scope.

Definition str := list N.

Fixpoint str_eqb (a b : str) : bool :=
  match a, b with
  | [], [] => true
  | x :: a', y :: b' => N.eqb x y && str_eqb a' b'
  | _, _ => false
  end.

Fixpoint str_cmp (a b : str) : comparison :=
  match a, b with
  | [], [] => Eq
  | [], _ :: _ => Lt
  | _ :: _, [] => Gt
  | x :: a', y :: b' =>
      match N.compare x y with
      | Eq => str_cmp a' b'
      | c => c
      end
  end.

Definition str_ltb (a b : str) : bool :=
  match str_cmp a b with Lt => true | _ => false end.

(** Rust [char::is_whitespace] (Unicode White_Space). *)
Definition is_ws (c : N) : bool :=
  ((9 <=? c) && (c <=? 13)) || (c =? 32) || (c =? 133) || (c =? 160)
  || (c =? 5760) || ((8192 <=? c) && (c <=? 8202)) || (c =? 8232)
  || (c =? 8233) || (c =? 8239) || (c =? 8287) || (c =? 12288).

Fixpoint trim_start (s : str) : str :=
  match s with
  | c :: s' => if is_ws c then trim_start s' else s
  | [] => []
  end.

Definition trim_end (s : str) : str := rev (trim_start (rev s)).
Definition trim (s : str) : str := trim_end (trim_start s).

(** the line without its terminator: every trailing LF and CR, nothing else ([trim_end_matches] in printer.rs, fix 7f51c1d) *)
Fixpoint drop_eol_rev (r : str) : str :=
  match r with
  | c :: rest => if (c =? 10) || (c =? 13) then drop_eol_rev rest else r
  | [] => []
  end.
Definition strip_eol (s : str) : str := rev (drop_eol_rev (rev s)).

(** length of the UTF-8 encoding of one scalar value *)
Definition utf8_width (c : N) : nat :=
  if c <? 128 then 1%nat else if c <? 2048 then 2%nat
  else if c <? 65536 then 3%nat else 4%nat.

Definition utf8_len (s : str) : nat :=
  fold_right (fun c n => (utf8_width c + n)%nat) 0%nat s.

Definition is_digit (c : N) : bool := (48 <=? c) && (c <=? 57).
Definition is_ascii_upper (c : N) : bool := (65 <=? c) && (c <=? 90).
Definition is_ascii_lower (c : N) : bool := (97 <=? c) && (c <=? 122).
Definition ascii_lower (c : N) : N := if is_ascii_upper c then c + 32 else c.
Definition ascii_upper (c : N) : N := if is_ascii_lower c then c - 32 else c.

Fixpoint starts_with (p s : str) : bool :=
  match p, s with
  | [], _ => true
  | x :: p', y :: s' => N.eqb x y && starts_with p' s'
  | _ :: _, [] => false
  end.

(** [find_sub p s] = index of the first occurrence of [p] in [s]. *)
Fixpoint find_sub (p s : str) : option nat :=
  if starts_with p s then Some 0%nat else
  match s with
  | [] => None
  | _ :: s' => match find_sub p s' with Some n => Some (S n) | None => None end
  end.

Definition contains_sub (p s : str) : bool :=
  match find_sub p s with Some _ => true | None => false end.

(** first-character tests written with [N.eqb] (pattern matching on numeric
    literals explodes under extraction and in proofs) *)
Definition eat (c : N) (s : str) : option str :=
  match s with
  | x :: r => if x =? c then Some r else None
  | [] => None
  end.
Definition head_is (c : N) (s : str) : bool :=
  match s with x :: _ => x =? c | [] => false end.
Fixpoint strip_prefix (p s : str) : option str :=
  match p with
  | [] => Some s
  | x :: p' => match s with
               | y :: s' => if x =? y then strip_prefix p' s' else None
               | [] => None
               end
  end.
(** optional leading '-' (true) or '+' *)
Definition strip_sign (s : str) : bool * str :=
  match s with
  | x :: r => if x =? 45 then (true, r) else if x =? 43 then (false, r) else (false, s)
  | [] => (false, [])
  end.
Definition strip_minus (s : str) : bool * str :=
  match s with
  | x :: r => if x =? 45 then (true, r) else (false, s)
  | [] => (false, [])
  end.
Definition is_nil {A} (l : list A) : bool := match l with [] => true | _ => false end.

(** decimal rendering of integers *)
Fixpoint pos_digits_fuel (fuel : nat) (n : N) (acc : str) : str :=
  match fuel with
  | O => acc
  | S f =>
      let d := n mod 10 in
      let q := n / 10 in
      let acc' := (48 + d) :: acc in
      if q =? 0 then acc' else pos_digits_fuel f q acc'
  end.

Definition N_to_str (n : N) : str := pos_digits_fuel (S (N.to_nat (N.log2 n))) n [].

Definition Z_to_str (z : Z) : str :=
  match z with
  | Z0 => [48]
  | Zpos p => N_to_str (Npos p)
  | Zneg p => 45 :: N_to_str (Npos p)
  end.

(** parse an unsigned run of digits *)
Fixpoint digits_val (s : str) (acc : N) : N :=
  match s with
  | c :: s' => digits_val s' (acc * 10 + (c - 48))
  | [] => acc
  end.

Definition all_digits (s : str) : bool := forallb is_digit s.

Definition str_of_ascii (l : list N) : str := l.

(** literals *)
From Coq Require Strings.String Strings.Ascii.
Export Coq.Strings.String.StringSyntax.
Fixpoint lit (s : String.string) : str :=
  match s with
  | String.EmptyString => []
  | String.String a s' => Ascii.N_of_ascii a :: lit s'
  end.
