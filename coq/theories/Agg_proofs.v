(** MultiGrouper: one row per distinct key, every accumulator folded over
    exactly the rows of its group (src/operator.rs). *)
From Coq Require Import List ZArith NArith Bool Lia Permutation.
From AG Require Import Str F64 Value Json Expr Ops Pipeline Str_proofs.
Import ListNotations.

(** the key vector of a row *)
Definition row_key (keys : list (str * expr)) (d : data) : list value := map (eval_key d) keys.

(** the rows of the group of [k], in arrival order *)
Definition group_rows (keys : list (str * expr)) (k : list value) (rows : list data) : list data :=
  filter (fun d => keys_eqb (row_key keys d) k) rows.

(** first occurrences, in order *)
Fixpoint dedup_keys (ks : list (list value)) : list (list value) :=
  match ks with
  | [] => []
  | k :: rest => k :: filter (fun k' => negb (keys_eqb k' k)) (dedup_keys rest)
  end.

(** the state after feeding [rows] to an empty grouper *)
Definition grouper_after (keys : list (str * expr)) (fns : list (str * aggfn)) (rows : list data) : grouper :=
  fold_left g_process_map rows (mkG keys fns []).

(** ** generic list helpers *)
Lemma filter_filter' : forall (A : Type) (f g : A -> bool) (l : list A),
  filter f (filter g l) = filter (fun x => g x && f x) l.
Proof.
  intros A f g l. induction l as [|x l IH]; [reflexivity|].
  cbn [filter]. destruct (g x); cbn [andb filter].
  - destruct (f x); rewrite IH; reflexivity.
  - exact IH.
Qed.

Lemma filter_all : forall (A : Type) (f : A -> bool) (l : list A),
  (forall x, f x = true) -> filter f l = l.
Proof.
  intros A f l H. induction l as [|x l IH]; [reflexivity|].
  cbn [filter]. rewrite H, IH. reflexivity.
Qed.

Lemma filter_none : forall (A : Type) (f : A -> bool) (l : list A),
  (forall x, In x l -> f x = false) -> filter f l = [].
Proof.
  intros A f l. induction l as [|x l IH]; intro H; [reflexivity|].
  cbn [filter]. rewrite (H x (or_introl eq_refl)). apply IH.
  intros y Hy. apply H. right. exact Hy.
Qed.

Lemma keys_eqb_cons : forall x a y b, keys_eqb (x :: a) (y :: b) = veqb x y && keys_eqb a b.
Proof. reflexivity. Qed.

(** the grouper's state alone *)
Definition st_step (keys : list (str * expr)) (fns : list (str * aggfn))
           (st : list (list value * list (str * acc))) (d : data) :=
  upd_group (row_key keys d) d fns st.

Lemma grouper_fold_state : forall keys fns rows st,
  fold_left g_process_map rows (mkG keys fns st) =
  mkG keys fns (fold_left (st_step keys fns) rows st).
Proof.
  intros keys fns rows. induction rows as [|d rows IH]; intro st; [reflexivity|].
  cbn [fold_left].
  change (g_process_map (mkG keys fns st) d) with (mkG keys fns (st_step keys fns st d)).
  apply IH.
Qed.

Definition notin (ks : list (list value)) (x : list value) : bool :=
  negb (existsb (keys_eqb x) ks).

Lemma upd_group_keys : forall k d fns st,
  map fst (upd_group k d fns st) =
  if existsb (keys_eqb k) (map fst st) then map fst st else map fst st ++ [k].
Proof.
  intros k d fns st. induction st as [|[k' a] t IH]; [reflexivity|].
  cbn [upd_group map fst existsb]. destruct (keys_eqb k k') eqn:E; cbn [orb map fst].
  - reflexivity.
  - rewrite IH. destruct (existsb (keys_eqb k) (map fst t)); reflexivity.
Qed.

Lemma group_rows_app : forall keys k rows d,
  group_rows keys k (rows ++ [d]) =
  group_rows keys k rows ++ (if keys_eqb (row_key keys d) k then [d] else []).
Proof.
  intros keys k rows d. unfold group_rows. rewrite filter_app. cbn [filter].
  destruct (keys_eqb (row_key keys d) k); reflexivity.
Qed.

(** pairwise inequivalent keys *)
Fixpoint keys_nodup (ks : list (list value)) : Prop :=
  match ks with
  | [] => True
  | k :: t => (forall k', In k' t -> keys_eqb k' k = false) /\ keys_nodup t
  end.

Definition covered (keys : list (str * expr)) (ks : list (list value)) (rows : list data) : Prop :=
  forall d, In d rows -> existsb (keys_eqb (row_key keys d)) ks = true.

Definition accs_ok (keys : list (str * expr)) (fns : list (str * aggfn))
           (st : list (list value * list (str * acc))) (rows : list data) : Prop :=
  forall k accs, In (k, accs) st ->
    accs = map (fun na => (fst na, fold_left acc_step (group_rows keys k rows) (snd na))) (fresh_accs fns).

Lemma nodup_snoc : forall ks k,
  keys_nodup ks -> existsb (keys_eqb k) ks = false -> keys_nodup (ks ++ [k]).
Proof.
  intros ks k. induction ks as [|h t IH]; intros Hn E.
  - cbn. split; [intros k' []|exact I].
  - cbn [keys_nodup] in Hn. destruct Hn as [Hh Ht].
    cbn [existsb] in E. apply orb_false_iff in E. destruct E as [E1 E2].
    cbn [app keys_nodup]. split.
    + intros k' Hin. apply in_app_or in Hin. destruct Hin as [Hin|[Hin|[]]].
      * apply Hh; exact Hin.
      * subst k'. exact E1.
    + apply IH; assumption.
Qed.

Lemma sum_cons : forall keys d rows ks,
  fold_right (fun k n => (length (group_rows keys k (d :: rows)) + n)%nat) 0%nat ks =
  (length (filter (keys_eqb (row_key keys d)) ks) +
   fold_right (fun k n => (length (group_rows keys k rows) + n)%nat) 0%nat ks)%nat.
Proof.
  intros keys d rows ks. induction ks as [|k t IH]; [reflexivity|].
  cbn [fold_right filter]. rewrite IH.
  change (group_rows keys k (d :: rows))
    with (if keys_eqb (row_key keys d) k then d :: group_rows keys k rows else group_rows keys k rows).
  destruct (keys_eqb (row_key keys d) k); cbn [length]; lia.
Qed.

Lemma sum_nil : forall keys ks,
  fold_right (fun k n => (length (group_rows keys k []) + n)%nat) 0%nat ks = 0%nat.
Proof.
  intros keys ks. induction ks as [|k t IH]; [reflexivity|].
  cbn [fold_right]. rewrite IH. reflexivity.
Qed.

Section WithVeqb.
Hypothesis veqb_refl : forall v, veqb v v = true.
Hypothesis veqb_sym : forall a b, veqb a b = veqb b a.
Hypothesis veqb_trans : forall a b c, veqb a b = true -> veqb b c = true -> veqb a c = true.

Lemma keys_eqb_refl : forall k, keys_eqb k k = true.
Proof.
  induction k as [|x k IH]; [reflexivity|].
  rewrite keys_eqb_cons, veqb_refl, IH. reflexivity.
Qed.
Lemma keys_eqb_sym : forall a b, keys_eqb a b = keys_eqb b a.
Proof.
  induction a as [|x a IH]; intros [|y b]; try reflexivity.
  rewrite !keys_eqb_cons, (veqb_sym x y), (IH b). reflexivity.
Qed.
Lemma keys_eqb_trans : forall a b c, keys_eqb a b = true -> keys_eqb b c = true -> keys_eqb a c = true.
Proof.
  induction a as [|x a IH]; intros [|y b] [|z c] H1 H2;
    try reflexivity; try (cbv in H1; discriminate H1); try (cbv in H2; discriminate H2).
  rewrite keys_eqb_cons in H1, H2. rewrite keys_eqb_cons.
  apply andb_true_iff in H1. apply andb_true_iff in H2.
  destruct H1 as [H1 H1']. destruct H2 as [H2 H2'].
  rewrite (veqb_trans _ _ _ H1 H2), (IH _ _ H1' H2'). reflexivity.
Qed.

Lemma keys_gen : forall keys fns rows st,
  map fst (fold_left (st_step keys fns) rows st) =
  map fst st ++ filter (notin (map fst st)) (dedup_keys (map (row_key keys) rows)).
Proof.
  intros keys fns rows. induction rows as [|d rows IH]; intro st.
  - cbn [fold_left map dedup_keys filter]. rewrite app_nil_r. reflexivity.
  - cbn [fold_left map dedup_keys]. rewrite IH. unfold st_step at 1 2.
    rewrite upd_group_keys.
    destruct (existsb (keys_eqb (row_key keys d)) (map fst st)) eqn:E.
    + assert (Hk : notin (map fst st) (row_key keys d) = false)
        by (unfold notin; rewrite E; reflexivity).
      cbn [filter]. rewrite Hk. f_equal. rewrite filter_filter'.
      apply filter_ext_in. intros x _.
      destruct (keys_eqb x (row_key keys d)) eqn:Ex; [|reflexivity].
      cbn [negb andb]. unfold notin.
      apply existsb_exists in E. destruct E as [s [Hs Hks]].
      assert (Hx : existsb (keys_eqb x) (map fst st) = true).
      { apply existsb_exists. exists s. split; [exact Hs|].
        eapply keys_eqb_trans; [exact Ex|exact Hks]. }
      rewrite Hx. reflexivity.
    + assert (Hk : notin (map fst st) (row_key keys d) = true)
        by (unfold notin; rewrite E; reflexivity).
      cbn [filter]. rewrite Hk. rewrite <- app_assoc. f_equal. cbn [app]. f_equal.
      rewrite filter_filter'. apply filter_ext. intro x. unfold notin.
      rewrite existsb_app. cbn [existsb]. rewrite orb_false_r, negb_orb. apply andb_comm.
Qed.

(** 1. exactly one entry per distinct key combination, in first-seen order *)
Theorem grouper_keys : forall keys fns rows,
  map fst (g_state (grouper_after keys fns rows)) = dedup_keys (map (row_key keys) rows).
Proof.
  intros keys fns rows. unfold grouper_after. rewrite grouper_fold_state. cbn [g_state].
  rewrite keys_gen. cbn [map app]. apply filter_all. intro x. reflexivity.
Qed.

Lemma upd_group_in : forall kd d fns st k accs,
  keys_nodup (map fst st) ->
  In (k, accs) (upd_group kd d fns st) ->
  (In (k, accs) st /\ keys_eqb kd k = false) \/
  (exists accs0, In (k, accs0) st /\ keys_eqb kd k = true /\
                 accs = map (fun na => (fst na, acc_step (snd na) d)) accs0) \/
  (existsb (keys_eqb kd) (map fst st) = false /\ k = kd /\
   accs = map (fun na => (fst na, acc_step (snd na) d)) (fresh_accs fns)).
Proof.
  intros kd d fns st. induction st as [|[k' a'] t IH]; intros k accs Hnd Hin.
  - cbn [upd_group] in Hin. destruct Hin as [Heq|[]]. inversion Heq; subst.
    right; right. repeat split; reflexivity.
  - cbn [map fst keys_nodup] in Hnd. destruct Hnd as [Hh Ht].
    cbn [upd_group] in Hin. destruct (keys_eqb kd k') eqn:E.
    + destruct Hin as [Heq|Hin].
      * inversion Heq; subst. right; left. exists a'.
        split; [left; reflexivity|]. split; [exact E|reflexivity].
      * left. split; [right; exact Hin|].
        destruct (keys_eqb kd k) eqn:E2; [|reflexivity].
        assert (Hf : keys_eqb k k' = false).
        { apply Hh. change k with (fst (k, accs)). apply in_map. exact Hin. }
        rewrite keys_eqb_sym in E2. rewrite (keys_eqb_trans _ _ _ E2 E) in Hf. discriminate Hf.
    + destruct Hin as [Heq|Hin].
      * inversion Heq; subst. left. split; [left; reflexivity|exact E].
      * destruct (IH _ _ Ht Hin) as [[H1 H2]|[[a0 [H1 [H2 H3]]]|[H1 [H2 H3]]]].
        -- left. split; [right; exact H1|exact H2].
        -- right; left. exists a0. split; [right; exact H1|]. split; assumption.
        -- right; right. cbn [map fst existsb]. rewrite E, H1. repeat split; assumption.
Qed.

Definition Inv (keys : list (str * expr)) (fns : list (str * aggfn))
           (st : list (list value * list (str * acc))) (rows : list data) : Prop :=
  accs_ok keys fns st rows /\ keys_nodup (map fst st) /\ covered keys (map fst st) rows.

Lemma inv_step : forall keys fns st rows d,
  Inv keys fns st rows -> Inv keys fns (st_step keys fns st d) (rows ++ [d]).
Proof.
  intros keys fns st rows d [Ha [Hn Hc]]. split; [|split].
  - intros k accs Hin. unfold st_step in Hin.
    apply upd_group_in in Hin; [|exact Hn]. rewrite group_rows_app.
    destruct Hin as [[H1 H2]|[[a0 [H1 [H2 H3]]]|[H1 [H2 H3]]]].
    + rewrite H2, app_nil_r. apply Ha. exact H1.
    + rewrite H2. subst accs. rewrite (Ha _ _ H1). rewrite map_map.
      apply map_ext. intro na. cbn [fst snd]. rewrite fold_left_app. reflexivity.
    + subst k accs. rewrite keys_eqb_refl.
      assert (Hg : group_rows keys (row_key keys d) rows = []).
      { unfold group_rows. apply filter_none. intros d0 Hd0.
        destruct (keys_eqb (row_key keys d0) (row_key keys d)) eqn:E0; [|reflexivity].
        pose proof (Hc _ Hd0) as Hc0. apply existsb_exists in Hc0.
        destruct Hc0 as [s [Hs Hks]].
        assert (Hx : existsb (keys_eqb (row_key keys d)) (map fst st) = true).
        { apply existsb_exists. exists s. split; [exact Hs|].
          eapply keys_eqb_trans; [|exact Hks]. rewrite keys_eqb_sym. exact E0. }
        rewrite Hx in H1. discriminate H1. }
      rewrite Hg. cbn [app]. apply map_ext. intro na. reflexivity.
  - unfold st_step. rewrite upd_group_keys.
    destruct (existsb (keys_eqb (row_key keys d)) (map fst st)) eqn:E.
    + exact Hn.
    + apply nodup_snoc; assumption.
  - intros d0 Hd0. unfold st_step. rewrite upd_group_keys. apply in_app_or in Hd0.
    destruct (existsb (keys_eqb (row_key keys d)) (map fst st)) eqn:E.
    + destruct Hd0 as [H|[H|[]]].
      * apply Hc. exact H.
      * subst d0. exact E.
    + rewrite existsb_app. destruct Hd0 as [H|[H|[]]].
      * rewrite (Hc _ H). reflexivity.
      * subst d0. cbn [existsb]. rewrite keys_eqb_refl. cbn [orb]. apply orb_true_r.
Qed.

Lemma inv_all : forall keys fns rows,
  Inv keys fns (fold_left (st_step keys fns) rows []) rows.
Proof.
  intros keys fns rows. induction rows as [|d rows IH] using rev_ind.
  - split; [|split].
    + intros k accs [].
    + exact I.
    + intros d [].
  - rewrite fold_left_app. cbn [fold_left]. apply inv_step. exact IH.
Qed.

(** 2. every entry holds, for every output column, that column's own function
    folded over exactly the rows of the group, in arrival order *)
Theorem grouper_accs : forall keys fns rows k accs,
  In (k, accs) (g_state (grouper_after keys fns rows)) ->
  accs = map (fun na => (fst na, fold_left acc_step (group_rows keys k rows) (snd na))) (fresh_accs fns).
Proof.
  intros keys fns rows k accs Hin. unfold grouper_after in Hin.
  rewrite grouper_fold_state in Hin. cbn [g_state] in Hin.
  destruct (inv_all keys fns rows) as [Ha _]. apply Ha. exact Hin.
Qed.

Lemma count_one : forall kd ks,
  keys_nodup ks -> existsb (keys_eqb kd) ks = true ->
  length (filter (keys_eqb kd) ks) = 1%nat.
Proof.
  intros kd ks. induction ks as [|k t IH]; intros Hn E.
  - discriminate E.
  - cbn [keys_nodup] in Hn. destruct Hn as [Hh Ht]. cbn [existsb] in E. cbn [filter].
    destruct (keys_eqb kd k) eqn:Ek.
    + rewrite filter_none; [reflexivity|].
      intros k' Hk'. destruct (keys_eqb kd k') eqn:E2; [|reflexivity].
      pose proof (Hh _ Hk') as Hf. rewrite keys_eqb_sym in E2.
      rewrite (keys_eqb_trans _ _ _ E2 Ek) in Hf. discriminate Hf.
    + cbn [orb] in E. apply IH; assumption.
Qed.

Lemma partition_gen : forall keys ks rows,
  keys_nodup ks -> covered keys ks rows ->
  fold_right (fun k n => (length (group_rows keys k rows) + n)%nat) 0%nat ks = length rows.
Proof.
  intros keys ks rows Hn. induction rows as [|d rows IH]; intro Hc.
  - apply sum_nil.
  - rewrite sum_cons. rewrite count_one; [|exact Hn|apply Hc; left; reflexivity].
    rewrite IH; [reflexivity|]. intros d0 Hd0. apply Hc. right. exact Hd0.
Qed.

(** 3. the groups partition the rows: every row is in the group of its own key,
    and the group sizes add up to the number of rows *)
Theorem groups_partition : forall keys fns rows,
  fold_right (fun k n => (length (group_rows keys k rows) + n)%nat) 0%nat
             (map fst (g_state (grouper_after keys fns rows))) = length rows.
Proof.
  intros keys fns rows. unfold grouper_after. rewrite grouper_fold_state. cbn [g_state].
  destruct (inv_all keys fns rows) as [_ [Hn Hc]]. apply partition_gen; assumption.
Qed.

(** 4. an unconditional count counts the rows of the group *)
Lemma count_fold : forall rows n, fold_left acc_step rows (ACount n None) = ACount (n + Z.of_nat (length rows)) None.
Proof.
  induction rows as [|d rows IH]; intro n.
  - cbn [fold_left length]. f_equal. lia.
  - cbn [fold_left acc_step length]. rewrite IH. f_equal. lia.
Qed.

(** 5. a conditional count counts the rows on which the condition evaluates to true *)
Lemma count_cond_fold : forall c rows n,
  fold_left acc_step rows (ACount n (Some c)) =
  ACount (n + Z.of_nat (length (filter (fun d => match eval_bool c d with Ok true => true | _ => false end) rows))) (Some c).
Proof.
  intros c rows. induction rows as [|d rows IH]; intro n.
  - cbn [fold_left filter length]. f_equal. lia.
  - cbn [fold_left acc_step filter].
    destruct (eval_bool c d) as [[|]| | |]; cbn [length]; rewrite IH; f_equal; lia.
Qed.

(** 6. the numeric accumulators only see the rows whose argument evaluates to a
    number ([eval_f64 e d = Ok _]); every other row leaves them unchanged *)
Definition numeric_args (e : expr) (rows : list data) : list f64 :=
  flat_map (fun d => match eval_f64 e d with Ok v => [v] | _ => [] end) rows.

Lemma sum_fold : forall e rows t,
  fold_left acc_step rows (ASum t e) = ASum (fold_left fadd (numeric_args e rows) t) e.
Proof.
  intros e rows. unfold numeric_args. induction rows as [|d rows IH]; intro t; [reflexivity|].
  cbn [fold_left flat_map acc_step].
  destruct (eval_f64 e d) as [v| | |]; cbn [app fold_left]; apply IH.
Qed.

Lemma avg_fold : forall e rows t n,
  fold_left acc_step rows (AAvg t n e) =
  AAvg (fold_left fadd (numeric_args e rows) t) (n + Z.of_nat (length (numeric_args e rows))) e.
Proof.
  intros e rows. unfold numeric_args. induction rows as [|d rows IH]; intros t n.
  - cbn [fold_left flat_map length]. f_equal. lia.
  - cbn [fold_left flat_map acc_step].
    destruct (eval_f64 e d) as [v| | |]; cbn [app fold_left length]; rewrite IH; f_equal; lia.
Qed.

(** min / max keep the integer arguments (an integer, or text holding one: [exact_int_of])
    apart from the other numeric arguments: the former are compared exactly, the latter as doubles *)
Definition int_args (e : expr) (rows : list data) : list Z :=
  flat_map (fun d => match exact_int_of (eval e d) with Some i => [i] | None => [] end) rows.
Definition float_args (e : expr) (rows : list data) : list f64 :=
  flat_map (fun d => match exact_int_of (eval e d) with
                     | Some _ => []
                     | None => match eval_f64 e d with Ok v => [v] | _ => [] end
                     end) rows.

(** an integer argument is numeric, and the double the other accumulators see is its conversion *)
Lemma exact_int_f64 : forall e d i,
  exact_int_of (eval e d) = Some i -> eval_f64 e d = Ok (f_of_Z i).
Proof.
  intros e d i H. unfold eval_f64. destruct (eval e d) as [v| | |]; try discriminate H.
  destruct v as [s|z|f|b|ns|ns|kvs|l|]; try discriminate H; cbn [exact_int_of] in H.
  - cbn [bind to_f64_agg]. unfold aggressively_to_num.
    destruct (from_string s) as [s'|z|f|b|ns|ns|kvs|l|]; try discriminate H.
    inversion H; subst. reflexivity.
  - inversion H; subst. reflexivity.
Qed.

(** the numeric arguments are the integer ones (converted) together with the others *)
Lemma numeric_args_split : forall e rows,
  Permutation (numeric_args e rows) (map f_of_Z (int_args e rows) ++ float_args e rows).
Proof.
  intros e rows. unfold numeric_args, int_args, float_args.
  induction rows as [|d rows IH]; [apply perm_nil|].
  cbn [flat_map]. destruct (exact_int_of (eval e d)) as [i|] eqn:Ei.
  - rewrite (exact_int_f64 _ _ _ Ei). cbn [app map]. apply perm_skip. exact IH.
  - cbn [app map]. destruct (eval_f64 e d) as [v| | |]; cbn [app]; try exact IH.
    apply Permutation_cons_app. exact IH.
Qed.

Lemma numeric_args_nil : forall e rows,
  numeric_args e rows = [] -> int_args e rows = [] /\ float_args e rows = [].
Proof.
  intros e rows H. pose proof (numeric_args_split e rows) as P. rewrite H in P.
  apply Permutation_nil in P. apply app_eq_nil in P. destruct P as [P1 P2].
  split; [|exact P2]. apply map_eq_nil in P1. exact P1.
Qed.

(** the exact extremum of a list of integers *)
Definition minZ (zs : list Z) : option Z :=
  match zs with [] => None | z :: r => Some (fold_left Z.min r z) end.
Definition maxZ (zs : list Z) : option Z :=
  match zs with [] => None | z :: r => Some (fold_left Z.max r z) end.

Definition imin_step (o : option Z) (i : Z) : option Z :=
  Some (match o with Some s => Z.min i s | None => i end).
Definition imax_step (o : option Z) (i : Z) : option Z :=
  Some (match o with Some s => Z.max i s | None => i end).

Lemma imin_fold_some : forall zs s, fold_left imin_step zs (Some s) = Some (fold_left Z.min zs s).
Proof.
  induction zs as [|z zs IH]; intro s; [reflexivity|].
  cbn [fold_left]. unfold imin_step at 2. rewrite IH, (Z.min_comm z s). reflexivity.
Qed.
Lemma imax_fold_some : forall zs s, fold_left imax_step zs (Some s) = Some (fold_left Z.max zs s).
Proof.
  induction zs as [|z zs IH]; intro s; [reflexivity|].
  cbn [fold_left]. unfold imax_step at 2. rewrite IH, (Z.max_comm z s). reflexivity.
Qed.
Lemma imin_fold_none : forall zs, fold_left imin_step zs None = minZ zs.
Proof. intros [|z zs]; [reflexivity|]. cbn [fold_left minZ]. apply imin_fold_some. Qed.
Lemma imax_fold_none : forall zs, fold_left imax_step zs None = maxZ zs.
Proof. intros [|z zs]; [reflexivity|]. cbn [fold_left maxZ]. apply imax_fold_some. Qed.

(** the double part of the min / max accumulators: a NaN is skipped; the first other double is
    taken as it is, a later one when it is smaller (larger) by the IEEE [<] *)
Definition fmin_step (o : option f64) (v : f64) : option f64 :=
  if f_is_nan v then o else
  match o with Some s => if fltb v s then Some v else o | None => Some v end.
Definition fmax_step (o : option f64) (v : f64) : option f64 :=
  if f_is_nan v then o else
  match o with Some s => if fltb s v then Some v else o | None => Some v end.

(** the double extremum of a list of doubles: that of its non-NaN elements, None when there is
    none (the analogue of [minZ] / [maxZ]) *)
Definition not_nan (f : f64) : bool := negb (f_is_nan f).
Definition minF (fs : list f64) : option f64 :=
  match filter not_nan fs with
  | [] => None
  | x :: r => Some (fold_left (fun acc v => if fltb v acc then v else acc) r x)
  end.
Definition maxF (fs : list f64) : option f64 :=
  match filter not_nan fs with
  | [] => None
  | x :: r => Some (fold_left (fun acc v => if fltb acc v then v else acc) r x)
  end.

Lemma fmin_fold_some : forall fs s,
  fold_left fmin_step fs (Some s) =
  Some (fold_left (fun acc v => if fltb v acc then v else acc) (filter not_nan fs) s).
Proof.
  induction fs as [|v fs IH]; intro s; [reflexivity|].
  cbn [fold_left filter]. unfold fmin_step at 2. unfold not_nan at 1.
  destruct (f_is_nan v); cbn [negb]; [apply IH|].
  cbn [fold_left]. destruct (fltb v s); apply IH.
Qed.
Lemma fmax_fold_some : forall fs s,
  fold_left fmax_step fs (Some s) =
  Some (fold_left (fun acc v => if fltb acc v then v else acc) (filter not_nan fs) s).
Proof.
  induction fs as [|v fs IH]; intro s; [reflexivity|].
  cbn [fold_left filter]. unfold fmax_step at 2. unfold not_nan at 1.
  destruct (f_is_nan v); cbn [negb]; [apply IH|].
  cbn [fold_left]. destruct (fltb s v); apply IH.
Qed.
Lemma fmin_fold_none : forall fs, fold_left fmin_step fs None = minF fs.
Proof.
  unfold minF. induction fs as [|v fs IH]; [reflexivity|].
  cbn [fold_left filter]. unfold fmin_step at 2. unfold not_nan at 1.
  destruct (f_is_nan v); cbn [negb]; [exact IH|apply fmin_fold_some].
Qed.
Lemma fmax_fold_none : forall fs, fold_left fmax_step fs None = maxF fs.
Proof.
  unfold maxF. induction fs as [|v fs IH]; [reflexivity|].
  cbn [fold_left filter]. unfold fmax_step at 2. unfold not_nan at 1.
  destruct (f_is_nan v); cbn [negb]; [exact IH|apply fmax_fold_some].
Qed.

Lemma min_fold : forall e rows m mi,
  fold_left acc_step rows (AMin m mi e) =
  AMin (fold_left fmin_step (float_args e rows) m)
       (fold_left imin_step (int_args e rows) mi) e.
Proof.
  intros e rows. unfold float_args, int_args.
  induction rows as [|d rows IH]; intros m mi; [reflexivity|].
  cbn [fold_left flat_map acc_step].
  destruct (exact_int_of (eval e d)) as [i|] eqn:Ei.
  - rewrite (exact_int_f64 _ _ _ Ei). cbn [app fold_left]. apply IH.
  - destruct (eval_f64 e d) as [v| | |]; cbn [app fold_left]; try apply IH.
    unfold fmin_step at 2. destruct (f_is_nan v); [apply IH|].
    destruct m as [s|]; [destruct (fltb v s)|]; apply IH.
Qed.

Lemma max_fold : forall e rows m mi,
  fold_left acc_step rows (AMax m mi e) =
  AMax (fold_left fmax_step (float_args e rows) m)
       (fold_left imax_step (int_args e rows) mi) e.
Proof.
  intros e rows. unfold float_args, int_args.
  induction rows as [|d rows IH]; intros m mi; [reflexivity|].
  cbn [fold_left flat_map acc_step].
  destruct (exact_int_of (eval e d)) as [i|] eqn:Ei.
  - rewrite (exact_int_f64 _ _ _ Ei). cbn [app fold_left]. apply IH.
  - destruct (eval_f64 e d) as [v| | |]; cbn [app fold_left]; try apply IH.
    unfold fmax_step at 2. destruct (f_is_nan v); [apply IH|].
    destruct m as [s|]; [destruct (fltb s v)|]; apply IH.
Qed.

(** the min / max cell: the exact extremum of the integer arguments against the
    double extremum of the others ([minmax_emit]) *)
Lemma min_emit : forall e rows,
  acc_emit (fold_left acc_step rows (acc_empty (FMin e))) =
  Ok (minmax_emit true (minF (float_args e rows)) (minZ (int_args e rows))).
Proof.
  intros e rows. cbn [acc_empty]. rewrite min_fold, imin_fold_none, fmin_fold_none. reflexivity.
Qed.
Lemma max_emit : forall e rows,
  acc_emit (fold_left acc_step rows (acc_empty (FMax e))) =
  Ok (minmax_emit false (maxF (float_args e rows)) (maxZ (int_args e rows))).
Proof.
  intros e rows. cbn [acc_empty]. rewrite max_fold, imax_fold_none, fmax_fold_none. reflexivity.
Qed.

(** a group without any numeric value reports None for min and max *)
Lemma min_none : forall e rows, numeric_args e rows = [] ->
  acc_emit (fold_left acc_step rows (acc_empty (FMin e))) = Ok VNone.
Proof.
  intros e rows H. destruct (numeric_args_nil _ _ H) as [Hi Hf].
  rewrite min_emit, Hi, Hf. reflexivity.
Qed.
Lemma max_none : forall e rows, numeric_args e rows = [] ->
  acc_emit (fold_left acc_step rows (acc_empty (FMax e))) = Ok VNone.
Proof.
  intros e rows H. destruct (numeric_args_nil _ _ H) as [Hi Hf].
  rewrite max_emit, Hi, Hf. reflexivity.
Qed.

(** 7. count_distinct: the number of distinct (under ==) values of the argument *)
Fixpoint dedup_values (vs : list value) : list value :=
  match vs with
  | [] => []
  | v :: rest => v :: filter (fun v' => negb (veqb v' v)) (dedup_values rest)
  end.

Definition dstep (seen : list value) (v : value) : list value :=
  if existsb (veqb v) seen then seen else v :: seen.

Definition vnotin (seen : list value) (x : value) : bool := negb (existsb (veqb x) seen).

Lemma distinct_fold_gen : forall e rows seen,
  fold_left acc_step rows (ADistinct seen e) =
  ADistinct (fold_left dstep (flat_map (fun d => match eval e d with Ok v => [v] | _ => [] end) rows) seen) e.
Proof.
  intros e rows. induction rows as [|d rows IH]; intro seen; [reflexivity|].
  cbn [fold_left flat_map acc_step].
  destruct (eval e d) as [v| | |]; cbn [app fold_left]; try apply IH.
  unfold dstep at 2. destruct (existsb (veqb v) seen); apply IH.
Qed.

Lemma dstep_length : forall vals seen,
  length (fold_left dstep vals seen) =
  (length seen + length (filter (vnotin seen) (dedup_values vals)))%nat.
Proof.
  induction vals as [|v vals IH]; intro seen.
  - cbn [fold_left dedup_values filter length]. lia.
  - cbn [fold_left dedup_values]. rewrite IH.
    destruct (existsb (veqb v) seen) eqn:E.
    + assert (Hd : dstep seen v = seen) by (unfold dstep; rewrite E; reflexivity).
      assert (Hk : vnotin seen v = false) by (unfold vnotin; rewrite E; reflexivity).
      rewrite Hd. cbn [filter]. rewrite Hk. rewrite filter_filter'.
      f_equal. f_equal. apply filter_ext_in. intros x _.
      destruct (veqb x v) eqn:Ex; [|reflexivity].
      cbn [negb andb]. unfold vnotin.
      apply existsb_exists in E. destruct E as [s [Hs Hvs]].
      assert (Hx : existsb (veqb x) seen = true).
      { apply existsb_exists. exists s. split; [exact Hs|].
        eapply veqb_trans; [exact Ex|exact Hvs]. }
      rewrite Hx. reflexivity.
    + assert (Hd : dstep seen v = v :: seen) by (unfold dstep; rewrite E; reflexivity).
      assert (Hk : vnotin seen v = true) by (unfold vnotin; rewrite E; reflexivity).
      rewrite Hd. cbn [filter]. rewrite Hk. rewrite filter_filter'. cbn [length].
      rewrite (filter_ext (vnotin (v :: seen)) (fun x => negb (veqb x v) && vnotin seen x)).
      * lia.
      * intro x. unfold vnotin. cbn [existsb]. apply negb_orb.
Qed.

Lemma distinct_fold : forall e rows,
  acc_emit (fold_left acc_step rows (acc_empty (FDistinct e))) =
  Ok (VInt (Z.of_nat (length (dedup_values (flat_map (fun d => match eval e d with Ok v => [v] | _ => [] end) rows))))).
Proof.
  intros e rows. cbn [acc_empty]. rewrite distinct_fold_gen. cbn [acc_emit].
  rewrite dstep_length. cbn [length Nat.add].
  rewrite filter_all; [reflexivity|]. intro x. reflexivity.
Qed.

End WithVeqb.

Print Assumptions grouper_keys.
Print Assumptions grouper_accs.
Print Assumptions groups_partition.
Print Assumptions distinct_fold.
