(** Theorems about the duration texts of DurFmt.v: each text determines the duration (a left inverse), for
    EVERY [ns : Z] — in particular on the range [dur_ok] of chrono's TimeDelta; the ISO text is never empty and
    starts with "P" or "-P". *)
From Coq Require Import List ZArith NArith Bool Lia.
From AG Require Import Str F64 Value Json Expr Ops Pipeline Output DateFmt DateFmt_proofs DurFmt.
Import ListNotations.
Open Scope Z_scope.
Ltac Zify.zify_post_hook ::= Z.div_mod_to_equations.

(** * digits *)
Lemma udec_digits a : forallb is_digit (udec a) = true.
Proof. apply digs_all_digits. Qed.

Lemma val_udec a : 0 <= a -> val (udec a) = a.
Proof. intros Ha. unfold udec. apply val_digs. split; [lia|]. now apply ndig_bound. Qed.

Lemma frac_digs_digits k : forall n, forallb is_digit (frac_digs k n) = true.
Proof.
  induction k as [|k IH]; intros n; cbn [frac_digs]; [reflexivity|].
  destruct (n mod 10 =? 0); [apply IH|apply digs_all_digits].
Qed.

Lemma frac_digs_length k : forall n, (length (frac_digs k n) <= k)%nat.
Proof.
  induction k as [|k IH]; intros n; cbn [frac_digs length]; [lia|].
  destruct (n mod 10 =? 0); [specialize (IH (n / 10)); lia|rewrite digs_length; lia].
Qed.

Lemma frac_digs_val k : forall n, 0 <= n < 10 ^ Z.of_nat k ->
  val (frac_digs k n) * 10 ^ (Z.of_nat k - Z.of_nat (length (frac_digs k n))) = n.
Proof.
  induction k as [|k IH]; intros n Hn.
  - cbn [frac_digs length]. change (10 ^ Z.of_nat 0) with 1 in Hn. cbn. lia.
  - cbn [frac_digs]. destruct (Z.eqb_spec (n mod 10) 0) as [E|N].
    + rewrite Nat2Z.inj_succ, Z.pow_succ_r in Hn by lia.
      assert (0 <= n / 10 < 10 ^ Z.of_nat k) as Hq by lia.
      specialize (IH (n / 10) Hq). pose proof (frac_digs_length k (n / 10)) as Hl.
      replace (Z.of_nat (S k) - Z.of_nat (length (frac_digs k (n / 10))))
        with (Z.succ (Z.of_nat k - Z.of_nat (length (frac_digs k (n / 10))))) by lia.
      rewrite Z.pow_succ_r by lia.
      set (p := 10 ^ (Z.of_nat k - Z.of_nat (length (frac_digs k (n / 10))))) in *.
      set (v := val (frac_digs k (n / 10))) in *. nia.
    + rewrite digs_length, Z.sub_diag, val_digs by assumption. change (10 ^ 0) with 1. lia.
Qed.

(** * a reader for the ISO text *)
Definition un_iso_body (neg : bool) (r : str) : option Z :=
  match r with
  | _ :: c :: r' =>
      if (c =? 48)%N then Some 0
      else let '(sd, r2) := take_digits r' in
           let fr := match r2 with
                     | c2 :: r3 => if (c2 =? 46)%N
                                   then let '(fd, _) := take_digits r3 in
                                        val fd * 10 ^ (9 - Z.of_nat (length fd))
                                   else 0
                     | [] => 0
                     end in
           let a := val sd * 1000000000 + fr in Some (if neg then - a else a)
  | _ => None
  end.
Definition un_iso (s : str) : option Z :=
  let '(neg, r) := strip_minus s in un_iso_body neg r.

Lemma un_iso_abs a (neg : bool) :
  0 <= a ->
  un_iso_body neg (80%N :: (if a =? 0 then [48; 68]%N
      else 84%N :: udec (a / 1000000000) ++
           (if 0 <? a mod 1000000000 then 46%N :: frac_digs 9 (a mod 1000000000) else []) ++ [83%N]))
  = Some (if neg then - a else a).
Proof.
  intros Ha. unfold un_iso_body. destruct (Z.eqb_spec a 0) as [E0|N0].
  - subst a. rewrite N.eqb_refl. destruct neg; reflexivity.
  - change ((84 =? 48)%N) with false. cbv iota.
    assert (0 <= a / 1000000000) as Hs by lia.
    assert (0 <= a mod 1000000000 < 1000000000) as Hn by lia.
    destruct (Z.ltb_spec 0 (a mod 1000000000)) as [Hpos|Hz].
    + cbn [app]. rewrite take_digits_app by (try apply udec_digits; reflexivity).
      rewrite N.eqb_refl.
      rewrite take_digits_app by (try apply frac_digs_digits; reflexivity).
      rewrite val_udec by assumption.
      rewrite (frac_digs_val 9) by (change (10 ^ Z.of_nat 9) with 1000000000; lia).
      f_equal. destruct neg; lia.
    + cbn [app]. rewrite take_digits_app by (try apply udec_digits; reflexivity).
      change ((83 =? 46)%N) with false. cbv iota.
      rewrite val_udec by assumption. f_equal. destruct neg; lia.
Qed.

Theorem un_iso_fmt ns : un_iso (fmt_dur_iso ns) = Some ns.
Proof.
  unfold fmt_dur_iso, un_iso. cbv zeta.
  pose proof (un_iso_abs (Z.abs ns)) as H.
  destruct (Z.ltb_spec ns 0) as [Hneg|Hpos].
  - cbn [app strip_minus]. rewrite N.eqb_refl.
    specialize (H true (Z.abs_nonneg ns)). rewrite H. f_equal. lia.
  - cbn [app strip_minus]. change ((80 =? 45)%N) with false. cbv iota.
    specialize (H false (Z.abs_nonneg ns)). rewrite H. f_equal. lia.
Qed.

(** the JSON text of a duration determines it *)
Theorem fmt_dur_iso_injective a b : fmt_dur_iso a = fmt_dur_iso b -> a = b.
Proof. intros H. apply (f_equal un_iso) in H. rewrite !un_iso_fmt in H. now injection H. Qed.

Corollary fmt_dur_iso_injective_in_range a b :
  dur_ok a = true -> dur_ok b = true -> fmt_dur_iso a = fmt_dur_iso b -> a = b.
Proof. intros _ _. apply fmt_dur_iso_injective. Qed.

(** * the Debug text *)
Definition un_sdec (s : str) : Z * str :=
  let '(neg, r) := strip_minus s in
  let '(ds, r') := take_digits r in ((if neg then - val ds else val ds), r').

Lemma un_sdec_sdec z rest : nondigit_head rest = true -> un_sdec (sdec z ++ rest) = (z, rest).
Proof.
  intros Hr. unfold sdec, un_sdec. destruct (Z.ltb_spec z 0) as [Hneg|Hpos].
  - cbn [app strip_minus]. rewrite N.eqb_refl.
    rewrite take_digits_app by (try apply udec_digits; assumption).
    rewrite val_udec by lia. f_equal. lia.
  - unfold strip_minus.
    destruct (udec z ++ rest) as [|x r] eqn:E.
    + pose proof (f_equal (@length N) E) as El. rewrite app_length in El. unfold udec in El.
      rewrite digs_length in El. cbn [length] in El.
      assert (ndig z <> 0%nat) as Hnz by (unfold ndig; cbn [ndig_fuel]; destruct (z <? 10); discriminate).
      lia.
    + assert (is_digit x = true) as Hx.
      { pose proof (udec_digits z) as Hd. destruct (udec z) as [|y u] eqn:Eu.
        - exfalso. pose proof (f_equal (@length N) Eu) as El. unfold udec in El. rewrite digs_length in El.
          cbn [length] in El.
          assert (ndig z <> 0%nat) as Hnz by (unfold ndig; cbn [ndig_fuel]; destruct (z <? 10); discriminate).
          lia.
        - cbn [app] in E. injection E as <- _. cbn [forallb] in Hd. now apply andb_prop in Hd as [Hy _]. }
      assert ((x =? 45)%N = false) as ->.
      { destruct (N.eqb_spec x 45) as [->|]; [discriminate Hx|reflexivity]. }
      rewrite <- E. rewrite take_digits_app by (try apply udec_digits; assumption).
      rewrite val_udec by lia. reflexivity.
Qed.

Definition un_dbg (s : str) : Z :=
  let '(secs, r) := un_sdec (skipn 18 s) in
  let '(nd, _) := take_digits (skipn 9 r) in secs * 1000000000 + val nd.

Theorem un_dbg_fmt ns : un_dbg (fmt_dur_debug ns) = ns.
Proof.
  unfold un_dbg, fmt_dur_debug.
  change (skipn 18 (dbg_head ++ ?x)) with x.
  rewrite un_sdec_sdec by reflexivity.
  change (skipn 9 (dbg_mid ++ ?x)) with x.
  rewrite take_digits_app by (try apply udec_digits; reflexivity).
  rewrite val_udec by lia. lia.
Qed.

(** the text string functions see (concat, length, ...) determines the duration *)
Theorem fmt_dur_debug_injective a b : fmt_dur_debug a = fmt_dur_debug b -> a = b.
Proof. intros H. apply (f_equal un_dbg) in H. now rewrite !un_dbg_fmt in H. Qed.

Corollary fmt_dur_debug_injective_in_range a b :
  dur_ok a = true -> dur_ok b = true -> fmt_dur_debug a = fmt_dur_debug b -> a = b.
Proof. intros _ _. apply fmt_dur_debug_injective. Qed.

(** * shape *)
Theorem fmt_dur_iso_nonempty ns : fmt_dur_iso ns <> [].
Proof. unfold fmt_dur_iso. cbv zeta. destruct (ns <? 0); cbn [app]; discriminate. Qed.

Theorem fmt_dur_iso_starts ns :
  (exists r, fmt_dur_iso ns = 80%N :: r /\ 0 <= ns) \/ (exists r, fmt_dur_iso ns = 45%N :: 80%N :: r /\ ns < 0).
Proof.
  unfold fmt_dur_iso. cbv zeta. destruct (Z.ltb_spec ns 0) as [Hneg|Hpos]; cbn [app].
  - right. eexists. split; [reflexivity|assumption].
  - left. eexists. split; [reflexivity|assumption].
Qed.

Theorem fmt_dur_debug_starts ns : exists r, fmt_dur_debug ns = dbg_head ++ r.
Proof. unfold fmt_dur_debug. eexists. reflexivity. Qed.

(** * inside the model *)
Theorem to_display_dur ns : to_display (VDur ns) = Ok (fmt_dur_debug ns).
Proof. reflexivity. Qed.
Theorem to_display_dur_injective a b : to_display (VDur a) = to_display (VDur b) -> a = b.
Proof. rewrite !to_display_dur. intros H. apply fmt_dur_debug_injective. congruence. Qed.
Theorem value_json_dur ns : value_json' (VDur ns) = JStr (fmt_dur_iso ns).
Proof. reflexivity. Qed.
Theorem value_json_dur_injective a b : value_json' (VDur a) = value_json' (VDur b) -> a = b.
Proof. rewrite !value_json_dur. intros H. apply fmt_dur_iso_injective. congruence. Qed.
Theorem value_json'_spec v : value_json' v = value_json fmt_dur_iso v.
Proof. reflexivity. Qed.

(** * examples *)
Local Open Scope string_scope.
Example ex_iso_0 : fmt_dur_iso 0 = lit "P0D". Proof. vm_compute. reflexivity. Qed.
Example ex_iso_1ns : fmt_dur_iso 1 = lit "PT0.000000001S". Proof. vm_compute. reflexivity. Qed.
Example ex_iso_m1ns : fmt_dur_iso (-1) = lit "-PT0.000000001S". Proof. vm_compute. reflexivity. Qed.
Example ex_iso_1500ms : fmt_dur_iso 1500000000 = lit "PT1.5S". Proof. vm_compute. reflexivity. Qed.
Example ex_iso_90min : fmt_dur_iso 5400000000000 = lit "PT5400S". Proof. vm_compute. reflexivity. Qed.
Example ex_iso_day_1ns : fmt_dur_iso 86400000000001 = lit "PT86400.000000001S". Proof. vm_compute. reflexivity. Qed.
Example ex_iso_max : fmt_dur_iso dur_max_ns = lit "PT9223372036854775.807S". Proof. vm_compute. reflexivity. Qed.
Example ex_iso_min : fmt_dur_iso (- dur_max_ns) = lit "-PT9223372036854775.807S". Proof. vm_compute. reflexivity. Qed.
Example ex_dbg_0 : fmt_dur_debug 0 = lit "TimeDelta { secs: 0, nanos: 0 }". Proof. vm_compute. reflexivity. Qed.
Example ex_dbg_1ns : fmt_dur_debug 1 = lit "TimeDelta { secs: 0, nanos: 1 }". Proof. vm_compute. reflexivity. Qed.
Example ex_dbg_m1ns : fmt_dur_debug (-1) = lit "TimeDelta { secs: -1, nanos: 999999999 }". Proof. vm_compute. reflexivity. Qed.
Example ex_dbg_1500ms : fmt_dur_debug 1500000000 = lit "TimeDelta { secs: 1, nanos: 500000000 }". Proof. vm_compute. reflexivity. Qed.
Example ex_dbg_m1500ms : fmt_dur_debug (-1500000000) = lit "TimeDelta { secs: -2, nanos: 500000000 }". Proof. vm_compute. reflexivity. Qed.
Example ex_dbg_90min : fmt_dur_debug 5400000000000 = lit "TimeDelta { secs: 5400, nanos: 0 }". Proof. vm_compute. reflexivity. Qed.
Example ex_dbg_day_1ns : fmt_dur_debug 86400000000001 = lit "TimeDelta { secs: 86400, nanos: 1 }". Proof. vm_compute. reflexivity. Qed.
Example ex_dbg_max : fmt_dur_debug dur_max_ns = lit "TimeDelta { secs: 9223372036854775, nanos: 807000000 }". Proof. vm_compute. reflexivity. Qed.
Example ex_dbg_min : fmt_dur_debug (- dur_max_ns) = lit "TimeDelta { secs: -9223372036854776, nanos: 193000000 }". Proof. vm_compute. reflexivity. Qed.
Example ex_range : dur_ok dur_max_ns && dur_ok (- dur_max_ns) && negb (dur_ok (dur_max_ns + 1)) = true. Proof. vm_compute. reflexivity. Qed.

Print Assumptions un_iso_fmt.
Print Assumptions fmt_dur_iso_injective.
Print Assumptions fmt_dur_debug_injective.
Print Assumptions fmt_dur_iso_nonempty.
Print Assumptions fmt_dur_iso_starts.
Print Assumptions to_display_dur_injective.
Print Assumptions value_json_dur_injective.
