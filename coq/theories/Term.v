(** A terminal subset (printable characters, CR, LF, ESC[2K, ESC[1A, autowrap,
    scrolling) and the Renderer's frame protocol (src/render.rs). *)
From Coq Require Import List ZArith NArith Bool.
From AG Require Import Str.
From AG Require Generated.
Import ListNotations.
Open Scope string_scope.
Open Scope list_scope.

Inductive tsym : Type :=
| TChar (c : N) | TCR | TLF | TEraseLine | TCursorUp | TOther.

Record screen := mkScr {
  sc_w : nat;
  sc_rows : list (list N);     (* the H rows, each a list of W cells; 32 = blank *)
  sc_r : nat; sc_c : nat }.    (* cursor; c = W means "wrap pending" *)

Definition blank_row (w : nat) : list N := repeat 32%N w.
Definition blank_screen (h w : nat) : screen := mkScr w (repeat (blank_row w) h) O O.
Definition sc_h (s : screen) : nat := length (sc_rows s).

Fixpoint set_nth {A} (n : nat) (x : A) (l : list A) : list A :=
  match l, n with
  | [], _ => []
  | _ :: t, O => x :: t
  | h :: t, S n' => h :: set_nth n' x t
  end.

(** move to the next line, scrolling when on the bottom row *)
Definition line_feed (s : screen) : screen :=
  if Nat.ltb (S (sc_r s)) (sc_h s) then mkScr (sc_w s) (sc_rows s) (S (sc_r s)) (sc_c s)
  else mkScr (sc_w s) (tl (sc_rows s) ++ [blank_row (sc_w s)]) (sc_r s) (sc_c s).

Definition put_char (s : screen) (c : N) : screen :=
  let s1 := if Nat.leb (sc_w s) (sc_c s)
            then let s' := line_feed s in mkScr (sc_w s') (sc_rows s') (sc_r s') O
            else s in
  let row := nth (sc_r s1) (sc_rows s1) [] in
  mkScr (sc_w s1) (set_nth (sc_r s1) (set_nth (sc_c s1) c row) (sc_rows s1)) (sc_r s1) (S (sc_c s1)).

Definition term_step (s : screen) (t : tsym) : screen :=
  match t with
  | TChar c => put_char s c
  | TCR => mkScr (sc_w s) (sc_rows s) (sc_r s) O
  | TLF => line_feed s
  | TEraseLine => mkScr (sc_w s) (set_nth (sc_r s) (blank_row (sc_w s)) (sc_rows s)) (sc_r s) (sc_c s)
  | TCursorUp => mkScr (sc_w s) (sc_rows s) (Nat.pred (sc_r s)) (sc_c s)
  | TOther => s
  end.

Definition term_run (s : screen) (ts : list tsym) : screen := fold_left term_step ts s.

(** bytes (code points) -> symbols: ESC [ digits letter *)
Fixpoint lex_term (fuel : nat) (s : str) : list tsym :=
  match fuel with
  | O => []
  | S f =>
      match s with
      | [] => []
      | c :: r =>
          if (c =? 27)%N then
            match r with
            | b :: r1 =>
                if (b =? 91)%N then
                  let '(ds, r2) := (fix digs (l : str) (acc : str) : str * str :=
                                      match l with
                                      | d :: l' => if is_digit d || (d =? 59)%N then digs l' (d :: acc) else (rev acc, l)
                                      | [] => (rev acc, [])
                                      end) r1 [] in
                  match r2 with
                  | fin :: r3 =>
                      (if (fin =? 75)%N && str_eqb ds (lit "2") then TEraseLine
                       else if (fin =? 65)%N && str_eqb ds (lit "1") then TCursorUp
                       else TOther) :: lex_term f r3
                  | [] => []
                  end
                else TOther :: lex_term f r1
            | [] => []
            end
          else if (c =? 13)%N then TCR :: lex_term f r
          else if (c =? 10)%N then TLF :: lex_term f r
          else if (c <? 32)%N then TOther :: lex_term f r
          else TChar c :: lex_term f r
      end
  end.

Definition lex (s : str) : list tsym := lex_term (S (length s)) s.

(** *** the Renderer on a terminal *)
Definition count_nl (s : str) : nat := length (filter (fun c => (c =? 10)%N) s).

Definition esc_seq (code : String.string) : str := 27%N :: 91%N :: lit code.

Definition reset_unit : str := flat_map esc_seq Generated.reset_unit.
Definition reset_tail : str := flat_map esc_seq Generated.reset_tail.

Definition reset_for (frame : str) : str :=
  concat (repeat reset_unit (count_nl frame)) ++ reset_tail.

(** what Renderer::render writes for a frame, given the previous reset sequence *)
Definition render_frame (reset : str) (frame : str) : str * str :=
  (reset_for frame, reset ++ frame).

(** all frames of a run: the bytes written to the terminal *)
Fixpoint render_frames (reset : str) (frames : list str) : str :=
  match frames with
  | [] => []
  | f :: rest => let '(reset', out) := render_frame reset f in out ++ render_frames reset' rest
  end.

(** the tty line discipline turns the program's LF into CR LF *)
Fixpoint onlcr (s : str) : str :=
  match s with
  | [] => []
  | c :: r => if (c =? 10)%N then 13%N :: 10%N :: onlcr r else c :: onlcr r
  end.

Definition screen_text (s : screen) : list str := map trim_end (sc_rows s).
