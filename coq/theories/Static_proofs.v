(** The static checks look at every sub-expression of every stage: a call of an
    unknown function (or a syntax-error node) rejects the stage wherever it
    sits -- under an operator, in an argument list, in a branch of an [if]
    whose condition is a literal, in an aggregate argument, a group key or a
    sort key.  Nothing an accepted query contains is left unchecked. *)
From Coq Require Import List ZArith NArith Bool Lia Arith.
From AG Require Import Str F64 Value Json Expr Ops Pipeline Filter Grammar.
From AG Require Grammar_proofs.
Import ListNotations.
Open Scope list_scope.

Inductive subexpr (e : expr) : expr -> Prop :=
| sub_refl : subexpr e e
| sub_not x : subexpr e x -> subexpr e (ENot x)
| sub_cmp_l o l r : subexpr e l -> subexpr e (ECmp o l r)
| sub_cmp_r o l r : subexpr e r -> subexpr e (ECmp o l r)
| sub_ar_l o l r : subexpr e l -> subexpr e (EArith o l r)
| sub_ar_r o l r : subexpr e r -> subexpr e (EArith o l r)
| sub_lg_l o l r : subexpr e l -> subexpr e (ELogic o l r)
| sub_lg_r o l r : subexpr e r -> subexpr e (ELogic o l r)
| sub_call f args a : In a args -> subexpr e a -> subexpr e (ECall f args)
| sub_if_c c t x : subexpr e c -> subexpr e (EIf c t x)
| sub_if_t c t x : subexpr e t -> subexpr e (EIf c t x)
| sub_if_e c t x : subexpr e x -> subexpr e (EIf c t x).

Lemma expr_ok_sub (e x : expr) : subexpr e x -> expr_ok x = true -> expr_ok e = true.
Proof.
  induction 1 as [|x Hs IH|o l r Hs IH|o l r Hs IH|o l r Hs IH|o l r Hs IH|o l r Hs IH|o l r Hs IH
                 |f args a Hin Hs IH|c t x Hs IH|c t x Hs IH|c t x Hs IH]; cbn [expr_ok]; intros Hok.
  - exact Hok.
  - apply IH, Hok.
  - apply andb_prop in Hok. apply IH, Hok.
  - apply andb_prop in Hok. apply IH, Hok.
  - apply andb_prop in Hok. apply IH, Hok.
  - apply andb_prop in Hok. apply IH, Hok.
  - apply andb_prop in Hok. apply IH, Hok.
  - apply andb_prop in Hok. apply IH, Hok.
  - apply andb_prop in Hok. destruct Hok as [_ Hall]. rewrite forallb_forall in Hall. apply IH, Hall, Hin.
  - apply andb_prop in Hok. destruct Hok as [Hct _]. apply andb_prop in Hct. apply IH, Hct.
  - apply andb_prop in Hok. destruct Hok as [Hct _]. apply andb_prop in Hct. apply IH, Hct.
  - apply andb_prop in Hok. apply IH, Hok.
Qed.

Definition opt_list {A} (o : option A) : list A := match o with Some a => [a] | None => [] end.

Definition aggfn_exprs (f : aggfn) : list expr :=
  match f with
  | FCount c => opt_list c
  | FSum e | FMin e | FMax e | FAvg e | FDistinct e | FPct _ e => [e]
  end.

(** every expression a stage carries *)
Definition stage_exprs (s : stage) : list expr :=
  match s with
  | SJson f | SLogfmt f => opt_list f
  | SParse _ _ f _ _ => opt_list f
  | SSplit _ f o => opt_list f ++ opt_list o
  | SFields _ _ | SLimit _ | SUnmodelled => []
  | SWhere e | SLet e _ | STimeslice e _ _ | STotal e _ => [e]
  | SAgg fns keys => flat_map (fun nf => aggfn_exprs (snd nf)) fns ++ map snd keys
  | SSort keys _ => keys
  end.

Lemma opt_expr_ok_in (o : option expr) (e : expr) : opt_expr_ok o = true -> In e (opt_list o) -> expr_ok e = true.
Proof. destruct o as [x|]; cbn; intros H Hin; [destruct Hin as [<-|[]]; exact H|destruct Hin]. Qed.

Lemma aggfn_ok_in (f : aggfn) (e : expr) : aggfn_ok f = true -> In e (aggfn_exprs f) -> expr_ok e = true.
Proof.
  destruct f as [c|x|x|x|x|x|p x]; cbn [aggfn_ok aggfn_exprs]; intros H Hin;
    [exact (opt_expr_ok_in _ _ H Hin)| | | | | |]; destruct Hin as [<-|[]]; exact H.
Qed.

Lemma stage_ok_all_exprs (s : stage) (e : expr) : stage_ok s = true -> In e (stage_exprs s) -> expr_ok e = true.
Proof.
  destruct s as [f|f|pat fields f nd nc|sep f o|only fs|x|x nm|x sp nm|n|x nm|fns keys|keys d|];
    cbn [stage_ok stage_exprs]; intros Hok Hin.
  - exact (opt_expr_ok_in _ _ Hok Hin).
  - exact (opt_expr_ok_in _ _ Hok Hin).
  - apply andb_prop in Hok. exact (opt_expr_ok_in _ _ (proj2 Hok) Hin).
  - apply andb_prop in Hok. destruct Hok as [Hsf Ho]. apply andb_prop in Hsf. destruct Hsf as [_ Hf].
    apply in_app_or in Hin. destruct Hin as [Hin|Hin]; [exact (opt_expr_ok_in _ _ Hf Hin)|exact (opt_expr_ok_in _ _ Ho Hin)].
  - destruct Hin.
  - apply andb_prop in Hok. destruct Hin as [<-|[]]. exact (proj1 Hok).
  - destruct Hin as [<-|[]]. exact Hok.
  - destruct Hin as [<-|[]]. exact Hok.
  - destruct Hin.
  - destruct Hin as [<-|[]]. exact Hok.
  - apply andb_prop in Hok. destruct Hok as [Hf Hk]. rewrite forallb_forall in Hf, Hk.
    apply in_app_or in Hin. destruct Hin as [Hin|Hin].
    + apply in_flat_map in Hin. destruct Hin as (nf & Hnf & Hin). exact (aggfn_ok_in _ _ (Hf _ Hnf) Hin).
    + apply in_map_iff in Hin. destruct Hin as (ke & <- & Hke). exact (Hk _ Hke).
  - rewrite forallb_forall in Hok. exact (Hok _ Hin).
  - destruct Hin.
Qed.

(** an unknown function anywhere inside any expression of a stage makes the stage statically wrong *)
Theorem unknown_function_anywhere_rejects_stage (s : stage) (e : expr) (f : str) (args : list expr) :
  In e (stage_exprs s) -> subexpr (ECall f args) e -> is_known_func f = false -> stage_ok s = false.
Proof.
  intros Hin Hsub Hunk. destruct (stage_ok s) eqn:Hok; [|reflexivity].
  pose proof (expr_ok_sub _ _ Hsub (stage_ok_all_exprs _ _ Hok Hin)) as H.
  cbn [expr_ok] in H. rewrite Hunk in H. discriminate H.
Qed.

(** ... and so does a syntax-error node *)
Theorem error_node_anywhere_rejects_stage (s : stage) (e : expr) :
  In e (stage_exprs s) -> subexpr EError e -> stage_ok s = false.
Proof.
  intros Hin Hsub. destruct (stage_ok s) eqn:Hok; [|reflexivity].
  pose proof (expr_ok_sub _ _ Hsub (stage_ok_all_exprs _ _ Hok Hin)) as H. discriminate H.
Qed.

(** ... and the whole query with it: whatever the condition of an enclosing [if] is *)
Theorem unknown_function_anywhere_rejects_query (q : str) (lq : lquery) (o : lop) (l : list stage) (s : stage)
    (e : expr) (f : str) (args : list expr) :
  parse_query q = Some lq -> In o (lq_ops lq) -> check_lop true o = Some l -> In s l ->
  In e (stage_exprs s) -> subexpr (ECall f args) e -> is_known_func f = false ->
  accepts q = None.
Proof.
  intros Hq Ho Hc Hs Hin Hsub Hunk.
  exact (Grammar_proofs.bad_stage_rejects q lq o l s Hq Ho Hc Hs (unknown_function_anywhere_rejects_stage s e f args Hin Hsub Hunk)).
Qed.

(** the premises are met by the query of the seeded change that prompted this file *)
Example unknown_function_in_dead_branch :
  accepts (lit "* | json | if(true, k, nosuchfn(k)) as x") = None /\
  accepts (lit "* | json | if(false, nosuchfn(k), k) as x") = None /\
  accepts (lit "* | json | count(if(true, k, nosuchfn(k)) > 1) as n") = None /\
  accepts (lit "* | json | if(true, k, length(k)) as x") <> None.
Proof. vm_compute. repeat split; discriminate. Qed.
