(** C19: the table layout of PrettyPrinter (Display.v). *)
From Coq Require Import List ZArith NArith Bool Lia Arith.
From AG Require Import Str F64 Value Json Expr Ops Pipeline Display Str_proofs.
Import ListNotations.
Open Scope nat_scope.

Lemma ellipsis_length : length ellipsis = 1.
Proof. reflexivity. Qed.

(** a formatted cell has exactly the column's width *)
Theorem cell_width : forall inp limit, length (format_with_ellipsis inp limit) = limit.
Proof.
  intros inp limit. unfold format_with_ellipsis. rewrite ellipsis_length.
  destruct (Nat.ltb limit (length inp)) eqn:E1.
  - apply Nat.ltb_lt in E1.
    destruct (Nat.leb limit 1) eqn:E2.
    + apply Nat.leb_le in E2. rewrite firstn_length. lia.
    + apply Nat.leb_gt in E2. rewrite !app_length, firstn_length, ellipsis_length.
      cbn [length]. lia.
  - apply Nat.ltb_ge in E1. rewrite app_length, repeat_length. lia.
Qed.

(** it shows the whole text iff the text fits ... *)
Theorem cell_fits : forall inp limit, length inp <= limit ->
  format_with_ellipsis inp limit = inp ++ repeat 32%N (limit - length inp).
Proof.
  intros inp limit H. unfold format_with_ellipsis.
  destruct (Nat.ltb limit (length inp)) eqn:E1; [|reflexivity].
  apply Nat.ltb_lt in E1. lia.
Qed.

(** ... else a prefix of width-2 characters, an ellipsis and a space *)
Theorem cell_cut : forall inp limit, limit < length inp -> 2 <= limit ->
  format_with_ellipsis inp limit = firstn (limit - 2) inp ++ ellipsis ++ [32%N].
Proof.
  intros inp limit H1 H2. unfold format_with_ellipsis. rewrite ellipsis_length.
  destruct (Nat.ltb limit (length inp)) eqn:E1.
  - destruct (Nat.leb limit 1) eqn:E2.
    + apply Nat.leb_le in E2. lia.
    + replace (limit - 1 - 1) with (limit - 2) by lia. reflexivity.
  - apply Nat.ltb_ge in E1. lia.
Qed.

Theorem cell_cut_narrow : forall inp limit, limit < length inp -> limit <= 1 ->
  format_with_ellipsis inp limit = firstn limit inp.
Proof.
  intros inp limit H1 H2. unfold format_with_ellipsis. rewrite ellipsis_length.
  destruct (Nat.ltb limit (length inp)) eqn:E1.
  - destruct (Nat.leb limit 1) eqn:E2; [reflexivity|].
    apply Nat.leb_gt in E2. lia.
  - apply Nat.ltb_ge in E1. lia.
Qed.

(** *** association lists: [get] after [put], on arbitrary (not necessarily sorted) lists *)
Lemma get_put_any : forall (A : Type) (c k : str) (v : A) (l : list (str * A)),
  get c (put k v l) = if str_eqb c k then Some v else get c l.
Proof.
  intros A c k v l. induction l as [|[k' v'] t IH].
  - cbn [put get]. reflexivity.
  - cbn [put]. destruct (str_cmp k k') eqn:Ec.
    + apply str_cmp_eq in Ec. subst k'. cbn [get].
      destruct (str_eqb c k); reflexivity.
    + cbn [get]. reflexivity.
    + cbn [get]. rewrite IH.
      destruct (str_eqb c k') eqn:E1; [|reflexivity].
      destruct (str_eqb c k) eqn:E2; [|reflexivity].
      apply str_eqb_eq in E1. apply str_eqb_eq in E2. subst.
      rewrite str_cmp_refl in Ec. discriminate.
Qed.

Lemma sum_put_fresh : forall (k : str) (v : nat) (l : widths),
  get k l = None -> sum_widths (put k v l) = v + sum_widths l.
Proof.
  intros k v l. induction l as [|[k' v'] t IH]; intros Hg.
  - reflexivity.
  - cbn [get] in Hg. destruct (str_eqb k k') eqn:Ek; [discriminate|].
    cbn [put]. destruct (str_cmp k k') eqn:Ec.
    + apply str_cmp_eq in Ec. subst k'. rewrite str_eqb_refl in Ek. discriminate.
    + reflexivity.
    + unfold sum_widths in *. cbn [fold_right snd]. rewrite (IH Hg). lia.
Qed.

Definition put_kv (acc : widths) (kv : str * nat) : widths := put (fst kv) (snd kv) acc.

Lemma sum_fold_put : forall (kvs acc : widths),
  NoDup (map fst kvs) ->
  (forall k, In k (map fst kvs) -> get k acc = None) ->
  sum_widths (fold_left put_kv kvs acc) = sum_widths kvs + sum_widths acc.
Proof.
  induction kvs as [|[k v] r IH]; intros acc Hnd Hfresh.
  - reflexivity.
  - cbn [fold_left]. cbn [map fst] in Hnd, Hfresh.
    inversion Hnd as [|x xs Hnotin Hnd']; subst.
    rewrite IH.
    + unfold put_kv. cbn [fst snd]. rewrite sum_put_fresh.
      * unfold sum_widths. cbn [fold_right snd]. lia.
      * apply Hfresh. left. reflexivity.
    + exact Hnd'.
    + intros k' Hin. unfold put_kv. cbn [fst snd]. rewrite get_put_any.
      destruct (str_eqb k' k) eqn:E.
      * apply str_eqb_eq in E. subst k'. contradiction.
      * apply Hfresh. right. exact Hin.
Qed.

Lemma resize_loop_keys : forall cols w i total remaining,
  map fst (resize_loop cols w i total remaining) = cols.
Proof.
  induction cols as [|c rest IH]; intros w i total remaining.
  - reflexivity.
  - cbn [resize_loop].
    destruct (Nat.ltb _ _); cbn [map fst]; rewrite IH; reflexivity.
Qed.

Lemma resize_loop_sum : forall cols w i total remaining,
  sum_widths (resize_loop cols w i total remaining) <= remaining.
Proof.
  induction cols as [|c rest IH]; intros w i total remaining.
  - cbn [resize_loop]. unfold sum_widths. cbn [fold_right]. lia.
  - cbn [resize_loop].
    set (width := match get c w with Some n => n | None => 0 end).
    assert (Hq : remaining / (total - i) <= remaining).
    { destruct (total - i) as [|d] eqn:Ed.
      - cbn. lia.
      - apply Nat.div_le_upper_bound; [lia|]. nia. }
    destruct (Nat.ltb width (remaining / (total - i))) eqn:E.
    + apply Nat.ltb_lt in E.
      specialize (IH w (S i) total (remaining - width)).
      unfold sum_widths in *. cbn [fold_right snd]. lia.
    + specialize (IH w (S i) total (remaining - remaining / (total - i))).
      unfold sum_widths in *. cbn [fold_right snd]. lia.
Qed.

Lemma resize_loop_bound : forall cols w i total remaining c n,
  In (c, n) (resize_loop cols w i total remaining) ->
  n <= match get c w with Some m => m | None => 0 end.
Proof.
  induction cols as [|c0 rest IH]; intros w i total remaining c n Hin.
  - cbn [resize_loop] in Hin. destruct Hin.
  - cbn [resize_loop] in Hin.
    destruct (Nat.ltb _ _) eqn:E.
    + destruct Hin as [Heq|Hin].
      * inversion Heq; subst. lia.
      * eapply IH. exact Hin.
    + apply Nat.ltb_ge in E. destruct Hin as [Heq|Hin].
      * inversion Heq; subst. exact E.
      * eapply IH. exact Hin.
Qed.

Lemma fold_put_get : forall (kvs acc : widths) c n,
  get c (fold_left put_kv kvs acc) = Some n ->
  In (c, n) kvs \/ get c acc = Some n.
Proof.
  induction kvs as [|[k v] r IH]; intros acc c n Hg.
  - right. exact Hg.
  - cbn [fold_left] in Hg. apply IH in Hg. destruct Hg as [Hin|Hg].
    + left. right. exact Hin.
    + unfold put_kv in Hg. cbn [fst snd] in Hg. rewrite get_put_any in Hg.
      destruct (str_eqb c k) eqn:E.
      * apply str_eqb_eq in E. subst. inversion Hg; subst. left. left. reflexivity.
      * right. exact Hg.
Qed.

Lemma resize_widths_unfold : forall w cols maxw,
  resize_widths w cols maxw =
  if Nat.leb (sum_widths w) maxw then w
  else fold_left put_kv (resize_loop cols w O (length cols) maxw) [].
Proof. reflexivity. Qed.

(** resize_widths_to_fit: the widths of the table's columns add up to at most the terminal width,
    and no column gets more than it asked for *)
Theorem resize_fits : forall w cols maxw,
  NoDup cols ->
  sum_widths (resize_widths w cols maxw) <= maxw.
Proof.
  intros w cols maxw Hnd. rewrite resize_widths_unfold.
  destruct (Nat.leb (sum_widths w) maxw) eqn:E.
  - apply Nat.leb_le in E. exact E.
  - rewrite sum_fold_put.
    + pose proof (resize_loop_sum cols w 0 (length cols) maxw) as Hs.
      unfold sum_widths at 2. cbn [fold_right]. lia.
    + rewrite resize_loop_keys. exact Hnd.
    + intros k _. reflexivity.
Qed.

Theorem resize_no_growth : forall w cols maxw c n,
  In c cols ->
  get c (resize_widths w cols maxw) = Some n ->
  n <= match get c w with Some m => m | None => 0 end.
Proof.
  intros w cols maxw c n _ Hg. rewrite resize_widths_unfold in Hg.
  destruct (Nat.leb (sum_widths w) maxw) eqn:E.
  - rewrite Hg. lia.
  - apply fold_put_get in Hg. destruct Hg as [Hin|Hg].
    + eapply resize_loop_bound. exact Hin.
    + cbn [get] in Hg. discriminate.
Qed.

(** the same loop with the machine arithmetic of the implementation made explicit: [usize]
    subtraction must not underflow and the divisor must not be zero (a zero divisor makes the share
    [usize::MAX] and the next subtraction overflow -- the panic repaired by b76788c, where the
    divisor was the number of KNOWN widths instead of the number of columns).  With the divisor
    counting the columns still to place, no step can fault, whatever the widths. *)
Fixpoint resize_loop_chk (cols : list str) (w : widths) (i total remaining : nat) : option widths :=
  match cols with
  | [] => Some []
  | c :: rest =>
      let width := match get c w with Some n => n | None => O end in
      if Nat.ltb total i then None                       (* total - i underflows *)
      else if Nat.eqb (total - i) 0 then None            (* division by zero *)
      else
        let maxw := remaining / (total - i) in
        if Nat.ltb width maxw then
          if Nat.ltb remaining width then None           (* remaining -= width underflows *)
          else option_map (cons (c, width)) (resize_loop_chk rest w (S i) total (remaining - width))
        else
          if Nat.ltb remaining maxw then None
          else option_map (cons (c, maxw)) (resize_loop_chk rest w (S i) total (remaining - maxw))
  end.

Theorem resize_loop_no_fault : forall cols w i remaining,
  resize_loop_chk cols w i (i + length cols) remaining = Some (resize_loop cols w i (i + length cols) remaining).
Proof.
  induction cols as [|c rest IH]; intros w i remaining; [reflexivity|].
  cbn [resize_loop_chk resize_loop length].
  replace (i + S (length rest)) with (S i + length rest) by lia.
  assert (Hlt : Nat.ltb (S i + length rest) i = false) by (apply Nat.ltb_ge; lia).
  rewrite Hlt.
  assert (Hd : S i + length rest - i = S (length rest)) by lia. rewrite Hd.
  cbn [Nat.eqb].
  set (width := match get c w with Some n => n | None => 0 end).
  assert (Hq : remaining / S (length rest) <= remaining).
  { apply Nat.div_le_upper_bound; [lia|]. nia. }
  destruct (Nat.ltb width (remaining / S (length rest))) eqn:E.
  - apply Nat.ltb_lt in E.
    assert (H1 : Nat.ltb remaining width = false) by (apply Nat.ltb_ge; lia). rewrite H1.
    rewrite (IH w (S i) (remaining - width)). reflexivity.
  - assert (H1 : Nat.ltb remaining (remaining / S (length rest)) = false) by (apply Nat.ltb_ge; lia). rewrite H1.
    rewrite (IH w (S i) (remaining - remaining / S (length rest))). reflexivity.
Qed.

(** ... while the divisor of the old code (the number of known widths) does fault as soon as the
    table has more columns than distinct names *)
Example resize_old_divisor_faults :
  resize_loop_chk [[97%N]; [97%N]] [([97%N], 300)] 0 1 240 = None.
Proof. reflexivity. Qed.

(** cell j of a row starts at the sum of the widths before it *)
Theorem row_offsets : forall (cells : list (str * nat)) j,
  j < length cells ->
  firstn (snd (nth j cells ([], 0)))
         (skipn (fold_right plus 0 (map snd (firstn j cells)))
                (concat (map (fun cw => format_with_ellipsis (fst cw) (snd cw)) cells)))
  = format_with_ellipsis (fst (nth j cells ([], 0))) (snd (nth j cells ([], 0))).
Proof.
  induction cells as [|[s n] rest IH]; intros j Hj.
  - cbn [length] in Hj. lia.
  - destruct j as [|j].
    + cbn [nth firstn map fold_right skipn concat fst snd].
      rewrite firstn_app, cell_width, Nat.sub_diag. cbn [firstn].
      rewrite app_nil_r. apply firstn_all2. rewrite cell_width. lia.
    + cbn [nth firstn map fold_right concat fst snd].
      cbn [length] in Hj.
      rewrite skipn_app, cell_width.
      rewrite (skipn_all2 (format_with_ellipsis s n)) by (rewrite cell_width; lia).
      cbn [app]. replace (n + fold_right plus 0 (map snd (firstn j rest)) - n)
        with (fold_right plus 0 (map snd (firstn j rest))) by lia.
      apply IH. lia.
Qed.

Lemma trim_start_length : forall s, length (trim_start s) <= length s.
Proof.
  induction s as [|c s IH].
  - cbn. lia.
  - cbn [trim_start]. destruct (is_ws c); cbn [length]; lia.
Qed.

Lemma trim_end_length : forall s, length (trim_end s) <= length s.
Proof.
  intros s. unfold trim_end. rewrite rev_length.
  pose proof (trim_start_length (rev s)) as H. rewrite rev_length in H. exact H.
Qed.

Lemma row_concat_length : forall (cells : list (str * nat)),
  length (concat (map (fun cw => format_with_ellipsis (fst cw) (snd cw)) cells))
  = fold_right plus 0 (map snd cells).
Proof.
  induction cells as [|[s n] rest IH].
  - reflexivity.
  - cbn [map concat fold_right fst snd]. rewrite app_length, cell_width, IH. reflexivity.
Qed.

(** every line of the table is at most as long as the widths add up to *)
Theorem row_length : forall (cells : list (str * nat)),
  length (trim_end (concat (map (fun cw => format_with_ellipsis (fst cw) (snd cw)) cells)))
  <= fold_right plus 0 (map snd cells).
Proof.
  intros cells. rewrite <- row_concat_length. apply trim_end_length.
Qed.

(** an empty result prints No data; on a terminal at most height-1 lines are printed *)
Theorem empty_table : forall st cols,
  format_aggregate st (mkT cols []) = Ok (st, firstn (max_width st) (lit "No data") ++ [10%N]).
Proof. intros st cols. reflexivity. Qed.

(** ... which is the whole of `No data` whenever the terminal has at least 7 columns (and without a terminal),
    and never wider than the terminal *)
Lemma empty_table_wide : forall st cols, 7 <= max_width st ->
  format_aggregate st (mkT cols []) = Ok (st, lit "No data" ++ [10%N]).
Proof.
  intros st cols H. rewrite empty_table. f_equal. f_equal.
  change (lit "No data") with [78; 111; 32; 100; 97; 116; 97]%N.
  remember (max_width st) as m eqn:Em. clear Em.
  do 7 (destruct m as [|m]; [lia|]). cbn [firstn]. destruct m; reflexivity.
Qed.
Lemma empty_table_fits : forall st, length (firstn (max_width st) (lit "No data")) <= max_width st.
Proof. intros st. rewrite firstn_length. lia. Qed.

(* STATEMENT FALSE: height_clip, i.e.
     forall ws w h t st' txt,
       format_aggregate (mkPP ws (Some (w, h))) t = Ok (st', txt) -> t_rows t <> [] ->
       count_occ N.eq_dec txt 10%N <= h - 1.
   A column name or a rendered value may itself contain a line feed (code point 10), which
   format_with_ellipsis copies into the cell, so the text has more line feeds than lines.
   Counterexample 1 (column name "\nA", h = 2):
     format_aggregate (mkPP [] (Some (80, 2))) (mkT [[10;65]] [[([10;65], VInt 1)]])
       = Ok (_, [10; 65; 10])                       -- 2 line feeds > h - 1 = 1
   Counterexample 2 (value "B\nB", h = 4):
     format_aggregate (mkPP [] (Some (80, 4))) (mkT [[65]] [[([65], VStr [66;10;66])]])
       = Ok (_, "A\n-----------\nB\nB\n")           -- 4 line feeds > h - 1 = 3
   (both checked by vm_compute below).  True variants: [height_clip_lines_weak] (the text is at
   most h-1 lines, each terminated by a line feed) and [height_clip_weak] (the original
   conclusion when no column name and no rendered cell contains a line feed). *)
Example height_clip_counterexample_1 :
  match format_aggregate (mkPP [] (Some (80, 2))) (mkT [[10%N;65%N]] [[([10%N;65%N], VInt 1)]]) with
  | Ok (_, txt) => Some (count_occ N.eq_dec txt 10%N)
  | _ => None
  end = Some 2.
Proof. vm_compute. reflexivity. Qed.

Example height_clip_counterexample_2 :
  match format_aggregate (mkPP [] (Some (80, 4))) (mkT [[65%N]] [[([65%N], VStr [66%N;10%N;66%N])]]) with
  | Ok (_, txt) => Some (count_occ N.eq_dec txt 10%N)
  | _ => None
  end = Some 4.
Proof. vm_compute. reflexivity. Qed.

Definition cell_value (c : str) (d : data) : value :=
  match get c d with Some v => v | None => VNone end.

Definition wof (w2 : widths) (c : str) : nat :=
  match get c w2 with Some n => n | None => O end.

Definition row_line (w2 : widths) (cols : list str) (d : data) : res str :=
  do cells <- sequence_res
    (map (fun c => do s <- render (cell_value c d); Ok (format_with_ellipsis s (wof w2 c))) cols);
  Ok (trim_end (concat cells)).

Lemma format_aggregate_shape : forall ws w h t st' txt,
  format_aggregate (mkPP ws (Some (w, h))) t = Ok (st', txt) -> t_rows t <> [] ->
  exists w2 body,
    sequence_res (map (row_line w2 (t_cols t)) (t_rows t)) = Ok body /\
    txt = flat_map (fun l => l ++ [10%N])
            (firstn (h - 1)
               (trim_end (flat_map (fun c => format_with_ellipsis c (wof w2 c)) (t_cols t))
                :: repeat 45%N (length (flat_map (fun c => format_with_ellipsis c (wof w2 c)) (t_cols t)))
                :: body)).
Proof.
  intros ws w h t st' txt H Hne.
  unfold format_aggregate in H.
  destruct (t_rows t) as [|d0 rows] eqn:Erows; [contradiction|].
  destruct (fold_left (fun rw d => do w0 <- rw; update_widths w0 d) (d0 :: rows)
                      (Ok (@nil (str * nat)))) as [w1| | |] eqn:Ew;
    cbn [bind] in H; try discriminate.
  cbn [pp_term max_width] in H.
  set (w2 := resize_widths w1 (t_cols t) w) in *.
  destruct (negb (Nat.leb (sum_widths w2) w)); [discriminate|].
  destruct (negb (forallb (fun c => has c w2) (t_cols t))); [discriminate|].
  match type of H with
  | bind ?B _ = _ => destruct B as [body| | |] eqn:Eb; cbn [bind] in H; try discriminate
  end.
  exists w2, body. split.
  - exact Eb.
  - inversion H. reflexivity.
Qed.

Theorem height_clip_lines_weak : forall ws w h t st' txt,
  format_aggregate (mkPP ws (Some (w, h))) t = Ok (st', txt) -> t_rows t <> [] ->
  exists lines, txt = flat_map (fun l => l ++ [10%N]) lines /\ length lines <= h - 1.
Proof.
  intros ws w h t st' txt H Hne.
  destruct (format_aggregate_shape _ _ _ _ _ _ H Hne) as [w2 [body [_ Ht]]].
  eexists. split; [exact Ht|].
  rewrite firstn_length. lia.
Qed.

Lemma In_firstn : forall (A : Type) (n : nat) (l : list A) (x : A), In x (firstn n l) -> In x l.
Proof.
  intros A. induction n as [|n IH]; intros l x Hin.
  - destruct Hin.
  - destruct l as [|a l]; [destruct Hin|].
    cbn [firstn] in Hin. destruct Hin as [Heq|Hin].
    + left. exact Heq.
    + right. apply IH. exact Hin.
Qed.

(** characters of a cell come from the text, the ellipsis or the padding *)
Lemma cell_chars : forall inp limit x,
  In x (format_with_ellipsis inp limit) -> In x inp \/ x = 8230%N \/ x = 32%N.
Proof.
  intros inp limit x Hin. unfold format_with_ellipsis in Hin.
  destruct (Nat.ltb limit (length inp)).
  - destruct (Nat.leb limit (length ellipsis)).
    + left. eapply In_firstn. exact Hin.
    + apply in_app_or in Hin. destruct Hin as [Hin|Hin].
      * left. eapply In_firstn. exact Hin.
      * apply in_app_or in Hin. destruct Hin as [Hin|Hin].
        -- right. left. cbn in Hin. destruct Hin as [Hin|[]]. symmetry. exact Hin.
        -- right. right. cbn in Hin. destruct Hin as [Hin|[]]. symmetry. exact Hin.
  - apply in_app_or in Hin. destruct Hin as [Hin|Hin].
    + left. exact Hin.
    + right. right. apply repeat_spec in Hin. exact Hin.
Qed.

Lemma cell_no_lf : forall inp limit,
  ~ In 10%N inp -> ~ In 10%N (format_with_ellipsis inp limit).
Proof.
  intros inp limit Hn Hin. apply cell_chars in Hin.
  destruct Hin as [Hin|[Hin|Hin]]; [contradiction|discriminate|discriminate].
Qed.

Lemma trim_start_In : forall s x, In x (trim_start s) -> In x s.
Proof.
  induction s as [|c s IH]; intros x Hin.
  - exact Hin.
  - cbn [trim_start] in Hin. destruct (is_ws c).
    + right. apply IH. exact Hin.
    + exact Hin.
Qed.

Lemma trim_end_In : forall s x, In x (trim_end s) -> In x s.
Proof.
  intros s x Hin. unfold trim_end in Hin.
  apply in_rev in Hin. apply trim_start_In in Hin. apply in_rev in Hin. exact Hin.
Qed.

Lemma sequence_res_map_ok : forall (A B : Type) (f : A -> res B) (l : list A) (ys : list B),
  sequence_res (map f l) = Ok ys -> Forall2 (fun x y => f x = Ok y) l ys.
Proof.
  intros A B f. induction l as [|x l IH]; intros ys H.
  - cbn in H. inversion H. constructor.
  - unfold sequence_res in H. cbn [map fold_right] in H.
    fold (sequence_res (map f l)) in H.
    destruct (f x) as [y| | |] eqn:Ef; cbn [bind] in H; try discriminate.
    destruct (sequence_res (map f l)) as [ys'| | |] eqn:Es; cbn [bind] in H; try discriminate.
    inversion H; subst. constructor; [exact Ef|]. apply IH. reflexivity.
Qed.

Lemma Forall2_In_r : forall (A B : Type) (R : A -> B -> Prop) l ys y,
  Forall2 R l ys -> In y ys -> exists x, In x l /\ R x y.
Proof.
  intros A B R l ys y HF. induction HF as [|x0 y0 l0 ys0 HR HF IH]; intros Hin.
  - destruct Hin.
  - destruct Hin as [Heq|Hin].
    + subst. exists x0. split; [left; reflexivity|exact HR].
    + destruct (IH Hin) as [x [Hx HRx]]. exists x. split; [right; exact Hx|exact HRx].
Qed.

Lemma count_lines_no_lf : forall (lines : list str),
  (forall l, In l lines -> ~ In 10%N l) ->
  count_occ N.eq_dec (flat_map (fun l => l ++ [10%N]) lines) 10%N = length lines.
Proof.
  induction lines as [|l rest IH]; intros Hn.
  - reflexivity.
  - cbn [flat_map length]. rewrite !count_occ_app.
    rewrite IH by (intros l' Hl'; apply Hn; right; exact Hl').
    assert (H0 : count_occ N.eq_dec l 10%N = 0).
    { apply count_occ_not_In. apply Hn. left. reflexivity. }
    rewrite H0. cbn [count_occ].
    destruct (N.eq_dec 10 10) as [_|Hc]; [reflexivity|contradiction Hc; reflexivity].
Qed.

Lemma row_line_no_lf : forall w2 cols d line,
  (forall c s, In c cols -> render (cell_value c d) = Ok s -> ~ In 10%N s) ->
  row_line w2 cols d = Ok line -> ~ In 10%N line.
Proof.
  intros w2 cols d line Hv H. unfold row_line in H.
  match type of H with
  | bind ?B _ = _ => destruct B as [cells| | |] eqn:Ec; cbn [bind] in H; try discriminate
  end.
  inversion H; subst. intros Hin. apply trim_end_In in Hin.
  apply in_concat in Hin. destruct Hin as [cell [Hcell Hin]].
  apply sequence_res_map_ok in Ec.
  destruct (Forall2_In_r _ _ _ _ _ _ Ec Hcell) as [c [Hc Hr]].
  cbn beta in Hr.
  destruct (render (cell_value c d)) as [s| | |] eqn:Er; cbn [bind] in Hr; try discriminate.
  inversion Hr; subst.
  revert Hin. apply cell_no_lf. eapply Hv; [exact Hc|exact Er].
Qed.

(** the original conclusion, for tables whose column names and rendered cells are free of
    line feeds *)
Theorem height_clip_weak : forall ws w h t st' txt,
  format_aggregate (mkPP ws (Some (w, h))) t = Ok (st', txt) -> t_rows t <> [] ->
  (forall c, In c (t_cols t) -> ~ In 10%N c) ->
  (forall d c s, In d (t_rows t) -> In c (t_cols t) ->
     render (match get c d with Some v => v | None => VNone end) = Ok s -> ~ In 10%N s) ->
  count_occ N.eq_dec txt 10%N <= h - 1.
Proof.
  intros ws w h t st' txt H Hne Hcols Hvals.
  destruct (format_aggregate_shape _ _ _ _ _ _ H Hne) as [w2 [body [Hb Ht]]].
  subst txt. rewrite count_lines_no_lf.
  - rewrite firstn_length. lia.
  - intros l Hl. apply In_firstn in Hl. destruct Hl as [Hl|[Hl|Hl]].
    + subst l. intros Hin. apply trim_end_In in Hin.
      apply in_flat_map in Hin. destruct Hin as [c [Hc Hin]].
      revert Hin. apply cell_no_lf. apply Hcols. exact Hc.
    + subst l. intros Hin. apply repeat_spec in Hin. discriminate.
    + apply sequence_res_map_ok in Hb.
      destruct (Forall2_In_r _ _ _ _ _ _ Hb Hl) as [d [Hd Hr]].
      eapply row_line_no_lf; [|exact Hr].
      intros c s Hc Hs. eapply Hvals; [exact Hd|exact Hc|exact Hs].
Qed.

Print Assumptions resize_fits.
Print Assumptions row_offsets.
Print Assumptions height_clip_weak.
Print Assumptions resize_no_growth.
Print Assumptions cell_width.
