(** C13: the result does not depend on hash iteration order. *)
From Coq Require Import List ZArith NArith Bool Lia Permutation Sorted.
From AG Require Import Str F64 Value Json Expr Ops Pipeline Str_proofs F64_proofs F64_exact_proofs Value_proofs Sort_proofs Sorter_proofs Agg_proofs.
Import ListNotations.


(** *** order laws of [keys_cmp] on the small_ints domain *)
Definition keys_ok (k : list value) : Prop := Forall (fun v => small_ints v = true) k.

Lemma keys_cmp_antisym : forall a b, keys_cmp b a = CompOpp (keys_cmp a b).
Proof.
  induction a as [|x a IH]; intros [|y b]; cbn [keys_cmp CompOpp]; try reflexivity.
  rewrite (vcmp_antisym x y), (IH b). apply cmp_then_opp.
Qed.

Lemma keys_cmp_tri : forall a b c, keys_ok a -> keys_ok b -> keys_ok c ->
  tri (keys_cmp a b) (keys_cmp a c) (keys_cmp b c).
Proof.
  induction a as [|x a IH]; intros [|y b] [|z c] Ka Kb Kc; cbn [keys_cmp];
    try (unfold tri; repeat split; intros; congruence).
  inversion Ka as [|x1 a1 Ka1 Ka2]; subst.
  inversion Kb as [|y1 b1 Kb1 Kb2]; subst.
  inversion Kc as [|z1 c1 Kc1 Kc2]; subst.
  apply tri_then.
  - apply vcmp_laws; assumption.
  - apply IH; assumption.
Qed.

Definition gle (a b : list value * list (str * acc)) : bool := cmp_le (keys_cmp (fst a) (fst b)).

Lemma gle_total : forall a b, gle a b = true \/ gle b a = true.
Proof.
  intros a b. unfold gle. rewrite (keys_cmp_antisym (fst a) (fst b)).
  destruct (keys_cmp (fst a) (fst b)); cbn [CompOpp cmp_le]; auto.
Qed.

Lemma gle_trans : forall a b c, keys_ok (fst a) -> keys_ok (fst b) -> keys_ok (fst c) ->
  gle a b = true -> gle b c = true -> gle a c = true.
Proof.
  intros a b c Ka Kb Kc Hab Hbc. unfold gle in *.
  exact (tri_le _ _ _ (keys_cmp_tri (fst a) (fst b) (fst c) Ka Kb Kc) Hab Hbc).
Qed.

Lemma g_sorted_order_free : forall (st st' : list (list value * list (str * acc))),
  Permutation st st' ->
  Forall (fun e => keys_ok (fst e)) st ->
  (forall a b, In a st -> In b st -> keys_cmp (fst a) (fst b) = Eq -> a = b) ->
  isort gle st = isort gle st'.
Proof.
  intros st st' HP Hok Hinj.
  assert (Hok' : Forall (fun e => keys_ok (fst e)) st').
  { rewrite Forall_forall in Hok |- *. intros x Hx. apply Hok.
    apply (Permutation_in x (Permutation_sym HP)); exact Hx. }
  apply (sorted_perm_unique' gle).
  - apply Permutation_trans with st; [apply isort_perm|].
    apply Permutation_trans with st'; [exact HP|].
    apply Permutation_sym; apply isort_perm.
  - apply (isort_sorted_dom gle (fun e => keys_ok (fst e))).
    + exact gle_total.
    + exact gle_trans.
    + exact Hok.
  - apply (isort_sorted_dom gle (fun e => keys_ok (fst e))).
    + exact gle_total.
    + exact gle_trans.
    + exact Hok'.
  - intros x y Hx Hy H1 H2.
    apply Hinj.
    + apply (Permutation_in x (isort_perm gle st)); exact Hx.
    + apply (Permutation_in y (isort_perm gle st)); exact Hy.
    + unfold gle in H1, H2. rewrite (keys_cmp_antisym (fst x) (fst y)) in H2.
      destruct (keys_cmp (fst x) (fst y)); [reflexivity|discriminate H2|discriminate H1].
Qed.

(** MultiGrouper::emit iterates a HashMap: any order of the entries gives the same table,
    because the groups are emitted in key order and distinct groups have distinct keys *)
Theorem g_emit_order_free : forall keys fns st st',
  Permutation st st' ->
  Forall (fun e => Forall (fun v => small_ints v = true) (fst e)) st ->
  (forall a b, In a st -> In b st -> keys_cmp (fst a) (fst b) = Eq -> a = b) ->
  g_emit (mkG keys fns st) = g_emit (mkG keys fns st').
Proof.
  intros keys fns st st' HP Hok Hinj.
  assert (E : isort gle st = isort gle st')
    by (apply g_sorted_order_free; assumption).
  unfold g_emit. cbn [g_keys g_fns g_state].
  change (fun a b : list value * list (str * acc) => cmp_le (keys_cmp (fst a) (fst b))) with gle.
  rewrite E. reflexivity.
Qed.

(** sorted, key-unique association lists are determined by their contents *)
Definition sorted_assoc {A} (l : list (str * A)) : Prop :=
  StronglySorted (fun a b => str_cmp (fst a) (fst b) = Lt) l.

(** *** helpers on sorted association lists *)
Lemma str_cmp_gt_lt : forall a b, str_cmp a b = Gt -> str_cmp b a = Lt.
Proof. intros a b H. rewrite (str_cmp_antisym a b), H. reflexivity. Qed.

Lemma str_cmp_lt_neq : forall a b, str_cmp a b = Lt -> a <> b.
Proof. intros a b H E. subst b. rewrite str_cmp_refl in H. discriminate H. Qed.

Lemma put_Forall_lt : forall {A} k0 k (v : A) l,
  str_cmp k0 k = Lt ->
  Forall (fun b => str_cmp k0 (fst b) = Lt) l ->
  Forall (fun b => str_cmp k0 (fst b) = Lt) (put k v l).
Proof.
  intros A k0 k v l Hk. induction l as [|[k' v'] t IH]; intros Hall; cbn [put].
  - constructor; [exact Hk|constructor].
  - inversion Hall as [|x xs Hx Hxs]; subst.
    destruct (str_cmp k k').
    + constructor; [exact Hk|exact Hxs].
    + constructor; [exact Hk|exact Hall].
    + constructor; [exact Hx|apply IH; exact Hxs].
Qed.

Lemma get_none_lt : forall {A} k (l : list (str * A)),
  Forall (fun b => str_cmp k (fst b) = Lt) l -> get k l = None.
Proof.
  intros A k l H. induction H as [|[k' v'] t Hx Ht IH]; cbn [get]; [reflexivity|].
  cbn [fst] in Hx.
  assert (E : str_eqb k k' = false) by (apply str_eqb_neq; apply str_cmp_lt_neq; exact Hx).
  rewrite E. exact IH.
Qed.

Lemma Forall_lt_trans : forall {A} k k' (l : list (str * A)),
  str_cmp k k' = Lt ->
  Forall (fun b => str_cmp k' (fst b) = Lt) l ->
  Forall (fun b => str_cmp k (fst b) = Lt) l.
Proof.
  intros A k k' l Hk Hall. rewrite Forall_forall in Hall |- *.
  intros z Hz. apply str_cmp_trans_lt with k'; [exact Hk|apply Hall; exact Hz].
Qed.

Lemma put_sorted : forall {A} k (v : A) l, sorted_assoc l -> sorted_assoc (put k v l).
Proof.
  intros A k v l. induction l as [|[k' v'] t IH]; intros Hs; cbn [put].
  - constructor; constructor.
  - inversion Hs as [|x xs Hst Hall]; subst. cbn [fst] in Hall.
    destruct (str_cmp k k') eqn:E.
    + apply str_cmp_eq in E. subst k'. constructor; [exact Hst|exact Hall].
    + constructor; [exact Hs|]. constructor; [exact E|].
      apply Forall_lt_trans with k'; [exact E|exact Hall].
    + constructor; [apply IH; exact Hst|].
      apply put_Forall_lt; [apply str_cmp_gt_lt; exact E|exact Hall].
Qed.

(** sorted association lists are determined by their lookup function *)
Lemma sorted_assoc_ext : forall {A} (l1 l2 : list (str * A)),
  sorted_assoc l1 -> sorted_assoc l2 ->
  (forall k, get k l1 = get k l2) -> l1 = l2.
Proof.
  intros A l1. induction l1 as [|[k1 v1] t1 IH]; intros [|[k2 v2] t2] S1 S2 H.
  - reflexivity.
  - specialize (H k2). cbn [get] in H. rewrite str_eqb_refl in H. discriminate H.
  - specialize (H k1). cbn [get] in H. rewrite str_eqb_refl in H. discriminate H.
  - inversion S1 as [|x xs S1t A1]; subst. inversion S2 as [|y ys S2t A2]; subst.
    cbn [fst] in A1, A2.
    destruct (str_cmp k1 k2) eqn:E.
    + apply str_cmp_eq in E. subst k2.
      assert (Hv : v1 = v2).
      { specialize (H k1). cbn [get] in H. rewrite str_eqb_refl in H. congruence. }
      subst v2. f_equal. apply IH; [exact S1t|exact S2t|].
      intros k. destruct (str_eqb k k1) eqn:Ek.
      * apply str_eqb_eq in Ek. subst k.
        rewrite (get_none_lt k1 t1 A1), (get_none_lt k1 t2 A2). reflexivity.
      * specialize (H k). cbn [get] in H. rewrite Ek in H. exact H.
    + exfalso. specialize (H k1). cbn [get] in H. rewrite str_eqb_refl in H.
      assert (E' : str_eqb k1 k2 = false) by (apply str_eqb_neq; apply str_cmp_lt_neq; exact E).
      rewrite E' in H.
      rewrite (get_none_lt k1 t2) in H; [discriminate H|].
      apply Forall_lt_trans with k2; [exact E|exact A2].
    + exfalso. apply str_cmp_gt_lt in E. specialize (H k2). cbn [get] in H.
      rewrite str_eqb_refl in H.
      assert (E' : str_eqb k2 k1 = false) by (apply str_eqb_neq; apply str_cmp_lt_neq; exact E).
      rewrite E' in H.
      rewrite (get_none_lt k2 t1) in H; [discriminate H|].
      apply Forall_lt_trans with k1; [exact E|exact A1].
Qed.

Lemma get_put : forall {A} k k' (v : A) l,
  get k (put k' v l) = if str_eqb k k' then Some v else get k l.
Proof.
  intros A k k' v l. destruct (str_eqb k k') eqn:E.
  - apply str_eqb_eq in E. subst k'. apply get_put_same.
  - apply str_eqb_neq in E. apply get_put_other. exact E.
Qed.

Lemma put_comm : forall {A} k1 k2 (v1 v2 : A) l, sorted_assoc l -> k1 <> k2 ->
  put k1 v1 (put k2 v2 l) = put k2 v2 (put k1 v1 l).
Proof.
  intros A k1 k2 v1 v2 l Hs Hne.
  apply sorted_assoc_ext.
  - apply put_sorted. apply put_sorted. exact Hs.
  - apply put_sorted. apply put_sorted. exact Hs.
  - intros k. rewrite !get_put.
    destruct (str_eqb k k1) eqn:E1; destruct (str_eqb k k2) eqn:E2; try reflexivity.
    apply str_eqb_eq in E1. apply str_eqb_eq in E2. exfalso. apply Hne. congruence.
Qed.

(** with equal values the two insertions commute whatever the keys *)
Lemma put_comm_same : forall {A} k1 k2 (v : A) l, sorted_assoc l ->
  put k1 v (put k2 v l) = put k2 v (put k1 v l).
Proof.
  intros A k1 k2 v l Hs.
  apply sorted_assoc_ext.
  - apply put_sorted. apply put_sorted. exact Hs.
  - apply put_sorted. apply put_sorted. exact Hs.
  - intros k. rewrite !get_put.
    destruct (str_eqb k k1); destruct (str_eqb k k2); reflexivity.
Qed.

Definition j2v_fold (kvs : list (str * jtree)) (acc : list (str * value)) : list (str * value) :=
  (fix go (kvs : list (str * jtree)) (acc : list (str * value)) :=
     match kvs with
     | [] => acc
     | (k, v) :: r => go r (put k (json_to_value v) acc)
     end) kvs acc.

Lemma j2v_fold_cons : forall k v r acc,
  j2v_fold ((k, v) :: r) acc = j2v_fold r (put k (json_to_value v) acc).
Proof. reflexivity. Qed.

Lemma j2v_fold_perm : forall kvs kvs', Permutation kvs kvs' -> NoDup (map fst kvs) ->
  forall acc, sorted_assoc acc -> j2v_fold kvs acc = j2v_fold kvs' acc.
Proof.
  intros kvs kvs' HP. induction HP as [|[k v] l l' HP IH|[k1 v1] [k2 v2] l|l l' l'' HP1 IH1 HP2 IH2];
    intros Hnd acc Hs.
  - reflexivity.
  - rewrite !j2v_fold_cons. cbn [map fst] in Hnd.
    inversion Hnd as [|x xs Hnin Hnd']; subst.
    apply IH; [exact Hnd'|apply put_sorted; exact Hs].
  - rewrite !j2v_fold_cons. cbn [map fst] in Hnd.
    inversion Hnd as [|x xs Hnin Hnd']; subst.
    rewrite (put_comm k2 k1); [reflexivity|exact Hs|].
    intros E. apply Hnin. left. symmetry. exact E.
  - rewrite (IH1 Hnd acc Hs). apply IH2; [|exact Hs].
    apply (Permutation_NoDup (l := map fst l)); [|exact Hnd].
    apply Permutation_map. exact HP1.
Qed.

(** a JSON object's members can be read in any order (distinct keys): same value *)
Theorem object_order_free : forall kvs kvs',
  Permutation kvs kvs' -> NoDup (map fst kvs) ->
  json_to_value (JObj kvs) = json_to_value (JObj kvs').
Proof.
  intros kvs kvs' HP Hnd. cbn [json_to_value].
  change (VObj (j2v_fold kvs []) = VObj (j2v_fold kvs' [])).
  rewrite (j2v_fold_perm kvs kvs' HP Hnd []); [reflexivity|constructor].
Qed.

(** the column list the adapter computes does not depend on the order in which a
    set of keys is enumerated: new columns are appended in sorted order *)
Definition all_keys (datas : list data) : list str :=
  map fst (fold_left (fun (acc : list (str * unit)) (d : data) => fold_left (fun a kv => put (fst kv) tt a) d acc) datas []).

Definition put_keys (d : data) (acc : list (str * unit)) : list (str * unit) :=
  fold_left (fun a kv => put (fst kv) tt a) d acc.
Definition put_all_keys (datas : list data) (acc : list (str * unit)) : list (str * unit) :=
  fold_left (fun (acc : list (str * unit)) (d : data) => put_keys d acc) datas acc.

Lemma put_keys_sorted : forall d acc, sorted_assoc acc -> sorted_assoc (put_keys d acc).
Proof.
  induction d as [|kv d IH]; intros acc Hs; cbn [put_keys fold_left].
  - exact Hs.
  - apply IH. apply put_sorted. exact Hs.
Qed.

Lemma put_all_keys_sorted : forall datas acc, sorted_assoc acc -> sorted_assoc (put_all_keys datas acc).
Proof.
  induction datas as [|d ds IH]; intros acc Hs; cbn [put_all_keys fold_left].
  - exact Hs.
  - apply IH. apply put_keys_sorted. exact Hs.
Qed.

Lemma put_put_keys : forall d k acc, sorted_assoc acc ->
  put k tt (put_keys d acc) = put_keys d (put k tt acc).
Proof.
  induction d as [|kv d IH]; intros k acc Hs; cbn [put_keys fold_left].
  - reflexivity.
  - fold (put_keys d (put (fst kv) tt acc)). fold (put_keys d (put (fst kv) tt (put k tt acc))).
    rewrite IH by (apply put_sorted; exact Hs).
    rewrite (put_comm_same k (fst kv) tt acc Hs). reflexivity.
Qed.

Lemma put_keys_comm : forall d d' acc, sorted_assoc acc ->
  put_keys d (put_keys d' acc) = put_keys d' (put_keys d acc).
Proof.
  induction d as [|kv d IH]; intros d' acc Hs.
  - reflexivity.
  - change (put_keys (kv :: d) (put_keys d' acc)) with (put_keys d (put (fst kv) tt (put_keys d' acc))).
    change (put_keys (kv :: d) acc) with (put_keys d (put (fst kv) tt acc)).
    rewrite (put_put_keys d' (fst kv) acc Hs).
    apply IH. apply put_sorted. exact Hs.
Qed.

Lemma put_all_keys_perm : forall datas datas', Permutation datas datas' ->
  forall acc, sorted_assoc acc -> put_all_keys datas acc = put_all_keys datas' acc.
Proof.
  intros datas datas' HP. induction HP as [|d l l' HP IH|d1 d2 l|l l' l'' HP1 IH1 HP2 IH2]; intros acc Hs.
  - reflexivity.
  - cbn [put_all_keys fold_left]. apply IH. apply put_keys_sorted. exact Hs.
  - cbn [put_all_keys fold_left]. rewrite (put_keys_comm d1 d2 acc Hs). reflexivity.
  - rewrite (IH1 acc Hs). apply IH2. exact Hs.
Qed.

Theorem all_keys_sorted : forall datas, sorted_assoc (fold_left (fun (acc : list (str * unit)) (d : data) => fold_left (fun a kv => put (fst kv) tt a) d acc) datas []).
Proof.
  intros datas. apply (put_all_keys_sorted datas []). constructor.
Qed.

Theorem all_keys_perm : forall datas datas', Permutation datas datas' -> all_keys datas = all_keys datas'.
Proof.
  intros datas datas' HP. unfold all_keys.
  change (map fst (put_all_keys datas []) = map fst (put_all_keys datas' [])).
  rewrite (put_all_keys_perm datas datas' HP []); [reflexivity|constructor].
Qed.

Print Assumptions g_emit_order_free.
Print Assumptions object_order_free.
Print Assumptions all_keys_perm.
Print Assumptions put_comm.
