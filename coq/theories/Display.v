(** Text rendering of values (ValueDisplay in src/data.rs), logfmt rows, the
    strfmt subset used by -o format=, and the table layout of PrettyPrinter
    (src/printer.rs). *)
From Coq Require Import List ZArith NArith Bool Floats.SpecFloat.
From AG Require Import Str F64 Value Json Expr Ops Pipeline DatePaths.
From AG Require Generated.
Import ListNotations.
Open Scope string_scope.
Open Scope list_scope.
Open Scope Z_scope.

(** [format!("{:.2}", f)]: the exact binary value rounded to two decimals,
    ties to even (Rust's exact float formatting) *)
Definition pad_left_zeros (n : nat) (s : str) : str :=
  repeat 48%N (n - length s) ++ s.

Definition fixed_digits (neg : bool) (scaled : Z) (places : nat) : str :=
  (* scaled = |value| * 10^places, already rounded *)
  let ds := Z_to_str scaled in
  let ds := pad_left_zeros (S places) ds in
  let ip := firstn (length ds - places) ds in
  let fp := skipn (length ds - places) ds in
  (if neg then [45%N] else []) ++ ip ++ (match places with O => [] | _ => 46%N :: fp end).

Definition round_half_even (num den : Z) : Z :=
  let q := num / den in
  let r := num mod den in
  if 2 * r <? den then q
  else if den <? 2 * r then q + 1
  else if Z.even q then q else q + 1.

Definition fmt_fixed (places : nat) (f : f64) : str :=
  match f with
  | S754_nan => lit "NaN"
  | S754_infinity s => if s then lit "-inf" else lit "inf"
  | S754_zero s => fixed_digits s 0 places
  | S754_finite s m e =>
      let p10 := 10 ^ Z.of_nat places in
      let scaled :=
        if 0 <=? e then Zpos m * 2 ^ e * p10
        else round_half_even (Zpos m * p10) (2 ^ (- e)) in
      fixed_digits s scaled places
  end.

Definition floating_points : nat := Z.to_nat Generated.floating_points.

(** ValueDisplay for a duration: 2w2d5h25m4s232ms... (zero components omitted) *)
Definition dur_display (ns : Z) : str :=
  (* chrono: num_seconds truncates toward zero; each component keeps the sign *)
  let secs := Z.quot ns 1000000000 in
  let weeks := Z.quot secs 604800 in
  let r1 := ns - weeks * 604800 * 1000000000 in
  let days := Z.quot (Z.quot r1 1000000000) 86400 in
  let r2 := r1 - days * 86400 * 1000000000 in
  let hours := Z.quot (Z.quot r2 1000000000) 3600 in
  let r3 := r2 - hours * 3600 * 1000000000 in
  let mins := Z.quot (Z.quot r3 1000000000) 60 in
  let r4 := r3 - mins * 60 * 1000000000 in
  let s := Z.quot r4 1000000000 in
  let r5 := r4 - s * 1000000000 in
  let ms := Z.quot r5 1000000 in
  let r6 := r5 - ms * 1000000 in
  let us := Z.quot r6 1000 in
  let nn := r6 - us * 1000 in
  let part (v : Z) (sym : String.string) : str := if v =? 0 then [] else Z_to_str v ++ lit sym in
  (* a field always has a text: the empty duration is "0s"; nanoseconds are shown (fix 5af605b) *)
  if ns =? 0 then lit "0s"
  else part weeks "w" ++ part days "d" ++ part hours "h" ++ part mins "m" ++ part s "s" ++ part ms "ms" ++ part us "us" ++ part nn "ns".

Fixpoint join_str (sep : str) (l : list str) : str :=
  match l with
  | [] => []
  | [x] => x
  | x :: r => x ++ sep ++ join_str sep r
  end.

(** [Display for ValueDisplay] *)
Fixpoint render (v : value) : res str :=
  match v with
  | VStr s => Ok s
  | VInt z => Ok (Z_to_str z)
  | VNone => Ok (lit "None")
  | VFloat f => Ok (fmt_fixed floating_points f)
  | VBool b => Ok (lit (if b then "true" else "false"))
  | VDate ns => match date_form "ValueDisplay" with Some f => Ok (f ns) | None => Unm end   (* chrono's Display of DateTime<Utc> (DateFmt.v) *)
  | VDur ns => Ok (dur_display ns)
  | VObj kvs =>
      do items <- (fix go (l : list (str * value)) : res (list str) :=
                     match l with
                     | [] => Ok []
                     | (k, x) :: r => do s <- render x; do rest <- go r; Ok ((k ++ 58%N :: s) :: rest)
                     end) kvs;
      Ok (123%N :: join_str (lit ", ") items ++ [125%N])
  | VArr l =>
      do items <- (fix go (l : list value) : res (list str) :=
                     match l with
                     | [] => Ok []
                     | x :: r => do s <- render x; do rest <- go r; Ok (s :: rest)
                     end) l;
      Ok (91%N :: join_str (lit ", ") items ++ [93%N])
  end.

(** *** logfmt row: k=v pairs in key order joined by single spaces *)
Fixpoint logfmt_row (d : data) : res str :=
  match d with
  | [] => Ok []
  | (k, v) :: r =>
      do s <- render v;
      match r with
      | [] => Ok (k ++ 61%N :: s)
      | _ => do rest <- logfmt_row r; Ok (k ++ 61%N :: s ++ 32%N :: rest)
      end
  end.

(** *** -o format=...: the strfmt subset {name} {{ }} *)
Inductive fmt_piece := FLit (s : str) | FField (name : str).

Fixpoint take_until_brace (s : str) (acc : str) : option (str * str) :=
  match s with
  | [] => None
  | c :: r => if (c =? 125)%N then Some (rev acc, r)
              else if (c =? 123)%N then None
              else take_until_brace r (c :: acc)
  end.

Fixpoint fmt_parse_fuel (fuel : nat) (s : str) (cur : str) : option (list fmt_piece) :=
  match fuel with
  | O => None
  | S f =>
      let flush (rest : list fmt_piece) := match cur with [] => rest | _ => FLit (rev cur) :: rest end in
      match s with
      | [] => Some (flush [])
      | c :: r =>
          if (c =? 123)%N then
            if head_is 123%N r then fmt_parse_fuel f (tl r) (123%N :: cur)
            else match take_until_brace r [] with
                 | Some (name, r') =>
                     (* format specs ({x:>5}) are outside the modelled subset *)
                     if existsb (fun x => (x =? 58)%N) name || is_nil name then None
                     else option_map (fun rest => flush (FField name :: rest)) (fmt_parse_fuel f r' [])
                 | None => None
                 end
          else if (c =? 125)%N then
            if head_is 125%N r then fmt_parse_fuel f (tl r) (125%N :: cur) else None
          else fmt_parse_fuel f r (c :: cur)
      end
  end.

Definition fmt_parse (s : str) : option (list fmt_piece) := fmt_parse_fuel (S (length s)) s [].

Fixpoint fmt_subst (ps : list fmt_piece) (d : data) : res str :=
  match ps with
  | [] => Ok []
  | FLit s :: r => do rest <- fmt_subst r d; Ok (s ++ rest)
  | FField n :: r =>
      do s <- render (match get n d with Some v => v | None => VNone end);
      do rest <- fmt_subst r d; Ok (s ++ rest)
  end.

(** *** PrettyPrinter::format_aggregate *)
Local Open Scope nat_scope.
Definition min_buffer : nat := Z.to_nat Generated.min_buffer.
Definition max_buffer : nat := Z.to_nat Generated.max_buffer.
Definition ellipsis : str := Generated.ellipsis.

(** [format_with_ellipsis] (after the fixes): character count against the limit *)
Definition format_with_ellipsis (inp : str) (limit : nat) : str :=
  if Nat.ltb limit (length inp) then
    if Nat.leb limit (length ellipsis) then firstn limit inp
    else firstn (limit - length ellipsis - 1) inp ++ ellipsis ++ [32%N]
  else inp ++ repeat 32%N (limit - length inp).

Definition widths := list (str * nat).

(** [compute_column_widths] for one row, merged into the persistent widths *)
Definition update_widths (w : widths) (d : data) : res widths :=
  fold_left (fun rw kv =>
               do w0 <- rw;
               do s <- render (snd kv);
               let cur := match get (fst kv) w0 with Some n => n | None => O end in
               let vlen := Nat.max (utf8_len s) (utf8_len (fst kv)) in
               let neww := if Nat.ltb cur (vlen + min_buffer) then vlen + max_buffer else cur in
               Ok (put (fst kv) neww w0)) d (Ok w).

Definition sum_widths (w : widths) : nat := fold_right (fun kv n => snd kv + n) O w.

(** [resize_widths_to_fit]: only the columns of the table survive; the remaining width is shared
    among the columns still to place (fix b76788c: the divisor is never zero) *)
Fixpoint resize_loop (cols : list str) (w : widths) (i : nat) (total : nat) (remaining : nat) : widths :=
  match cols with
  | [] => []
  | c :: rest =>
      let width := match get c w with Some n => n | None => O end in
      let maxw := remaining / (total - i) in
      if Nat.ltb width maxw then (c, width) :: resize_loop rest w (S i) total (remaining - width)
      else (c, maxw) :: resize_loop rest w (S i) total (remaining - maxw)
  end.

Definition resize_widths (w : widths) (cols : list str) (max_width : nat) : widths :=
  if Nat.leb (sum_widths w) max_width then w
  else fold_left (fun acc kv => put (fst kv) (snd kv) acc) (resize_loop cols w O (length cols) max_width) [].

Definition trim_end_spaces (s : str) : str := trim_end s.

Record pp_state := mkPP { pp_widths : widths; pp_term : option (nat * nat) (* width, height *) }.

Definition max_width (st : pp_state) : nat :=
  match pp_term st with None => Z.to_nat Generated.no_tty_width | Some (w, _) => w end.

Definition format_aggregate (st : pp_state) (t : table) : res (pp_state * str) :=
  match t_rows t with
  | [] => Ok (st, firstn (max_width st) (lit "No data") ++ [10%N])     (* cut to the terminal width since 7856f06 *)
  | _ =>
      (* the widths are recomputed from the rows of this table: nothing of an earlier frame survives (fix 24b0d78) *)
      do w1 <- fold_left (fun rw d => do w <- rw; update_widths w d) (t_rows t) (Ok []);
      let w2 := resize_widths w1 (t_cols t) (max_width st) in
      let wof c := match get c w2 with Some n => n | None => O end in
      if negb (Nat.leb (sum_widths w2) (max_width st)) then Panic
      else if negb (forallb (fun c => has c w2) (t_cols t)) then Panic   (* self.column_widths[column_name] *)
      else
      let header := flat_map (fun c => format_with_ellipsis c (wof c)) (t_cols t) in
      let rule := repeat 45%N (length header) in
      do body <- sequence_res
        (map (fun d =>
                do cells <- sequence_res
                  (map (fun c => do s <- render (match get c d with Some v => v | None => VNone end);
                                 Ok (format_with_ellipsis s (wof c))) (t_cols t));
                Ok (trim_end_spaces (concat cells))) (t_rows t));
      let lines := trim_end_spaces header :: rule :: body in
      let lines := match pp_term st with
                   | Some (_, h) => firstn (h - 1) lines
                   | None => lines
                   end in
      Ok (mkPP w2 (pp_term st), flat_map (fun l => l ++ [10%N]) lines)
  end.

(** ** records: [format_record_as_columns] (src/printer.rs) *)
Record rp_state := mkRP { rp_widths : widths; rp_order : list str; rp_term : option (nat * nat) }.

(** [new_columns]: the row's keys not seen before, sorted *)
Definition new_columns (order : list str) (d : data) : list str :=
  isort (fun a b => cmp_le (str_cmp a b))
        (filter (fun k => negb (existsb (str_eqb k) order)) (map fst d)).

(** [projected_width]: per column its width + the name + "[=]" *)
Definition projected_width (w : widths) : nat :=
  fold_right (fun kv n => snd kv + utf8_len (fst kv) + 3 + n)%nat O w.

Definition overflows_term (st_term : option (nat * nat)) (w : widths) : bool :=
  match st_term with None => false | Some (width, _) => Nat.ltb width (projected_width w) end.

Definition record_cell (no_padding : bool) (w : widths) (d : data) (c : str) : res str :=
  do unpadded <- match get c d with
                 | Some v => do s <- render v; Ok (91%N :: c ++ 61%N :: s ++ [93%N])
                 | None => Ok []
                 end;
  if no_padding then Ok unpadded
  else match get c w with
       | None => Panic                                   (* self.column_widths[column_name] *)
       | Some cw => let width := (utf8_len c + 3 + cw)%nat in
                    Ok (unpadded ++ repeat 32%N (width - length unpadded))
       end.

Definition format_record (st : rp_state) (r : record) : res (rp_state * str) :=
  let d := rdata r in
  do w1 <- update_widths (rp_widths st) d;
  let order1 := rp_order st ++ new_columns (rp_order st) d in
  match d with
  | [] => Ok (mkRP w1 order1 (rp_term st), strip_eol (rraw r))      (* a row without fields: its line, wherever it stands (fixes 8041d2a, 7f51c1d) *)
  | _ =>
      do reset <- (if overflows_term (rp_term st) w1
                   then do w2 <- update_widths [] d; Ok (w2, new_columns [] d, overflows_term (rp_term st) w2)
                   else Ok (w1, order1, false));
      let '(w, order, no_padding) := reset in
      do cells <- sequence_res (map (record_cell no_padding w d) order);
      Ok (mkRP w order (rp_term st), trim (concat cells))
  end.

(** a stream of records through one printer *)
Fixpoint format_records (st : rp_state) (rs : list record) : res (list str) :=
  match rs with
  | [] => Ok []
  | r :: rest => do sl <- format_record st r; do ls <- format_records (fst sl) rest; Ok (snd sl :: ls)
  end.
