(** split (Ops.v: split_with_delimiters, the transcription of src/operator/split.rs)
    and the logfmt state machine (logfmt crate 0.0.2). *)
From Coq Require Import List NArith ZArith Bool Lia.
From AG Require Import Str Ops Str_proofs.
Import ListNotations.
Open Scope N_scope.

(** ** helper lemmas: trim *)
Lemma trim_start_idem s : trim_start (trim_start s) = trim_start s.
Proof.
  induction s as [|c s IH]; cbn [trim_start]; [reflexivity|].
  destruct (is_ws c) eqn:E; [exact IH|].
  cbn [trim_start]. rewrite E. reflexivity.
Qed.

Lemma trim_start_app_nonws x c y :
  is_ws c = false -> trim_start (x ++ c :: y) = trim_start x ++ c :: y.
Proof.
  intros Hc. induction x as [|a x IH]; cbn [trim_start app].
  - rewrite Hc. reflexivity.
  - destruct (is_ws a); [exact IH | reflexivity].
Qed.

Lemma trim_end_nil : trim_end [] = [].
Proof. reflexivity. Qed.

Lemma trim_end_cons_nonws c r :
  is_ws c = false -> trim_end (c :: r) = c :: trim_end r.
Proof.
  intros Hc. unfold trim_end. cbn [rev].
  rewrite (trim_start_app_nonws (rev r) c [] Hc).
  rewrite rev_app_distr. reflexivity.
Qed.

Lemma trim_end_idem s : trim_end (trim_end s) = trim_end s.
Proof.
  unfold trim_end. rewrite rev_involutive, trim_start_idem. reflexivity.
Qed.

Lemma trim_start_head s c r : trim_start s = c :: r -> is_ws c = false.
Proof.
  induction s as [|a s IH]; cbn [trim_start]; [discriminate|].
  destruct (is_ws a) eqn:E; [exact IH|].
  intros H. injection H as -> _. exact E.
Qed.

Lemma trim_idem s : trim (trim s) = trim s.
Proof.
  unfold trim at 2 3.
  destruct (trim_start s) as [|c r] eqn:E.
  - reflexivity.
  - pose proof (trim_start_head _ _ _ E) as Hc.
    rewrite (trim_end_cons_nonws c r Hc).
    unfold trim. cbn [trim_start]. rewrite Hc.
    rewrite (trim_end_cons_nonws c _ Hc), trim_end_idem. reflexivity.
Qed.

(** ** helper lemmas: one iteration of the split loop *)
Definition split_step (wip sep : str) : str * str :=
  match wip with
  | c :: _ => if (c =? 34) || (c =? 39) then find_close_delimiter c wip
              else split_once wip sep
  | [] => ([], [])
  end.

Definition push_tok (tok : str) (acc : list str) : list str :=
  match tok with [] => acc | _ => tok :: acc end.

Lemma split_loop_nil fuel sep acc : split_loop fuel [] sep acc = SplitOk (rev acc).
Proof. destruct fuel; reflexivity. Qed.

Lemma split_loop_S f c w sep acc :
  split_loop (S f) (c :: w) sep acc =
  split_loop f (snd (split_step (c :: w) sep)) sep
             (push_tok (trim (fst (split_step (c :: w) sep))) acc).
Proof.
  cbn [split_loop split_step].
  destruct (if (c =? 34) || (c =? 39) then find_close_delimiter c (c :: w)
            else split_once (c :: w) sep) as [tok rest].
  reflexivity.
Qed.

Lemma find_close_scan_shorter q : forall t prev acc tok rest,
  find_close_scan q prev t acc = Some (tok, rest) -> (length rest < length t)%nat.
Proof.
  induction t as [|c t IH]; intros prev acc tok rest H; cbn [find_close_scan] in H.
  - discriminate.
  - destruct ((c =? q) && negb (prev =? 92)).
    + injection H as _ <-. cbn [length]. lia.
    + apply IH in H. cbn [length]. lia.
Qed.

Lemma split_step_shorter wip sep :
  sep <> [] -> wip <> [] -> (length (snd (split_step wip sep)) < length wip)%nat.
Proof.
  intros Hsep Hwip. destruct wip as [|c w]; [congruence|].
  cbn [split_step].
  destruct ((c =? 34) || (c =? 39)).
  - cbn [find_close_delimiter].
    destruct (find_close_scan c c w []) as [[tok rest]|] eqn:E.
    + apply find_close_scan_shorter in E. cbn [snd length]. lia.
    + cbn [snd length]. lia.
  - unfold split_once.
    destruct (find_sub sep (c :: w)) as [i|].
    + cbn [snd]. rewrite skipn_length.
      destruct sep as [|x sep']; [congruence|]. cbn [length]. lia.
    + cbn [snd length]. lia.
Qed.

(** the result of the loop does not depend on the fuel (when sufficient), and the
    accumulator is a prefix *)
Lemma split_loop_canon sep : sep <> [] ->
  forall n wip, (length wip <= n)%nat ->
  exists l, forall f acc, (length wip < f)%nat ->
    split_loop f wip sep acc = SplitOk (rev acc ++ l).
Proof.
  intros Hsep. induction n as [|n IH]; intros wip Hlen.
  - destruct wip as [|c w]; [|cbn [length] in Hlen; lia].
    exists []. intros f acc _. rewrite split_loop_nil, app_nil_r. reflexivity.
  - destruct wip as [|c w].
    + exists []. intros f acc _. rewrite split_loop_nil, app_nil_r. reflexivity.
    + assert (Hsh : (length (snd (split_step (c :: w) sep)) < length (c :: w))%nat)
        by (apply split_step_shorter; [exact Hsep | discriminate]).
      destruct (IH (snd (split_step (c :: w) sep))) as [l' Hl']; [lia|].
      exists (push_tok (trim (fst (split_step (c :: w) sep))) [] ++ l').
      intros f acc Hf. destruct f as [|f]; [lia|].
      rewrite split_loop_S, Hl' by lia.
      f_equal. unfold push_tok.
      destruct (trim (fst (split_step (c :: w) sep))); cbn [rev app].
      * reflexivity.
      * rewrite <- app_assoc. reflexivity.
Qed.

(** *** split always terminates for a non-empty separator *)
Theorem split_terminates : forall input sep, sep <> [] ->
  exists l, split_with_delimiters input sep = SplitOk l.
Proof.
  intros input sep Hsep.
  destruct (split_loop_canon sep Hsep (length input) input (le_n _)) as [l Hl].
  exists l. unfold split_with_delimiters. rewrite Hl by lia. reflexivity.
Qed.

Lemma split_loop_tokens (P : str -> Prop) sep :
  (forall t, t <> [] -> P (trim t) \/ trim t = []) ->
  forall fuel wip acc l, Forall P acc ->
    split_loop fuel wip sep acc = SplitOk l -> Forall P l.
Proof.
  intros HP. induction fuel as [|f IH]; intros wip acc l Hacc H.
  - destruct wip; cbn [split_loop] in H; [|discriminate].
    injection H as <-. apply Forall_rev. exact Hacc.
  - destruct wip as [|c w].
    + cbn [split_loop] in H. injection H as <-. apply Forall_rev. exact Hacc.
    + rewrite split_loop_S in H. apply IH in H; [exact H|].
      unfold push_tok.
      destruct (trim (fst (split_step (c :: w) sep))) as [|x t] eqn:E; [exact Hacc|].
      constructor; [|exact Hacc].
      destruct (fst (split_step (c :: w) sep)) as [|y u] eqn:E2.
      * cbn in E. discriminate.
      * destruct (HP (y :: u)) as [H1|H1]; [discriminate| |].
        -- rewrite E in H1. exact H1.
        -- rewrite E in H1. discriminate.
Qed.

(** every token is non-empty and trimmed *)
Theorem split_tokens_trimmed : forall input sep l,
  split_with_delimiters input sep = SplitOk l ->
  Forall (fun t => t <> [] /\ trim t = t) l.
Proof.
  intros input sep l H. unfold split_with_delimiters in H.
  apply (split_loop_tokens (fun t => t <> [] /\ trim t = t) sep) in H; [exact H| |constructor].
  intros t _. destruct (trim t) as [|x u] eqn:E; [right; reflexivity|left].
  split; [discriminate|]. rewrite <- E. apply trim_idem.
Qed.

(** without quote characters and with a one-character separator the result is:
    cut at every separator, trim, drop the empties *)
Definition has_char (c : N) (s : str) : bool := existsb (fun x => x =? c) s.
Definition has_quote (s : str) : bool := has_char 34 s || has_char 39 s.

Fixpoint nonempty_trimmed (pieces : list str) : list str :=
  match pieces with
  | [] => []
  | p :: r => match trim p with [] => nonempty_trimmed r | t => t :: nonempty_trimmed r end
  end.

Fixpoint join_with (c : N) (l : list str) : str :=
  match l with
  | [] => []
  | [x] => x
  | x :: r => x ++ c :: join_with c r
  end.

Lemma has_char_cons c x s :
  has_char c (x :: s) = false -> x <> c /\ has_char c s = false.
Proof.
  unfold has_char. cbn [existsb]. intros H.
  apply orb_false_iff in H as [H1 H2]. apply N.eqb_neq in H1. split; assumption.
Qed.

Lemma find_sub_single_none c s : has_char c s = false -> find_sub [c] s = None.
Proof.
  induction s as [|x s IH]; intros H.
  - reflexivity.
  - apply has_char_cons in H as [Hx Hs].
    cbn [find_sub starts_with].
    assert (E : (c =? x) = false) by (apply N.eqb_neq; congruence).
    rewrite E. cbn [andb]. rewrite (IH Hs). reflexivity.
Qed.

Lemma find_sub_single_some c p rest :
  has_char c p = false -> find_sub [c] (p ++ c :: rest) = Some (length p).
Proof.
  induction p as [|x p IH]; intros H.
  - cbn [app find_sub starts_with]. rewrite N.eqb_refl. reflexivity.
  - apply has_char_cons in H as [Hx Hs].
    cbn [app find_sub starts_with].
    assert (E : (c =? x) = false) by (apply N.eqb_neq; congruence).
    rewrite E. cbn [andb]. rewrite (IH Hs). reflexivity.
Qed.

Lemma split_once_single_last c p :
  has_char c p = false -> split_once p [c] = (p, []).
Proof. intros H. unfold split_once. rewrite (find_sub_single_none c p H). reflexivity. Qed.

Lemma split_once_single_mid c p rest :
  has_char c p = false -> split_once (p ++ c :: rest) [c] = (p, rest).
Proof.
  intros H. unfold split_once. rewrite (find_sub_single_some c p rest H).
  f_equal.
  - rewrite firstn_app, Nat.sub_diag, firstn_all. cbn [firstn]. apply app_nil_r.
  - cbn [length]. rewrite skipn_app.
    rewrite skipn_all2 by lia.
    replace (length p + 1 - length p)%nat with 1%nat by lia. reflexivity.
Qed.

Definition head_quote (s : str) : bool :=
  match s with x :: _ => (x =? 34) || (x =? 39) | [] => false end.

Lemma split_step_noquote wip sep :
  wip <> [] -> head_quote wip = false -> split_step wip sep = split_once wip sep.
Proof.
  intros Hne H. destruct wip as [|x w]; [congruence|].
  cbn [split_step]. cbn [head_quote] in H. rewrite H. reflexivity.
Qed.

Lemma head_quote_app p c rest :
  c <> 34 -> c <> 39 -> has_quote p = false -> head_quote (p ++ c :: rest) = false.
Proof.
  intros H1 H2 Hq. destruct p as [|x p]; cbn [app head_quote].
  - apply orb_false_iff. split; apply N.eqb_neq; assumption.
  - unfold has_quote in Hq. apply orb_false_iff in Hq as [Ha Hb].
    apply has_char_cons in Ha as [Ha _]. apply has_char_cons in Hb as [Hb _].
    apply orb_false_iff. split; apply N.eqb_neq; assumption.
Qed.

Lemma head_quote_noquote p : has_quote p = false -> head_quote p = false.
Proof.
  intros Hq. destruct p as [|x p]; [reflexivity|]. cbn [head_quote].
  unfold has_quote in Hq. apply orb_false_iff in Hq as [Ha Hb].
  apply has_char_cons in Ha as [Ha _]. apply has_char_cons in Hb as [Hb _].
  apply orb_false_iff. split; apply N.eqb_neq; assumption.
Qed.

Lemma push_tok_app tok acc :
  rev (push_tok tok acc) = rev acc ++ match tok with [] => [] | t => [t] end.
Proof. destruct tok; cbn [push_tok rev]; [rewrite app_nil_r|]; reflexivity. Qed.

Lemma split_no_quotes_loop c : c <> 34 -> c <> 39 ->
  forall pieces,
  Forall (fun p => has_quote p = false /\ has_char c p = false) pieces ->
  forall fuel acc, (length (join_with c pieces) < fuel)%nat ->
  split_loop fuel (join_with c pieces) [c] acc = SplitOk (rev acc ++ nonempty_trimmed pieces).
Proof.
  intros H1 H2. induction pieces as [|p r IH]; intros HF fuel acc Hlen.
  - cbn [join_with nonempty_trimmed]. rewrite split_loop_nil, app_nil_r. reflexivity.
  - inversion HF as [|p' r' [Hq Hc] HF' Ep]; subst p' r'.
    destruct r as [|p2 r2].
    + cbn [join_with nonempty_trimmed] in *.
      destruct p as [|x p].
      * rewrite split_loop_nil. f_equal. symmetry. apply app_nil_r.
      * destruct fuel as [|f]; [lia|].
        rewrite split_loop_S.
        rewrite split_step_noquote; [|discriminate|apply head_quote_noquote; exact Hq].
        rewrite (split_once_single_last c _ Hc). cbn [fst snd].
        rewrite split_loop_nil, push_tok_app.
        destruct (trim (x :: p)); reflexivity.
    + change (join_with c (p :: p2 :: r2)) with (p ++ c :: join_with c (p2 :: r2)) in *.
      change (nonempty_trimmed (p :: p2 :: r2))
        with (match trim p with [] => nonempty_trimmed (p2 :: r2)
                           | t => t :: nonempty_trimmed (p2 :: r2) end).
      remember (join_with c (p2 :: r2)) as rest eqn:Erest.
      remember (nonempty_trimmed (p2 :: r2)) as nt eqn:Ent.
      destruct fuel as [|f]; [lia|].
      destruct (p ++ c :: rest) as [|y w] eqn:Ew.
      { destruct p; discriminate. }
      rewrite split_loop_S. rewrite <- Ew.
      rewrite split_step_noquote;
        [|destruct p; discriminate|apply head_quote_app; assumption].
      rewrite (split_once_single_mid c p rest Hc). cbn [fst snd].
      rewrite IH; [|exact HF'|].
      * rewrite push_tok_app. rewrite <- app_assoc.
        destruct (trim p); reflexivity.
      * assert (length (y :: w) = length (p ++ c :: rest)) as El by (rewrite Ew; reflexivity).
        rewrite El in Hlen. rewrite app_length in Hlen. cbn [length] in Hlen. lia.
Qed.

Theorem split_no_quotes : forall pieces c,
  c <> 34 -> c <> 39 ->
  Forall (fun p => has_quote p = false /\ has_char c p = false) pieces ->
  split_with_delimiters (join_with c pieces) [c] = SplitOk (nonempty_trimmed pieces).
Proof.
  intros pieces c H1 H2 HF. unfold split_with_delimiters.
  rewrite (split_no_quotes_loop c H1 H2 pieces HF) by lia. reflexivity.
Qed.

Lemma find_close_scan_body q rest :
  forall body prev acc,
  has_char q body = false -> has_char 92 body = false -> prev <> 92 ->
  find_close_scan q prev (body ++ q :: rest) acc = Some (rev acc ++ body, rest).
Proof.
  induction body as [|x b IH]; intros prev acc Hq Hb Hp.
  - cbn [app find_close_scan]. rewrite N.eqb_refl.
    apply N.eqb_neq in Hp. rewrite Hp. cbn [andb negb]. rewrite app_nil_r. reflexivity.
  - apply has_char_cons in Hq as [Hxq Hq]. apply has_char_cons in Hb as [Hxb Hb].
    cbn [app find_close_scan].
    assert (E : (x =? q) = false) by (apply N.eqb_neq; exact Hxq).
    rewrite E. cbn [andb].
    rewrite (IH x (x :: acc) Hq Hb Hxb). cbn [rev]. rewrite <- app_assoc. reflexivity.
Qed.

(** a token that starts with a quote extends to the first unescaped closing quote and is
    returned without the quotes (then trimmed) *)
Theorem split_quoted_token : forall q body rest sep,
  (q = 34 \/ q = 39) -> sep <> [] ->
  has_char q body = false -> has_char 92 body = false ->
  exists l, split_with_delimiters rest sep = SplitOk l /\
    split_with_delimiters (q :: body ++ q :: rest) sep =
    SplitOk (match trim body with [] => l | t => t :: l end).
Proof.
  intros q body rest sep Hq Hsep Hbq Hbb.
  destruct (split_loop_canon sep Hsep (length rest) rest (le_n _)) as [l Hl].
  exists l. split.
  - unfold split_with_delimiters. rewrite Hl by lia. reflexivity.
  - unfold split_with_delimiters. rewrite split_loop_S.
    assert (Hstep : split_step (q :: body ++ q :: rest) sep = (body, rest)).
    { cbn [split_step].
      assert (E : (q =? 34) || (q =? 39) = true).
      { destruct Hq as [-> | ->]; reflexivity. }
      rewrite E. cbn [find_close_delimiter].
      rewrite (find_close_scan_body q rest body q []); try assumption.
      - reflexivity.
      - destruct Hq as [-> | ->]; discriminate. }
    rewrite Hstep. cbn [fst snd].
    rewrite Hl.
    + unfold push_tok. destruct (trim body); reflexivity.
    + cbn [length]. rewrite app_length. cbn [length]. lia.
Qed.

(** *** logfmt: one field per key=value pair (documented forms) *)
Inductive lfval := LBare (s : str) | LQuoted (s : str) | LNone.

Definition plain_char (c : N) : bool := negb ((c =? 32) || (c =? 61) || (c =? 34)).
Definition bare_ok (s : str) : bool := negb (is_nil s) && forallb plain_char s.
Definition quoted_ok (s : str) : bool := forallb (fun c => negb ((c =? 34) || (c =? 92))) s.

Definition pair_ok (kv : str * lfval) : bool :=
  bare_ok (fst kv) &&
  match snd kv with LBare s => bare_ok s | LQuoted s => quoted_ok s | LNone => true end.

Definition render_pair (kv : str * lfval) : str :=
  match snd kv with
  | LBare s => fst kv ++ 61 :: s
  | LQuoted s => fst kv ++ 61 :: 34 :: s ++ [34]
  | LNone => fst kv
  end.

Definition pair_value (kv : str * lfval) : str * option str :=
  (fst kv, match snd kv with LBare s => Some s | LQuoted s => Some s | LNone => None end).

(** the known defect of the crate (KF-26): an EMPTY value loses its key when another pair follows *)
Fixpoint no_empty_before_last (pairs : list (str * lfval)) : bool :=
  match pairs with
  | [] | [_] => true
  | kv :: r => negb (match snd kv with LQuoted [] => true | _ => false end) && no_empty_before_last r
  end.

(** ** helper lemmas: the logfmt state machine *)
Definition lf_finish (st : lf_state) : list (str * option str) :=
  let '(mkLf pend pairs buf _ garbage _) := st in
  rev (if garbage then pairs else lf_complete (rev buf) pend :: pairs).

Lemma logfmt_parse_finish msg :
  logfmt_parse msg = lf_finish (fold_left lf_step msg (mkLf None [] [] false false false)).
Proof. reflexivity. Qed.

Lemma lf_step_plain pend P buf g c : plain_char c = true ->
  lf_step (mkLf pend P buf false g false) c = mkLf pend P (c :: buf) false g false.
Proof.
  unfold plain_char. intros H. apply negb_true_iff in H.
  apply orb_false_iff in H as [H H34]. apply orb_false_iff in H as [H32 H61].
  unfold lf_step. cbn [negb andb]. rewrite H32, H61, H34. reflexivity.
Qed.

Lemma lf_step_inquote pend P buf g c : negb ((c =? 34) || (c =? 92)) = true ->
  lf_step (mkLf pend P buf false g true) c = mkLf pend P (c :: buf) false g true.
Proof.
  intros H. apply negb_true_iff in H. apply orb_false_iff in H as [H34 H92].
  unfold lf_step. cbn [negb andb]. rewrite H92, H34. reflexivity.
Qed.

Lemma lf_run_plain s : forall pend P buf g, forallb plain_char s = true ->
  fold_left lf_step s (mkLf pend P buf false g false) = mkLf pend P (rev s ++ buf) false g false.
Proof.
  induction s as [|c s IH]; intros pend P buf g H.
  - reflexivity.
  - cbn [forallb] in H. apply andb_true_iff in H as [Hc Hs].
    cbn [fold_left]. rewrite (lf_step_plain _ _ _ _ _ Hc), (IH _ _ _ _ Hs).
    cbn [rev]. rewrite <- app_assoc. reflexivity.
Qed.

Lemma lf_run_inquote s : forall pend P buf g, quoted_ok s = true ->
  fold_left lf_step s (mkLf pend P buf false g true) = mkLf pend P (rev s ++ buf) false g true.
Proof.
  unfold quoted_ok.
  induction s as [|c s IH]; intros pend P buf g H.
  - reflexivity.
  - cbn [forallb] in H. apply andb_true_iff in H as [Hc Hs].
    cbn [fold_left]. rewrite (lf_step_inquote _ _ _ _ _ Hc), (IH _ _ _ _ Hs).
    cbn [rev]. rewrite <- app_assoc. reflexivity.
Qed.

Lemma lf_step_eq pend P buf g : buf <> [] ->
  lf_step (mkLf pend P buf false g false) 61 = mkLf (Some (rev buf)) P [] false g false.
Proof. intros H. destruct buf; [congruence|reflexivity]. Qed.

Lemma lf_step_space pend P buf : buf <> [] ->
  lf_step (mkLf pend P buf false false false) 32 =
  mkLf None (lf_complete (rev buf) pend :: P) [] false false false.
Proof. intros H. destruct buf; [congruence|reflexivity]. Qed.

Lemma bare_ok_spec s : bare_ok s = true -> s <> [] /\ forallb plain_char s = true.
Proof.
  unfold bare_ok. intros H. apply andb_true_iff in H as [H1 H2]. split; [|exact H2].
  destruct s; [discriminate|discriminate].
Qed.

Lemma rev_app_nil_neq (s : str) : s <> [] -> rev s ++ [] <> [].
Proof.
  intros H E. rewrite app_nil_r in E. apply (f_equal (@rev N)) in E.
  rewrite rev_involutive in E. cbn in E. congruence.
Qed.

Lemma lf_pair_run kv P : pair_ok kv = true ->
  exists pend buf,
    fold_left lf_step (render_pair kv) (mkLf None P [] false false false)
      = mkLf pend P buf false false false /\
    lf_complete (rev buf) pend = pair_value kv /\
    (buf = [] -> snd kv = LQuoted []).
Proof.
  destruct kv as [k v]. unfold pair_ok, render_pair, pair_value. cbn [fst snd].
  intros H. apply andb_true_iff in H as [Hk Hv].
  apply bare_ok_spec in Hk as [Hkne Hk].
  destruct v as [s|s|].
  - apply bare_ok_spec in Hv as [Hsne Hs].
    exists (Some k), (rev s ++ []).
    rewrite fold_left_app, (lf_run_plain k _ _ _ _ Hk). cbn [fold_left].
    rewrite lf_step_eq by (apply rev_app_nil_neq; exact Hkne).
    rewrite (lf_run_plain s _ _ _ _ Hs).
    rewrite !app_nil_r, !rev_involutive. repeat split.
    intros E. apply (f_equal (@rev N)) in E. rewrite rev_involutive in E. cbn in E. congruence.
  - exists (Some k), (rev s ++ []).
    rewrite fold_left_app, (lf_run_plain k _ _ _ _ Hk). cbn [fold_left].
    rewrite lf_step_eq by (apply rev_app_nil_neq; exact Hkne).
    change (lf_step (mkLf (Some (rev (rev k ++ []))) P [] false false false) 34)
      with (mkLf (Some (rev (rev k ++ []))) P [] false false true).
    rewrite fold_left_app, (lf_run_inquote s _ _ _ _ Hv). cbn [fold_left].
    change (lf_step (mkLf (Some (rev (rev k ++ []))) P (rev s ++ []) false false true) 34)
      with (mkLf (Some (rev (rev k ++ []))) P (rev s ++ []) false false false).
    rewrite !app_nil_r, !rev_involutive. repeat split.
    intros E. apply (f_equal (@rev N)) in E. rewrite rev_involutive in E. cbn in E.
    rewrite E. reflexivity.
  - exists None, (rev k ++ []).
    rewrite (lf_run_plain k _ _ _ _ Hk).
    rewrite !app_nil_r, !rev_involutive. repeat split.
    intros E. apply (f_equal (@rev N)) in E. rewrite rev_involutive in E. cbn in E. congruence.
Qed.

Lemma logfmt_pairs_gen : forall pairs P,
  pairs <> [] -> forallb pair_ok pairs = true -> no_empty_before_last pairs = true ->
  lf_finish (fold_left lf_step (join_with 32 (map render_pair pairs))
                       (mkLf None P [] false false false))
  = rev P ++ map pair_value pairs.
Proof.
  induction pairs as [|kv r IH]; intros P Hne Hok Hnl; [congruence|].
  cbn [forallb] in Hok. apply andb_true_iff in Hok as [Hkv Hr].
  destruct (lf_pair_run kv P Hkv) as (pend & buf & Hrun & Hcomp & Hbuf).
  destruct r as [|kv2 r2].
  - cbn [map join_with]. rewrite Hrun. cbn [lf_finish]. cbn [rev]. rewrite Hcomp. reflexivity.
  - change (join_with 32 (map render_pair (kv :: kv2 :: r2)))
      with (render_pair kv ++ 32 :: join_with 32 (map render_pair (kv2 :: r2))).
    rewrite fold_left_app, Hrun. cbn [fold_left].
    change (no_empty_before_last (kv :: kv2 :: r2))
      with (negb (match snd kv with LQuoted [] => true | _ => false end)
            && no_empty_before_last (kv2 :: r2)) in Hnl.
    apply andb_true_iff in Hnl as [Hnk Hnl].
    assert (Hb : buf <> []).
    { intros E. rewrite (Hbuf E) in Hnk. discriminate. }
    rewrite (lf_step_space pend P buf Hb), Hcomp.
    rewrite IH; [|discriminate|exact Hr|exact Hnl].
    cbn [rev map]. rewrite <- app_assoc. reflexivity.
Qed.

Theorem logfmt_pairs : forall pairs,
  pairs <> [] -> forallb pair_ok pairs = true -> no_empty_before_last pairs = true ->
  logfmt_parse (join_with 32 (map render_pair pairs)) = map pair_value pairs.
Proof.
  intros pairs Hne Hok Hnl. rewrite logfmt_parse_finish.
  rewrite (logfmt_pairs_gen pairs [] Hne Hok Hnl). reflexivity.
Qed.

(** and the defect itself, as a witness *)
Example logfmt_empty_value_dropped :
  logfmt_parse (lit "a="""" b=1") = [(lit "b", Some (lit "1"))].
Proof. vm_compute. reflexivity. Qed.

Print Assumptions split_terminates.
Print Assumptions split_no_quotes.
Print Assumptions split_quoted_token.
Print Assumptions split_tokens_trimmed.
Print Assumptions logfmt_pairs.
