(** num, abs, ceil, floor, round map integers to integers exactly (fix 43e6167): no detour through
    a double, so integers beyond 2^53 -- and text holding them -- keep their value. *)
From Coq Require Import List ZArith NArith Bool Lia.
From AG Require Import Str F64 Value Json Expr.
Import ListNotations.
Open Scope Z_scope.

Lemma num1_int fi f i : num1 fi f [VInt i] = match fi i with Some j => Ok (VInt j) | None => float1 f [VInt i] end.
Proof. unfold num1. cbn [exact_int]. destruct (fi i); reflexivity. Qed.

Lemma num1_text fi f s i : from_string s = VInt i ->
  num1 fi f [VStr s] = match fi i with Some j => Ok (VInt j) | None => float1 f [VStr s] end.
Proof. intros H. unfold num1. cbn [exact_int]. rewrite H. destruct (fi i); reflexivity. Qed.

Theorem int_functions_exact : forall i : Z,
  eval_func (lit "num") [VInt i] = Ok (VInt i) /\
  eval_func (lit "ceil") [VInt i] = Ok (VInt i) /\
  eval_func (lit "floor") [VInt i] = Ok (VInt i) /\
  eval_func (lit "round") [VInt i] = Ok (VInt i) /\
  (in_i64 (Z.abs i) = true -> eval_func (lit "abs") [VInt i] = Ok (VInt (Z.abs i))).
Proof.
  intros i. split; [reflexivity|]. split; [reflexivity|]. split; [reflexivity|]. split; [reflexivity|].
  intros H. change (eval_func (lit "abs") [VInt i]) with (num1 checked_abs fabs [VInt i]).
  rewrite num1_int. unfold checked_abs. rewrite H. reflexivity.
Qed.

(** text that auto-converts to the integer N coerces to the same N in num() *)
Theorem num_of_integer_text : forall (s : str) (i : Z),
  from_string s = VInt i -> eval_func (lit "num") [VStr s] = Ok (VInt i).
Proof.
  intros s i H. change (eval_func (lit "num") [VStr s]) with (num1 Some (fun x => x) [VStr s]).
  rewrite (num1_text _ _ s i H). reflexivity.
Qed.

Example int_functions_beyond_2p53 :
  eval_func (lit "num") [VInt 9007199254740993] = Ok (VInt 9007199254740993) /\
  eval_func (lit "abs") [VInt (-9007199254740993)] = Ok (VInt 9007199254740993) /\
  eval_func (lit "num") [VStr (lit " 9007199254740993 ")] = Ok (VInt 9007199254740993) /\
  eval_func (lit "abs") [VInt i64_min] = Ok (VFloat (f_of_Z (- i64_min))).
Proof. vm_compute. repeat split; reflexivity. Qed.
