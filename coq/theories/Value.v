(** Values, their order/equality, coercions and arithmetic (src/data.rs). *)
From Coq Require Import List ZArith NArith Bool Floats.SpecFloat.
From AG Require Import Str F64.
Import ListNotations.
Open Scope string_scope.
Open Scope list_scope.
Open Scope Z_scope.

(** outcome of a partial operation: [Err] is the sanctioned EvalError channel,
    [Panic] a Rust panic, [Unm] "outside the modelled fragment". *)
Inductive res (A : Type) : Type :=
| Ok (a : A) | Err | Panic | Unm.
Arguments Ok {A} a. Arguments Err {A}. Arguments Panic {A}. Arguments Unm {A}.

Definition bind {A B} (r : res A) (f : A -> res B) : res B :=
  match r with Ok a => f a | Err => Err | Panic => Panic | Unm => Unm end.
Notation "'do' x <- r ; k" := (bind r (fun x => k))
  (at level 200, x name, r at level 100, k at level 200).

Inductive value : Type :=
| VStr (s : str)
| VInt (z : Z)
| VFloat (f : f64)
| VBool (b : bool)
| VDate (ns : Z)          (* nanoseconds since the Unix epoch, UTC *)
| VDur (ns : Z)           (* nanoseconds *)
| VObj (kvs : list (str * value))   (* sorted by key, keys unique *)
| VArr (l : list value)
| VNone.

Definition rank (v : value) : N :=
  match v with
  | VNone => 0 | VBool _ => 1 | VInt _ => 2 | VFloat _ => 2 | VStr _ => 3
  | VDate _ => 4 | VDur _ => 5 | VArr _ => 6 | VObj _ => 7
  end%N.

(** derived [PartialEq]/[Eq] (floats through OrderedFloat) *)
Fixpoint veqb (a b : value) {struct a} : bool :=
  match a, b with
  | VStr x, VStr y => str_eqb x y
  | VInt x, VInt y => Z.eqb x y
  | VFloat x, VFloat y => oeqb x y
  | VBool x, VBool y => Bool.eqb x y
  | VDate x, VDate y => Z.eqb x y
  | VDur x, VDur y => Z.eqb x y
  | VNone, VNone => true
  | VArr xs, VArr ys =>
      (fix go (xs ys : list value) {struct xs} : bool :=
         match xs, ys with
         | [], [] => true
         | x :: xs', y :: ys' => veqb x y && go xs' ys'
         | _, _ => false
         end) xs ys
  | VObj xs, VObj ys =>
      (fix go (xs ys : list (str * value)) {struct xs} : bool :=
         match xs, ys with
         | [], [] => true
         | (k, x) :: xs', (k', y) :: ys' => str_eqb k k' && veqb x y && go xs' ys'
         | _, _ => false
         end) xs ys
  | _, _ => false
  end.

Definition bool_cmp (a b : bool) : comparison :=
  match a, b with
  | false, true => Lt | true, false => Gt | _, _ => Eq
  end.

Definition cmp_then (c : comparison) (d : comparison) : comparison :=
  match c with Eq => d | _ => c end.

(** [Ord for Value] *)
Fixpoint vcmp (a b : value) {struct a} : comparison :=
  match a, b with
  | VInt x, VFloat y => cmp_int_float x y
  | VFloat x, VInt y => CompOpp (cmp_int_float y x)
  | VFloat x, VFloat y => ocmp x y
  | VInt x, VInt y => Z.compare x y
  | VStr x, VStr y => str_cmp x y
  | VBool x, VBool y => bool_cmp x y
  | VDate x, VDate y => Z.compare x y
  | VDur x, VDur y => Z.compare x y
  | VArr xs, VArr ys =>
      (fix go (xs ys : list value) {struct xs} : comparison :=
         match xs, ys with
         | [], [] => Eq
         | [], _ :: _ => Lt
         | _ :: _, [] => Gt
         | x :: xs', y :: ys' => cmp_then (vcmp x y) (go xs' ys')
         end) xs ys
  | VObj xs, VObj ys =>
      (fix go (xs ys : list (str * value)) {struct xs} : comparison :=
         match xs, ys with
         | [], [] => Eq
         | [], _ :: _ => Lt
         | _ :: _, [] => Gt
         | (k, x) :: xs', (k', y) :: ys' =>
             cmp_then (str_cmp k k') (cmp_then (vcmp x y) (go xs' ys'))
         end) xs ys
  | _, _ => N.compare (rank a) (rank b)
  end.

Definition vltb a b := match vcmp a b with Lt => true | _ => false end.
Definition vgtb a b := match vcmp a b with Gt => true | _ => false end.
Definition vleb a b := match vcmp a b with Gt => false | _ => true end.
Definition vgeb a b := match vcmp a b with Lt => false | _ => true end.

(** [Option<&Value>] order used by the tie-break: None < Some *)
Definition ocmp_opt (a b : option value) : comparison :=
  match a, b with
  | None, None => Eq | None, Some _ => Lt | Some _, None => Gt
  | Some x, Some y => vcmp x y
  end.

(** ** numeric coercions *)

(** [Value::from_float] (after the fix): exactly integral and inside i64 *)
Definition from_float (f : f64) : value :=
  if f_is_integral f && (i64_min <=? ftrunc_Z f) && (ftrunc_Z f <=? i64_max)
  then VInt (ftrunc_Z f) else VFloat f.

(** Rust [str::parse::<i64>]: optional sign, then 1+ ASCII digits, in range *)
Definition parse_i64 (s : str) : option Z :=
  let '(neg, ds) := strip_sign s in
  match ds with
  | [] => None
  | _ => if all_digits ds then
           let n := Z.of_N (digits_val ds 0%N) in
           let z := if neg then - n else n in
           if in_i64 z then Some z else None
         else None
  end.

(** split a prefix of ASCII digits *)
Fixpoint take_digits (s : str) : str * str :=
  match s with
  | c :: s' => if is_digit c then let '(d, r) := take_digits s' in (c :: d, r) else ([], s)
  | [] => ([], [])
  end.

Definition lower_str (s : str) : str := map ascii_lower s.

(** Rust [str::parse::<f64>]: [+-]? ( inf | infinity | nan | digits [. digits] [e[+-]digits] )
    with at least one digit in the mantissa; correctly rounded. *)
Definition parse_f64 (s : str) : option f64 :=
  let '(neg, r) := strip_sign s in
  let lr := lower_str r in
  if str_eqb lr (lit "inf") || str_eqb lr (lit "infinity") then Some (S754_infinity neg)
  else if str_eqb lr (lit "nan") then Some S754_nan
  else
    let '(ip, r1) := take_digits r in
    let has_dot := head_is 46%N r1 in
    let '(fp, r2) :=
      match eat 46%N r1 with
      | Some r1' => take_digits r1'
      | None => ([], r1)
      end in
    match ip, fp with
    | [], [] => None
    | _, _ =>
        let mant := Z.of_N (digits_val (ip ++ fp) 0%N) in
        let fl := Z.of_nat (length fp) in
        let rest := if has_dot then r2 else r1 in
        match rest with
        | [] => Some (f_of_dec neg mant (- fl))
        | c :: r3 =>
            if (c =? 101)%N || (c =? 69)%N then
              let '(eneg, r4) := strip_sign r3 in
              match r4 with
              | [] => None
              | _ => if all_digits r4 then
                       (* clamp the exponent so that 10^e stays computable *)
                       let ev := Z.of_N (digits_val r4 0%N) in
                       let ev := if 100000 <? ev then 100000 else ev in
                       Some (f_of_dec neg mant ((if eneg then - ev else ev) - fl))
                     else None
              end
            else None
        end
    end.

(** [Value::from_string] *)
Definition from_string (s : str) : value :=
  let t := trim s in
  match parse_i64 t with
  | Some z => VInt z
  | None =>
      match parse_f64 t with
      | Some f => from_float f
      | None =>
          if str_eqb t (lit "true") then VBool true
          else if str_eqb t (lit "false") then VBool false
          else VStr t
      end
  end.

(** Rust [char::is_numeric] restricted to the ASCII digits and the other
    numeric code points below U+0100 (superscripts, fractions).  Strings with
    other numeric code points are outside the modelled domain. *)
Definition is_numeric_char (c : N) : bool :=
  (is_digit c || (c =? 178) || (c =? 179) || (c =? 185) || (c =? 188) || (c =? 189) || (c =? 190))%N.

(** [Value::aggressively_to_num] (after the fixes) *)
Definition aggressively_to_num (s : str) : res f64 :=
  match from_string s with
  | VFloat f => Ok f
  | VInt i => Ok (f_of_Z i)
  | _ =>
      (* the sign is the `-` found before the first digit or dot (fixes bda0777, 80926c1) *)
      let negative := match find (fun c => is_numeric_char c || (c =? 46)%N || (c =? 45)%N) s with
                      | Some c => (c =? 45)%N | None => false end in
      let digits := filter (fun c => is_numeric_char c || (c =? 46)%N) s in
      match from_string (if negative then 45%N :: digits else digits) with
      | VFloat f => Ok f
      | VInt i => Ok (f_of_Z i)
      | _ => Err
      end
  end.

Definition floor_div (a b : Z) : Z := a / b.

(** [TryFrom<&Value> for f64] *)
Definition to_f64 (v : value) : res f64 :=
  match v with
  | VInt i => Ok (f_of_Z i)
  | VFloat f => Ok f
  | VStr s => aggressively_to_num s
  | VDate ns => Ok (f_of_Z (floor_div ns 1000000))   (* timestamp_millis: what num(date) returns (fix 4e663c3) *)
  | _ => Err
  end.

(** [Evaluate<f64> for Expr] coercion of an evaluated value *)
Definition to_f64_agg (v : value) : res f64 :=
  match v with
  | VInt i => Ok (f_of_Z i)
  | VFloat f => Ok f
  | VStr s => aggressively_to_num s
  | _ => Err
  end.

(** [TryFrom<&Value> for usize] *)
Definition to_usize (v : value) : res Z :=
  match v with
  | VInt i => if 0 <=? i then Ok i else Err
  | VFloat f => if fleb f_zero f then Ok (f_to_u64_sat f) else Err
  | VStr s =>
      do n <- aggressively_to_num s;
      if fltb n f_zero then Err else Ok (f_to_u64_sat n)
  | _ => Err
  end.

(** ** arithmetic *)

Definition is_date (v : value) : bool := match v with VDate _ => true | _ => false end.

(** arithmetic on dates is what the typed arms of + and - define: here a date is refused (fixes 9840533, 4e663c3) *)
Definition binary_op (op : f64 -> f64 -> f64) (l r : value) : res value :=
  if is_date l || is_date r then Err else
  match to_f64 l, to_f64 r with
  | Ok a, Ok b => Ok (from_float (op a b))
  | Unm, _ | _, Unm => Unm
  | _, _ => Err
  end.

(** chrono: Duration is bounded by +-i64::MAX milliseconds; DateTime<Utc> by
    the years +-262143.  The checked operations are used (after the fix): a result
    that cannot be represented is an EvalError for that row. *)
Definition dur_max_ns := i64_max * 1000000.
Definition dur_ok (ns : Z) : bool := (- dur_max_ns <=? ns) && (ns <=? dur_max_ns).
Definition date_min_ns := -8334632851200 * 1000000000.
Definition date_max_ns := 8210298412800 * 1000000000.
Definition date_ok (ns : Z) : bool := (date_min_ns <=? ns) && (ns <? date_max_ns).

Definition mk_dur (ns : Z) : res value := if dur_ok ns then Ok (VDur ns) else Err.
Definition mk_date (ns : Z) : res value := if date_ok ns then Ok (VDate ns) else Err.

(** [i32::try_from] *)
Definition in_i32 (z : Z) : bool := (- 2 ^ 31 <=? z) && (z <? 2 ^ 31).

Definition int_or_float (exact : Z) (fl : f64) : res value :=
  (* out of range: the float computation - unless that float is itself an integer in range (only -2^63, for results in
     [-2^63 - 1024, -2^63)): it would come out as the integer i64::MIN, a saturated value; that row is an error (fix 9eb768d).
     Keeping it a Float instead broke the invariant behind == / hashing / ordering (00e4db6, withdrawn by d2a8efa) *)
  if in_i64 exact then Ok (VInt exact)
  else match from_float fl with VInt _ => Err | v => Ok v end.

Definition vadd_typed (l r : value) : res value :=
  match l, r with
  | VDate d, VDur u => mk_date (d + u)
  | VDur u, VDate d => mk_date (d + u)
  | VDur a, VDur b => mk_dur (a + b)
  | VFloat a, VFloat b => Ok (from_float (fadd a b))
  | VInt a, VInt b => int_or_float (a + b) (fadd (f_of_Z a) (f_of_Z b))
  | _, _ => binary_op fadd l r
  end.

Definition vsub_typed (l r : value) : res value :=
  match l, r with
  | VDate d, VDur u => mk_date (d - u)
  | VDate a, VDate b => mk_dur (a - b)
  | VDur a, VDur b => mk_dur (a - b)
  | VFloat a, VFloat b => Ok (from_float (fsub a b))
  | VInt a, VInt b => int_or_float (a - b) (fsub (f_of_Z a) (f_of_Z b))
  | _, _ => binary_op fsub l r
  end.

Definition vmul_typed (l r : value) : res value :=
  match l, r with
  | VDur a, VInt b => mk_dur (a * b)            (* on the nanosecond count, any integer factor (fix 0992468) *)
  | VInt a, VDur b => mk_dur (b * a)
  | VFloat a, VFloat b => Ok (from_float (fmul a b))
  | VInt a, VInt b => int_or_float (a * b) (fmul (f_of_Z a) (f_of_Z b))
  | _, _ => binary_op fmul l r
  end.

(** text that holds an integer takes part in [+ - *] as that integer (fix 3ad586e) *)
Definition int_text (v : value) : value :=
  match v with
  | VStr s => match from_string s with VInt i => VInt i | _ => v end
  | _ => v
  end.
Definition vadd (l r : value) : res value := vadd_typed (int_text l) (int_text r).
Definition vsub (l r : value) : res value := vsub_typed (int_text l) (int_text r).
Definition vmul (l r : value) : res value := vmul_typed (int_text l) (int_text r).

Definition vdiv_typed (l r : value) : res value :=
  match l, r with
  | VDur a, VInt b =>
      if negb (b =? 0) then Ok (VDur (Z.quot a b)) else Err
  | _, _ => binary_op fdiv l r
  end.

(** the divisor goes through [int_text] like the operands of + - * (fix 46e1115): text holding an integer divides a
    duration like that integer; every other division reaches [binary_op] either way *)
Definition vdiv (l r : value) : res value := vdiv_typed l (int_text r).
