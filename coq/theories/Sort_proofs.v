(** Generic facts about the stable insertion sort [isort] of Pipeline.v. *)
From Coq Require Import List Bool Lia Permutation Sorted.
From AG Require Import Pipeline.
Import ListNotations.

Section IsortFacts.
  Context {A : Type} (le : A -> A -> bool).

  Lemma insert_perm : forall a l, Permutation (insert le a l) (a :: l).
  Proof.
    intros a l. induction l as [|y t IH]; cbn [insert].
    - apply Permutation_refl.
    - destruct (le a y).
      + apply Permutation_refl.
      + apply Permutation_trans with (y :: a :: t).
        * apply perm_skip. exact IH.
        * apply perm_swap.
  Qed.

  Lemma isort_cons : forall a l, isort le (a :: l) = insert le a (isort le l).
  Proof. reflexivity. Qed.

  Lemma isort_perm : forall l, Permutation (isort le l) l.
  Proof.
    intros l. induction l as [|a t IH].
    - apply Permutation_refl.
    - rewrite isort_cons.
      apply Permutation_trans with (a :: isort le t).
      + apply insert_perm.
      + apply perm_skip. exact IH.
  Qed.

  Lemma isort_length : forall l, length (isort le l) = length l.
  Proof.
    intros l. apply Permutation_length. apply isort_perm.
  Qed.

  Lemma insert_sorted :
    (forall x y, le x y = true \/ le y x = true) ->
    (forall x y z, le x y = true -> le y z = true -> le x z = true) ->
    forall a l, StronglySorted (fun x y => le x y = true) l ->
                StronglySorted (fun x y => le x y = true) (insert le a l).
  Proof.
    intros Htot Htr a l. induction l as [|y t IH]; intros Hs; cbn [insert].
    - constructor; constructor.
    - destruct (le a y) eqn:E.
      + constructor; [exact Hs|].
        inversion Hs as [|y' t' Hst Hall]; subst.
        constructor; [exact E|].
        rewrite Forall_forall in Hall |- *.
        intros z Hz. apply Htr with y; [exact E| apply Hall; exact Hz].
      + inversion Hs as [|y' t' Hst Hall]; subst.
        constructor; [apply IH; exact Hst|].
        rewrite Forall_forall in Hall |- *.
        intros z Hz.
        apply (Permutation_in z (insert_perm a t)) in Hz.
        destruct Hz as [Hz|Hz].
        * subst z. destruct (Htot a y) as [H1|H1]; [congruence|exact H1].
        * apply Hall; exact Hz.
  Qed.

  (** total + transitive => the output is sorted (each element <= all later ones) *)
  Lemma isort_sorted :
    (forall x y, le x y = true \/ le y x = true) ->
    (forall x y z, le x y = true -> le y z = true -> le x z = true) ->
    forall l, StronglySorted (fun x y => le x y = true) (isort le l).
  Proof.
    intros Htot Htr l. induction l as [|a t IH].
    - constructor.
    - rewrite isort_cons. apply insert_sorted; assumption.
  Qed.

  Lemma insert_filter : forall (p : A -> bool) a l,
    (forall y, In y l -> p a = true -> p y = true -> le a y = true) ->
    filter p (insert le a l) = filter p (a :: l).
  Proof.
    intros p a l. induction l as [|y t IH]; intros H; cbn [insert].
    - reflexivity.
    - destruct (le a y) eqn:E; [reflexivity|].
      assert (IH' : filter p (insert le a t) = filter p (a :: t)).
      { apply IH. intros z Hz. apply H. right; exact Hz. }
      cbn [filter] in IH' |- *. rewrite IH'.
      destruct (p a) eqn:Pa; [|reflexivity].
      destruct (p y) eqn:Py; [|reflexivity].
      assert (le a y = true) by (apply H; [left; reflexivity|reflexivity|exact Py]).
      congruence.
  Qed.

  (** stability: elements that are equivalent (le both ways) keep their relative order.
      Stated through filtering by an arbitrary predicate [p] that is invariant under
      the equivalence: the sub-sequence of elements satisfying p is sorted too and is a
      permutation of the filtered input; and for a class of mutually equivalent elements
      the order is the input order. *)
  Lemma isort_stable :
    (forall x y, le x y = true \/ le y x = true) ->
    (forall x y z, le x y = true -> le y z = true -> le x z = true) ->
    forall (p : A -> bool) l,
      (forall x y, In x l -> In y l -> p x = true -> p y = true -> le x y = true /\ le y x = true) ->
      filter p (isort le l) = filter p l.
  Proof.
    intros _ _ p l. induction l as [|a t IH]; intros H.
    - reflexivity.
    - rewrite isort_cons. rewrite insert_filter.
      + cbn [filter]. rewrite IH; [reflexivity|].
        intros x y Hx Hy. apply H; right; assumption.
      + intros y Hy Pa Py.
        apply (Permutation_in y (isort_perm t)) in Hy.
        apply (H a y); [left; reflexivity|right; exact Hy|exact Pa|exact Py].
  Qed.

  (** a sorted list is determined by its elements when no two distinct elements are
      equivalent: two sorted permutations of each other are equal *)
  Lemma sorted_perm_unique :
    (forall x y z, le x y = true -> le y z = true -> le x z = true) ->
    forall l1 l2,
      Permutation l1 l2 ->
      StronglySorted (fun x y => le x y = true) l1 ->
      StronglySorted (fun x y => le x y = true) l2 ->
      (forall x y, In x l1 -> In y l1 -> le x y = true -> le y x = true -> x = y) ->
      l1 = l2.
  Proof.
    intros Htr l1. induction l1 as [|a t1 IH]; intros l2 HP S1 S2 Hanti.
    - apply Permutation_nil in HP. symmetry; exact HP.
    - destruct l2 as [|b t2].
      + apply Permutation_sym in HP. apply Permutation_nil in HP. discriminate HP.
      + inversion S1 as [|a' t1' S1t A1]; subst.
        inversion S2 as [|b' t2' S2t A2]; subst.
        rewrite Forall_forall in A1, A2.
        assert (Hab : a = b).
        { assert (Ha : In a (b :: t2)) by (apply (Permutation_in a HP); left; reflexivity).
          assert (Hb : In b (a :: t1))
            by (apply (Permutation_in b (Permutation_sym HP)); left; reflexivity).
          destruct Ha as [Ha|Ha]; [symmetry; exact Ha|].
          destruct Hb as [Hb|Hb]; [exact Hb|].
          apply Hanti.
          - left; reflexivity.
          - right; exact Hb.
          - apply A1; exact Hb.
          - apply A2; exact Ha. }
        subst b. f_equal.
        apply IH.
        * apply Permutation_cons_inv with a; exact HP.
        * exact S1t.
        * exact S2t.
        * intros x y Hx Hy. apply Hanti; right; assumption.
  Qed.

  (** hence sorting is independent of the arrival order in that case *)
  Lemma isort_perm_invariant :
    (forall x y, le x y = true \/ le y x = true) ->
    (forall x y z, le x y = true -> le y z = true -> le x z = true) ->
    forall l1 l2,
      Permutation l1 l2 ->
      (forall x y, In x l1 -> In y l1 -> le x y = true -> le y x = true -> x = y) ->
      isort le l1 = isort le l2.
  Proof.
    intros Htot Htr l1 l2 HP Hanti.
    apply sorted_perm_unique.
    - exact Htr.
    - apply Permutation_trans with l1; [apply isort_perm|].
      apply Permutation_trans with l2; [exact HP|].
      apply Permutation_sym; apply isort_perm.
    - apply isort_sorted; assumption.
    - apply isort_sorted; assumption.
    - intros x y Hx Hy. apply Hanti.
      + apply (Permutation_in x (isort_perm l1)); exact Hx.
      + apply (Permutation_in y (isort_perm l1)); exact Hy.
  Qed.
End IsortFacts.

Print Assumptions isort_sorted.
Print Assumptions isort_stable.
Print Assumptions isort_perm_invariant.
