(** Order laws of the OrderedFloat comparison [ocmp] on ALL spec_floats
    (no validity hypothesis: SFcompare is lexicographic on sign/exponent/mantissa). *)
From Coq Require Import ZArith Bool Lia Floats.SpecFloat.
From AG Require Import F64.
Open Scope Z_scope.

(** integer key: (class, signed exponent, signed mantissa) *)
Definition key (x : f64) : Z * Z * Z :=
  match x with
  | S754_infinity true => (0, 0, 0)
  | S754_finite true m e => (1, - e, Zneg m)
  | S754_zero _ => (2, 0, 0)
  | S754_finite false m e => (3, e, Zpos m)
  | S754_infinity false => (4, 0, 0)
  | S754_nan => (5, 0, 0)
  end.

Definition lexcmp (k1 k2 : Z * Z * Z) : comparison :=
  match k1, k2 with
  | (c1, a1, b1), (c2, a2, b2) =>
      match c1 ?= c2 with
      | Eq => match a1 ?= a2 with
              | Eq => b1 ?= b2
              | r => r
              end
      | r => r
      end
  end.

Definition klt (k1 k2 : Z * Z * Z) : Prop :=
  match k1, k2 with
  | (c1, a1, b1), (c2, a2, b2) =>
      c1 < c2 \/ (c1 = c2 /\ (a1 < a2 \/ (a1 = a2 /\ b1 < b2)))
  end.

Definition keq (k1 k2 : Z * Z * Z) : Prop :=
  match k1, k2 with
  | (c1, a1, b1), (c2, a2, b2) => c1 = c2 /\ a1 = a2 /\ b1 = b2
  end.

Lemma ocmp_key : forall x y, ocmp x y = lexcmp (key x) (key y).
Proof.
  intros x y. unfold ocmp, fcmp.
  destruct x as [sx|sx| |sx mx ex]; destruct y as [sy|sy| |sy my ey];
    try destruct sx; try destruct sy; try reflexivity.
  (* remaining: both negative finite *)
  cbn [SFcompare key lexcmp f_is_nan].
  change (1 ?= 1) with Eq. cbv iota.
  rewrite Z.compare_opp. rewrite (Z.compare_antisym ex ey).
  destruct (ex ?= ey); reflexivity.
Qed.

Lemma lexcmp_Lt : forall k1 k2, lexcmp k1 k2 = Lt <-> klt k1 k2.
Proof.
  intros [[c1 a1] b1] [[c2 a2] b2]. unfold lexcmp, klt.
  destruct (Z.compare_spec c1 c2) as [Hc|Hc|Hc];
  destruct (Z.compare_spec a1 a2) as [Ha|Ha|Ha];
  destruct (Z.compare_spec b1 b2) as [Hb|Hb|Hb];
  split; intros H; try discriminate H; try reflexivity; try lia.
Qed.

Lemma lexcmp_Gt : forall k1 k2, lexcmp k1 k2 = Gt <-> klt k2 k1.
Proof.
  intros [[c1 a1] b1] [[c2 a2] b2]. unfold lexcmp, klt.
  destruct (Z.compare_spec c1 c2) as [Hc|Hc|Hc];
  destruct (Z.compare_spec a1 a2) as [Ha|Ha|Ha];
  destruct (Z.compare_spec b1 b2) as [Hb|Hb|Hb];
  split; intros H; try discriminate H; try reflexivity; try lia.
Qed.

Lemma lexcmp_Eq : forall k1 k2, lexcmp k1 k2 = Eq <-> keq k1 k2.
Proof.
  intros [[c1 a1] b1] [[c2 a2] b2]. unfold lexcmp, keq.
  destruct (Z.compare_spec c1 c2) as [Hc|Hc|Hc];
  destruct (Z.compare_spec a1 a2) as [Ha|Ha|Ha];
  destruct (Z.compare_spec b1 b2) as [Hb|Hb|Hb];
  split; intros H; try discriminate H; try reflexivity; try lia.
Qed.

Lemma klt_trans : forall k1 k2 k3, klt k1 k2 -> klt k2 k3 -> klt k1 k3.
Proof.
  intros [[c1 a1] b1] [[c2 a2] b2] [[c3 a3] b3]. unfold klt. lia.
Qed.

Lemma klt_keq_l : forall k1 k2 k3, keq k1 k2 -> (klt k1 k3 <-> klt k2 k3).
Proof.
  intros [[c1 a1] b1] [[c2 a2] b2] [[c3 a3] b3]. unfold klt, keq. lia.
Qed.

Lemma klt_keq_r : forall k1 k2 k3, keq k1 k2 -> (klt k3 k1 <-> klt k3 k2).
Proof.
  intros [[c1 a1] b1] [[c2 a2] b2] [[c3 a3] b3]. unfold klt, keq. lia.
Qed.

Lemma keq_keq_l : forall k1 k2 k3, keq k1 k2 -> (keq k1 k3 <-> keq k2 k3).
Proof.
  intros [[c1 a1] b1] [[c2 a2] b2] [[c3 a3] b3]. unfold keq. lia.
Qed.

Lemma keq_sym : forall k1 k2, keq k1 k2 -> keq k2 k1.
Proof.
  intros [[c1 a1] b1] [[c2 a2] b2]. unfold keq. lia.
Qed.

Lemma keq_refl : forall k, keq k k.
Proof. intros [[c a] b]. unfold keq. auto. Qed.

Lemma lexcmp_antisym : forall k1 k2, lexcmp k2 k1 = CompOpp (lexcmp k1 k2).
Proof.
  intros k1 k2.
  destruct (lexcmp k1 k2) eqn:E; cbn [CompOpp].
  - apply lexcmp_Eq. apply keq_sym. apply lexcmp_Eq. exact E.
  - apply lexcmp_Gt. apply lexcmp_Lt. exact E.
  - apply lexcmp_Lt. apply lexcmp_Gt. exact E.
Qed.

Lemma lexcmp_eq_l : forall k1 k2 k3, lexcmp k1 k2 = Eq -> lexcmp k1 k3 = lexcmp k2 k3.
Proof.
  intros k1 k2 k3 H. apply lexcmp_Eq in H.
  destruct (lexcmp k2 k3) eqn:E.
  - apply lexcmp_Eq. apply (keq_keq_l _ _ _ H). apply lexcmp_Eq. exact E.
  - apply lexcmp_Lt. apply (klt_keq_l _ _ _ H). apply lexcmp_Lt. exact E.
  - apply lexcmp_Gt. apply (klt_keq_r _ _ _ H). apply lexcmp_Gt. exact E.
Qed.

Lemma ocmp_refl : forall x, ocmp x x = Eq.
Proof.
  intros x. rewrite ocmp_key. apply lexcmp_Eq. apply keq_refl.
Qed.

Lemma ocmp_antisym : forall x y, ocmp y x = CompOpp (ocmp x y).
Proof.
  intros x y. rewrite !ocmp_key. apply lexcmp_antisym.
Qed.

Lemma ocmp_trans_lt : forall x y z, ocmp x y = Lt -> ocmp y z = Lt -> ocmp x z = Lt.
Proof.
  intros x y z. rewrite !ocmp_key. rewrite !lexcmp_Lt. apply klt_trans.
Qed.

Lemma ocmp_eq_l : forall x y z, ocmp x y = Eq -> ocmp x z = ocmp y z.
Proof.
  intros x y z. rewrite !ocmp_key. apply lexcmp_eq_l.
Qed.

Lemma ocmp_eq_r : forall x y z, ocmp x y = Eq -> ocmp z x = ocmp z y.
Proof.
  intros x y z H.
  rewrite (ocmp_antisym x z), (ocmp_antisym y z).
  f_equal. apply ocmp_eq_l. exact H.
Qed.

Lemma ocmp_trans_gt : forall x y z, ocmp x y = Gt -> ocmp y z = Gt -> ocmp x z = Gt.
Proof.
  intros x y z. rewrite !ocmp_key. rewrite !lexcmp_Gt.
  intros H1 H2. exact (klt_trans _ _ _ H2 H1).
Qed.

Lemma ocmp_trans_le : forall x y z, ocmp x y <> Gt -> ocmp y z <> Gt -> ocmp x z <> Gt.
Proof.
  intros x y z Hxy Hyz Hxz.
  destruct (ocmp x y) eqn:Exy.
  - rewrite (ocmp_eq_l x y z Exy) in Hxz. exact (Hyz Hxz).
  - destruct (ocmp y z) eqn:Eyz.
    + rewrite <- (ocmp_eq_r y z x Eyz) in Hxz. rewrite Exy in Hxz. discriminate Hxz.
    + rewrite (ocmp_trans_lt x y z Exy Eyz) in Hxz. discriminate Hxz.
    + apply Hyz. reflexivity.
  - apply Hxy. reflexivity.
Qed.

Lemma oeqb_ocmp : forall x y, oeqb x y = true <-> ocmp x y = Eq.
Proof.
  intros x y. unfold oeqb. destruct (ocmp x y); split; intros H;
    try reflexivity; discriminate H.
Qed.

Lemma oeqb_refl : forall x, oeqb x x = true.
Proof.
  intros x. apply oeqb_ocmp. apply ocmp_refl.
Qed.

Lemma oeqb_sym : forall x y, oeqb x y = oeqb y x.
Proof.
  intros x y. unfold oeqb. rewrite (ocmp_antisym x y).
  destruct (ocmp x y); reflexivity.
Qed.

Lemma oeqb_trans : forall x y z, oeqb x y = true -> oeqb y z = true -> oeqb x z = true.
Proof.
  intros x y z Hxy Hyz. apply oeqb_ocmp in Hxy. apply oeqb_ocmp in Hyz.
  apply oeqb_ocmp. rewrite (ocmp_eq_l x y z Hxy). exact Hyz.
Qed.

Print Assumptions ocmp_trans_le.
Print Assumptions ocmp_antisym.
Print Assumptions oeqb_trans.
