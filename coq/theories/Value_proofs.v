(** Equality and order on values (src/data.rs: derived Eq, impl Ord). *)
From Coq Require Import List ZArith NArith Bool Lia Lra Reals Floats.SpecFloat.
From Flocq Require Import Core IEEE754.BinarySingleNaN.
From AG Require Import Str F64 Value Str_proofs F64_proofs F64_exact_proofs.
Import ListNotations.
Open Scope Z_scope.

(** positions where an Int meets a Float are the only place where Ord says Eq
    while Eq says different: [no_mixed a b] rules them out structurally *)
Fixpoint no_mixed (a b : value) {struct a} : bool :=
  match a, b with
  | VInt _, VFloat _ | VFloat _, VInt _ => false
  | VArr xs, VArr ys =>
      (fix go (xs ys : list value) {struct xs} : bool :=
         match xs, ys with
         | x :: xs', y :: ys' => no_mixed x y && go xs' ys'
         | _, _ => true
         end) xs ys
  | VObj xs, VObj ys =>
      (fix go (xs ys : list (str * value)) {struct xs} : bool :=
         match xs, ys with
         | (_, x) :: xs', (_, y) :: ys' => no_mixed x y && go xs' ys'
         | _, _ => true
         end) xs ys
  | _, _ => true
  end.

(** the domain on which Ord is a total preorder: well-formed numbers, i.e. any
    integer (the comparison of an integer with a double is exact, so no bound
    is needed) and any well-formed double ([valid_binary]: canonical mantissa
    and exponent in range; every double that Rust can produce is well-formed).
    The name is historical: with the former lossy int/float comparison the
    integers had to be bounded by 2^53. *)
Fixpoint small_ints (v : value) : bool :=
  match v with
  | VInt _ => true
  | VFloat f => valid_binary prec emax f
  | VArr l => forallb small_ints l
  | VObj kvs => forallb (fun kv => small_ints (snd kv)) kvs
  | _ => true
  end.


(** ** helpers: nested induction principle, generic list comparison *)

Fixpoint value_ind' (P : value -> Prop)
  (HStr : forall s, P (VStr s)) (HInt : forall z, P (VInt z))
  (HFloat : forall f, P (VFloat f)) (HBool : forall b, P (VBool b))
  (HDate : forall ns, P (VDate ns)) (HDur : forall ns, P (VDur ns))
  (HObj : forall kvs, Forall (fun kv => P (snd kv)) kvs -> P (VObj kvs))
  (HArr : forall l, Forall P l -> P (VArr l))
  (HNone : P VNone) (v : value) {struct v} : P v :=
  let rec := value_ind' P HStr HInt HFloat HBool HDate HDur HObj HArr HNone in
  match v with
  | VStr s => HStr s
  | VInt z => HInt z
  | VFloat f => HFloat f
  | VBool b => HBool b
  | VDate ns => HDate ns
  | VDur ns => HDur ns
  | VObj kvs =>
      HObj kvs
        ((fix go (l : list (str * value)) : Forall (fun kv => P (snd kv)) l :=
            match l with
            | [] => Forall_nil _
            | (k, x) :: l' => Forall_cons (P := fun kv => P (snd kv)) (k, x) (rec x) (go l')
            end) kvs)
  | VArr l =>
      HArr l
        ((fix go (l : list value) : Forall P l :=
            match l with
            | [] => Forall_nil _
            | x :: l' => Forall_cons x (rec x) (go l')
            end) l)
  | VNone => HNone
  end.

Fixpoint list_eqb {A} (e : A -> A -> bool) (xs ys : list A) : bool :=
  match xs, ys with
  | [], [] => true
  | x :: xs', y :: ys' => e x y && list_eqb e xs' ys'
  | _, _ => false
  end.

Fixpoint list_cmp {A} (f : A -> A -> comparison) (xs ys : list A) : comparison :=
  match xs, ys with
  | [], [] => Eq
  | [], _ :: _ => Lt
  | _ :: _, [] => Gt
  | x :: xs', y :: ys' => cmp_then (f x y) (list_cmp f xs' ys')
  end.

Fixpoint list_all2 {A} (p : A -> A -> bool) (xs ys : list A) : bool :=
  match xs, ys with
  | x :: xs', y :: ys' => p x y && list_all2 p xs' ys'
  | _, _ => true
  end.

Definition kveqb (kv kv' : str * value) : bool :=
  str_eqb (fst kv) (fst kv') && veqb (snd kv) (snd kv').
Definition kvcmp (kv kv' : str * value) : comparison :=
  cmp_then (str_cmp (fst kv) (fst kv')) (vcmp (snd kv) (snd kv')).
Definition kvnm (kv kv' : str * value) : bool := no_mixed (snd kv) (snd kv').

Lemma cmp_then_assoc a b c : cmp_then a (cmp_then b c) = cmp_then (cmp_then a b) c.
Proof. destruct a; reflexivity. Qed.

Lemma veqb_arr xs : forall ys, veqb (VArr xs) (VArr ys) = list_eqb veqb xs ys.
Proof.
  induction xs as [|x xs IH]; intros [|y ys]; try reflexivity.
  cbn [list_eqb]. rewrite <- IH. reflexivity.
Qed.

Lemma veqb_obj xs : forall ys, veqb (VObj xs) (VObj ys) = list_eqb kveqb xs ys.
Proof.
  induction xs as [|[k x] xs IH]; intros [|[k' y] ys]; try reflexivity.
  cbn [list_eqb]. unfold kveqb at 1. cbn [fst snd]. rewrite <- IH. reflexivity.
Qed.

Lemma vcmp_arr xs : forall ys, vcmp (VArr xs) (VArr ys) = list_cmp vcmp xs ys.
Proof.
  induction xs as [|x xs IH]; intros [|y ys]; try reflexivity.
  cbn [list_cmp]. rewrite <- IH. reflexivity.
Qed.

Lemma vcmp_obj xs : forall ys, vcmp (VObj xs) (VObj ys) = list_cmp kvcmp xs ys.
Proof.
  induction xs as [|[k x] xs IH]; intros [|[k' y] ys]; try reflexivity.
  cbn [list_cmp]. unfold kvcmp at 1. cbn [fst snd]. rewrite <- IH, <- cmp_then_assoc. reflexivity.
Qed.

Lemma no_mixed_arr xs : forall ys, no_mixed (VArr xs) (VArr ys) = list_all2 no_mixed xs ys.
Proof.
  induction xs as [|x xs IH]; intros [|y ys]; try reflexivity.
  cbn [list_all2]. rewrite <- IH. reflexivity.
Qed.

Lemma no_mixed_obj xs : forall ys, no_mixed (VObj xs) (VObj ys) = list_all2 kvnm xs ys.
Proof.
  induction xs as [|[k x] xs IH]; intros [|[k' y] ys]; try reflexivity.
  cbn [list_all2]. unfold kvnm at 1. cbn [fst snd]. rewrite <- IH. reflexivity.
Qed.

Section ListFacts.
  Context {A : Type}.
  Implicit Types (e p : A -> A -> bool) (f : A -> A -> comparison).

  Lemma list_eqb_refl e l : Forall (fun x => e x x = true) l -> list_eqb e l l = true.
  Proof.
    induction 1 as [|x l Hx Hl IH]; cbn [list_eqb]; [reflexivity|].
    rewrite Hx, IH. reflexivity.
  Qed.

  Lemma list_eqb_sym e xs : Forall (fun x => forall y, e x y = e y x) xs ->
    forall ys, list_eqb e xs ys = list_eqb e ys xs.
  Proof.
    induction 1 as [|x xs Hx Hxs IH]; intros [|y ys]; cbn [list_eqb]; try reflexivity.
    rewrite Hx, IH. reflexivity.
  Qed.

  Lemma list_eqb_trans e xs :
    Forall (fun x => forall y z, e x y = true -> e y z = true -> e x z = true) xs ->
    forall ys zs, list_eqb e xs ys = true -> list_eqb e ys zs = true -> list_eqb e xs zs = true.
  Proof.
    induction 1 as [|x xs Hx Hxs IH]; intros [|y ys] [|z zs]; cbn [list_eqb];
      intros H1 H2; try reflexivity; try discriminate.
    apply andb_true_iff in H1 as [H1a H1b]. apply andb_true_iff in H2 as [H2a H2b].
    rewrite (Hx y z H1a H2a), (IH ys zs H1b H2b). reflexivity.
  Qed.

  Lemma list_cmp_refl f l : Forall (fun x => f x x = Eq) l -> list_cmp f l l = Eq.
  Proof.
    induction 1 as [|x l Hx Hl IH]; cbn [list_cmp]; [reflexivity|].
    rewrite Hx, IH. reflexivity.
  Qed.

  Lemma list_cmp_antisym f xs : Forall (fun x => forall y, f y x = CompOpp (f x y)) xs ->
    forall ys, list_cmp f ys xs = CompOpp (list_cmp f xs ys).
  Proof.
    induction 1 as [|x xs Hx Hxs IH]; intros [|y ys]; cbn [list_cmp]; try reflexivity.
    rewrite Hx, IH. destruct (f x y); reflexivity.
  Qed.

  Lemma list_eqb_cmp e f xs : Forall (fun x => forall y, e x y = true -> f x y = Eq) xs ->
    forall ys, list_eqb e xs ys = true -> list_cmp f xs ys = Eq.
  Proof.
    induction 1 as [|x xs Hx Hxs IH]; intros [|y ys]; cbn [list_eqb list_cmp];
      intros H1; try reflexivity; try discriminate.
    apply andb_true_iff in H1 as [H1a H1b].
    rewrite (Hx y H1a), (IH ys H1b). reflexivity.
  Qed.

  Lemma cmp_then_Eq (c d : comparison) : cmp_then c d = Eq -> c = Eq /\ d = Eq.
  Proof. destruct c; cbn; intros H; try discriminate; auto. Qed.

  Lemma list_cmp_eqb p e f xs :
    Forall (fun x => forall y, p x y = true -> f x y = Eq -> e x y = true) xs ->
    forall ys, list_all2 p xs ys = true -> list_cmp f xs ys = Eq -> list_eqb e xs ys = true.
  Proof.
    induction 1 as [|x xs Hx Hxs IH]; intros [|y ys]; cbn [list_eqb list_cmp list_all2];
      intros H1 H2; try reflexivity; try discriminate.
    apply andb_true_iff in H1 as [H1a H1b]. apply cmp_then_Eq in H2 as [H2a H2b].
    rewrite (Hx y H1a H2a), (IH ys H1b H2b). reflexivity.
  Qed.
End ListFacts.

(** the three order laws for a triple, with a = f x y, b = f x z, c = f y z *)
Definition tri (a b c : comparison) : Prop :=
  (a = Eq -> b = c) /\ (c = Eq -> a = b) /\ (a = Lt -> c = Lt -> b = Lt).

Lemma tri_then a b c a' b' c' :
  tri a b c -> tri a' b' c' -> tri (cmp_then a a') (cmp_then b b') (cmp_then c c').
Proof.
  unfold tri. intros (H1 & H2 & H3) (H1' & H2' & H3').
  destruct a, b, c; cbn [cmp_then];
    try (repeat split; intros; congruence);
    try (exfalso; assert (E : Eq = Eq) by reflexivity; specialize (H1 E); discriminate H1);
    try (exfalso; assert (E : Eq = Eq) by reflexivity; specialize (H2 E); discriminate H2);
    try (exfalso; assert (E : Lt = Lt) by reflexivity; specialize (H3 E E); discriminate H3).
  repeat split; assumption.
Qed.

Definition laws {A} (S : A -> bool) (f : A -> A -> comparison) (x : A) : Prop :=
  forall y z, S x = true -> S y = true -> S z = true -> tri (f x y) (f x z) (f y z).

Lemma list_cmp_laws {A} (S : A -> bool) (f : A -> A -> comparison) xs :
  Forall (laws S f) xs -> laws (forallb S) (list_cmp f) xs.
Proof.
  unfold laws. induction 1 as [|x xs Hx Hxs IH]; intros [|y ys] [|z zs] Sx Sy Sz;
    cbn [list_cmp]; try (unfold tri; repeat split; intros; congruence).
  cbn [forallb] in Sx, Sy, Sz.
  apply andb_true_iff in Sx as [Sx1 Sx2].
  apply andb_true_iff in Sy as [Sy1 Sy2].
  apply andb_true_iff in Sz as [Sz1 Sz2].
  apply tri_then; [apply Hx | apply IH]; assumption.
Qed.

Lemma tri_str x y z : tri (str_cmp x y) (str_cmp x z) (str_cmp y z).
Proof.
  unfold tri. repeat split.
  - intros H. apply str_cmp_eq in H. subst. reflexivity.
  - intros H. apply str_cmp_eq in H. subst. reflexivity.
  - apply str_cmp_trans_lt.
Qed.

Lemma tri_Z x y z : tri (Z.compare x y) (Z.compare x z) (Z.compare y z).
Proof.
  unfold tri.
  destruct (Z.compare_spec x y), (Z.compare_spec x z), (Z.compare_spec y z);
    repeat split; intros; try reflexivity; try discriminate; exfalso; lia.
Qed.

Lemma tri_bool x y z : tri (bool_cmp x y) (bool_cmp x z) (bool_cmp y z).
Proof.
  unfold tri. destruct x, y, z; cbn; repeat split; intros; congruence.
Qed.

Lemma tri_ocmp x y z : tri (ocmp x y) (ocmp x z) (ocmp y z).
Proof.
  unfold tri. repeat split.
  - apply ocmp_eq_l.
  - apply ocmp_eq_r.
  - apply ocmp_trans_lt.
Qed.

(** *** numbers: [vcmp] is the order of an exact key in the reals extended
    with -inf, +inf and NaN (NaN greatest) *)

Lemma cmp_int_F2R : forall i M e,
  (if 0 <=? e then Z.compare i (M * 2 ^ e) else Z.compare (i * 2 ^ (- e)) M)
  = Rcompare (IZR i) (F2R (Float radix2 M e)).
Proof.
  intros i M e. unfold F2R. cbn [Fnum Fexp].
  destruct (Z.leb_spec 0 e) as [He|He].
  - rewrite <- (IZR_Zpower radix2 e He), <- mult_IZR, Rcompare_IZR. reflexivity.
  - rewrite <- (Rcompare_mult_r (bpow radix2 (- e))) by apply bpow_gt_0.
    rewrite Rmult_assoc, <- bpow_plus.
    replace (e + - e) with 0 by lia. rewrite Rmult_1_r.
    rewrite <- (IZR_Zpower radix2 (- e)) by lia.
    rewrite <- mult_IZR, Rcompare_IZR. reflexivity.
Qed.

(** the integer/double comparison is the exact numeric one (for every integer
    and every finite double, well-formed or not) *)
Lemma cmp_int_float_R : forall i f, f_is_finite f = true ->
  cmp_int_float i f = Rcompare (IZR i) (SF2R radix2 f).
Proof.
  intros i [s|s| |s m e] Hf; try discriminate Hf.
  - cbn [cmp_int_float SF2R]. rewrite <- Rcompare_IZR. reflexivity.
  - cbn [cmp_int_float SF2R]. rewrite <- cmp_int_F2R.
    destruct s; reflexivity.
Qed.

(** on finite well-formed doubles OrderedFloat's order is the numeric one *)
Lemma ocmp_R : forall f g,
  valid_binary prec emax f = true -> valid_binary prec emax g = true ->
  f_is_finite f = true -> f_is_finite g = true ->
  ocmp f g = Rcompare (SF2R radix2 f) (SF2R radix2 g).
Proof.
  intros f g Vf Vg Ff Fg. unfold ocmp, fcmp.
  rewrite <- (B2SF_SF2B prec emax f Vf), <- (B2SF_SF2B prec emax g Vg).
  change (SFcompare (B2SF (SF2B f Vf)) (B2SF (SF2B g Vg)))
    with (Bcompare (SF2B f Vf) (SF2B g Vg)).
  rewrite Bcompare_correct.
  - rewrite !B2R_SF2B, !B2SF_SF2B. reflexivity.
  - rewrite is_finite_SF2B. destruct f; try discriminate Ff; reflexivity.
  - rewrite is_finite_SF2B. destruct g; try discriminate Fg; reflexivity.
Qed.

Inductive xr : Type := XNegInf | XFin (r : R) | XPosInf | XNaN.

Definition xcmp (a b : xr) : comparison :=
  match a, b with
  | XNegInf, XNegInf => Eq
  | XNegInf, _ => Lt
  | XFin _, XNegInf => Gt
  | XFin x, XFin y => Rcompare x y
  | XFin _, _ => Lt
  | XPosInf, XPosInf => Eq
  | XPosInf, XNaN => Lt
  | XPosInf, _ => Gt
  | XNaN, XNaN => Eq
  | XNaN, _ => Gt
  end.

Lemma tri_R x y z : tri (Rcompare x y) (Rcompare x z) (Rcompare y z).
Proof.
  unfold tri.
  destruct (Rcompare_spec x y), (Rcompare_spec x z), (Rcompare_spec y z);
    repeat split; intros; try reflexivity; try discriminate; exfalso; lra.
Qed.

Lemma tri_xcmp x y z : tri (xcmp x y) (xcmp x z) (xcmp y z).
Proof.
  destruct x, y, z; cbn [xcmp]; try apply tri_R;
    unfold tri; repeat split; intros; congruence.
Qed.

Lemma xcmp_antisym x y : xcmp y x = CompOpp (xcmp x y).
Proof.
  destruct x, y; cbn [xcmp CompOpp]; try reflexivity. apply Rcompare_sym.
Qed.

Definition f_key (f : f64) : xr :=
  match f with
  | S754_nan => XNaN
  | S754_infinity s => if s then XNegInf else XPosInf
  | _ => XFin (SF2R radix2 f)
  end.

Definition num_key (v : value) : xr :=
  match v with VInt z => XFin (IZR z) | VFloat f => f_key f | _ => XFin 0 end.

Lemma cmp_int_float_key : forall i f, cmp_int_float i f = xcmp (XFin (IZR i)) (f_key f).
Proof.
  intros i f. destruct f as [s|s| |s m e] eqn:E.
  - rewrite cmp_int_float_R by reflexivity. reflexivity.
  - destruct s; reflexivity.
  - reflexivity.
  - rewrite cmp_int_float_R by reflexivity. reflexivity.
Qed.

Lemma ocmp_key_R : forall f g,
  valid_binary prec emax f = true -> valid_binary prec emax g = true ->
  ocmp f g = xcmp (f_key f) (f_key g).
Proof.
  intros f g Vf Vg.
  destruct (f_is_finite f) eqn:Ff; [destruct (f_is_finite g) eqn:Fg|].
  - rewrite (ocmp_R f g Vf Vg Ff Fg).
    destruct f; try discriminate Ff; destruct g; try discriminate Fg; reflexivity.
  - destruct f as [s|s| |s m e]; try discriminate Ff;
      destruct g as [s'|s'| |s' m' e']; try discriminate Fg;
      try destruct s; try destruct s'; reflexivity.
  - destruct f as [s|s| |s m e]; try discriminate Ff;
      destruct g as [s'|s'| |s' m' e']; try destruct s; try destruct s'; reflexivity.
Qed.

Lemma vcmp_num a b : rank a = 2%N -> rank b = 2%N ->
  small_ints a = true -> small_ints b = true ->
  vcmp a b = xcmp (num_key a) (num_key b).
Proof.
  destruct a; intros Ra; try discriminate Ra; destruct b; intros Rb; try discriminate Rb;
    cbn [small_ints vcmp num_key]; intros Sa Sb.
  - symmetry. apply Rcompare_IZR.
  - apply cmp_int_float_key.
  - rewrite cmp_int_float_key. symmetry. apply xcmp_antisym.
  - apply ocmp_key_R; assumption.
Qed.

Lemma tri_num a y z : rank a = 2%N -> rank y = 2%N -> rank z = 2%N ->
  small_ints a = true -> small_ints y = true -> small_ints z = true ->
  tri (vcmp a y) (vcmp a z) (vcmp y z).
Proof.
  intros Ra Ry Rz Sa Sy Sz.
  rewrite (vcmp_num a y), (vcmp_num a z), (vcmp_num y z) by assumption.
  apply tri_xcmp.
Qed.

Ltac cross_rank :=
  cbn [vcmp rank N.compare Pos.compare Pos.compare_cont];
  unfold tri; repeat split; intros; congruence.

Lemma vcmp_laws : forall a, laws small_ints vcmp a.
Proof.
  unfold laws.
  induction a as [s|i|f|b|ns|ns|kvs IH|l IH|] using value_ind';
    intros y z Sa Sy Sz; destruct y, z;
    try (apply tri_num; [reflexivity|reflexivity|reflexivity|assumption|assumption|assumption]);
    try cross_rank.
  - apply tri_str.
  - apply tri_bool.
  - apply tri_Z.
  - apply tri_Z.
  - rewrite !vcmp_obj.
    apply (list_cmp_laws (fun kv => small_ints (snd kv)) kvcmp); try assumption.
    apply (Forall_impl _ (P := fun kv => laws small_ints vcmp (snd kv))); [|exact IH].
    intros [k x] Hx [k' y] [k'' z] S1 S2 S3. unfold kvcmp. cbn [fst snd] in *.
    apply tri_then; [apply tri_str | apply Hx; assumption].
  - rewrite !vcmp_arr.
    apply (list_cmp_laws small_ints vcmp); assumption.
Qed.

(** *** [veqb] (the derived PartialEq/Eq, i.e. the `==` of the query language
    and the identity of group keys) is an equivalence relation on ALL values *)
Lemma veqb_refl : forall v, veqb v v = true.
Proof.
  induction v as [s|i|f|b|ns|ns|kvs IH|l IH|] using value_ind'.
  - cbn [veqb]. apply str_eqb_refl.
  - cbn [veqb]. apply Z.eqb_refl.
  - cbn [veqb]. apply oeqb_refl.
  - destruct b; reflexivity.
  - cbn [veqb]. apply Z.eqb_refl.
  - cbn [veqb]. apply Z.eqb_refl.
  - rewrite veqb_obj. apply list_eqb_refl.
    apply (Forall_impl _ (P := fun kv => veqb (snd kv) (snd kv) = true)); [|exact IH].
    intros [k x] Hx. unfold kveqb. cbn [fst snd] in *. rewrite str_eqb_refl, Hx. reflexivity.
  - rewrite veqb_arr. apply list_eqb_refl. exact IH.
  - reflexivity.
Qed.

Lemma veqb_sym : forall a b, veqb a b = veqb b a.
Proof.
  induction a as [s|i|f|b|ns|ns|kvs IH|l IH|] using value_ind'; intros [s'|i'|f'|b'|ns'|ns'|kvs'|l'|];
    try reflexivity.
  - apply str_eqb_sym.
  - apply Z.eqb_sym.
  - apply oeqb_sym.
  - destruct b, b'; reflexivity.
  - apply Z.eqb_sym.
  - apply Z.eqb_sym.
  - rewrite !veqb_obj. apply list_eqb_sym.
    apply (Forall_impl _ (P := fun kv => forall b, veqb (snd kv) b = veqb b (snd kv))); [|exact IH].
    intros [k x] Hx [k' y]. unfold kveqb. cbn [fst snd] in *.
    rewrite (str_eqb_sym k k'), Hx. reflexivity.
  - rewrite !veqb_arr. apply list_eqb_sym. exact IH.
Qed.

Lemma veqb_trans : forall a b c, veqb a b = true -> veqb b c = true -> veqb a c = true.
Proof.
  induction a as [s|i|f|b|ns|ns|kvs IH|l IH|] using value_ind';
    intros [s'|i'|f'|b'|ns'|ns'|kvs'|l'|] c H1; try (cbn [veqb] in H1; discriminate H1);
    destruct c as [s''|i''|f''|b''|ns''|ns''|kvs''|l''|]; intros H2; try (cbn [veqb] in H2; discriminate H2).
  - cbn [veqb] in *. apply str_eqb_eq in H1. apply str_eqb_eq in H2. subst. apply str_eqb_refl.
  - cbn [veqb] in *. apply Z.eqb_eq in H1. apply Z.eqb_eq in H2. subst. apply Z.eqb_refl.
  - cbn [veqb] in *. exact (oeqb_trans _ _ _ H1 H2).
  - cbn [veqb] in *. destruct b, b', b''; try reflexivity; discriminate.
  - cbn [veqb] in *. apply Z.eqb_eq in H1. apply Z.eqb_eq in H2. subst. apply Z.eqb_refl.
  - cbn [veqb] in *. apply Z.eqb_eq in H1. apply Z.eqb_eq in H2. subst. apply Z.eqb_refl.
  - rewrite veqb_obj in *. revert H1 H2. apply list_eqb_trans.
    apply (Forall_impl _ (P := fun kv => forall b c, veqb (snd kv) b = true -> veqb b c = true
                                           -> veqb (snd kv) c = true)); [|exact IH].
    intros [k x] Hx [k' y] [k'' z]. unfold kveqb. cbn [fst snd] in *. intros H1 H2.
    apply andb_true_iff in H1 as [H1a H1b]. apply andb_true_iff in H2 as [H2a H2b].
    apply str_eqb_eq in H1a. apply str_eqb_eq in H2a. subst.
    rewrite str_eqb_refl, (Hx y z H1b H2b). reflexivity.
  - rewrite veqb_arr in *. revert H1 H2. apply list_eqb_trans. exact IH.
  - reflexivity.
Qed.

(** *** [vcmp] (impl Ord for Value) *)
Lemma vcmp_refl : forall v, vcmp v v = Eq.
Proof.
  induction v as [s|i|f|b|ns|ns|kvs IH|l IH|] using value_ind'.
  - cbn [vcmp]. apply str_cmp_refl.
  - cbn [vcmp]. apply Z.compare_refl.
  - cbn [vcmp]. apply ocmp_refl.
  - destruct b; reflexivity.
  - cbn [vcmp]. apply Z.compare_refl.
  - cbn [vcmp]. apply Z.compare_refl.
  - rewrite vcmp_obj. apply list_cmp_refl.
    apply (Forall_impl _ (P := fun kv => vcmp (snd kv) (snd kv) = Eq)); [|exact IH].
    intros [k x] Hx. unfold kvcmp. cbn [fst snd] in *. rewrite str_cmp_refl, Hx. reflexivity.
  - rewrite vcmp_arr. apply list_cmp_refl. exact IH.
  - reflexivity.
Qed.

Lemma vcmp_antisym : forall a b, vcmp b a = CompOpp (vcmp a b).
Proof.
  induction a as [s|i|f|b|ns|ns|kvs IH|l IH|] using value_ind'; intros [s'|i'|f'|b'|ns'|ns'|kvs'|l'|];
    try reflexivity.
  - apply str_cmp_antisym.
  - apply Z.compare_antisym.
  - cbn [vcmp]. symmetry. apply CompOpp_involutive.
  - cbn [vcmp]. apply ocmp_antisym.
  - destruct b, b'; reflexivity.
  - apply Z.compare_antisym.
  - apply Z.compare_antisym.
  - rewrite !vcmp_obj. apply list_cmp_antisym.
    apply (Forall_impl _ (P := fun kv => forall b, vcmp b (snd kv) = CompOpp (vcmp (snd kv) b))); [|exact IH].
    intros [k x] Hx [k' y]. unfold kvcmp. cbn [fst snd] in *.
    rewrite (str_cmp_antisym k k'), Hx. destruct (str_cmp k k'); reflexivity.
  - rewrite !vcmp_arr. apply list_cmp_antisym. exact IH.
Qed.

(** equal values compare Eq *)
Lemma veqb_vcmp : forall a b, veqb a b = true -> vcmp a b = Eq.
Proof.
  induction a as [s|i|f|b|ns|ns|kvs IH|l IH|] using value_ind';
    intros [s'|i'|f'|b'|ns'|ns'|kvs'|l'|] H; try (cbn [veqb] in H; discriminate H).
  - cbn [veqb vcmp] in *. apply str_eqb_eq in H. subst. apply str_cmp_refl.
  - cbn [veqb vcmp] in *. apply Z.eqb_eq in H. subst. apply Z.compare_refl.
  - cbn [veqb vcmp] in *. apply oeqb_ocmp. exact H.
  - cbn [veqb vcmp] in *. destruct b, b'; try reflexivity; discriminate H.
  - cbn [veqb vcmp] in *. apply Z.eqb_eq in H. subst. apply Z.compare_refl.
  - cbn [veqb vcmp] in *. apply Z.eqb_eq in H. subst. apply Z.compare_refl.
  - rewrite veqb_obj in H. rewrite vcmp_obj. revert H. apply list_eqb_cmp.
    apply (Forall_impl _ (P := fun kv => forall b, veqb (snd kv) b = true -> vcmp (snd kv) b = Eq)); [|exact IH].
    intros [k x] Hx [k' y]. unfold kveqb, kvcmp. cbn [fst snd] in *. intros H.
    apply andb_true_iff in H as [Ha Hb]. apply str_eqb_eq in Ha. subst.
    rewrite str_cmp_refl, (Hx y Hb). reflexivity.
  - rewrite veqb_arr in H. rewrite vcmp_arr. revert H. apply list_eqb_cmp. exact IH.
  - reflexivity.
Qed.

Lemma vcmp_eq_veqb : forall a b, no_mixed a b = true -> vcmp a b = Eq -> veqb a b = true.
Proof.
  induction a as [s|i|f|b|ns|ns|kvs IH|l IH|] using value_ind';
    intros [s'|i'|f'|b'|ns'|ns'|kvs'|l'|] Hn H;
    try (cbn [vcmp rank N.compare Pos.compare Pos.compare_cont] in H; discriminate H);
    try (cbn [no_mixed] in Hn; discriminate Hn).
  - cbn [veqb vcmp] in *. apply str_cmp_eq in H. subst. apply str_eqb_refl.
  - cbn [veqb vcmp] in *. apply Z.compare_eq in H. subst. apply Z.eqb_refl.
  - cbn [veqb vcmp] in *. apply oeqb_ocmp. exact H.
  - cbn [veqb vcmp] in *. destruct b, b'; try reflexivity; discriminate H.
  - cbn [veqb vcmp] in *. apply Z.compare_eq in H. subst. apply Z.eqb_refl.
  - cbn [veqb vcmp] in *. apply Z.compare_eq in H. subst. apply Z.eqb_refl.
  - rewrite no_mixed_obj in Hn. rewrite vcmp_obj in H. rewrite veqb_obj. revert Hn H.
    apply list_cmp_eqb.
    apply (Forall_impl _ (P := fun kv => forall b, no_mixed (snd kv) b = true ->
                                    vcmp (snd kv) b = Eq -> veqb (snd kv) b = true)); [|exact IH].
    intros [k x] Hx [k' y]. unfold kvnm, kveqb, kvcmp. cbn [fst snd] in *. intros Hn H.
    apply cmp_then_Eq in H as [Ha Hb]. apply str_cmp_eq in Ha. subst.
    rewrite str_eqb_refl, (Hx y Hn Hb). reflexivity.
  - rewrite no_mixed_arr in Hn. rewrite vcmp_arr in H. rewrite veqb_arr. revert Hn H.
    apply list_cmp_eqb. exact IH.
  - reflexivity.
Qed.

Lemma vcmp_trans_le : forall a b c,
  small_ints a = true -> small_ints b = true -> small_ints c = true ->
  vcmp a b <> Gt -> vcmp b c <> Gt -> vcmp a c <> Gt.
Proof.
  intros a b c Sa Sb Sc Hab Hbc Hac.
  destruct (vcmp_laws a b c Sa Sb Sc) as (H1 & H2 & H3).
  destruct (vcmp a b) eqn:Eab.
  - rewrite (H1 eq_refl) in Hac. exact (Hbc Hac).
  - destruct (vcmp b c) eqn:Ebc.
    + rewrite <- (H2 eq_refl) in Hac. discriminate Hac.
    + rewrite (H3 eq_refl eq_refl) in Hac. discriminate Hac.
    + apply Hbc. reflexivity.
  - apply Hab. reflexivity.
Qed.

Lemma vcmp_trans_lt : forall a b c,
  small_ints a = true -> small_ints b = true -> small_ints c = true ->
  vcmp a b = Lt -> vcmp b c = Lt -> vcmp a c = Lt.
Proof.
  intros a b c Sa Sb Sc Hab Hbc.
  destruct (vcmp_laws a b c Sa Sb Sc) as (H1 & H2 & H3). exact (H3 Hab Hbc).
Qed.

Lemma vcmp_eq_l : forall a b c,
  small_ints a = true -> small_ints b = true -> small_ints c = true ->
  vcmp a b = Eq -> vcmp a c = vcmp b c.
Proof.
  intros a b c Sa Sb Sc Hab.
  destruct (vcmp_laws a b c Sa Sb Sc) as (H1 & H2 & H3). exact (H1 Hab).
Qed.

(** the fixed order across types: None < Bool < numbers < Str < Date < Dur < Arr < Obj *)
Lemma vcmp_rank : forall a b, (rank a < rank b)%N -> vcmp a b = Lt.
Proof.
  intros a b H.
  destruct a, b; cbn [rank] in H; try (exfalso; lia); reflexivity.
Qed.

(** numbers compare by numeric value *)
Lemma vcmp_int_int : forall x y, vcmp (VInt x) (VInt y) = Z.compare x y.
Proof. reflexivity. Qed.

(** an integer against a double: the exact numeric order, for every integer
    and every finite well-formed double *)
Lemma vcmp_int_float_exact : forall i f,
  valid_binary prec emax f = true -> f_is_finite f = true ->
  vcmp (VInt i) (VFloat f) = Rcompare (IZR i) (SF2R radix2 f).
Proof.
  intros i f _ Hf. cbn [vcmp]. apply cmp_int_float_R. exact Hf.
Qed.

Lemma vcmp_int_float_small : forall x y, Z.abs y <= 2 ^ 53 ->
  vcmp (VInt x) (VFloat (f_of_Z y)) = Z.compare x y.
Proof.
  intros x y Hy.
  destruct (f_of_Z_valid y Hy) as [Vy Fy].
  rewrite (vcmp_int_float_exact x _ Vy Fy).
  rewrite f_of_Z_BofZ, SF2R_B2SF.
  destruct (BofZ_correct y Hy) as (Ry & _ & _).
  rewrite Ry. apply Rcompare_IZR.
Qed.

(** strings compare lexicographically by code point *)
Lemma vcmp_str : forall x y, vcmp (VStr x) (VStr y) = str_cmp x y.
Proof. reflexivity. Qed.

(** the six comparison operators are mutually consistent *)
Lemma cmp_ops_consistent : forall a b,
  (vltb a b = true \/ vcmp a b = Eq \/ vgtb a b = true) /\
  (vltb a b = true -> vcmp a b <> Eq /\ vgtb a b = false) /\
  (vgtb a b = true -> vcmp a b <> Eq /\ vltb a b = false) /\
  vleb a b = (vltb a b || match vcmp a b with Eq => true | _ => false end) /\
  vgeb a b = (vgtb a b || match vcmp a b with Eq => true | _ => false end) /\
  vltb a b = vgtb b a.
Proof.
  intros a b. unfold vltb, vgtb, vleb, vgeb. rewrite (vcmp_antisym a b).
  destruct (vcmp a b); cbn;
    repeat split; intros; try discriminate; try reflexivity; auto.
Qed.

Print Assumptions vcmp_trans_le.
Print Assumptions veqb_trans.
Print Assumptions vcmp_eq_veqb.
