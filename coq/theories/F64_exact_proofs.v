(** Exactness of small integers in binary64, through Flocq.
    [f_of_Z], [fadd], ... are Coq's SpecFloat operations at prec 53 / emax 1024;
    Flocq's IEEE754.BinarySingleNaN proves them equal to its verified operations
    (see PrimFloat.v: binary_normalize_equiv, and the proofs of add_equiv /
    mul_equiv which establish  B2SF (Bplus mode_NE x y) = SFadd (B2SF x) (B2SF y)
    by the same case analysis, without using any primitive-float axiom). *)
From Coq Require Import ZArith Bool Lia Reals Floats.SpecFloat.
From Flocq Require Import Core IEEE754.BinarySingleNaN.
From AG Require Import F64 Value.
Open Scope Z_scope.

Definition small (z : Z) : Prop := Z.abs z <= 2 ^ 53.

(** * Bridge between SpecFloat and Flocq at prec 53 / emax 1024 *)

Local Instance Hprec : FLX.Prec_gt_0 prec := eq_refl _.
Local Instance Hmax : Prec_lt_emax prec emax := eq_refl _.

Notation bfloat := (binary_float prec emax).

Lemma round_nearest_even_equiv s m l :
  round_nearest_even m l = choice_mode mode_NE s m l.
Proof.
case l; [reflexivity|intro c].
case c; [ | reflexivity..].
now simpl; unfold Round.cond_incr; case Z.even.
Qed.

Lemma binary_round_aux_equiv sx mx ex lx :
  SpecFloat.binary_round_aux prec emax sx mx ex lx
  = binary_round_aux prec emax mode_NE sx mx ex lx.
Proof.
unfold SpecFloat.binary_round_aux, binary_round_aux.
set (mrse' := shr_fexp _ _ _).
case mrse'; intros mrs' e'; simpl.
now rewrite (round_nearest_even_equiv sx).
Qed.

Lemma binary_round_equiv s m e :
  SpecFloat.binary_round prec emax s m e =
  binary_round prec emax mode_NE s m e.
Proof.
unfold SpecFloat.binary_round, binary_round, shl_align_fexp.
set (mez := shl_align _ _ _); case mez as [mz ez].
apply binary_round_aux_equiv.
Qed.

Lemma binary_normalize_equiv m e szero :
  SpecFloat.binary_normalize prec emax m e szero
  = B2SF (binary_normalize prec emax Hprec Hmax mode_NE m e szero).
Proof.
case m as [ | p | p].
- now simpl.
- simpl; rewrite B2SF_SF2B; apply binary_round_equiv.
- simpl; rewrite B2SF_SF2B; apply binary_round_equiv.
Qed.

Lemma SFadd_B2SF (x y : bfloat) :
  SFadd prec emax (B2SF x) (B2SF y) = B2SF (Bplus mode_NE x y).
Proof.
destruct x as [sx|sx| |sx mx ex Bx]; destruct y as [sy|sy| |sy my ey By];
  [now (trivial || simpl; case Bool.eqb).. | ].
apply binary_normalize_equiv.
Qed.

Lemma SFsub_B2SF (x y : bfloat) :
  SFsub prec emax (B2SF x) (B2SF y) = B2SF (Bminus mode_NE x y).
Proof.
destruct x as [sx|sx| |sx mx ex Bx]; destruct y as [sy|sy| |sy my ey By];
  [now (trivial || simpl; case Bool.eqb).. | ].
simpl.
unfold Zminus.
rewrite <- cond_Zopp_negb.
apply binary_normalize_equiv.
Qed.

Lemma SFmul_B2SF (x y : bfloat) :
  SFmul prec emax (B2SF x) (B2SF y) = B2SF (Bmult mode_NE x y).
Proof.
destruct x as [sx|sx| |sx mx ex Bx]; destruct y as [sy|sy| |sy my ey By];
  [now trivial.. | ].
simpl.
rewrite B2SF_SF2B.
apply binary_round_aux_equiv.
Qed.

(** * Small integers are representable *)

Notation fexp64 := (SpecFloat.fexp prec emax).

Lemma pow53 : 2 ^ 53 = 9007199254740992.
Proof. reflexivity. Qed.

Lemma bpow53 : bpow radix2 53 = IZR (2 ^ 53).
Proof. symmetry. apply (IZR_Zpower radix2 53). lia. Qed.

Lemma small_format : forall z, small z ->
  generic_format radix2 fexp64 (IZR z).
Proof.
intros z Hz. unfold small in Hz.
change fexp64 with (FLT_exp (SpecFloat.emin prec emax) prec).
apply generic_format_FLT.
destruct (Z_lt_le_dec (Z.abs z) (2 ^ 53)) as [Hlt|Hge].
- exists (Float radix2 z 0).
  + unfold F2R; simpl. ring.
  + exact Hlt.
  + cbv; discriminate.
- assert (Hc : z = 2 ^ 53 \/ z = - 2 ^ 53) by lia.
  exists (Float radix2 (Z.sgn z) 53).
  + unfold F2R. cbn [Fnum Fexp]. rewrite bpow53, <- mult_IZR.
    f_equal. destruct Hc as [-> | ->]; reflexivity.
  + cbn [Fnum]. destruct Hc as [-> | ->]; reflexivity.
  + cbv; discriminate.
Qed.

Definition BofZ (z : Z) : bfloat :=
  binary_normalize prec emax Hprec Hmax mode_NE z 0 false.

Lemma f_of_Z_BofZ : forall z, f_of_Z z = B2SF (BofZ z).
Proof. intros z. apply binary_normalize_equiv. Qed.

Lemma small_lt_emax : forall z, small z ->
  (Rabs (IZR z) < bpow radix2 emax)%R.
Proof.
intros z Hz. rewrite <- abs_IZR.
apply Rle_lt_trans with (bpow radix2 53).
- rewrite bpow53. apply IZR_le. exact Hz.
- apply bpow_lt. reflexivity.
Qed.

Lemma BofZ_correct : forall z, small z ->
  B2R (BofZ z) = IZR z /\ is_finite (BofZ z) = true /\ Bsign (BofZ z) = (z <? 0).
Proof.
intros z Hz.
generalize (binary_normalize_correct prec emax Hprec Hmax mode_NE z 0 false).
fold (BofZ z). cbv zeta.
assert (HF : F2R (Float radix2 z 0) = IZR z).
{ unfold F2R; simpl; ring. }
rewrite HF.
rewrite round_generic; [ | apply valid_rnd_N | apply small_format; exact Hz ].
rewrite Rlt_bool_true by (apply small_lt_emax; exact Hz).
intros (H1 & H2 & H3).
split; [exact H1 | split; [exact H2 | ]].
rewrite H3. rewrite Rcompare_IZR. unfold Z.ltb.
destruct (z ?= 0); reflexivity.
Qed.

(** a finite Flocq float is determined by its (integer) value and its sign *)
Lemma BofZ_unique : forall (x : bfloat) z, small z ->
  is_finite x = true -> B2R x = IZR z -> Bsign x = (z <? 0) -> x = BofZ z.
Proof.
intros x z Hz Fx Rx Sx.
destruct (BofZ_correct z Hz) as (R1 & F1 & S1).
apply B2R_Bsign_inj; congruence.
Qed.

(** * The lemmas *)

Lemma compare_BofZ : forall a b, small a -> small b ->
  SFcompare (f_of_Z a) (f_of_Z b) = Some (Z.compare a b).
Proof.
intros a b Ha Hb.
rewrite !f_of_Z_BofZ.
destruct (BofZ_correct a Ha) as (Ra & Fa & _).
destruct (BofZ_correct b Hb) as (Rb & Fb & _).
change (SFcompare (B2SF (BofZ a)) (B2SF (BofZ b)))
  with (Bcompare (BofZ a) (BofZ b)).
rewrite Bcompare_correct by assumption.
rewrite Ra, Rb, Rcompare_IZR. reflexivity.
Qed.

(** the comparison of two small integers survives the conversion to double *)
Lemma f_of_Z_compare : forall a b, small a -> small b ->
  ocmp (f_of_Z a) (f_of_Z b) = Z.compare a b.
Proof.
intros a b Ha Hb. unfold ocmp, fcmp.
rewrite compare_BofZ by assumption. reflexivity.
Qed.

Lemma F2R_int_cases : forall M e z,
  F2R (Float radix2 M e) = IZR z ->
  (0 <= e /\ z = M * 2 ^ e) \/ (e < 0 /\ M = z * 2 ^ (- e)).
Proof.
intros M e z H. unfold F2R in H. cbn [Fnum Fexp] in H.
destruct (Z_lt_le_dec e 0) as [He|He].
- right. split; [exact He|].
  apply eq_IZR. rewrite mult_IZR.
  change 2 with (radix_val radix2) at 1.
  rewrite IZR_Zpower by lia.
  rewrite <- H. rewrite Rmult_assoc, <- bpow_plus.
  replace (e + - e) with 0 by lia. simpl. ring.
- left. split; [exact He|].
  apply eq_IZR. rewrite mult_IZR.
  change 2 with (radix_val radix2) at 1.
  rewrite IZR_Zpower by lia.
  symmetry. exact H.
Qed.

Lemma two_pow_pos : forall k, 0 <= k -> 0 < 2 ^ k.
Proof. intros k Hk. apply Z.pow_pos_nonneg; lia. Qed.

Lemma BofZ_shape : forall z, small z ->
  ftrunc_Z (f_of_Z z) = z /\ f_is_integral (f_of_Z z) = true.
Proof.
intros z Hz. rewrite f_of_Z_BofZ.
destruct (BofZ_correct z Hz) as (Rz & Fz & Sz).
destruct (BofZ z) as [s|s| |s m e Bme]; try discriminate Fz.
- simpl in Rz. apply (eq_IZR 0 z) in Rz. subst z. split; reflexivity.
- cbn [B2R] in Rz. cbn [B2SF ftrunc_Z f_is_integral].
  destruct (F2R_int_cases _ _ _ Rz) as [(He & Hv) | (He & Hv)].
  + assert (Hle : (0 <=? e) = true) by (apply Z.leb_le; exact He).
    rewrite Hle. split; [|reflexivity].
    subst z. destruct s; cbn [cond_Zopp]; lia.
  + assert (Hle : (0 <=? e) = false) by (apply Z.leb_gt; exact He).
    rewrite Hle.
    assert (Hp : 0 < 2 ^ (- e)) by (apply two_pow_pos; lia).
    destruct s; cbn [cond_Zopp] in Hv.
    * assert (Hm : Z.pos m = (- z) * 2 ^ (- e)) by lia.
      rewrite Hm. split.
      -- rewrite Z.div_mul by lia. lia.
      -- rewrite Z.mod_mul by lia. reflexivity.
    * rewrite Hv. split.
      -- rewrite Z.div_mul by lia. reflexivity.
      -- rewrite Z.mod_mul by lia. reflexivity.
Qed.

(** converting back is exact *)
Lemma ftrunc_f_of_Z : forall z, small z -> ftrunc_Z (f_of_Z z) = z.
Proof. intros z Hz. apply (BofZ_shape z Hz). Qed.

Lemma f_is_integral_of_Z : forall z, small z -> f_is_integral (f_of_Z z) = true.
Proof. intros z Hz. apply (BofZ_shape z Hz). Qed.

Lemma from_float_of_Z : forall z, small z -> from_float (f_of_Z z) = VInt z.
Proof.
intros z Hz. unfold from_float.
rewrite f_is_integral_of_Z, ftrunc_f_of_Z by exact Hz.
unfold small in Hz. rewrite pow53 in Hz.
assert (H1 : (i64_min <=? z) = true).
{ apply Z.leb_le. unfold i64_min. change (2 ^ 63) with 9223372036854775808. lia. }
assert (H2 : (z <=? i64_max) = true).
{ apply Z.leb_le. unfold i64_max. change (2 ^ 63) with 9223372036854775808. lia. }
rewrite H1, H2. reflexivity.
Qed.

(** additions and subtractions that stay small are exact *)
Lemma fadd_of_Z : forall a b, small a -> small b -> small (a + b) ->
  fadd (f_of_Z a) (f_of_Z b) = f_of_Z (a + b).
Proof.
intros a b Ha Hb Hab. unfold fadd.
rewrite !f_of_Z_BofZ, SFadd_B2SF. f_equal.
destruct (BofZ_correct a Ha) as (Ra & Fa & Sa).
destruct (BofZ_correct b Hb) as (Rb & Fb & Sb).
generalize (Bplus_correct prec emax Hprec Hmax mode_NE (BofZ a) (BofZ b) Fa Fb).
rewrite Ra, Rb, <- plus_IZR.
rewrite round_generic; [ | apply valid_rnd_N | apply small_format; exact Hab ].
rewrite Rlt_bool_true by (apply small_lt_emax; exact Hab).
intros (H1 & H2 & H3).
apply BofZ_unique; try assumption.
rewrite H3, Rcompare_IZR, Sa, Sb.
destruct (Z.compare_spec (a + b) 0) as [He|He|He];
  destruct (Z.ltb_spec a 0); destruct (Z.ltb_spec b 0);
  destruct (Z.ltb_spec (a + b) 0); try reflexivity; lia.
Qed.

Lemma fsub_of_Z : forall a b, small a -> small b -> small (a - b) ->
  fsub (f_of_Z a) (f_of_Z b) = f_of_Z (a - b).
Proof.
intros a b Ha Hb Hab. unfold fsub.
rewrite !f_of_Z_BofZ, SFsub_B2SF. f_equal.
destruct (BofZ_correct a Ha) as (Ra & Fa & Sa).
destruct (BofZ_correct b Hb) as (Rb & Fb & Sb).
generalize (Bminus_correct prec emax Hprec Hmax mode_NE (BofZ a) (BofZ b) Fa Fb).
rewrite Ra, Rb, <- minus_IZR.
rewrite round_generic; [ | apply valid_rnd_N | apply small_format; exact Hab ].
rewrite Rlt_bool_true by (apply small_lt_emax; exact Hab).
intros (H1 & H2 & H3).
apply BofZ_unique; try assumption.
rewrite H3, Rcompare_IZR, Sa, Sb.
destruct (Z.compare_spec (a - b) 0) as [He|He|He];
  destruct (Z.ltb_spec a 0); destruct (Z.ltb_spec b 0);
  destruct (Z.ltb_spec (a - b) 0); try reflexivity; lia.
Qed.

(* STATEMENT FALSE: the original lemma
     fmul_of_Z : forall a b, small a -> small b -> small (a * b) ->
       fmul (f_of_Z a) (f_of_Z b) = f_of_Z (a * b)
   fails for a = 0, b = -1 (sign of zero):
     Eval vm_compute in (fmul (f_of_Z 0) (f_of_Z (-1)), f_of_Z (0 * -1)).
       = (S754_zero true, S754_zero false)
   IEEE multiplication gives (+0) * (-1) = -0 whereas f_of_Z 0 = +0.
   The variants below are the closest true statements: an exact
   characterisation (the zero carries the xor of the signs), the original
   conclusion for a non-zero product, and exactness after [from_float]. *)
Lemma Bmult_of_Z : forall a b, small a -> small b -> small (a * b) ->
  let r := Bmult mode_NE (BofZ a) (BofZ b) in
  B2R r = IZR (a * b) /\ is_finite r = true /\
  Bsign r = xorb (a <? 0) (b <? 0).
Proof.
intros a b Ha Hb Hab r.
destruct (BofZ_correct a Ha) as (Ra & Fa & Sa).
destruct (BofZ_correct b Hb) as (Rb & Fb & Sb).
generalize (Bmult_correct prec emax Hprec Hmax mode_NE (BofZ a) (BofZ b)).
fold r.
rewrite Ra, Rb, <- mult_IZR.
rewrite round_generic; [ | apply valid_rnd_N | apply small_format; exact Hab ].
rewrite Rlt_bool_true by (apply small_lt_emax; exact Hab).
rewrite Fa, Fb, Sa, Sb.
intros (H1 & H2 & H3).
split; [exact H1 | split; [exact H2 | ]].
apply H3. destruct r; try reflexivity; discriminate H2.
Qed.

Lemma fmul_of_Z_weak : forall a b, small a -> small b -> small (a * b) ->
  fmul (f_of_Z a) (f_of_Z b) =
  if a * b =? 0 then S754_zero (xorb (a <? 0) (b <? 0)) else f_of_Z (a * b).
Proof.
intros a b Ha Hb Hab. unfold fmul.
rewrite !f_of_Z_BofZ, SFmul_B2SF.
destruct (Bmult_of_Z a b Ha Hb Hab) as (H1 & H2 & H3).
destruct (Z.eqb_spec (a * b) 0) as [He|He].
- change (S754_zero (xorb (a <? 0) (b <? 0)))
    with (B2SF (B754_zero (xorb (a <? 0) (b <? 0)) : bfloat)).
  f_equal.
  apply B2R_Bsign_inj.
  + exact H2.
  + reflexivity.
  + rewrite H1, He. reflexivity.
  + rewrite H3. reflexivity.
- f_equal. apply BofZ_unique; try assumption.
  rewrite H3.
  destruct (Z.ltb_spec a 0); destruct (Z.ltb_spec b 0);
    destruct (Z.ltb_spec (a * b) 0); try reflexivity; nia.
Qed.

Lemma fmul_of_Z_nonzero_weak : forall a b, small a -> small b -> small (a * b) ->
  a * b <> 0 ->
  fmul (f_of_Z a) (f_of_Z b) = f_of_Z (a * b).
Proof.
intros a b Ha Hb Hab Hnz.
rewrite fmul_of_Z_weak by assumption.
destruct (Z.eqb_spec (a * b) 0); [contradiction | reflexivity].
Qed.

Lemma from_float_fmul_of_Z_weak : forall a b, small a -> small b -> small (a * b) ->
  from_float (fmul (f_of_Z a) (f_of_Z b)) = VInt (a * b).
Proof.
intros a b Ha Hb Hab.
rewrite fmul_of_Z_weak by assumption.
destruct (Z.eqb_spec (a * b) 0) as [He|He].
- rewrite He. reflexivity.
- apply from_float_of_Z. exact Hab.
Qed.

(** [f_of_Z 0] is +0 and every [f_of_Z z] is a valid, finite binary64 *)
Lemma f_of_Z_valid : forall z, small z -> valid_binary prec emax (f_of_Z z) = true /\ f_is_finite (f_of_Z z) = true.
Proof.
intros z Hz. rewrite f_of_Z_BofZ. split.
- apply valid_binary_B2SF.
- destruct (BofZ_correct z Hz) as (_ & Fz & _).
  destruct (BofZ z); try discriminate Fz; reflexivity.
Qed.

(** IEEE comparison against a converted integer, used by min/max *)
Lemma fltb_of_Z : forall a b, small a -> small b -> fltb (f_of_Z a) (f_of_Z b) = (a <? b).
Proof.
intros a b Ha Hb. unfold fltb, SFltb.
rewrite compare_BofZ by assumption.
unfold Z.ltb. destruct (a ?= b); reflexivity.
Qed.

Print Assumptions f_of_Z_compare.
Print Assumptions fadd_of_Z.
Print Assumptions fsub_of_Z.
Print Assumptions fmul_of_Z_weak.
Print Assumptions from_float_of_Z.
