(** Line filters (src/filter.rs, Keyword::to_regex, convert_filter). *)
From Coq Require Import List NArith Bool.
From AG Require Import Str Ops.
Import ListNotations.

Inductive filter : Type :=
| FAnd (l : list filter)
| FOr (l : list filter)
| FNot (f : filter)
| FKw (kind : kwkind) (text : str).

Fixpoint fmatches (f : filter) (line : str) {struct f} : bool :=
  match f with
  | FKw kind text => kw_is_match kind text line
  | FAnd l => (fix go (l : list filter) := match l with [] => true | x :: r => fmatches x line && go r end) l
  | FOr l => (fix go (l : list filter) := match l with [] => false | x :: r => fmatches x line || go r end) l
  | FNot g => negb (fmatches g line)
  end.
