(** The reader / bounded channel / renderer protocol of Pipeline::process for
    pipelines without aggregation (src/lib.rs:216-333), with an output that may
    fail (closed stdout), as a labelled transition system. *)
From Coq Require Import List ZArith NArith Bool.
From AG Require Import Str F64 Value Json Expr Ops Pipeline.
From AG Require Generated.
Import ListNotations.

Definition cap : nat := Z.to_nat Generated.chan_capacity.

Inductive phase : Type :=
| PRead                          (* the read_until loop *)
| PDrainOp                       (* the drain loop, about to take the next operator *)
| PDrainRows (pending : list record)   (* pushing one operator's drained rows through the rest *)
| PDone.                         (* tx dropped *)

Record sys := mkSys {
  y_lines : list str;        (* complete input lines not yet read *)
  y_ops : list opstate;      (* the reader's operators *)
  y_phase : phase;
  y_chan : list record;      (* the bounded channel, oldest first *)
  y_rx : bool;               (* the renderer still holds the receiver *)
  y_out : list record;       (* rows written to stdout, oldest first *)
  y_budget : option nat;     (* stdout accepts this many more rows, then every write fails; None = never fails *)
  y_errs : nat;              (* `error:` lines on stderr *)
  y_rdone : bool }.          (* the renderer thread has returned *)

Definition init (filter_ok : str -> bool) (ops : list opstate) (lines : list str) (budget : option nat) : sys :=
  mkSys (filter filter_ok lines) ops PRead [] true [] budget O false.

Inductive action := AReader | ARenderer.

(** try to hand a processed record to the channel: None = the reader must wait (queue full) *)
Definition try_send (s : sys) (ops' : list opstate) (r : record) (n : nat)
           (next_ok next_fail : phase) (lines' : list str) : option sys :=
  if y_rx s then
    if Nat.ltb (length (y_chan s)) cap
    then Some (mkSys lines' ops' next_ok (y_chan s ++ [r]) true (y_out s) (y_budget s) (y_errs s + n) (y_rdone s))
    else None
  else (* send() fails: the receiver is gone; the row is dropped and the loop breaks *)
    Some (mkSys lines' ops' next_fail (y_chan s) false (y_out s) (y_budget s) (y_errs s + n) (y_rdone s)).

Definition reader_step (s : sys) : option sys :=
  match y_phase s with
  | PRead =>
      match y_lines s with
      | [] => Some (mkSys [] (y_ops s) PDrainOp (y_chan s) (y_rx s) (y_out s) (y_budget s) (y_errs s) (y_rdone s))
      | l :: rest =>
          if negb (y_rx s) then
            (* the renderer has flagged that its output is gone: the line just read is not processed *)
            Some (mkSys rest (y_ops s) PDrainOp (y_chan s) false (y_out s) (y_budget s) (y_errs s) (y_rdone s))
          else
          let '(ops', res, n) := proc_preagg (y_ops s) (mkRec [] l) in
          match res with
          | Ok (Some r) => try_send s ops' r n PRead PDrainOp rest
          | _ => Some (mkSys rest ops' PRead (y_chan s) (y_rx s) (y_out s) (y_budget s) (y_errs s + n) (y_rdone s))
          end
      end
  | PDrainOp =>
      match y_ops s with
      | [] => Some (mkSys (y_lines s) [] PDone (y_chan s) (y_rx s) (y_out s) (y_budget s) (y_errs s) (y_rdone s))
      | o :: rest => Some (mkSys (y_lines s) rest (PDrainRows (op_drain o)) (y_chan s) (y_rx s) (y_out s) (y_budget s) (y_errs s) (y_rdone s))
      end
  | PDrainRows [] =>
      Some (mkSys (y_lines s) (y_ops s) PDrainOp (y_chan s) (y_rx s) (y_out s) (y_budget s) (y_errs s) (y_rdone s))
  | PDrainRows (r0 :: pending) =>
      let '(ops', res, n) := proc_preagg (y_ops s) r0 in
      match res with
      | Ok (Some r) => try_send s ops' r n (PDrainRows pending) PDrainOp (y_lines s)
      | _ => Some (mkSys (y_lines s) ops' (PDrainRows pending) (y_chan s) (y_rx s) (y_out s) (y_budget s) (y_errs s + n) (y_rdone s))
      end
  | PDone => None
  end.

Definition renderer_step (s : sys) : option sys :=
  if y_rdone s then None else
  match y_chan s with
  | r :: c =>
      match y_budget s with
      | Some O =>
          (* the write fails: one error line, the renderer returns, dropping the receiver and what is queued *)
          Some (mkSys (y_lines s) (y_ops s) (y_phase s) [] false (y_out s) (Some O) (S (y_errs s)) true)
      | Some (S k) =>
          Some (mkSys (y_lines s) (y_ops s) (y_phase s) c true (y_out s ++ [r]) (Some k) (y_errs s) false)
      | None =>
          Some (mkSys (y_lines s) (y_ops s) (y_phase s) c true (y_out s ++ [r]) None (y_errs s) false)
      end
  | [] =>
      match y_phase s with
      | PDone => Some (mkSys (y_lines s) (y_ops s) PDone [] false (y_out s) (y_budget s) (y_errs s) true)  (* Disconnected *)
      | _ => None          (* recv_timeout: nothing to do *)
      end
  end.

Definition step (a : action) (s : sys) : option sys :=
  match a with AReader => reader_step s | ARenderer => renderer_step s end.

(** run a schedule; actions that are not enabled are skipped (stutter) *)
Fixpoint run_schedule (sched : list action) (s : sys) : sys :=
  match sched with
  | [] => s
  | a :: rest => run_schedule rest (match step a s with Some s' => s' | None => s end)
  end.

Definition terminal (s : sys) : bool :=
  match y_phase s with PDone => y_rdone s | _ => false end.

(** what the reader will still hand to the channel from its current position,
    if every send succeeds *)
Definition reader_rest (s : sys) : list record :=
  let recs := map (fun l => mkRec [] l) (y_lines s) in
  match y_phase s with
  | PRead => rev (p_sent (run_preagg (y_ops s) recs))
  | PDrainOp => rev (p_sent (drain_loop (S (length (y_ops s))) (mkP (y_ops s) [] O no_bad)))
  | PDrainRows pending =>
      rev (p_sent (drain_loop (S (length (y_ops s))) (fold_left feed pending (mkP (y_ops s) [] O no_bad))))
  | PDone => []
  end.

(** *** input assembly: BufRead::read_until over arbitrarily chunked bytes *)
Fixpoint split_lines (bytes : list N) (cur : list N) : list (list N) * list N :=
  match bytes with
  | [] => ([], rev cur)
  | b :: r => if (b =? 10)%N then let '(ls, tail) := split_lines r [] in (rev (b :: cur) :: ls, tail)
              else split_lines r (b :: cur)
  end.

(** the lines a reader sees for a whole byte stream: every '\n'-terminated line, then the unterminated rest if any *)
Definition lines_of (bytes : list N) : list (list N) :=
  let '(ls, tail) := split_lines bytes [] in
  match tail with [] => ls | _ => ls ++ [tail] end.

(** the same, chunk by chunk, carrying the partial line *)
Definition feed_chunk (st : list (list N) * list N) (chunk : list N) : list (list N) * list N :=
  let '(done, partial) := st in
  let '(ls, tail) := split_lines chunk (rev partial) in
  (done ++ ls, tail).

Definition lines_of_chunks (chunks : list (list N)) : list (list N) :=
  let '(done, partial) := fold_left feed_chunk chunks ([], []) in
  match partial with [] => done | _ => done ++ [partial] end.
