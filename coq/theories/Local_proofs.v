(** C12: stateless row operators are local. *)
From Coq Require Import List ZArith NArith Bool Lia Arith.
From AG Require Import Str F64 Value Json Expr Ops Pipeline Stream_proofs Str_proofs.
Import ListNotations.

Definition is_fun (o : opstate) : bool := match o with OFun _ => true | _ => false end.

Lemma build_op_fun s :
  is_fun (build_op s) = match s with SLimit _ | STotal _ _ => false | _ => true end.
Proof. destruct s; cbn; try reflexivity. now destruct (0 <? n)%Z. Qed.

(** a functional operator keeps no state *)
Lemma op_run_fun_state s recs :
  fst (fst (fst (op_run (OFun s) recs))) = OFun s.
Proof.
  induction recs as [|r recs IH]; cbn; [reflexivity|].
  destruct (op_run (OFun s) recs) as [[[o2 outs] n] b]. cbn in IH. subst o2.
  destruct (apply_fun s r) as [[r'|]| | |]; reflexivity.
Qed.

Lemma op_run_fun_app s a : forall b,
  op_run (OFun s) (a ++ b) =
  let '(_, o1, n1, b1) := op_run (OFun s) a in
  let '(_, o2, n2, b2) := op_run (OFun s) b in
  (OFun s, o1 ++ o2, (n1 + n2)%nat, bad_or b1 b2).
Proof.
  induction a as [|r a IH]; intros b.
  - cbn [app op_run]. pose proof (op_run_fun_state s b) as Hs.
    destruct (op_run (OFun s) b) as [[[o2 outs] n] bb]. cbn in Hs. subst o2.
    now rewrite bad_or_no_l.
  - cbn [app op_run op_step]. rewrite IH.
    destruct (op_run (OFun s) a) as [[[oa outa] na] ba].
    destruct (op_run (OFun s) b) as [[[ob outb] nb] bb].
    destruct (apply_fun s r) as [[r'|]| | |]; cbn; try reflexivity;
      try (now rewrite bad_or_assoc).
Qed.

Lemma op_drain_fun s : op_drain (OFun s) = [].
Proof. reflexivity. Qed.

Theorem stage_out_fun_app s a b :
  stage_out (OFun s) (a ++ b) = stage_out (OFun s) a ++ stage_out (OFun s) b.
Proof.
  unfold stage_out. rewrite op_run_fun_app.
  pose proof (op_run_fun_state s a) as Ha. pose proof (op_run_fun_state s b) as Hb.
  destruct (op_run (OFun s) a) as [[[oa outa] na] ba].
  destruct (op_run (OFun s) b) as [[[ob outb] nb] bb].
  cbn in Ha, Hb. subst oa ob. cbn [op_drain]. now rewrite !app_nil_r.
Qed.

(** concatenation law for a whole pipeline of functional operators *)
Theorem staged_app ops : forallb is_fun ops = true ->
  forall a b, staged ops (a ++ b) = staged ops a ++ staged ops b.
Proof.
  induction ops as [|o ops IH]; intros Hf a b; [reflexivity|].
  cbn [forallb] in Hf. apply andb_true_iff in Hf as [Ho Hops].
  destruct o as [s| | |]; try discriminate.
  cbn [staged]. rewrite stage_out_fun_app. now apply IH.
Qed.

Lemma staged_nil ops : forallb is_fun ops = true -> staged ops [] = [].
Proof.
  induction ops as [|o ops IH]; intros Hf; [reflexivity|].
  cbn [forallb] in Hf. apply andb_true_iff in Hf as [Ho Hops].
  destruct o as [s| | |]; try discriminate. cbn. now apply IH.
Qed.

(** each line is mapped on its own: the output is the concatenation of the
    per-line outputs, in input order *)
Theorem staged_flat_map ops : forallb is_fun ops = true ->
  forall rows, staged ops rows = flat_map (fun r => staged ops [r]) rows.
Proof.
  intros Hf rows. induction rows as [|r rows IH].
  - now apply staged_nil.
  - change (r :: rows) with ([r] ++ rows). rewrite staged_app by exact Hf.
    cbn [flat_map app]. now rewrite IH.
Qed.

(** ... and each line yields at most one row *)
Lemma stage_out_fun_one s r : (length (stage_out (OFun s) [r]) <= 1)%nat.
Proof.
  unfold stage_out. cbn. destruct (apply_fun s r) as [[r'|]| | |]; cbn; lia.
Qed.

Theorem staged_one ops : forallb is_fun ops = true ->
  forall r, (length (staged ops [r]) <= 1)%nat.
Proof.
  induction ops as [|o ops IH]; intros Hf r; [cbn; lia|].
  cbn [forallb] in Hf. apply andb_true_iff in Hf as [Ho Hops].
  destruct o as [s| | |]; try discriminate. cbn [staged].
  pose proof (stage_out_fun_one s r) as H1.
  destruct (stage_out (OFun s) [r]) as [|r' [|r'' t]]; cbn in H1; try lia.
  - rewrite staged_nil by exact Hops. cbn; lia.
  - now apply IH.
Qed.

(** *** frame properties: an operator only touches the fields it names *)
Lemma rput_get_other k k' v r : k <> k' -> get k (rdata (rput k' v r)) = get k (rdata r).
Proof. intros. unfold rput; cbn. now apply get_put_other. Qed.

Lemma rput_raw k v r : rraw (rput k v r) = rraw r.
Proof. reflexivity. Qed.

Lemma fold_rput_other {B} (f : B -> str) (g : B -> value) k (l : list B) : forall r,
  ~ In k (map f l) ->
  get k (rdata (fold_left (fun acc x => rput (f x) (g x) acc) l r)) = get k (rdata r).
Proof.
  induction l as [|x l IH]; intros r Hn; cbn; [reflexivity|].
  cbn in Hn. rewrite IH by tauto. apply rput_get_other. intros ->. tauto.
Qed.

Lemma fold_rput_raw {B} (f : B -> str) (g : B -> value) (l : list B) : forall r,
  rraw (fold_left (fun acc x => rput (f x) (g x) acc) l r) = rraw r.
Proof. induction l as [|x l IH]; intros r; cbn; [reflexivity|]. now rewrite IH. Qed.

Theorem json_frame from r r' k :
  json_op from r = Ok (Some r') ->
  (forall inp kvs, get_input r from = Ok inp -> json_parse inp = Some (JObj kvs) -> ~ In k (map fst kvs)) ->
  get k (rdata r') = get k (rdata r) /\ rraw r' = rraw r.
Proof.
  unfold json_op. destruct (get_input r from) as [inp| | |] eqn:Hi; cbn [bind]; try discriminate.
  destruct (json_parse inp) as [[| | | | | |kvs]|] eqn:Hp; intros H Hk; try discriminate;
    try (injection H as <-; now split).
  injection H as <-. split.
  - apply (fold_rput_other fst (fun kv => json_to_value (snd kv))). now apply (Hk inp).
  - apply (fold_rput_raw fst (fun kv => json_to_value (snd kv))).
Qed.

Theorem let_frame e name r r' k :
  let_op e name r = Ok (Some r') -> k <> name ->
  get k (rdata r') = get k (rdata r) /\ rraw r' = rraw r.
Proof.
  unfold let_op. destruct (eval e (rdata r)); cbn [bind]; try discriminate.
  intros H Hk. injection H as <-. split; [now apply rput_get_other | reflexivity].
Qed.

Theorem where_frame e r r' : where_op e r = Ok (Some r') -> r' = r.
Proof.
  unfold where_op. destruct (eval_bool e (rdata r)) as [[|]| | |]; cbn [bind]; try discriminate.
  now intros H; injection H.
Qed.

Theorem timeslice_frame e span name r r' k :
  timeslice_op e span name r = Ok (Some r') ->
  k <> match name with Some n => n | None => lit "_timeslice" end ->
  get k (rdata r') = get k (rdata r) /\ rraw r' = rraw r.
Proof.
  unfold timeslice_op. destruct (eval e (rdata r)) as [v| | |]; cbn [bind]; try discriminate.
  destruct v; try discriminate.
  destruct (span <=? 0)%Z; try discriminate.
  unfold mk_date. destruct (date_ok (ns - ns mod span)); cbn [bind]; try discriminate.
  intros H Hk. injection H as <-. split; [now apply rput_get_other | reflexivity].
Qed.

Theorem parse_frame pat fields from nodrop noconvert r r' k :
  parse_op pat fields from nodrop noconvert r = Ok (Some r') -> ~ In k fields ->
  get k (rdata r') = get k (rdata r) /\ rraw r' = rraw r.
Proof.
  unfold parse_op. destruct (get_input r from) as [inp| | |]; cbn [bind]; try discriminate.
  destruct (kw_captures KWild pat (trim inp)) as [caps|].
  - intros H Hk. injection H as <-. split.
    + apply (fold_rput_other fst snd). intros Hin. apply Hk.
      clear -Hin. revert Hin. generalize (map (fun c => if noconvert then VStr c else from_string c) caps).
      induction fields as [|f fs IH]; intros [|v vs] Hin; cbn in *; try tauto.
      destruct Hin as [->|Hin]; [now left | right; eauto].
    + apply (fold_rput_raw fst snd).
  - destruct nodrop; try discriminate. intros H Hk. injection H as <-.
    generalize (rdata r) at 1 3 as d0. intros d0.
    assert (Hgen : forall acc,
               get k (rdata (fold_left (fun acc f => if has f d0 then acc else rput f VNone acc) fields acc))
               = get k (rdata acc) /\
               rraw (fold_left (fun acc f => if has f d0 then acc else rput f VNone acc) fields acc) = rraw acc).
    { clear -Hk. induction fields as [|f fs IH]; intros acc; cbn; [now split|].
      cbn in Hk. destruct (IH (fun H => Hk (or_intror H)) (if has f d0 then acc else rput f VNone acc)) as [H1 H2].
      rewrite H1, H2. destruct (has f d0); split; try reflexivity.
      apply rput_get_other. intros ->. tauto. }
    apply Hgen.
Qed.

Theorem fields_frame only fs r r' k :
  fields_op only fs r = Ok (Some r') ->
  rraw r' = rraw r /\
  (get k (rdata r') = get k (rdata r) \/ get k (rdata r') = None).
Proof.
  unfold fields_op.
  set (keep := fun kv : str * value => let isin := existsb (str_eqb (fst kv)) fs in if only then isin else negb isin).
  destruct (filter keep (rdata r)) as [|kv d] eqn:Hf; try discriminate.
  intros H. injection H as <-. cbn [rdata rraw]. split; [reflexivity|].
  rewrite <- Hf.
  destruct (keep (k, VNone)) eqn:Hk.
  - left. apply get_filter_keep. intros v. unfold keep in *. cbn [fst] in *. exact Hk.
  - right. apply get_filter_drop. intros v. unfold keep in *. cbn [fst] in *. exact Hk.
Qed.

Theorem split_frame sep from out r r' k :
  split_op sep from out r = Ok (Some r') ->
  k <> match out with Some (ECol h _) => h | _ => lit "_split" end ->
  get k (rdata r') = get k (rdata r) /\ rraw r' = rraw r.
Proof.
  unfold split_op. destruct (get_input r from) as [inp| | |]; cbn [bind]; try discriminate.
  destruct (split_with_delimiters inp sep) as [toks|]; try discriminate.
  destruct out as [oc|].
  - unfold put_expr. destruct oc as [h rest| | | | | | | |]; cbn [bind]; try discriminate.
    destruct (get h (rdata r)) as [root|].
    + destruct (put_path rest root (VArr (map from_string toks))) as [root'| | |]; cbn [bind]; try discriminate.
      intros H Hk. injection H as <-. split; [now apply rput_get_other | reflexivity].
    + destruct rest; cbn [bind]; try discriminate.
      intros H Hk. injection H as <-. split; [now apply rput_get_other | reflexivity].
  - intros H Hk. injection H as <-. split; [now apply rput_get_other | reflexivity].
Qed.
