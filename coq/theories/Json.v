(** JSON text -> tree (the fragment of serde_json::from_str that agrind uses),
    tree -> value (json_to_value), value -> tree (the Serialize impls). *)
From Coq Require Import List ZArith NArith Bool Floats.SpecFloat.
From AG Require Import Str F64 Value.
Import ListNotations.
Open Scope string_scope.
Open Scope list_scope.
Open Scope N_scope.

Inductive jtree : Type :=
| JNull | JBool (b : bool)
| JInt (z : Z)            (* serde_json PosInt(u64) / NegInt(i64) *)
| JFloat (f : f64)
| JStr (s : str)
| JArr (l : list jtree)
| JObj (kvs : list (str * jtree)).   (* in document order, duplicates kept *)

Definition is_json_ws (c : N) : bool := (c =? 32) || (c =? 9) || (c =? 10) || (c =? 13).

Fixpoint skip_ws (s : str) : str :=
  match s with
  | c :: s' => if is_json_ws c then skip_ws s' else s
  | [] => []
  end.

Definition hex_val (c : N) : option N :=
  if is_digit c then Some (c - 48)
  else if (97 <=? c) && (c <=? 102) then Some (c - 87)
  else if (65 <=? c) && (c <=? 70) then Some (c - 55)
  else None.

Definition hex4 (s : str) : option (N * str) :=
  match s with
  | a :: b :: c :: d :: r =>
      match hex_val a, hex_val b, hex_val c, hex_val d with
      | Some a, Some b, Some c, Some d => Some (a * 4096 + b * 256 + c * 16 + d, r)
      | _, _, _, _ => None
      end
  | _ => None
  end.

(** body of a string literal after the opening quote *)
Definition simple_escape (e : N) : option N :=
  if e =? 34 then Some 34 else if e =? 92 then Some 92 else if e =? 47 then Some 47
  else if e =? 98 then Some 8 else if e =? 102 then Some 12 else if e =? 110 then Some 10
  else if e =? 114 then Some 13 else if e =? 116 then Some 9 else None.

Definition is_hi_surrogate (h : N) : bool := (55296 <=? h) && (h <=? 56319).
Definition is_lo_surrogate (h : N) : bool := (56320 <=? h) && (h <=? 57343).

(** after "\u": one scalar value (surrogate pairs combined), and the rest *)
Definition parse_u_escape (r : str) : option (N * str) :=
  match hex4 r with
  | None => None
  | Some (h, r') =>
      if is_hi_surrogate h then
        match strip_prefix [92; 117] r' with
        | Some r'' =>
            match hex4 r'' with
            | Some (l, r3) =>
                if is_lo_surrogate l
                then Some (65536 + (h - 55296) * 1024 + (l - 56320), r3)
                else None
            | None => None
            end
        | None => None
        end
      else if is_lo_surrogate h then None
      else Some (h, r')
  end.

Fixpoint parse_str_body (fuel : nat) (s : str) (acc : str) : option (str * str) :=
  match fuel with
  | O => None
  | S f =>
      match s with
      | [] => None
      | c :: r =>
          if c =? 34 then Some (rev acc, r)
          else if c =? 92 then
            match r with
            | [] => None
            | e :: r1 =>
                if e =? 117 then
                  match parse_u_escape r1 with
                  | Some (cp, r2) => parse_str_body f r2 (cp :: acc)
                  | None => None
                  end
                else match simple_escape e with
                     | Some x => parse_str_body f r1 (x :: acc)
                     | None => None
                     end
            end
          else if c <? 32 then None
          else parse_str_body f r (c :: acc)
      end
  end.

Definition u64_max : Z := (2 ^ 64 - 1)%Z.

(** exponent part: None = syntax error; Some (None, r) = no exponent *)
Definition parse_exponent (r2 : str) : option (option Z * str) :=
  match r2 with
  | c :: r3 =>
      if (c =? 101) || (c =? 69) then
        let '(eneg, r4) := strip_sign r3 in
        let '(ed, r5) := take_digits r4 in
        if is_nil ed then None
        else let ev := Z.of_N (digits_val ed 0) in
             let ev := if (100000 <? ev)%Z then 100000%Z else ev in
             Some (Some (if eneg then (- ev)%Z else ev), r5)
      else Some (None, r2)
  | [] => Some (None, r2)
  end.

Definition mk_json_int (neg : bool) (mant : Z) : jtree :=
  if neg then
    if (mant =? 0)%Z then JFloat (S754_zero true)
    else if (mant <=? 2 ^ 63)%Z then JInt (- mant)%Z
    else JFloat (f_of_dec true mant 0)
  else
    if (mant <=? u64_max)%Z then JInt mant
    else JFloat (f_of_dec false mant 0).

(** number (the first character is '-' or a digit) *)
Definition parse_number (s : str) : option (jtree * str) :=
  let '(neg, r) := strip_minus s in
  let '(ip, r1) := take_digits r in
  match ip with
  | [] => None
  | d0 :: ip' =>
      if (d0 =? 48) && negb (is_nil ip') then None
      else
        let has_frac := head_is 46 r1 in
        let '(fp, r2) := match eat 46 r1 with
                         | Some r1' => take_digits r1'
                         | None => ([], r1)
                         end in
        if has_frac && is_nil fp then None else
        match parse_exponent r2 with
        | None => None
        | Some (eopt, rest) =>
            let mant := Z.of_N (digits_val (ip ++ fp) 0) in
            match has_frac, eopt with
            | false, None => Some (mk_json_int neg mant, rest)
            | _, _ =>
                let e10 := ((match eopt with Some e => e | None => 0 end) - Z.of_nat (length fp))%Z in
                let f := f_of_dec neg mant e10 in
                if f_is_finite f then Some (JFloat f, rest) else None
            end
        end
  end.

Inductive jtok := TNull | TTrue | TFalse | TQuote | TLBrack | TLBrace | TNum | TBad.

Definition classify (s : str) : jtok * str :=
  match strip_prefix (lit "null") s with Some r => (TNull, r) | None =>
  match strip_prefix (lit "true") s with Some r => (TTrue, r) | None =>
  match strip_prefix (lit "false") s with Some r => (TFalse, r) | None =>
  match s with
  | c :: r =>
      if c =? 34 then (TQuote, r) else if c =? 91 then (TLBrack, r)
      else if c =? 123 then (TLBrace, r)
      else if (c =? 45) || is_digit c then (TNum, s) else (TBad, s)
  | [] => (TBad, s)
  end end end end.

Fixpoint pv (fuel : nat) (depth : nat) (s : str) {struct fuel} : option (jtree * str) :=
  match fuel with
  | O => None
  | S f =>
      let '(tok, r) := classify (skip_ws s) in
      match tok with
      | TNull => Some (JNull, r)
      | TTrue => Some (JBool true, r)
      | TFalse => Some (JBool false, r)
      | TQuote =>
          match parse_str_body (S (length r)) r [] with
          | Some (st, r') => Some (JStr st, r')
          | None => None
          end
      | TLBrack =>
          match depth with
          | O | S O => None
          | S d =>
              match eat 93 (skip_ws r) with
              | Some r' => Some (JArr [], r')
              | None => parr f d r []
              end
          end
      | TLBrace =>
          match depth with
          | O | S O => None
          | S d =>
              match eat 125 (skip_ws r) with
              | Some r' => Some (JObj [], r')
              | None => pobj f d r []
              end
          end
      | TNum => parse_number r
      | TBad => None
      end
  end
with parr (fuel : nat) (depth : nat) (s : str) (acc : list jtree) {struct fuel}
  : option (jtree * str) :=
  match fuel with
  | O => None
  | S f =>
      match pv f depth s with
      | Some (v, r) =>
          let r := skip_ws r in
          match eat 44 r with
          | Some r' => parr f depth r' (v :: acc)
          | None => match eat 93 r with
                    | Some r' => Some (JArr (rev (v :: acc)), r')
                    | None => None
                    end
          end
      | None => None
      end
  end
with pobj (fuel : nat) (depth : nat) (s : str) (acc : list (str * jtree)) {struct fuel}
  : option (jtree * str) :=
  match fuel with
  | O => None
  | S f =>
      match eat 34 (skip_ws s) with
      | Some r =>
          match parse_str_body (S (length r)) r [] with
          | Some (k, r1) =>
              match eat 58 (skip_ws r1) with
              | Some r2 =>
                  match pv f depth r2 with
                  | Some (v, r3) =>
                      let r3 := skip_ws r3 in
                      match eat 44 r3 with
                      | Some r4 => pobj f depth r4 ((k, v) :: acc)
                      | None => match eat 125 r3 with
                                | Some r4 => Some (JObj (rev ((k, v) :: acc)), r4)
                                | None => None
                                end
                      end
                  | None => None
                  end
              | None => None
              end
          | None => None
          end
      | None => None
      end
  end.

(** [serde_json::from_str]: one value, then only whitespace *)
Definition json_parse (s : str) : option jtree :=
  match pv (2 * length s + 4) 128 s with
  | Some (t, r) => match skip_ws r with [] => Some t | _ => None end
  | None => None
  end.

(** sorted, key-unique association lists (a model of HashMap<String, _>) *)
Section Assoc.
  Context {A : Type}.
  Fixpoint put (k : str) (v : A) (l : list (str * A)) : list (str * A) :=
    match l with
    | [] => [(k, v)]
    | (k', v') :: t =>
        match str_cmp k k' with
        | Lt => (k, v) :: l
        | Eq => (k, v) :: t
        | Gt => (k', v') :: put k v t
        end
    end.
  Fixpoint get (k : str) (l : list (str * A)) : option A :=
    match l with
    | [] => None
    | (k', v') :: t => if str_eqb k k' then Some v' else get k t
    end.
  Definition has (k : str) (l : list (str * A)) : bool :=
    match get k l with Some _ => true | None => false end.
  Fixpoint remove (k : str) (l : list (str * A)) : list (str * A) :=
    match l with
    | [] => []
    | (k', v') :: t => if str_eqb k k' then t else (k', v') :: remove k t
    end.
  Definition put_all (kvs : list (str * A)) (l : list (str * A)) : list (str * A) :=
    fold_left (fun acc kv => put (fst kv) (snd kv) acc) kvs l.
End Assoc.

(** [json_to_value] *)
Fixpoint json_to_value (t : jtree) : value :=
  match t with
  | JNull => VNone
  | JBool b => VBool b
  | JInt z => if in_i64 z then VInt z else from_float (f_of_Z z)
  | JFloat f => from_float f
  | JStr s => VStr s
  | JArr l => VArr (map json_to_value l)
  | JObj kvs =>
      VObj ((fix go (kvs : list (str * jtree)) (acc : list (str * value)) :=
               match kvs with
               | [] => acc
               | (k, v) :: r => go r (put k (json_to_value v) acc)
               end) kvs [])
  end.
