(** Facts about the transcribed query grammar (Grammar.v) and the static checks:
    what an accepted query consists of, that the documented static errors are
    rejected wherever they occur in a query, that nothing accepted is dropped,
    and that the documented synonyms / defaults / aliases read the same. *)
From Coq Require Import List ZArith NArith Bool Lia Arith Floats.SpecFloat.
From AG Require Import Str F64 Value Json Expr Ops Pipeline Filter Grammar.
From AG Require Generated.
From AG Require Roundtrip_proofs.
Import ListNotations.
Open Scope string_scope.
Open Scope list_scope.

(** ** map_opt_list *)
Lemma map_opt_list_none {A B} (f : A -> option B) (l : list A) (x : A) :
  In x l -> f x = None -> map_opt_list f l = None.
Proof.
  induction l as [|a l IH]; intros Hin Hf; [destruct Hin|].
  cbn [map_opt_list]. destruct Hin as [->|Hin].
  - now rewrite Hf.
  - rewrite (IH Hin Hf). now destruct (f a).
Qed.

Lemma map_opt_list_some {A B} (f : A -> option B) (l : list A) (ys : list B) :
  map_opt_list f l = Some ys -> Forall2 (fun x y => f x = Some y) l ys.
Proof.
  revert ys. induction l as [|a l IH]; intros ys H; cbn [map_opt_list] in H.
  - injection H as <-. constructor.
  - destruct (f a) eqn:Ea; [|discriminate]. destruct (map_opt_list f l) eqn:El; [|discriminate].
    injection H as <-. constructor; auto.
Qed.

Lemma Forall2_In_l {A B} (R : A -> B -> Prop) (l : list A) (l' : list B) (x : A) :
  Forall2 R l l' -> In x l -> exists y, In y l' /\ R x y.
Proof.
  induction 1 as [|a b l l' Hab H IH]; intros Hin; [destruct Hin|].
  destruct Hin as [->|Hin].
  - exists b. split; [now left|assumption].
  - destruct (IH Hin) as (y & Hy & Hr). exists y. split; [now right|assumption].
Qed.

(** ** the anatomy of an accepted query *)
Theorem accepts_anatomy (s : str) (f : filter) (st : list stage) :
  accepts s = Some (f, st) ->
  exists q sts,
    parse_query s = Some q /\ lq_filter q = f /\
    Forall2 (fun o l => check_lop true o = Some l) (lq_ops q) sts /\
    st = concat sts /\ forallb stage_ok st = true.
Proof.
  unfold accepts. intros H.
  destruct (parse_query s) as [q|] eqn:Eq; [|discriminate].
  destruct (map_opt_list (check_lop true) (lq_ops q)) as [sts|] eqn:Em; [|discriminate].
  destruct (forallb stage_ok (concat sts)) eqn:Ef; [|discriminate].
  injection H as <- <-. exists q, sts. repeat split; auto.
  now apply map_opt_list_some.
Qed.

(** a query is accepted only if the parser consumed all of it (up to trailing whitespace) *)
Theorem parse_query_whole_input (s : str) (q : lquery) :
  parse_query s = Some q ->
  exists r1 r2,
    parse_search s = POk (lq_filter q) r1 /\
    (match eat 124%N r1 with Some r' => parse_operators r' | None => POk [] r1 end) = POk (lq_ops q) r2 /\
    is_nil (trim r2) = true.
Proof.
  unfold parse_query. intros H.
  destruct (parse_search s) as [f r1| |] eqn:Es; try discriminate.
  destruct (match eat 124%N r1 with Some r' => parse_operators r' | None => POk [] r1 end) as [ops r2| |] eqn:Eo;
    try discriminate.
  destruct (is_nil (trim r2)) eqn:En; [|discriminate].
  injection H as <-. exists r1, r2. cbn [lq_filter lq_ops]. auto.
Qed.

(** one bad operator anywhere rejects the whole query *)
Theorem bad_op_rejects (s : str) (q : lquery) (o : lop) :
  parse_query s = Some q -> In o (lq_ops q) -> check_lop true o = None -> accepts s = None.
Proof.
  intros Hq Hin Hc. unfold accepts. rewrite Hq.
  now rewrite (map_opt_list_none (check_lop true) (lq_ops q) o Hin Hc).
Qed.

(** one statically wrong stage anywhere rejects the whole query *)
Theorem bad_stage_rejects (s : str) (q : lquery) (o : lop) (l : list stage) (x : stage) :
  parse_query s = Some q -> In o (lq_ops q) -> check_lop true o = Some l -> In x l ->
  stage_ok x = false -> accepts s = None.
Proof.
  intros Hq Hin Hc Hx Hbad. unfold accepts. rewrite Hq.
  destruct (map_opt_list (check_lop true) (lq_ops q)) as [sts|] eqn:Em; [|reflexivity].
  apply map_opt_list_some in Em.
  destruct (Forall2_In_l _ _ _ _ Em Hin) as (l' & Hl' & Hcl). rewrite Hc in Hcl. injection Hcl as <-.
  destruct (forallb stage_ok (concat sts)) eqn:Ef; [|reflexivity].
  rewrite forallb_forall in Ef. rewrite Ef in Hbad; [discriminate|].
  apply in_concat. eauto.
Qed.

(** ** the documented static errors, as operators / stages *)
Lemma bad_limit_rejected (c : option f64) :
  typecheck_limit c = None -> check_lop true (LInline (LLimit c)) = None.
Proof. intros H. cbn [check_lop check_lstage]. now rewrite H. Qed.

Lemma where_without_condition_rejected : check_lop true (LInline (LWhere None)) = None.
Proof. reflexivity. Qed.

Lemma timeslice_without_duration_rejected e n : check_lop true (LInline (LTimeslice e None n)) = None.
Proof. reflexivity. Qed.

Lemma count_distinct_arity_rejected fns keys n :
  In (n, LAggDistinctBad) fns -> check_lop true (LMultiAgg fns keys) = None.
Proof.
  intros Hin. cbn [check_lop].
  now rewrite (map_opt_list_none check_agg fns (n, LAggDistinctBad) Hin eq_refl).
Qed.

Lemma unknown_alias_rejected n :
  alias_template Generated.alias_table n = None -> check_lop true (LAliasOp n) = None.
Proof. intros H. cbn [check_lop]. now rewrite H. Qed.

Lemma parse_count_mismatch_rejected pat fields from nodrop noconv :
  count_stars pat <> length fields -> stage_ok (SParse pat fields from nodrop noconv) = false.
Proof.
  intros H. cbn [stage_ok]. apply Nat.eqb_neq in H. now rewrite H.
Qed.

Lemma where_constant_non_boolean_rejected (v : value) :
  (forall b, v <> VBool b) -> stage_ok (SWhere (EVal v)) = false.
Proof.
  intros H. cbn [stage_ok expr_ok]. destruct v; try reflexivity. now destruct (H b).
Qed.

Lemma unknown_function_rejected_in_where name args :
  is_known_func name = false -> stage_ok (SWhere (ECall name args)) = false.
Proof. intros H. cbn [stage_ok expr_ok]. now rewrite H. Qed.

Lemma split_empty_separator_rejected f o : stage_ok (SSplit [] f o) = false.
Proof. reflexivity. Qed.

Lemma limit_zero_stage_rejected : stage_ok (SLimit 0) = false.
Proof. reflexivity. Qed.

(** a percentile that parses lies strictly between 0 and 100 *)
Lemma pct_in_range (s r : str) (q : f64) (e : expr) (ps : str) :
  p_pct s = POk (LAgg (FPct q e), ps) r ->
  exists v : Z, (0 < v < 100)%Z /\ q = fdiv (f_of_Z v) (f_of_Z 100).
Proof.
  unfold p_pct. intros H.
  destruct (ptags Generated.pct_tags s) as [u r0| |]; cbn [pbind] in H; try discriminate.
  destruct (pdigit1 r0) as [d r1| |]; cbn [pbind] in H; try discriminate.
  destruct (negb (head_is 40 r1)); [discriminate|].
  destruct (req_single_arg r1) as [e' r2| |]; cbn [pbind] in H; try discriminate.
  cbv zeta in H.
  destruct ((0 <? Z.of_N (digits_val d 0))%Z && (Z.of_N (digits_val d 0) <? 100)%Z) eqn:Eb; [|discriminate].
  apply andb_true_iff in Eb. destruct Eb as [E1 E2]. apply Z.ltb_lt in E1, E2.
  injection H as Hq _ _ _. exists (Z.of_N (digits_val d 0)). split; [lia|]. now symmetry.
Qed.

(** ** nothing accepted is dropped *)
Lemma sep_list_more_nonempty {A} (sep : parser unit) (p : parser A) (fuel : nat) :
  forall (s r : str) (acc l : list A),
    acc <> [] -> sep_list_more fuel sep p s acc = POk l r -> l <> [].
Proof.
  induction fuel as [|f IH]; intros s r acc l Hacc H; cbn [sep_list_more] in H.
  - injection H as <- _. intros E. apply (f_equal (@rev A)) in E. rewrite rev_involutive in E. now apply Hacc.
  - assert (Hrev : rev acc <> []).
    { intros E. apply (f_equal (@rev A)) in E. rewrite rev_involutive in E. now apply Hacc. }
    destruct (sep s) as [u r0| |]; try discriminate.
    + destruct (p r0) as [x r1| |]; try discriminate.
      * eapply IH; [|exact H]. discriminate.
      * injection H as <- _. exact Hrev.
    + injection H as <- _. exact Hrev.
Qed.

Lemma sep_list1_nonempty {A} (sep : parser unit) (p : parser A) (s r : str) (l : list A) :
  sep_list1 sep p s = POk l r -> l <> [].
Proof.
  unfold sep_list1. intros H. destruct (p s) as [x r0| |]; cbn [pbind] in H; try discriminate.
  eapply sep_list_more_nonempty; [|exact H]. discriminate.
Qed.

Lemma check_lstage_nonempty (ls : lstage) (l : list stage) : check_lstage ls = Some l -> l <> [].
Proof.
  destruct ls as [s0|c|e [d|] n|[e|]| |n]; cbn [check_lstage]; intros H; try discriminate;
    try (injection H as <-; discriminate).
  destruct (typecheck_limit c); cbn [option_map] in H; [|discriminate]. injection H as <-. discriminate.
Qed.

(** the non-alias cases of [check_lop] (also the body of the alias splice) *)
Definition check_simple (o : lop) : option (list stage) :=
  match o with
  | LAliasOp _ => None
  | LInline ls => check_lstage ls
  | LMultiAgg fns keys => option_map (fun fs => [SAgg fs keys]) (map_opt_list check_agg fns)
  | LSort keys d => Some [SSort keys d]
  | LFieldExpr e n => Some [SLet e n]
  end.

Lemma check_simple_nonempty (o : lop) (l : list stage) : check_simple o = Some l -> l <> [].
Proof.
  destruct o as [ls|fns keys|keys d|e n|n]; cbn [check_simple]; intros H; try discriminate;
    try (injection H as <-; discriminate).
  - eapply check_lstage_nonempty, H.
  - destruct (map_opt_list check_agg fns); cbn [option_map] in H; [|discriminate]. injection H as <-. discriminate.
Qed.

(** every operator of an accepted query contributes at least one stage *)
Theorem check_lop_nonempty (o : lop) (l : list stage) :
  check_lop true o = Some l -> l <> [].
Proof.
  destruct o as [ls|fns keys|keys d|e n|n].
  1: exact (check_simple_nonempty (LInline ls) l).
  1: exact (check_simple_nonempty (LMultiAgg fns keys) l).
  1: exact (check_simple_nonempty (LSort keys d) l).
  1: exact (check_simple_nonempty (LFieldExpr e n) l).
  cbn [check_lop]. intros H.
  destruct (alias_template Generated.alias_table n) as [t|]; [|discriminate].
  destruct (parse_operators t) as [ops r| |] eqn:Ep; try discriminate.
  destruct (is_nil (trim r)); [|discriminate].
  change (option_map (@concat stage) (map_opt_list check_simple ops) = Some l) in H.
  destruct (map_opt_list check_simple ops) as [sts|] eqn:Em; [|discriminate].
  cbn [option_map] in H. injection H as <-.
  apply map_opt_list_some in Em.
  unfold parse_operators in Ep. apply sep_list1_nonempty in Ep.
  destruct Em as [|o' l' ops' sts' Ho' _]; [now destruct Ep|].
  cbn [concat]. intros E. apply app_eq_nil in E. destruct E as [E _]. subst l'.
  now apply check_simple_nonempty in Ho'.
Qed.

Lemma palt_garbage_not_fail {A} (p : parser A) (s : str) : (p <|> (fun _ => PFatal)) s <> PFail.
Proof. unfold palt. destruct (p s); discriminate. Qed.

(** a stage either parses or aborts the whole parse: the operator parser never
    backtracks out of a stage (so `a | <rubbish> | b` cannot skip the middle) *)
Theorem p_oper_never_backtracks (s : str) : p_oper s <> PFail.
Proof.
  unfold p_oper, p_garbage. cbv zeta.
  set (alts := pmap LInline inline_opers <|> p_multi_agg <|> p_sort <|> p_field_expr <|> p_alias <|> p_did_you_mean).
  pose proof (palt_garbage_not_fail alts (skip_spaces s)) as Hne.
  destruct ((alts <|> (fun _ => PFatal)) (skip_spaces s)) as [o r| |]; cbn [pbind]; [discriminate|now destruct Hne|discriminate].
Qed.

(** ** no parser of the operator grammar lengthens its input (so the fuel of [sep_list1] never runs out) *)
Module RP := Roundtrip_proofs.
Notation LB := Roundtrip_proofs.LB.

Section LBfacts.
Local Open Scope nat_scope.

Lemma LB_ms1 : LB ms1.
Proof. intros s a r H. eapply RP.ms1_len, H. Qed.
Lemma LB_ms0 : LB ms0.
Proof. intros s a r H. unfold ms0 in H. injection H as _ <-. apply RP.skip_spaces_len. Qed.
Lemma LB_end_of_query : LB end_of_query.
Proof.
  intros s a r H. unfold end_of_query in H. destruct (skip_spaces s) as [|c t].
  - injection H as _ <-. lia.
  - destruct (c =? 124)%N; [|discriminate]. injection H as _ <-. lia.
Qed.
Lemma LB_expect_pipe : LB expect_pipe.
Proof. apply RP.LB_pexpect, LB_end_of_query. Qed.
Lemma LB_popt {A} (p : parser A) : LB p -> LB (popt p).
Proof.
  intros Hp s a r H. unfold popt in H. destruct (p s) as [x r0| |] eqn:E; try discriminate.
  - injection H as _ <-. eapply Hp, E.
  - injection H as _ <-. lia.
Qed.
Lemma LB_opt_expr : LB opt_expr.
Proof.
  intros s a r H. unfold opt_expr in H. apply RP.LB_p_expr in H. pose proof (RP.skip_spaces_len s). lia.
Qed.
Lemma LB_req_expr : LB req_expr.
Proof. apply RP.LB_pexpect, LB_opt_expr. Qed.

Lemma sep_list_more_len {A} (sep : parser unit) (p : parser A) : LB sep -> LB p ->
  forall fuel s acc l r, sep_list_more fuel sep p s acc = POk l r -> length r <= length s.
Proof.
  intros Hs Hp. induction fuel as [|f IH]; intros s acc l r H; cbn [sep_list_more] in H.
  - injection H as _ <-. lia.
  - destruct (sep s) as [u r0| |] eqn:E1; try discriminate.
    + destruct (p r0) as [x r1| |] eqn:E2; try discriminate.
      * apply IH in H. apply Hs in E1. apply Hp in E2. lia.
      * injection H as _ <-. lia.
    + injection H as _ <-. lia.
Qed.
Lemma LB_sep_list1 {A} (sep : parser unit) (p : parser A) : LB sep -> LB p -> LB (sep_list1 sep p).
Proof.
  intros Hs Hp s l r H. unfold sep_list1 in H. destruct (p s) as [x r0| |] eqn:E; cbn [pbind] in H; try discriminate.
  apply (sep_list_more_len sep p Hs Hp) in H. apply Hp in E. lia.
Qed.

Lemma first_tag_len tags : forall s r, first_tag tags s = Some r -> length r <= length s.
Proof.
  induction tags as [|t tags IH]; intros s r H; cbn [first_tag] in H; [discriminate|].
  destruct (strip_prefix (lit t) s) eqn:E.
  - injection H as <-. now apply RP.strip_prefix_len in E.
  - now apply IH.
Qed.
Lemma LB_ptags tags : LB (ptags tags).
Proof.
  intros s a r H. unfold ptags in H. destruct (first_tag tags s) eqn:E; [|discriminate].
  injection H as _ <-. now apply first_tag_len in E.
Qed.
Lemma sort_mode_from_len table : forall s d r, sort_mode_from table s = Some (d, r) -> length r <= length s.
Proof.
  induction table as [|[c tags] table IH]; intros s d r H; cbn [sort_mode_from] in H; [discriminate|].
  destruct (first_tag tags s) eqn:E.
  - injection H as _ <-. now apply first_tag_len in E.
  - now apply IH in H.
Qed.
Lemma first_word_tag_len tags : forall s r, first_word_tag tags s = Some r -> length r <= length s.
Proof.
  induction tags as [|[t w] tags IH]; intros s r H; cbn [first_word_tag] in H; [discriminate|].
  destruct (strip_prefix (lit t) s) eqn:E.
  - destruct (w && negb _).
    + now apply IH.
    + injection H as <-. now apply RP.strip_prefix_len in E.
  - now apply IH.
Qed.
Lemma fields_mode_from_len table : forall s d r, fields_mode_from table s = POk d r -> length r <= length s.
Proof.
  induction table as [|[c tags] table IH]; intros s d r H; cbn [fields_mode_from] in H; [discriminate|].
  destruct (first_word_tag tags s) eqn:E.
  - injection H as _ <-. now apply first_word_tag_len in E.
  - now apply IH in H.
Qed.
Lemma LB_pkws tags : LB (pkws tags).
Proof.
  induction tags as [|t tags IH]; intros s a r H; cbn [pkws] in H; [discriminate|].
  destruct (pkw t s) as [u x| |] eqn:E.
  - injection H as _ <-. eapply RP.LB_pkw, E.
  - eapply IH, H.
  - eapply IH, H.
Qed.
Create HintDb lb.
#[local] Hint Resolve LB_ms1 LB_ms0 LB_end_of_query LB_expect_pipe LB_opt_expr LB_req_expr
  RP.LB_quoted_string RP.LB_ident RP.LB_duration RP.LB_pdigit1 RP.LB_ptag RP.LB_pkw LB_pkws : lb.

(** generic decomposition of a parser equation *)
Ltac crunch :=
  repeat match goal with
  | H : pbind ?x _ = POk _ _ |- _ =>
      let E := fresh "E" in destruct x eqn:E; cbn [pbind] in H; [|discriminate H|discriminate H]
  | H : POk _ _ = POk _ _ |- _ => inversion H; subst; clear H
  | H : (fun _ => _) _ = _ |- _ => progress cbv beta in H
  | H : Some _ = Some _ |- _ => inversion H; subst; clear H
  | H : (_, _) = (_, _) |- _ => inversion H; subst; clear H
  | H : match ?x with _ => _ end = POk _ _ |- _ => let E := fresh "E" in destruct x eqn:E; try discriminate H
  | H : match ?x with _ => _ end = Some _ |- _ => let E := fresh "E" in destruct x eqn:E; try discriminate H
  end.

Ltac sk :=
  repeat match goal with
  | |- context[length (skip_spaces ?x)] =>
      lazymatch goal with
      | _ : length (skip_spaces x) <= length x |- _ => fail
      | _ => pose proof (RP.skip_spaces_len x)
      end
  | _ : context[length (skip_spaces ?x)] |- _ =>
      lazymatch goal with
      | _ : length (skip_spaces x) <= length x |- _ => fail
      | _ => pose proof (RP.skip_spaces_len x)
      end
  end.

Ltac lbsolve := fail.
Ltac facts :=
  repeat match goal with
  | E : strip_prefix _ _ = Some _ |- _ => apply RP.strip_prefix_len in E
  | E : eat _ _ = Some _ |- _ => apply RP.eat_len in E
  | E : sort_mode_from _ _ = Some (_, _) |- _ => apply sort_mode_from_len in E
  | E : take_digits _ = (_, _) |- _ => apply RP.take_digits_len in E
  | E : take_while _ _ = (_, _) |- _ => apply RP.take_while_len in E
  | E : ?p ?s = POk ?a ?r |- _ =>
      let HH := fresh "HH" in
      assert (HH : LB p) by lbsolve; apply HH in E; clear HH
  end.

Ltac lbsolve ::=
  lazymatch goal with
  | |- LB (ptag _) => apply RP.LB_ptag
  | |- LB (pkw _) => apply RP.LB_pkw
  | |- LB (pkws _) => apply LB_pkws
  | |- LB (pexpect _) => apply RP.LB_pexpect; lbsolve
  | |- LB (popt _) => apply LB_popt; lbsolve
  | |- LB (pmap _ _) => apply RP.LB_pmap; lbsolve
  | |- LB (palt _ _) => apply RP.LB_palt; lbsolve
  | |- LB (sep_list1 _ _) => apply LB_sep_list1; lbsolve
  | |- LB (fun _ => _) =>
      repeat match goal with E : _ = POk _ _ |- _ => clear E end;
      let s := fresh "s" in let a := fresh "a" in let r := fresh "r" in let H := fresh "H" in
      intros s a r H; cbv beta in H; crunch; facts; sk; cbn [length] in *; lia
  | |- _ => first [ assumption | solve [auto 6 with lb nocore] ]
  end.

Ltac lb_unfold f := let s := fresh "s" in let a := fresh "a" in let r := fresh "r" in let H := fresh "H" in
    intros s a r H; unfold f in H; crunch; facts; sk; cbn [length] in *; try lia.


Lemma LB_req_quoted_string : LB req_quoted_string.
Proof. unfold req_quoted_string. lbsolve. Qed.
Lemma LB_req_ident : LB req_ident.
Proof. unfold req_ident. lbsolve. Qed.
#[local] Hint Resolve LB_req_quoted_string LB_req_ident : lb.

Lemma LB_single_arg : LB single_arg.
Proof. lb_unfold single_arg. Qed.
Lemma LB_req_single_arg : LB req_single_arg.
Proof. unfold req_single_arg. apply RP.LB_pexpect, LB_single_arg. Qed.
#[local] Hint Resolve LB_single_arg LB_req_single_arg : lb.

Lemma LB_oper_0_args n : LB (oper_0_args n).
Proof. lb_unfold oper_0_args. Qed.
Lemma LB_kw_expr k : LB (kw_expr k).
Proof. lb_unfold kw_expr. Qed.
Lemma LB_opt_ws1_then {A} (p : parser A) : LB p -> LB (opt_ws1_then p).
Proof. intros Hp. lb_unfold @opt_ws1_then. Qed.
Lemma LB_word_then {A} w (p : parser A) : LB p -> LB (word_then w p).
Proof. intros Hp. lb_unfold @word_then. Qed.
#[local] Hint Resolve LB_opt_ws1_then LB_word_then : lb.

#[local] Hint Resolve LB_oper_0_args LB_kw_expr : lb.

Lemma LB_fields_mode : LB fields_mode.
Proof. intros s a r H. eapply fields_mode_from_len, H. Qed.
#[local] Hint Resolve LB_ptags LB_fields_mode : lb.

Lemma LB_var_list : LB var_list.
Proof. unfold var_list. lbsolve. Qed.
Lemma LB_from_clause : LB from_clause.
Proof. lb_unfold from_clause. Qed.
#[local] Hint Resolve LB_var_list LB_from_clause : lb.

Lemma starts_no_case_len t s r : starts_no_case t s = Some r -> length r <= length s.
Proof.
  unfold starts_no_case. destruct (_ && _); [|discriminate]. intros [= <-]. rewrite skipn_length. lia.
Qed.

Lemma LB_double_text : LB double_text.
Proof.
  intros s a r H. unfold double_text in H.
  destruct (match s with
            | [] => ([], [])
            | c :: r => if ((c =? 45) || (c =? 43))%N then ([c], r) else ([], s)
            end) as [sgn r0] eqn:E0.
  assert (L0 : length r0 <= length s).
  { destruct s as [|c t]; [injection E0 as _ <-; lia|].
    destruct ((c =? 45) || (c =? 43))%N; injection E0 as _ <-; cbn [length]; lia. }
  clear E0.
  destruct (take_digits r0) as [ip r1] eqn:E1. apply RP.take_digits_len in E1.
  destruct (match eat 46%N r1 with
            | Some r' => let '(f, r'') := take_digits r' in (f, r'', true)
            | None => ([], r1, false)
            end) as [[fp r2] dot] eqn:E2.
  assert (L2 : length r2 <= length r1).
  { destruct (eat 46%N r1) as [r'|] eqn:E3.
    - destruct (take_digits r') as [f r''] eqn:E4. injection E2 as _ <- _.
      apply RP.eat_len in E3. apply RP.take_digits_len in E4. lia.
    - injection E2 as _ <- _. lia. }
  clear E2.
  destruct (is_nil ip && is_nil fp).
  - destruct (starts_no_case "nan" s) eqn:En.
    + injection H as _ <-. now apply starts_no_case_len in En.
    + destruct (starts_no_case "inf" s) eqn:Ei; [|discriminate].
      injection H as _ <-. now apply starts_no_case_len in Ei.
  - destruct r2 as [|c r3]; [injection H as _ <-; cbn [length] in *; lia|].
    destruct ((c =? 101) || (c =? 69))%N; [|injection H as _ <-; lia].
    destruct (match r3 with
              | [] => ([], [])
              | x :: r => if ((x =? 45) || (x =? 43))%N then ([x], r) else ([], r3)
              end) as [esgn r4] eqn:E5.
    assert (L4 : length r4 <= length r3).
    { destruct r3 as [|x t]; [injection E5 as _ <-; lia|].
      destruct ((x =? 45) || (x =? 43))%N; injection E5 as _ <-; cbn [length]; lia. }
    destruct (take_digits r4) as [ed r5] eqn:E6. apply RP.take_digits_len in E6.
    destruct (is_nil ed); injection H as _ <-; cbn [length] in *; lia.
Qed.
Lemma LB_pdouble : LB pdouble.
Proof.
  intros s a r H. unfold pdouble in H. destruct (double_text s) as [t r0| |] eqn:E; cbn [pbind] in H; try discriminate.
  destruct (parse_f64 t); [|discriminate]. injection H as _ <-. eapply LB_double_text, E.
Qed.
#[local] Hint Resolve LB_pdouble : lb.

Lemma LB_p_json n mk : LB (p_json n mk).
Proof. lb_unfold p_json. Qed.
Lemma LB_p_limit : LB p_limit.
Proof. pose proof (LB_opt_ws1_then pdouble LB_pdouble). lb_unfold p_limit. Qed.
Lemma LB_p_fields : LB p_fields.
Proof. lb_unfold p_fields. Qed.
Lemma LB_p_split : LB p_split.
Proof.
  pose proof (LB_word_then "on" req_quoted_string LB_req_quoted_string).
  pose proof (LB_word_then "as" req_expr LB_req_expr).
  lb_unfold p_split.
Qed.
Lemma LB_p_timeslice : LB p_timeslice.
Proof.
  pose proof (LB_opt_ws1_then duration RP.LB_duration).
  pose proof (LB_word_then "as" ident RP.LB_ident).
  lb_unfold p_timeslice.
Qed.
Lemma LB_p_total : LB p_total.
Proof.
  pose proof (LB_word_then "as" req_ident LB_req_ident).
  lb_unfold p_total.
Qed.
Lemma LB_p_where : LB p_where.
Proof. lb_unfold p_where. Qed.
Lemma LB_p_parse : LB p_parse.
Proof.
  pose proof (LB_opt_ws1_then from_clause LB_from_clause).
  pose proof (LB_opt_ws1_then (ptag "nodrop") (RP.LB_ptag _)).
  pose proof (LB_opt_ws1_then (ptag "noconvert") (RP.LB_ptag _)).
  lb_unfold p_parse.
Qed.
Lemma LB_inline_opers : LB inline_opers.
Proof.
  unfold inline_opers. repeat apply RP.LB_palt.
  - apply LB_p_parse. 
  - apply LB_p_json.
  - apply LB_p_json.
  - apply LB_p_fields.
  - apply LB_p_limit.
  - apply LB_p_split.
  - apply LB_p_timeslice.
  - apply LB_p_total.
  - apply LB_p_where.
Qed.

Lemma LB_p_arg_list : LB p_arg_list.
Proof. apply RP.LB_p_args, LB_opt_expr. Qed.
#[local] Hint Resolve LB_p_arg_list : lb.

Lemma LB_p_pct : LB p_pct.
Proof. lb_unfold p_pct. Qed.
#[local] Hint Resolve LB_p_pct : lb.

Lemma LB_p_aggfn : LB p_aggfn.
Proof. unfold p_aggfn. lbsolve. Qed.
#[local] Hint Resolve LB_p_aggfn : lb.

Lemma LB_p_agg_oper : LB p_agg_oper.
Proof. lb_unfold p_agg_oper. Qed.
Lemma LB_sourced_expr : LB sourced_expr.
Proof. lb_unfold sourced_expr. Qed.
Lemma LB_comma_ws : LB comma_ws.
Proof. lb_unfold comma_ws. Qed.
#[local] Hint Resolve LB_p_agg_oper LB_sourced_expr LB_comma_ws : lb.
Lemma LB_sourced_expr_list : LB sourced_expr_list.
Proof. unfold sourced_expr_list. lbsolve. Qed.
#[local] Hint Resolve LB_sourced_expr_list : lb.

Lemma LB_p_multi_agg : LB p_multi_agg.
Proof. lb_unfold p_multi_agg. Qed.
Lemma LB_p_sort : LB p_sort.
Proof. lb_unfold p_sort. Qed.
Lemma LB_p_field_expr : LB p_field_expr.
Proof. lb_unfold p_field_expr. Qed.
Lemma LB_p_alias : LB p_alias.
Proof. lb_unfold p_alias. Qed.
Lemma LB_p_did_you_mean : LB p_did_you_mean.
Proof. lb_unfold p_did_you_mean. Qed.
Lemma LB_p_garbage : LB p_garbage.
Proof. intros s a r H. discriminate. Qed.
#[local] Hint Resolve LB_inline_opers LB_p_multi_agg LB_p_sort LB_p_field_expr LB_p_alias LB_p_did_you_mean LB_p_garbage : lb.

Lemma LB_p_oper : LB p_oper.
Proof.
  intros s a r H. unfold p_oper in H. cbv zeta in H.
  crunch. facts. sk. lia.
Qed.

End LBfacts.

Lemma strip_pipe_none (s : str) : strip_prefix (lit "|") s = None -> head_is 124%N s = false.
Proof.
  destruct s as [|c t]; [reflexivity|]. cbn [lit strip_prefix head_is].
  change (Ascii.N_of_ascii _) with 124%N. rewrite (N.eqb_sym c).
  destruct (124 =? c)%N; [discriminate|reflexivity].
Qed.

Lemma sep_list_more_no_pipe (fuel : nat) : forall (s r : str) (acc l : list lop),
  (length s <= fuel)%nat ->
  sep_list_more fuel (ptag "|") p_oper s acc = POk l r -> head_is 124%N r = false.
Proof.
  induction fuel as [|f IH]; intros s r acc l Hlen H; cbn [sep_list_more] in H.
  - injection H as _ <-. destruct s; [reflexivity|cbn in Hlen; lia].
  - unfold ptag at 1 in H. destruct (strip_prefix (lit "|") s) as [r0|] eqn:E.
    + destruct (p_oper r0) as [x r1| |] eqn:Eo; try discriminate.
      * apply IH in H; [exact H|]. apply LB_p_oper in Eo.
        apply Roundtrip_proofs.strip_prefix_inv in E. subst s. cbn in Hlen. lia.
      * exfalso. exact (p_oper_never_backtracks r0 Eo).
    + injection H as _ <-. now apply strip_pipe_none.
Qed.

(** after the stages the parser has consumed every `|` *)
Theorem parse_operators_leaves_no_pipe (s r : str) (ops : list lop) :
  parse_operators s = POk ops r -> head_is 124%N r = false.
Proof.
  unfold parse_operators, sep_list1. intros H.
  destruct (p_oper s) as [x r0| |]; cbn [pbind] in H; try discriminate.
  eapply sep_list_more_no_pipe; [|exact H]. apply le_n.
Qed.

(** ** non-vacuity and concrete instances (closed computations) *)
Example ex_accept : accepts (lit "* | json | count by k | sort by _count desc | limit 3") <> None.
Proof. vm_compute. discriminate. Qed.
Example ex_static_errors :
  map (fun q => accepts (lit q))
    ["* | limit 0"; "* | limit 0.5"; "* | limit 1.5"; "* | parse ""* *"" as a";
     "* | parse ""*"" from a as x from b"; "* | json | where 5"; "* | json | where ""x""";
     "* | json | where nosuchfn(a)"; "* | json | nosuchop"; "* | json | p0(a)"; "* | json | p100(a)";
     "* | json | sum()"; "* | json | count_distinct()"; "* | json | count_distinct(a, b)"; "* | json | timeslice(t)";
     "* | json | where"; "* | json | split(a) on """""; "* | json | count |"; "* | json | limit 3 extra";
     "* | json | count by"; "* | json | fields"; "* | json | a +  as x"; "* | json | (a as x"]
  = repeat None 23.
Proof. vm_compute. reflexivity. Qed.
Example ex_spellings :
  let same a b := match accepts (lit a), accepts (lit b) with Some x, Some y => True | _, _ => False end in
  same "* | json | count by k | limit" "* | json | count by k | limit 10".
Proof. vm_compute. exact I. Qed.

Print Assumptions accepts_anatomy.
Print Assumptions bad_op_rejects.
Print Assumptions parse_operators_leaves_no_pipe.
