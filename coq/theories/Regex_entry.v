(** S-expression entry point of the [parse regex] model:
    [(rx "pattern" "text")] answers [(unsupported)], [(unnamed n)], [(fuel)],
    [(nomatch)] or [(match ("name" (some "text")) ("name2" none) ...)].
    The text is taken as is (the harness trims it as [Parse::matches] does);
    [(rxline "pattern" "line")] trims first. *)
(* the head symbols handled here all start with "rx" *)
From Coq Require Import List ZArith NArith Bool.
From AG Require Import Str Sexp Regex.
Import ListNotations.
Open Scope string_scope.
Open Scope list_scope.

Definition enc_rx_binding (b : str * option str) : sexp :=
  SList [sstr (fst b);
         match snd b with
         | Some s => SList [sym "some"; sstr s]
         | None => sym "none"
         end].

Definition enc_rx (r : rx_result) : sexp :=
  match r with
  | RxUnsupported => SList [sym "unsupported"]
  | RxFuel => SList [sym "fuel"]
  | RxNoMatch => SList [sym "nomatch"]
  | RxMatch l => SList (sym "match" :: map enc_rx_binding l)
  end.

(** lang.rs rejects a pattern with unnamed capture groups at parse time *)
Definition rx_run (trimmed : bool) (pat text : str) : sexp :=
  match parse_regex pat with
  | Some r =>
      match unnamed_count r with
      | O => enc_rx (if trimmed then parse_regex_captures pat text else parse_regex_line pat text)
      | n => SList [sym "unnamed"; sint (Z.of_nat n)]
      end
  | None => enc_rx RxUnsupported
  end.

(** [(rxspan "pattern" "text")]: the overall span of the first match,
    [(span s e)] in characters (for triage in the harness) *)
Definition rx_span (pat text : str) : sexp :=
  if negb (is_ascii_str text) then enc_rx RxUnsupported else
  match parse_regex pat with
  | Some r =>
      match search (default_fuel r text) text r with
      | SFuel => enc_rx RxFuel
      | SNone => enc_rx RxNoMatch
      | SFound s e _ => SList [sym "span"; sint (Z.of_nat s); sint (Z.of_nat e)]
      end
  | None => enc_rx RxUnsupported
  end.

Definition rx_case (c : sexp) : sexp :=
  match c with
  | SList [h; p; t] =>
      match atom_str p, atom_str t with
      | Some p, Some t =>
          if is_sym h "rx" then rx_run true p t
          else if is_sym h "rxline" then rx_run false p t
          else if is_sym h "rxspan" then rx_span p t
          else sym "bad-case"
      | _, _ => sym "bad-case"
      end
  | _ => sym "bad-case"
  end.
