(** A model of the [regex] crate (v1.11) for the operator
    [parse regex "<pattern>"] (src/operator/parse.rs, [Parse::matches]):
    a subset of the pattern syntax, a total parser, and a backtracking
    matcher with explicit fuel that implements the crate's leftmost-first
    semantics with capture spans.

    Restriction: ASCII only.  When the pattern or the text contains a code
    point above 127 the entry point answers [RxUnsupported] (the classes
    [\d \w \s] are Unicode-aware in the crate). *)
From Coq Require Import List NArith Bool Arith Lia.
From AG Require Import Str.
Import ListNotations.
Open Scope N_scope.

(** * Syntax *)

(** [RRep greedy min max r]: [r{min,max}] ([max = None]: unbounded);
    [*] is [RRep _ 0 None], [+] is [RRep _ 1 None], [?] is [RRep _ 0 (Some 1)].
    [RLoop] is internal to the matcher (the back edge of an unbounded
    repetition, see [bt]); the parser never produces it.
    Non-capturing groups leave no trace in the tree. *)
Inductive regex : Type :=
| REmpty
| RChar (c : N)
| RAny                                   (* [.]: any character but LF *)
| RSet (neg : bool) (ranges : list (N * N))
| RBol                                   (* [^], start of the text *)
| REol                                   (* [$], end of the text *)
| RCat (a b : regex)
| RAlt (a b : regex)
| RGroup (idx : nat) (name : option str) (a : regex)
| RRep (greedy : bool) (min : nat) (max : option nat) (a : regex)
| RLoop (greedy : bool) (a : regex).

Fixpoint in_ranges (rs : list (N * N)) (c : N) : bool :=
  match rs with
  | [] => false
  | (lo, hi) :: rest => ((lo <=? c) && (c <=? hi)) || in_ranges rest c
  end.

Definition set_matches (neg : bool) (rs : list (N * N)) (c : N) : bool :=
  xorb neg (in_ranges rs c).

(** the Perl classes, on ASCII *)
Definition cls_d : list (N * N) := [(48, 57)].
Definition cls_w : list (N * N) := [(48, 57); (65, 90); (95, 95); (97, 122)].
Definition cls_s : list (N * N) := [(9, 13); (32, 32)].
Definition cls_D : list (N * N) := [(0, 47); (58, 127)].
Definition cls_W : list (N * N) := [(0, 47); (58, 64); (91, 94); (96, 96); (123, 127)].
Definition cls_S : list (N * N) := [(0, 8); (14, 31); (33, 127)].

(** groups (index, name) in order of their opening parenthesis *)
Fixpoint regex_groups (r : regex) : list (nat * option str) :=
  match r with
  | RCat a b | RAlt a b => regex_groups a ++ regex_groups b
  | RGroup i nm a => (i, nm) :: regex_groups a
  | RRep _ _ _ a | RLoop _ a => regex_groups a
  | _ => []
  end.

Definition regex_names (r : regex) : list (option str) := map snd (regex_groups r).

Fixpoint named_only {A} (l : list (A * option str)) : list (A * str) :=
  match l with
  | [] => []
  | (x, Some n) :: rest => (x, n) :: named_only rest
  | (_, None) :: rest => named_only rest
  end.

(** the named groups, in index order: the columns [parse regex] binds *)
Definition regex_named (r : regex) : list str := map snd (named_only (regex_groups r)).

Definition unnamed_count (r : regex) : nat :=
  length (filter (fun o => match o with None => true | Some _ => false end) (regex_names r)).

(** * Parser *)

Definition is_alpha_ (c : N) : bool :=
  is_ascii_upper c || is_ascii_lower c || (c =? 95).
Definition is_word (c : N) : bool := is_alpha_ c || is_digit c.

(** ASCII punctuation that may be escaped to stand for itself
    (regex-syntax [is_escapeable_character]: ASCII, not alphanumeric,
    not [_], not [<] [>]); blanks are left out of the model. *)
Definition is_escapable (c : N) : bool :=
  (((33 <=? c) && (c <=? 47)) || ((58 <=? c) && (c <=? 64))
   || ((91 <=? c) && (c <=? 96)) || ((123 <=? c) && (c <=? 126)))
  && negb (c =? 95) && negb (c =? 60) && negb (c =? 62).

(** [\n \t \r] *)
Definition escape_ctrl (c : N) : option N :=
  if c =? 110 then Some 10 else if c =? 116 then Some 9
  else if c =? 114 then Some 13 else None.

Definition escape_class (c : N) : option (list (N * N)) :=
  if c =? 100 then Some cls_d else if c =? 119 then Some cls_w
  else if c =? 115 then Some cls_s else if c =? 68 then Some cls_D
  else if c =? 87 then Some cls_W else if c =? 83 then Some cls_S else None.

(** a group name: [[A-Za-z_][A-Za-z0-9_]*] followed by [>] *)
Fixpoint p_name_rest (s : str) (acc : str) : option (str * str) :=
  match s with
  | c :: r => if c =? 62 then Some (rev acc, r)
              else if is_word c then p_name_rest r (c :: acc) else None
  | [] => None
  end.
Definition p_name (s : str) : option (str * str) :=
  match s with
  | c :: r => if is_alpha_ c then p_name_rest r [c] else None
  | [] => None
  end.

(** one item of a bracketed class, after which a range may follow:
    [inl c] a single character, [inr rs] a Perl class *)
Definition p_class_item (s : str) : option ((N + list (N * N)) * str) :=
  match s with
  | c :: r =>
      if c =? 92 then
        match r with
        | e :: r' =>
            match escape_class e with
            | Some rs => Some (inr rs, r')
            | None =>
                match escape_ctrl e with
                | Some x => Some (inl x, r')
                | None => if is_escapable e then Some (inl e, r') else None
                end
            end
        | [] => None
        end
      else if (c =? 91) || (c =? 93) || (c =? 38) || (c =? 126) || (c =? 45) then None
      else Some (inl c, r)
  | [] => None
  end.

(** the items of a class up to the closing bracket.  A dash is literal only
    right before the closing bracket (or first, handled by [p_class]). *)
Fixpoint p_class_items (fuel : nat) (s : str) (acc : list (N * N)) : option (list (N * N) * str) :=
  match fuel with
  | O => None
  | S f =>
      match s with
      | [] => None
      | c :: r =>
          if c =? 93 then Some (rev acc, r)
          else if c =? 45 then
            match r with
            | d :: r' => if d =? 93 then Some (rev ((45, 45) :: acc), r') else None
            | [] => None
            end
          else
            match p_class_item s with
            | None => None
            | Some (inr rs, r1) => p_class_items f r1 (rev rs ++ acc)
            | Some (inl lo, r1) =>
                match r1 with
                | d :: r2 =>
                    if (d =? 45) && negb (head_is 93 r2) then
                      match p_class_item r2 with
                      | Some (inl hi, r3) =>
                          if lo <=? hi then p_class_items f r3 ((lo, hi) :: acc) else None
                      | _ => None
                      end
                    else p_class_items f r1 ((lo, lo) :: acc)
                | [] => None
                end
            end
      end
  end.

(** after the opening bracket *)
Definition p_class (s : str) : option (regex * str) :=
  let '(neg, s1) := match s with
                    | c :: r => if c =? 94 then (true, r) else (false, s)
                    | [] => (false, s)
                    end in
  let '(acc, s2) := match s1 with
                    | c :: r => if c =? 93 then ([(93, 93)], r)
                                else if (c =? 45) && negb (head_is 45 r) then ([(45, 45)], r)
                                else ([], s1)
                    | [] => ([], s1)
                    end in
  match s2 with
  | [] => None
  | _ => match p_class_items (S (length s2)) s2 acc with
         | Some ([], _) => None
         | Some (rs, rest) => Some (RSet neg rs, rest)
         | None => None
         end
  end.

Fixpoint p_digits (s : str) (acc : str) : str * str :=
  match s with
  | c :: r => if is_digit c then p_digits r (c :: acc) else (rev acc, s)
  | [] => (rev acc, s)
  end.

Definition max_count : N := 64.

(** a counted repetition after the opening brace: [(min, max, rest)].
    [x{0}] and [x{0,0}] are left out: the crate's translator replaces such a
    repetition by the empty expression, and the capture groups inside [x]
    disappear from [capture_names] (agrind then binds no column for them, or
    even reports "unnamed captures" for a pattern that has none). *)
Definition p_counted (s : str) : option (nat * option nat * str) :=
  let '(d1, r1) := p_digits s [] in
  if is_nil d1 || (3 <? N.of_nat (length d1)) then None else
  let m := digits_val d1 0 in
  if max_count <? m then None else
  match r1 with
  | c :: r2 =>
      if c =? 125 then (if m =? 0 then None else Some (N.to_nat m, Some (N.to_nat m), r2))
      else if c =? 44 then
        let '(d2, r3) := p_digits r2 [] in
        match r3 with
        | e :: r4 =>
            if e =? 125 then
              if is_nil d2 then Some (N.to_nat m, None, r4)
              else if 3 <? N.of_nat (length d2) then None else
                let n := digits_val d2 0 in
                if (max_count <? n) || (n <? m) || (n =? 0) then None
                else Some (N.to_nat m, Some (N.to_nat n), r4)
            else None
        | [] => None
        end
      else None
  | [] => None
  end.

(** the quantifiers stacked after an atom ([a*?], [a{2}+], ...) *)
Fixpoint p_quants (fuel : nat) (a : regex) (s : str) : option (regex * str) :=
  match fuel with
  | O => None
  | S f =>
      match s with
      | c :: r =>
          let lazy_of (r : str) : bool * str :=
            match r with
            | q :: r' => if q =? 63 then (false, r') else (true, r)
            | [] => (true, r)
            end in
          if c =? 42 then let '(g, r') := lazy_of r in p_quants f (RRep g 0 None a) r'
          else if c =? 43 then let '(g, r') := lazy_of r in p_quants f (RRep g 1 None a) r'
          else if c =? 63 then let '(g, r') := lazy_of r in p_quants f (RRep g 0 (Some 1%nat) a) r'
          else if c =? 123 then
            match p_counted r with
            | Some (m, mx, r1) => let '(g, r') := lazy_of r1 in p_quants f (RRep g m mx a) r'
            | None => None
            end
          else Some (a, s)
      | [] => Some (a, s)
      end
  end.

Definition mk_cat (a b : regex) : regex :=
  match b with REmpty => a | _ => RCat a b end.

(** [p_alt f s n]: an alternation, up to a closing parenthesis or the end;
    [n] is the index of the next capturing group.  Mode [0] = alternation,
    [1] = concatenation, [2] = atom. *)
Fixpoint p_re (fuel : nat) (mode : nat) (s : str) (n : nat) {struct fuel}
  : option (regex * str * nat) :=
  match fuel with
  | O => None
  | S f =>
      match mode with
      | O =>
          match p_re f 1%nat s n with
          | Some (a, rest, n1) =>
              match rest with
              | c :: rest' =>
                  if c =? 124 then
                    match p_re f 0%nat rest' n1 with
                    | Some (b, rest2, n2) => Some (RAlt a b, rest2, n2)
                    | None => None
                    end
                  else Some (a, rest, n1)
              | [] => Some (a, rest, n1)
              end
          | None => None
          end
      | S O =>
          match s with
          | [] => Some (REmpty, s, n)
          | c :: _ =>
              if (c =? 124) || (c =? 41) then Some (REmpty, s, n)
              else
                match p_re f 2%nat s n with
                | Some (a, r1, n1) =>
                    match p_quants (S (length r1)) a r1 with
                    | Some (a', r2) =>
                        match p_re f 1%nat r2 n1 with
                        | Some (b, r3, n2) => Some (mk_cat a' b, r3, n2)
                        | None => None
                        end
                    | None => None
                    end
                | None => None
                end
          end
      | _ =>
          match s with
          | [] => None
          | c :: r =>
              if c =? 40 then
                let close (res : option (regex * str * nat)) (wrap : regex -> regex) :=
                  match res with
                  | Some (a, r1, n1) =>
                      match r1 with
                      | d :: r2 => if d =? 41 then Some (wrap a, r2, n1) else None
                      | [] => None
                      end
                  | None => None
                  end in
                match r with
                | q :: r1 =>
                    if q =? 63 then
                      match r1 with
                      | x :: r2 =>
                          if x =? 58 then close (p_re f 0%nat r2 n) (fun a => a)
                          else
                            let named (r3 : str) :=
                              match p_name r3 with
                              | Some (nm, r4) =>
                                  close (p_re f 0%nat r4 (S n)) (fun a => RGroup n (Some nm) a)
                              | None => None
                              end in
                            if x =? 60 then named r2
                            else if x =? 80 then
                              match r2 with
                              | y :: r3 => if y =? 60 then named r3 else None
                              | [] => None
                              end
                            else None
                      | [] => None
                      end
                    else close (p_re f 0%nat r (S n)) (fun a => RGroup n None a)
                | [] => None
                end
              else if c =? 91 then
                match p_class r with
                | Some (a, r1) => Some (a, r1, n)
                | None => None
                end
              else if c =? 46 then Some (RAny, r, n)
              else if c =? 94 then Some (RBol, r, n)
              else if c =? 36 then Some (REol, r, n)
              else if c =? 92 then
                match r with
                | e :: r1 =>
                    match escape_class e with
                    | Some rs => Some (RSet false rs, r1, n)
                    | None =>
                        match escape_ctrl e with
                        | Some x => Some (RChar x, r1, n)
                        | None => if is_escapable e then Some (RChar e, r1, n) else None
                        end
                    end
                | [] => None
                end
              else if (c =? 42) || (c =? 43) || (c =? 63) || (c =? 123)
                      || (c =? 41) || (c =? 124) then None   (* a lone ] or } is a literal *)
              else Some (RChar c, r, n)
          end
      end
  end.

Fixpoint nodup_names (l : list str) : bool :=
  match l with
  | [] => true
  | x :: r => negb (existsb (str_eqb x) r) && nodup_names r
  end.

Definition is_ascii_str (s : str) : bool := forallb (fun c => c <? 128) s.

(** can match the empty string (syntactic over-approximation) *)
Fixpoint nullable (r : regex) : bool :=
  match r with
  | REmpty | RBol | REol => true
  | RChar _ | RAny | RSet _ _ => false
  | RCat a b => nullable a && nullable b
  | RAlt a b => nullable a || nullable b
  | RGroup _ _ a => nullable a
  | RRep _ m _ a => Nat.eqb m 0 || nullable a
  | RLoop _ _ => true
  end.

(** no unbounded repetition of an expression that can match the empty
    string.  The crate's engines never take one automaton state twice at the
    same position; under such a repetition that rule reaches inside the body
    ([(?:(x*?){2,})?] on [xx]: the second iteration cannot restart where the
    lazy loop of the first one already stands) and a faithful model would have
    to follow the compiled automaton state by state.  Left out. *)
Fixpoint loops_ok (r : regex) : bool :=
  match r with
  | RCat a b | RAlt a b => loops_ok a && loops_ok b
  | RGroup _ _ a => loops_ok a
  | RRep _ _ mx a =>
      loops_ok a && match mx with None => negb (nullable a) | Some _ => true end
  | RLoop _ _ => false
  | _ => true
  end.

(** the groups are numbered 1, 2, ... in order of their opening parenthesis *)
Fixpoint idx_seq (l : list nat) (n : nat) : bool :=
  match l with
  | [] => true
  | x :: r => Nat.eqb x n && idx_seq r (S n)
  end.
Definition groups_ok (r : regex) : bool := idx_seq (map fst (regex_groups r)) 1.

(** [None]: outside the modelled subset (or not a regex at all) *)
Definition parse_regex (s : str) : option regex :=
  if negb (is_ascii_str s) then None else
  match p_re (4 * length s + 8) 0%nat s 1%nat with
  | Some (r, [], _) =>
      if nodup_names (regex_named r) && loops_ok r && groups_ok r then Some r else None
  | _ => None
  end.

(** * Matcher *)

Definition caps := list (nat * (nat * nat)).

Inductive bres : Type :=
| BFuel
| BFail
| BOk (e : nat) (c : caps).

Definition orelse (x : bres) (y : unit -> bres) : bres :=
  match x with
  | BFail => y tt
  | _ => x
  end.

(** preference order of a two-way split *)
Definition split (greedy : bool) (body : unit -> bres) (exit : unit -> bres) : bres :=
  if greedy then orelse (body tt) exit else orelse (exit tt) body.

Definition dec_max (mx : option nat) : option nat :=
  match mx with Some n => Some (pred n) | None => None end.

(** [bt fuel t r i c k]: match [r] in [t] from position [i] with the captures
    [c] so far, then continue with [k]; alternatives in priority order
    (leftmost-first).

    Unbounded repetition follows the crate's compiler (regex-automata,
    [thompson::Compiler::c_at_least]): [x{n,}] is [n-1] copies of [x], one more
    copy, then a split that jumps back to the start of that last copy or
    leaves; [x*] is [(x+)?].  The crate's engines never take the same state
    twice at one position, hence:
    - a first iteration matching the empty string reaches the split, whose
      back edge is dead (the start of the copy was taken at this position),
      and leaves the loop, keeping its captures;
    - a later iteration matching the empty string comes back to the split at
      a position where the split was already taken: the thread dies, and the
      loop is left from the earlier visit, without the captures of the empty
      iteration.
    [RLoop g a] is that split. *)
Fixpoint bt (fuel : nat) (t : str) (r : regex) (i : nat) (c : caps)
            (k : nat -> caps -> bres) {struct fuel} : bres :=
  match fuel with
  | O => BFuel
  | S f =>
      match r with
      | REmpty => k i c
      | RChar x =>
          match nth_error t i with
          | Some y => if y =? x then k (S i) c else BFail
          | None => BFail
          end
      | RAny =>
          match nth_error t i with
          | Some y => if y =? 10 then BFail else k (S i) c
          | None => BFail
          end
      | RSet neg rs =>
          match nth_error t i with
          | Some y => if set_matches neg rs y then k (S i) c else BFail
          | None => BFail
          end
      | RBol => if Nat.eqb i 0 then k i c else BFail
      | REol => if Nat.eqb i (length t) then k i c else BFail
      | RCat a b => bt f t a i c (fun j c' => bt f t b j c' k)
      | RAlt a b => orelse (bt f t a i c k) (fun _ => bt f t b i c k)
      | RGroup idx _ a => bt f t a i c (fun j c' => k j ((idx, (i, j)) :: c'))
      | RLoop g a =>
          split g
            (fun _ => bt f t a i c
                        (fun j c' => if Nat.eqb j i then BFail else bt f t (RLoop g a) j c' k))
            (fun _ => k i c)
      | RRep g m mx a =>
          let plus (_ : unit) :=
            bt f t a i c (fun j c' => if Nat.eqb j i then k j c' else bt f t (RLoop g a) j c' k) in
          match m, mx with
          | S O, None => plus tt
          | S m', None => bt f t (RCat a (RRep g m' None a)) i c k
          | S _, Some O => BFail                      (* min > max: not a regex *)
          | S m', Some (S n) => bt f t (RCat a (RRep g m' (Some n) a)) i c k
          | O, None => split g plus (fun _ => k i c)
          | O, Some O => k i c
          | O, Some (S n) =>
              split g
                (fun _ => bt f t a i c (fun j c' => bt f t (RRep g 0 (Some n) a) j c' k))
                (fun _ => k i c)
          end
      end
  end.

(** result of a search: overall span and captures *)
Inductive sres : Type :=
| SFuel
| SNone
| SFound (s e : nat) (c : caps).

(** leftmost start position first; [n] counts the start positions left *)
Fixpoint search_from (fuel : nat) (t : str) (r : regex) (s n : nat) : sres :=
  match bt fuel t r s [] (fun e c => BOk e c) with
  | BOk e c => SFound s e c
  | BFuel => SFuel
  | BFail =>
      match n with
      | O => SNone
      | S n' => search_from fuel t r (S s) n'
      end
  end.

Definition search (fuel : nat) (t : str) (r : regex) : sres :=
  search_from fuel t r 0 (length t).

Fixpoint cap_lookup (c : caps) (idx : nat) : option (nat * nat) :=
  match c with
  | [] => None
  | (j, sp) :: rest => if Nat.eqb j idx then Some sp else cap_lookup rest idx
  end.

Definition slice (t : str) (s e : nat) : str := firstn (e - s) (skipn s t).

(** the spans of all groups, in index order *)
Definition group_spans (r : regex) (c : caps) : list (option (nat * nat)) :=
  map (fun g => cap_lookup c (fst g)) (regex_groups r).

(** a depth of recursion that suffices ([no_fuel] in Regex_proofs.v): [n] is
    the number of characters left; a level of [bt] either descends in the
    pattern, unrolls one copy of a counted repetition, or takes a back edge
    after at least one character *)
Fixpoint fuel_need (r : regex) (n : nat) : nat :=
  match r with
  | RCat a b | RAlt a b => S (Nat.max (fuel_need a n) (fuel_need b n))
  | RGroup _ _ a => S (fuel_need a n)
  | RLoop _ a => S (n + fuel_need a n)
  | RRep _ m mx a =>
      2 * (m + match mx with Some x => x | None => 0 end) + n + fuel_need a n + 3
  | _ => 1
  end%nat.

Definition default_fuel (r : regex) (t : str) : nat := fuel_need r (length t).

Inductive rx_result : Type :=
| RxUnsupported
| RxFuel
| RxNoMatch
| RxMatch (l : list (str * option str)).

Definition bind_named (r : regex) (t : str) (c : caps) : list (str * option str) :=
  map (fun g => (snd g, option_map (fun sp => slice t (fst sp) (snd sp)) (cap_lookup c (fst g))))
      (named_only (regex_groups r)).

Definition regex_captures (fuel : nat) (r : regex) (t : str) : rx_result :=
  match search fuel t r with
  | SFuel => RxFuel
  | SNone => RxNoMatch
  | SFound _ _ c => RxMatch (bind_named r t c)
  end.

(** the named captures of the first match of [pat] in [text] *)
Definition parse_regex_captures (pat text : str) : rx_result :=
  if negb (is_ascii_str text) then RxUnsupported else
  match parse_regex pat with
  | None => RxUnsupported
  | Some r => regex_captures (default_fuel r text) r text
  end.

(** [Parse::matches] trims its input first *)
Definition parse_regex_line (pat line : str) : rx_result :=
  parse_regex_captures pat (trim line).
