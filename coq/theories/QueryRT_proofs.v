(** Every spelling of every well-formed query compiles to exactly the filter and the stages it was
    printed from: nothing is lost, added, reordered or misread.  (Assembly over the per-stage
    round trips, which are a hypothesis of the section and discharged in QueryRoundtrip.v; the continuation
    handed to a stage is empty or a single pipe, since a printed stage never starts with `|`.) *)
From Coq Require Import List ZArith NArith Bool Lia Arith.
From AG Require Import Str F64 Value Json Expr Ops Pipeline Filter Grammar Print Roundtrip_proofs FilterRoundtrip_proofs.
Import ListNotations.
Open Scope string_scope.
Open Scope list_scope.
Open Scope nat_scope.

(** the text after the search part: for every printed stage, blanks, a pipe, blanks, the stage *)
Definition qtail (o : popts) (ts : list str) : str :=
  flat_map (fun t => po_ws0 o ++ 124%N :: po_ws0 o ++ t) ts.

Lemma popts_ws0 (o : popts) : popts_ok o = true -> forallb is_space (po_ws0 o) = true.
Proof.
  unfold popts_ok. intros H. apply andb_prop in H as [H _]. apply andb_prop in H as [H _]. exact H.
Qed.

Lemma qtail_cons (o : popts) (t : str) (ts : list str) :
  qtail o (t :: ts) = po_ws0 o ++ 124%N :: po_ws0 o ++ t ++ qtail o ts.
Proof.
  unfold qtail. cbn [flat_map]. rewrite <- app_assoc. cbn [app]. rewrite <- app_assoc. reflexivity.
Qed.

Lemma qtail_skip (o : popts) (t : str) (ts : list str) :
  popts_ok o = true ->
  skip_spaces (qtail o (t :: ts)) = 124%N :: po_ws0 o ++ t ++ qtail o ts.
Proof.
  intros Ho. rewrite qtail_cons. rewrite skip_spaces_app_ws by (apply popts_ws0, Ho).
  apply skip_spaces_nsp. reflexivity.
Qed.

Lemma stage_stop_qtail (o : popts) (ts : list str) : popts_ok o = true -> stage_stop (qtail o ts) = true.
Proof.
  intros Ho. unfold stage_stop. destruct ts as [|t ts]; [reflexivity|].
  rewrite qtail_skip by assumption. apply N.eqb_refl.
Qed.

Lemma search_stop_qtail (o : popts) (ts : list str) : popts_ok o = true -> search_stop (qtail o ts) = true.
Proof.
  intros Ho. unfold search_stop. destruct ts as [|t ts]; [reflexivity|].
  rewrite qtail_skip by assumption. rewrite N.eqb_refl, andb_true_r.
  rewrite qtail_cons. pose proof (popts_ws0 o Ho) as Hw.
  destruct (po_ws0 o) as [|c w]; cbn [app].
  - rewrite N.eqb_refl. apply orb_true_r.
  - cbn [forallb] in Hw. apply andb_prop in Hw as [Hc _]. rewrite Hc. reflexivity.
Qed.

Lemma ptag_pipe (x : str) : ptag "|" (124%N :: x) = POk tt x.
Proof.
  unfold ptag. change (lit "|") with [124%N]. cbn [strip_prefix]. rewrite N.eqb_refl. reflexivity.
Qed.

Lemma ptag_pipe_nil : ptag "|" [] = PFail.
Proof. reflexivity. Qed.

Lemma p_oper_ws (ws s : str) : forallb is_space ws = true -> p_oper (ws ++ s) = p_oper s.
Proof. intros H. unfold p_oper. rewrite (skip_spaces_app_ws ws s H). reflexivity. Qed.

Lemma all_some_cons {A} (x : option A) (l : list (option A)) (ys : list A) :
  all_some (x :: l) = Some ys -> exists y ys', x = Some y /\ all_some l = Some ys' /\ ys = y :: ys'.
Proof.
  cbn [all_some]. destruct x as [y|]; [|discriminate].
  destruct (all_some l) as [ys'|]; [|discriminate]. intros H. injection H as <-. eauto.
Qed.

Lemma concat_singletons {A} (l : list A) : concat (map (fun x => [x]) l) = l.
Proof. induction l as [|x l IH]; cbn; [reflexivity | rewrite IH; reflexivity]. Qed.

(** ** a printed stage is non-empty and does not start with a pipe *)
Definition nph (s : str) : Prop := match s with [] => False | c :: _ => (c =? 124)%N = false end.

Lemma nph_app (s t : str) : nph s -> nph (s ++ t).
Proof. destruct s; cbn; tauto. Qed.

Lemma ident_not_pipe (c : N) : is_ident_char c = true -> (c =? 124)%N = false.
Proof. intros H. destruct (N.eqb_spec c 124) as [->|]; [vm_compute in H; discriminate H|reflexivity]. Qed.

Lemma space_not_pipe (c : N) : is_space c = true -> (c =? 124)%N = false.
Proof. intros H. destruct (N.eqb_spec c 124) as [->|]; [vm_compute in H; discriminate H|reflexivity]. Qed.

Lemma nph_safe (n : str) : safe_name n = true -> nph n.
Proof.
  intros Hs. destruct (safe_parts _ Hs) as (c & n' & -> & H1 & _). cbn [nph].
  apply ident_not_pipe. now apply starts_is_ident.
Qed.

Lemma nph_ident_text (o : popts) (n : str) : nph (ident_text o n).
Proof.
  unfold ident_text. destruct (safe_name n) eqn:Hs; [now apply nph_safe|reflexivity].
Qed.

Lemma nph_pp_both (o : popts) (e : expr) : wf_expr e = true -> nph (body o e) /\ forall n, nph (pp o n e).
Proof.
  induction e as [h refs|e1 IH|c l IHl r IHr|a l IHl r IHr|lo l IHl r IHr|f args|c t e2| v |];
    intros Hwf;
    (match goal with |- nph (body o ?e) /\ _ => assert (Hb : nph (body o e)) end;
     [|split; [exact Hb|intros n; rewrite pp_eq; destruct (parb o n _); [reflexivity|exact Hb]]]);
    cbn [body].
  - apply nph_app, nph_ident_text.
  - reflexivity.
  - cbn [wf_expr] in Hwf. apply andb_true_iff in Hwf as [Hl Hr]. apply nph_app. now apply IHl.
  - cbn [wf_expr] in Hwf. apply andb_true_iff in Hwf as [Hl Hr]. destruct a; apply nph_app; now apply IHl.
  - cbn [wf_expr] in Hwf. apply andb_true_iff in Hwf as [Hl Hr].
    destruct lo, (po_words o); apply nph_app; now apply IHl.
  - cbn [wf_expr] in Hwf. apply andb_true_iff in Hwf as [Hs _]. apply andb_true_iff in Hs as [Hs _].
    apply nph_app. now apply nph_safe.
  - reflexivity.
  - destruct v as [s|z|fl|[|]|ns|ns|kvs|l|]; try discriminate Hwf; try reflexivity.
    + unfold quote_str. destruct (po_dq o); reflexivity.
    + destruct (Z_to_str_spec z) as (d & ds & E & Hd & _). cbn [wf_expr] in Hwf.
      apply andb_true_iff in Hwf as [Hz _]. apply Z.leb_le in Hz.
      destruct (Z.ltb_spec z 0); [lia|]. rewrite E. cbn [app nph].
      cbn [forallb] in Hd. apply andb_true_iff in Hd as [Hd _]. now apply ident_not_pipe, is_digit_ident.
  - discriminate Hwf.
Qed.

Lemma nph_pp (o : popts) (e : expr) (n : nat) : wf_expr e = true -> nph (pp o n e).
Proof. intros H. now apply nph_pp_both. Qed.

Lemma nph_aggfn (o : popts) (f : aggfn) (tf : str) : aggfn_text o f = Some tf -> nph tf.
Proof.
  destruct f as [[c|]|e|e|e|e|e|q e]; cbn [aggfn_text]; try (intros H; injection H as <-; reflexivity).
  destruct (pct_of q) as [v|]; [|discriminate]. intros H; injection H as <-; reflexivity.
Qed.

Lemma nph_sep_join (sep x : str) (l : list str) : nph x -> nph (sep_join sep (x :: l)).
Proof. intros H. destruct l as [|y l]; cbn [sep_join]; [exact H|now apply nph_app]. Qed.

Lemma nph_stage (o : popts) (st : stage) (t : str) :
  pp_stage o st = Some t -> wf_stage o st = true -> nph t.
Proof.
  destruct st as [f|f|pat fields f nd nc|sep arg out|only fs|e|e n|e ns n|n|e n|fns keys|keys desc|];
    cbn [pp_stage]; intros Ht Hwf; try discriminate Ht;
    try (injection Ht as <-; reflexivity).
  - (* expr as name *)
    injection Ht as <-. cbn [wf_stage] in Hwf. apply andb_true_iff in Hwf as [Hwf _].
    apply nph_app. now apply nph_pp.
  - (* aggregation *)
    cbn [wf_stage] in Hwf. apply andb_true_iff in Hwf as [Hwf _]. apply andb_true_iff in Hwf as [Hne _].
    destruct fns as [|[n f] fns]; [discriminate Hne|].
    cbn [map fst snd] in Ht.
    destruct (all_some _) as [ts|] eqn:Hts in Ht; [|discriminate Ht].
    injection Ht as <-.
    apply all_some_cons in Hts as (y & ys & Hy & _ & ->).
    destruct (aggfn_text o f) as [tf|] eqn:Hf; [|discriminate Hy].
    cbn [option_map] in Hy. injection Hy as <-.
    apply nph_app, nph_sep_join, nph_app. exact (nph_aggfn o f tf Hf).
Qed.

Lemma stages_nph (o : popts) : forall (stages : list stage) (ts : list str),
  all_some (map (pp_stage o) stages) = Some ts -> forallb (wf_stage o) stages = true -> Forall nph ts.
Proof.
  induction stages as [|st stages IH]; intros ts Hts Hwf.
  - cbn [map all_some] in Hts. injection Hts as <-. constructor.
  - cbn [map] in Hts. apply all_some_cons in Hts as (t & ts' & Ht & Hts' & ->).
    cbn [forallb] in Hwf. apply andb_prop in Hwf as [Hwf1 Hwf2].
    constructor; [exact (nph_stage o st t Ht Hwf1)|exact (IH ts' Hts' Hwf2)].
Qed.

(** hence the pipe that follows a stage is never doubled *)
Lemma single_pipe_qtail (o : popts) (ts : list str) :
  popts_ok o = true -> Forall nph ts -> single_pipe (qtail o ts) = true.
Proof.
  intros Ho Hts. destruct ts as [|t ts]; [reflexivity|].
  unfold single_pipe. rewrite qtail_skip by assumption.
  pose proof (popts_ws0 o Ho) as Hw. inversion Hts as [|? ? Ht _]; subst.
  destruct (po_ws0 o) as [|c w]; cbn [app].
  - destruct t as [|c r]; [destruct Ht|]. cbn [nph] in Ht. cbn [app]. now rewrite Ht.
  - cbn [forallb] in Hw. apply andb_prop in Hw as [Hc _]. now rewrite (space_not_pipe c Hc).
Qed.

(** ** the assembly, for any stage printer [P] (covering the stages [W]) whose output is non-empty, does
    not start with a pipe and is read back by [p_oper] *)
Section AssemblyGen.
Variable o : popts.
Hypothesis Ho : popts_ok o = true.
Variable P : stage -> option str.
Variable W : stage -> bool.
Hypothesis P_nph : forall (st : stage) (t : str), P st = Some t -> W st = true -> nph t.
Hypothesis P_rt : forall (st : stage) (t k : str),
  W st = true -> stage_ok st = true -> P st = Some t ->
  stage_stop k = true -> single_pipe k = true ->
  exists lo, p_oper (t ++ k) = POk lo (skip_spaces k) /\ check_lop true lo = Some [st].

Lemma stages_nph_gen : forall (stages : list stage) (ts : list str),
  all_some (map P stages) = Some ts -> forallb W stages = true -> Forall nph ts.
Proof.
  induction stages as [|st stages IH]; intros ts Hts Hwf.
  - cbn [map all_some] in Hts. injection Hts as <-. constructor.
  - cbn [map] in Hts. apply all_some_cons in Hts as (t & ts' & Ht & Hts' & ->).
    cbn [forallb] in Hwf. apply andb_prop in Hwf as [Hwf1 Hwf2].
    constructor; [exact (P_nph st t Ht Hwf1)|exact (IH ts' Hts' Hwf2)].
Qed.

(** the loop of [separated_list1]: from just after a stage, it reads every remaining stage, in order,
    and stops at the end of the text; the fuel (the length of the text) suffices *)
Lemma stages_loop_gen :
  forall (stages : list stage) (ts : list str),
  all_some (map P stages) = Some ts ->
  forallb W stages = true -> forallb stage_ok stages = true ->
  forall (fuel : nat) (acc : list lop),
  length (skip_spaces (qtail o ts)) <= fuel ->
  exists los,
    sep_list_more fuel (ptag "|") p_oper (skip_spaces (qtail o ts)) acc = POk (rev acc ++ los) [] /\
    map_opt_list (check_lop true) los = Some (map (fun st => [st]) stages).
Proof.
  induction stages as [|st stages IH]; intros ts Hts Hwf Hok fuel acc Hfuel.
  - cbn [map all_some] in Hts. injection Hts as <-. exists []. split; [|reflexivity].
    change (skip_spaces (qtail o [])) with (@nil N). rewrite app_nil_r.
    destruct fuel as [|f]; cbn [sep_list_more]; [reflexivity|]. rewrite ptag_pipe_nil. reflexivity.
  - cbn [map] in Hts. apply all_some_cons in Hts as (t & ts' & Ht & Hts' & ->).
    cbn [forallb] in Hwf, Hok. apply andb_prop in Hwf as [Hwf1 Hwf2]. apply andb_prop in Hok as [Hok1 Hok2].
    rewrite qtail_skip in Hfuel |- * by assumption.
    destruct fuel as [|f]; [cbn [length] in Hfuel; lia|].
    cbn [sep_list_more]. rewrite ptag_pipe.
    rewrite p_oper_ws by (apply popts_ws0, Ho).
    destruct (P_rt st t (qtail o ts') Hwf1 Hok1 Ht (stage_stop_qtail o ts' Ho)
                   (single_pipe_qtail o ts' Ho (stages_nph_gen stages ts' Hts' Hwf2))) as (lo & Hp & Hc).
    rewrite Hp.
    destruct (IH ts' Hts' Hwf2 Hok2 f (lo :: acc)) as (los & Hl & Hm).
    { cbn [length] in Hfuel. rewrite !app_length in Hfuel.
      pose proof (skip_spaces_len (qtail o ts')). lia. }
    exists (lo :: los). split.
    + rewrite Hl. cbn [rev]. rewrite <- app_assoc. reflexivity.
    + cbn [map_opt_list map]. rewrite Hc, Hm. reflexivity.
Qed.

Theorem query_roundtrip_gen (fs : list filter) (stages : list stage) (t : str) :
  forallb wf_filter fs = true ->
  forallb W stages = true -> forallb stage_ok stages = true ->
  match all_some (map P stages) with
  | Some ts => Some ((match fs with [] => lit "*" | _ => fpp_top o fs end) ++ qtail o ts)
  | None => None
  end = Some t ->
  accepts t = Some (FAnd fs, stages).
Proof.
  intros Hfs Hwf Hok Hpp.
  destruct (all_some (map P stages)) as [ts|] eqn:Hts; [|discriminate].
  assert (Et : t = (match fs with [] => lit "*" | _ => fpp_top o fs end) ++ qtail o ts)
    by (injection Hpp as <-; reflexivity).
  subst t. clear Hpp.
  assert (Hsearch : parse_search ((match fs with [] => lit "*" | _ => fpp_top o fs end) ++ qtail o ts)
                    = POk (FAnd fs) (skip_spaces (qtail o ts))).
  { destruct fs as [|f fs'].
    - apply star_is_everything, search_stop_qtail, Ho.
    - apply filter_roundtrip; [assumption | discriminate | assumption | apply search_stop_qtail, Ho]. }
  unfold accepts, parse_query. rewrite Hsearch. clear Hsearch.
  destruct stages as [|st stages].
  - cbn [map all_some] in Hts. injection Hts as <-. reflexivity.
  - cbn [map] in Hts. apply all_some_cons in Hts as (t1 & ts' & Ht & Hts' & ->).
    pose proof Hok as Hok0.
    cbn [forallb] in Hwf, Hok. apply andb_prop in Hwf as [Hwf1 Hwf2]. apply andb_prop in Hok as [Hok1 Hok2].
    rewrite qtail_skip by assumption. cbn [eat]. rewrite N.eqb_refl.
    unfold parse_operators, sep_list1.
    rewrite p_oper_ws by (apply popts_ws0, Ho).
    destruct (P_rt st t1 (qtail o ts') Hwf1 Hok1 Ht (stage_stop_qtail o ts' Ho)
                   (single_pipe_qtail o ts' Ho (stages_nph_gen stages ts' Hts' Hwf2))) as (lo & Hp & Hc).
    rewrite Hp. cbn [pbind].
    destruct (stages_loop_gen stages ts' Hts' Hwf2 Hok2 (length (skip_spaces (qtail o ts'))) [lo] (le_n _))
      as (los & Hl & Hm).
    rewrite Hl. cbn [rev app]. change (is_nil (trim [])) with true. cbn [lq_ops lq_filter].
    cbn [map_opt_list]. rewrite Hc, Hm.
    change (concat ([st] :: map (fun st0 => [st0]) stages)) with (st :: concat (map (fun st0 => [st0]) stages)).
    rewrite concat_singletons. rewrite Hok0. reflexivity.
Qed.
End AssemblyGen.

(** the canonical printer [pp_stage o] is the instance the whole-query round trip was first stated for *)
Section Assembly.
Hypothesis stage_rt : forall (o : popts) (st : stage) (t k : str),
  popts_ok o = true -> wf_stage o st = true -> stage_ok st = true -> pp_stage o st = Some t ->
  stage_stop k = true -> single_pipe k = true ->
  exists lo, p_oper (t ++ k) = POk lo (skip_spaces k) /\ check_lop true lo = Some [st].

Lemma stages_loop (o : popts) : popts_ok o = true ->
  forall (stages : list stage) (ts : list str),
  all_some (map (pp_stage o) stages) = Some ts ->
  forallb (wf_stage o) stages = true -> forallb stage_ok stages = true ->
  forall (fuel : nat) (acc : list lop),
  length (skip_spaces (qtail o ts)) <= fuel ->
  exists los,
    sep_list_more fuel (ptag "|") p_oper (skip_spaces (qtail o ts)) acc = POk (rev acc ++ los) [] /\
    map_opt_list (check_lop true) los = Some (map (fun st => [st]) stages).
Proof.
  intros Ho.
  exact (stages_loop_gen o Ho (pp_stage o) (wf_stage o) (nph_stage o)
           (fun st t k Hwf Hok Ht Hk1 Hk2 => stage_rt o st t k Ho Hwf Hok Ht Hk1 Hk2)).
Qed.

Theorem query_roundtrip_from_stages (o : popts) (fs : list filter) (stages : list stage) (t : str) :
  popts_ok o = true -> forallb wf_filter fs = true ->
  forallb (wf_stage o) stages = true -> forallb stage_ok stages = true ->
  pp_query o fs stages = Some t ->
  accepts t = Some (FAnd fs, stages).
Proof.
  intros Ho Hfs Hwf Hok Hpp.
  exact (query_roundtrip_gen o Ho (pp_stage o) (wf_stage o) (nph_stage o)
           (fun st t k Hwf Hok Ht Hk1 Hk2 => stage_rt o st t k Ho Hwf Hok Ht Hk1 Hk2)
           fs stages t Hfs Hwf Hok Hpp).
Qed.
End Assembly.

Print Assumptions query_roundtrip_from_stages.
