From Coq Require Extraction ExtrOcamlBasic.
From AG Require Import Sexp Entry2.
Extraction Language OCaml.
Set Extraction Output Directory ".".
Extraction "agmodel.ml" run_case2.
