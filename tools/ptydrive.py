"""Run agrind with stdout on a pseudo-terminal of a chosen size, feeding stdin on a schedule."""
import fcntl
import os
import pty
import struct
import subprocess
import termios
import threading
import time

import aglib
import sexp
from sexp import Sym


def run_pty(query, schedule, rows, cols, mode=None, binary=None, timeout=20, checkpoints=(), stderr_to_pty=False):
    """schedule: list of (bytes, seconds_to_sleep_after).  checkpoints: indices into schedule after which
    (i.e. after the sleep) the bytes captured so far are recorded.  Returns dict(out=bytes, snaps=[bytes], rc, err)."""
    master, slave = pty.openpty()
    fcntl.ioctl(slave, termios.TIOCSWINSZ, struct.pack('HHHH', rows, cols, 0, 0))
    args = [binary or aglib.AGRIND, query] + (['-o', mode] if mode else [])
    p = subprocess.Popen(args, stdin=subprocess.PIPE, stdout=slave, stderr=slave if stderr_to_pty else subprocess.PIPE, env=aglib.ENV, close_fds=True)
    os.close(slave)
    buf = bytearray()
    lock = threading.Lock()

    def reader():
        while True:
            try:
                d = os.read(master, 65536)
            except OSError:
                break
            if not d:
                break
            with lock:
                buf.extend(d)
    t = threading.Thread(target=reader, daemon=True)
    t.start()
    snaps = []
    try:
        for i, (data, delay) in enumerate(schedule):
            if data:
                try:
                    p.stdin.write(data)
                    p.stdin.flush()
                except BrokenPipeError:
                    break
            if delay:
                time.sleep(delay)
            if i in checkpoints:
                with lock:
                    snaps.append(bytes(buf))
        try:
            p.stdin.close()
        except BrokenPipeError:
            pass
        try:
            rc = p.wait(timeout=timeout)
        except subprocess.TimeoutExpired:
            p.kill()
            rc = None
        err = p.stderr.read() if p.stderr is not None else b''
        t.join(timeout=2)
    finally:
        try:
            os.close(master)
        except OSError:
            pass
    with lock:
        out = bytes(buf)
    return {'out': out, 'snaps': snaps, 'rc': rc, 'err': err}


def emulate_many(items):
    """items: list of (rows, cols, bytes) -> list of dict(cursor=(r,c), other=int, lines=[str])"""
    cases = [sexp.dumps([Sym('term'), h, w, b.decode('utf8', 'replace')]) for h, w, b in items]
    res = aglib.run_model_many(cases)
    out = []
    for r in res:
        if isinstance(r, Sym):
            out.append(None)
            continue
        out.append({'cursor': (int(r[1][1]), int(r[1][2])), 'other': int(r[2][1]), 'lines': list(r[3:])})
    return out
