#!/bin/bash
# usage: MV=/path/to/verif-copy MR=/path/to/repo-copy harvest_corpus.sh [seeds...]
# for every seeded change: apply it to the repo copy, run the quick check of its property in the verif copy, and
# turn the concrete failing input of the reported violation into a corpus case whose expected output is that of
# the UNCHANGED tree (binary $MV/build/good-agrind, built first).  The cases land in $MV/corpus/<pid>/.
set -u
MV=${MV:?}; MR=${MR:?}
cd $MV
export AG_REPO=$MR AGV_EVIDENCE_DIR=$MV/build/seed-evidence
git -C $MR status --short | grep -q . && { echo "$MR not clean"; exit 2; }
python3 -c "import sys; sys.path.insert(0,'tools'); import aglib; aglib.build_impl()"
cp $MV/build/target-repo/debug/agrind $MV/build/good-agrind
for S in ${@:-$(ls $MV/seeded)}; do
  p=${S:0:3}
  git -C $MR apply $MV/seeded/$S/patch.diff || continue
  line=$(timeout 1800 bin/agv check $p --tier quick 2>/dev/null | grep -E "^VIOLATION" | head -1)
  git -C $MR checkout -- .
  f=$(echo "$line" | sed -n 's/.*replay=\([^ ]*\).*/\1/p')
  [ -n "$f" ] && [ -f "$f" ] && echo "$S $(python3 tools/corpus.py harvest $f $S $p $MV/build/good-agrind)"
done
