#!/usr/bin/env python3
"""The regression corpus: minimized failing inputs of earlier violations (seeded changes, repaired defects), kept as
text cases corpus/<pid>/<name>.json = {"id", "query", "input": [lines], "mode", "stdout", "origin"}.
Every check replays the cases of its property FIRST: the output of the binary built from /repo must be the stored
stdout (the output of the tree on which the property held), and the model must agree with it where it is modelled.
`python3 tools/corpus.py harvest <seed>...` (run by tools/harvest_corpus.sh on scratch copies) adds cases."""
import glob
import json
import os
import sys

import aglib


def load(pid):
    out = []
    for f in sorted(glob.glob(os.path.join(aglib.VERIF, 'corpus', pid, '*.json'))):
        try:
            out.append(json.load(open(f)))
        except ValueError:
            pass
    return out


def replay(pid):
    """-> (number of cases, failures)"""
    cases = load(pid)
    if not cases:
        return 0, []
    outs = aglib.run_impl_many([(c['query'], ''.join(c['input']).encode('utf8'), c.get('mode', 'json'), ()) for c in cases])
    fails = []
    for c, o in zip(cases, outs):
        got = o['out'].decode('utf8', 'replace')
        if o['timed_out'] or b'panicked' in o['err'] or got != c['stdout']:
            fails.append({'kind': 'spec', 'what': 'regression corpus case %s (%s): the output changed: %r, was %r' % (c['id'], c.get('origin', ''), got[:200], c['stdout'][:200]),
                          'payload': {'query': c['query'], 'input_lines': c['input'], 'mode': c.get('mode', 'json'), 'corpus_case': c['id'],
                                      'expected_stdout': c['stdout'][:2000], 'stdout': got[:2000], 'stderr': o['err'].decode('utf8', 'replace')[-300:]}})
    return len(cases), fails


def harvest(replay_file, seed, pid, good_binary):
    """from the replay file of a violation found on a seeded tree: store query + input with the GOOD binary's output"""
    j = json.load(open(replay_file))
    r = j.get('replay') or {}
    if 'correspondence' in j and j['correspondence']:
        r = j['correspondence'][0].get('replay') or {}
    q = r.get('query')
    lines = r.get('input_lines')
    if isinstance(r.get('input'), str):
        lines = [r['input']]
    if not q or lines is None or not isinstance(lines, list) or any(not isinstance(l, str) for l in lines):
        return None
    mode = r.get('mode') or r.get('output_mode') or 'json'
    if not isinstance(mode, str) or mode == 'legacy':
        mode = None
    if sum(len(l) for l in lines) > 20000:
        return None
    o = aglib.run_impl_one(q, ''.join(lines).encode('utf8'), mode, binary=good_binary)
    if o['timed_out'] or o['rc'] not in (0,):
        return None
    case = {'id': seed, 'query': q, 'input': lines, 'mode': mode, 'stdout': o['out'].decode('utf8', 'replace'),
            'origin': 'minimised from the violation reported for seeded change %s' % seed}
    d = os.path.join(aglib.VERIF, 'corpus', pid)
    os.makedirs(d, exist_ok=True)
    json.dump(case, open(os.path.join(d, seed + '.json'), 'w'), indent=1, ensure_ascii=False)
    return case


if __name__ == '__main__':
    if sys.argv[1] == 'harvest':
        print(harvest(sys.argv[2], sys.argv[3], sys.argv[4], sys.argv[5]) is not None)
