#!/usr/bin/env python3
"""regenerate MANIFEST.json from tools/claims.json (one place to edit claims)"""
import json
import os

HERE = os.path.dirname(os.path.dirname(os.path.abspath(__file__)))
claims = json.load(open(os.path.join(HERE, 'tools', 'claims.json')))
props = [json.loads(l) for l in open(os.path.join(HERE, 'properties.jsonl'))]
checks = []
na = []
for p in props:
    pid = p['id']
    c = claims.get(pid)
    if c and c.get('claimed'):
        checks.append({
            'property_id': pid,
            'quick_cmd': 'bin/agv check %s --tier quick' % pid,
            'thorough_cmd': 'bin/agv check %s --tier thorough' % pid,
            'evidence_file': 'evidence/%s.json' % pid,
            'replay_cmd_template': 'bin/agv check %s --replay {path}' % pid,
            'engine': 'coq-model',
            'level_claimed': {'category': 'proof', 'text': c['text'], 'design_ref': 'DESIGN.md section 4 ' + pid},
            'level_note': c['note'],
            'technique': c.get('technique', 'Coq theorems over an executable Gallina model + differential correspondence (extracted OCaml model vs real agrind)'),
        })
    else:
        na.append({'property_id': pid, 'reason': (c or {}).get('reason', 'check not built yet in this round (planned, see DESIGN.md section 4)')})
m = {
    'version': 1,
    'setup_cmd': 'bin/agv setup',
    'hooks': {
        'guard': 'ag_verif',
        'enable': 'RUSTFLAGS="--cfg ag_verif" (set by tools/aglib.py build_impl when it builds /repo into build/target-repo)',
        'baseline_off_cmd': 'cd /repo && cargo test --workspace --no-fail-fast --offline',
        'source_commits': claims.get('_hook_commits', []),
        'add_only': True,
    },
    'engines': [{'name': 'coq-model', 'path': 'coq/', 'serves_properties': [c['property_id'] for c in checks],
                 'kind_free_text': 'Coq 8.16 development (hand-written Gallina model of agrind + theorems), extracted to OCaml (modelrun/) and compared with the real binary by tools/'}],
    'checks': checks,
    'not_applicable': na,
    'notes': 'Entry point bin/agv. Model/proofs in coq/theories, property statements in coq/theories/Properties/Cnn.v. known_findings.json lists recorded and fixed defects.',
}
json.dump(m, open(os.path.join(HERE, 'MANIFEST.json'), 'w'), indent=1)
print('checks:', [c['property_id'] for c in checks])
