"""Query ASTs as plain Python tuples, printed two ways: as agrind query text
(for the implementation) and as s-expressions (for the Coq model).

value   : str | int | float | bool | None | list | dict | ('date', ns) | ('dur', ns)
expr    : ('col', head, [('k', name) | ('ix', int)...]) | ('lit', value) | ('not', e)
        | ('cmp', op, l, r) | ('ar', op, l, r) | ('lg', 'and'|'or', l, r)
        | ('call', fname, [e...]) | ('if', c, t, e) | ('paren', e)   (paren: text only)
stage   : ('json', from) | ('logfmt', from) | ('parse', pat, [f], from, nodrop, noconvert)
        | ('split', sep, from, out) | ('fields', 'only'|'except', [f]) | ('where', e)
        | ('let', e, name) | ('timeslice', e, ns, name|None) | ('limit', n|None)
        | ('total', e, name|None) | ('agg', [(name|None, fn)], [(hdr|None, e)])
        | ('sort', [e], 'asc'|'desc'|None)
fn      : ('count', cond|None) | ('sum', e) | ('min', e) | ('max', e) | ('avg', e)
        | ('distinct', e) | ('pct', nn, e)
filter  : ('and', [f]) | ('or', [f]) | ('not', f) | ('kw', 'exact'|'wild', text)
"""
import re
import struct
from sexp import Sym, dumps

CMP_TXT = {'eq': '==', 'neq': '!=', 'gt': '>', 'lt': '<', 'gte': '>=', 'lte': '<='}
AR_TXT = {'add': '+', 'sub': '-', 'mul': '*', 'div': '/'}
BARE_IDENT = re.compile(r'^[A-Za-z_][A-Za-z0-9_]*$')
# bare identifiers that the expression grammar would read as something else
RESERVED_NAMES = ('true', 'false', 'null')     # literals; every other identifier can be written bare (keywords are whole words since dd26194)


def f2bits(x):
    return struct.unpack('>Q', struct.pack('>d', x))[0]


def bits2f(b):
    return struct.unpack('>d', struct.pack('>Q', b))[0]


# ---------------------------------------------------------------- s-expressions
def value_sexp(v):
    if v is None:
        return Sym('n')
    if isinstance(v, bool):
        return [Sym('b'), Sym('t' if v else 'f')]
    if isinstance(v, int):
        return [Sym('i'), v]
    if isinstance(v, float):
        return [Sym('f'), f2bits(v)]
    if isinstance(v, str):
        return [Sym('s'), v]
    if isinstance(v, list):
        return [Sym('a'), [value_sexp(x) for x in v]]
    if isinstance(v, dict):
        return [Sym('o'), [[k, value_sexp(x)] for k, x in v.items()]]
    if isinstance(v, tuple) and v[0] == 'date':
        return [Sym('d'), v[1]]
    if isinstance(v, tuple) and v[0] == 'dur':
        return [Sym('u'), v[1]]
    raise TypeError(repr(v))


def expr_sexp(e):
    t = e[0]
    if t == 'col':
        return [Sym('col'), e[1]] + [[Sym(r[0]), r[1]] for r in e[2]]
    if t == 'lit':
        return [Sym('lit'), value_sexp(e[1])]
    if t == 'not':
        return [Sym('not'), expr_sexp(e[1])]
    if t in ('cmp', 'ar', 'lg'):
        return [Sym(t), Sym(e[1]), expr_sexp(e[2]), expr_sexp(e[3])]
    if t == 'call':
        return [Sym('call'), e[1]] + [expr_sexp(a) for a in e[2]]
    if t == 'if':
        return [Sym('if'), expr_sexp(e[1]), expr_sexp(e[2]), expr_sexp(e[3])]
    if t == 'paren':
        return expr_sexp(e[1])
    raise TypeError(repr(e))


def opt_sexp(x, f):
    return Sym('none') if x is None else [Sym('some'), f(x)]


DEFAULT_NAMES = {'count': '_count', 'sum': '_sum', 'min': '_min', 'max': '_max',
                 'avg': '_average', 'distinct': '_countDistinct'}


def fn_default_name(fn):
    if fn[0] == 'pct':
        return 'p%d' % fn[1]
    return DEFAULT_NAMES[fn[0]]


def fn_sexp(fn):
    t = fn[0]
    if t == 'count':
        return [Sym('count'), opt_sexp(fn[1], expr_sexp)]
    if t == 'pct':
        return [Sym('pct'), f2bits(float(fn[1]) / 100.0), expr_sexp(fn[2])]
    return [Sym(t), expr_sexp(fn[1])]


def stage_sexp(s):
    t = s[0]
    if t in ('json', 'logfmt'):
        return [Sym(t), opt_sexp(s[1], expr_sexp)]
    if t == 'parse':
        return [Sym('parse'), s[1], list(s[2]), opt_sexp(s[3], expr_sexp), bool(s[4]), bool(s[5])]
    if t == 'split':
        sep = ',' if s[1] is None else s[1]
        out = s[3] if s[3] is not None else s[2]
        return [Sym('split'), sep, opt_sexp(s[2], expr_sexp), opt_sexp(out, expr_sexp)]
    if t == 'fields':
        return [Sym('fields'), Sym(s[1])] + list(s[2])
    if t == 'where':
        return [Sym('where'), expr_sexp(s[1])]
    if t == 'let':
        return [Sym('let'), expr_sexp(s[1]), s[2]]
    if t == 'timeslice':
        return [Sym('timeslice'), expr_sexp(s[1]), s[2], opt_sexp(s[3], lambda x: x)]
    if t == 'limit':
        return [Sym('limit'), 10 if s[1] is None else s[1]]
    if t == 'total':
        return [Sym('total'), expr_sexp(s[1]), '_total' if s[2] is None else s[2]]
    if t == 'agg':
        fns = [[(n if n is not None else fn_default_name(fn)), fn_sexp(fn)] for n, fn in s[1]]
        # the header of a key column is the source text of its expression
        keys = [[expr_text(e), expr_sexp(e)] for h, e in s[2]]
        return [Sym('agg'), fns, keys]
    if t == 'sort':
        return [Sym('sort'), [expr_sexp(e) for e in s[1]], Sym('desc' if s[2] == 'desc' else 'asc')]
    raise TypeError(repr(s))


def filter_sexp(f):
    t = f[0]
    if t in ('and', 'or'):
        return [Sym(t)] + [filter_sexp(x) for x in f[1]]
    if t == 'not':
        return [Sym('not'), filter_sexp(f[1])]
    if t == 'kw':
        return [Sym('kw'), Sym(f[1]), f[2]]
    raise TypeError(repr(f))


def case_sexp(filt, stages, lines):
    return dumps([Sym('run'), filter_sexp(filt), [stage_sexp(s) for s in stages], list(lines)])


# ------------------------------------------------------------------ query text
def quote_str(s, q='"'):
    out = [q]
    for ch in s:
        if ch == '\\':
            out.append('\\\\')
        elif ch == q:
            out.append('\\' + q)
        elif ch == '\n':
            out.append('\\n')
        elif ch == '\t':
            out.append('\\t')
        elif ch == '\r':
            out.append('\\r')
        elif ch == '\0':
            out.append('\\0')
        else:
            out.append(ch)
    out.append(q)
    return ''.join(out)


def ident_text(name):
    if BARE_IDENT.match(name) and name not in RESERVED_NAMES:
        return name
    return '[' + quote_str(name) + ']'


def dur_text(ns):
    """a duration literal for a non-negative number of nanoseconds"""
    units = [('w', 7 * 86400 * 10**9), ('d', 86400 * 10**9), ('h', 3600 * 10**9),
             ('m', 60 * 10**9), ('s', 10**9), ('ms', 10**6), ('us', 10**3), ('ns', 1)]
    if ns == 0:
        return '0s'
    out = []
    for u, k in units:
        q, ns = divmod(ns, k)
        if q:
            out.append('%d%s' % (q, u))
    return ''.join(out)


def lit_text(v):
    if v is None:
        return 'null'
    if isinstance(v, bool):
        return 'true' if v else 'false'
    if isinstance(v, int):
        if v < 0:
            raise ValueError('no negative literals in the grammar')
        return str(v)
    if isinstance(v, str):
        return quote_str(v)
    if isinstance(v, tuple) and v[0] == 'dur':
        return dur_text(v[1])
    raise ValueError('no literal syntax for %r' % (v,))


# precedence levels: 1 or, 2 and, 3 cmp, 4 add/sub, 5 mul/div, 6 unary, 7 atomic
def _prec(e):
    t = e[0]
    if t == 'lg':
        return 1 if e[1] == 'or' else 2
    if t == 'cmp':
        return 3
    if t == 'ar':
        return 4 if e[1] in ('add', 'sub') else 5
    if t == 'not':
        return 6
    return 7


def expr_text(e, ctx=0):
    """minimal-parentheses printer (left-associative chains, comparisons do not chain)"""
    t = e[0]
    p = _prec(e)
    if t == 'col':
        s = ident_text(e[1])
        for r in e[2]:
            s += ('.' + ident_text(r[1])) if r[0] == 'k' else '[%d]' % r[1]
    elif t == 'lit':
        s = lit_text(e[1])
    elif t == 'paren':
        return '(' + expr_text(e[1]) + ')'
    elif t == 'not':
        s = '!' + expr_text(e[1], 7)
    elif t == 'call':
        s = e[1] + '(' + ', '.join(expr_text(a) for a in e[2]) + ')'
    elif t == 'if':
        s = 'if(' + ', '.join(expr_text(a) for a in e[1:4]) + ')'
    elif t == 'lg':
        s = expr_text(e[2], p) + ' ' + e[1] + ' ' + expr_text(e[3], p + 1)
    elif t == 'cmp':
        s = expr_text(e[2], 4) + ' ' + CMP_TXT[e[1]] + ' ' + expr_text(e[3], 4)
    elif t == 'ar':
        s = expr_text(e[2], p) + ' ' + AR_TXT[e[1]] + ' ' + expr_text(e[3], p + 1)
    else:
        raise TypeError(repr(e))
    return '(' + s + ')' if p < ctx else s


def fn_text(fn):
    t = fn[0]
    if t == 'count':
        return 'count' if fn[1] is None else 'count(' + expr_text(fn[1]) + ')'
    if t == 'pct':
        return 'p%d(%s)' % (fn[1], expr_text(fn[2]))
    name = {'distinct': 'count_distinct'}.get(t, t)
    return name + '(' + expr_text(fn[1]) + ')'


def stage_text(s):
    t = s[0]
    if t in ('json', 'logfmt'):
        return t + ('' if s[1] is None else ' from ' + expr_text(s[1]))
    if t == 'parse':
        out = 'parse ' + quote_str(s[1])
        if s[3] is not None:
            out += ' from ' + expr_text(s[3])
        if s[2]:
            out += ' as ' + ', '.join(ident_text(f) for f in s[2])
        if s[4]:
            out += ' nodrop'
        if s[5]:
            out += ' noconvert'
        return out
    if t == 'split':
        out = 'split'
        if s[2] is not None:
            out += '(' + expr_text(s[2]) + ')'
        if s[1] is not None:
            out += ' on ' + quote_str(s[1])
        if s[3] is not None:
            out += ' as ' + expr_text(s[3])
        return out
    if t == 'fields':
        return 'fields ' + ('except ' if s[1] == 'except' else '') + ', '.join(ident_text(f) for f in s[2])
    if t == 'where':
        return 'where ' + expr_text(s[1])
    if t == 'let':
        return expr_text(s[1]) + ' as ' + ident_text(s[2])
    if t == 'timeslice':
        return 'timeslice(' + expr_text(s[1]) + ') ' + dur_text(s[2]) + ('' if s[3] is None else ' as ' + ident_text(s[3]))
    if t == 'limit':
        return 'limit' if s[1] is None else 'limit %d' % s[1]
    if t == 'total':
        return 'total(' + expr_text(s[1]) + ')' + ('' if s[2] is None else ' as ' + ident_text(s[2]))
    if t == 'agg':
        fns = ', '.join(fn_text(fn) + ('' if n is None else ' as ' + ident_text(n)) for n, fn in s[1])
        if s[2]:
            fns += ' by ' + ', '.join(expr_text(e) for h, e in s[2])
        return fns
    if t == 'sort':
        out = 'sort'
        if s[1]:
            out += ' by ' + ', '.join(expr_text(e) for e in s[1])
        if s[2] is not None:
            out += ' ' + s[2]
        return out
    raise TypeError(repr(s))


def filter_text(f, top=True):
    t = f[0]
    if t == 'kw':
        return quote_str(f[2]) if f[1] == 'exact' else f[2]
    if t == 'not':
        return 'NOT ' + filter_text(f[1], False)
    if t == 'and':
        if not f[1]:
            return '*'
        if top:
            return ' '.join(filter_text(x, False) for x in f[1])
        return '(' + ' AND '.join(filter_text(x, False) for x in f[1]) + ')' if len(f[1]) == 2 else None
    if t == 'or':
        return '(' + ' OR '.join(filter_text(x, False) for x in f[1]) + ')'
    raise TypeError(repr(f))


def query_text(filt, stages):
    ft = filter_text(filt)
    return ' | '.join([ft] + [stage_text(s) for s in stages])


def expr_text_full(e):
    """every binary / unary node explicitly parenthesised"""
    t = e[0]
    if t in ('col', 'lit'):
        return expr_text(e)
    if t == 'paren':
        return expr_text_full(e[1])
    if t == 'not':
        return '!(' + expr_text_full(e[1]) + ')'
    if t == 'call':
        return e[1] + '(' + ', '.join(expr_text_full(a) for a in e[2]) + ')'
    if t == 'if':
        return 'if(' + ', '.join(expr_text_full(a) for a in e[1:4]) + ')'
    if t == 'lg':
        return '(' + expr_text_full(e[2]) + ' ' + e[1] + ' ' + expr_text_full(e[3]) + ')'
    if t == 'cmp':
        return '(' + expr_text_full(e[2]) + ' ' + CMP_TXT[e[1]] + ' ' + expr_text_full(e[3]) + ')'
    if t == 'ar':
        return '(' + expr_text_full(e[2]) + ' ' + AR_TXT[e[1]] + ' ' + expr_text_full(e[3]) + ')'
    raise TypeError(repr(e))


def print_case_sexp(mode, filt, stages, lines):
    """mode: 'logfmt' | ('format', text) | ('legacy', None) | ('legacy', (width, height))"""
    if mode == 'logfmt':
        m = Sym('logfmt')
    elif mode[0] == 'format':
        m = [Sym('format'), mode[1]]
    elif mode[1] is None:
        m = [Sym('legacy'), Sym('none')]
    else:
        m = [Sym('legacy'), mode[1][0], mode[1][1]]
    return dumps([Sym('print'), m, filter_sexp(filt), [stage_sexp(s) for s in stages], list(lines)])
