#!/bin/bash
# usage: [MV=/path/to/verif-copy MR=/path/to/repo-copy] seed_matrix.sh [seed names...]
# For every seeded change: apply it to the repo copy, run every quick check of the verif copy, undo it.
# Writes $MV/build/seed_matrix.tsv (seed, check, verdict); evidence of these runs goes to $MV/build/seed-evidence.
# With MV/MR pointing at scratch copies (a clone of /verif and a git worktree of /repo, both outside /repo and
# /verif) the rehearsal runs beside normal work without touching /repo or /verif.
set -u
MV=${MV:-/verif}; MR=${MR:-/repo}
cd $MV
export AG_REPO=$MR AGV_EVIDENCE_DIR=$MV/build/seed-evidence
SEEDS=${@:-$(ls $MV/seeded)}
CHECKS=$(seq -f "C%02g" 1 20)
OUT=$MV/build/seed_matrix.tsv
for S in $SEEDS; do
  git -C $MR status --short | grep -q . && { echo "$MR not clean"; exit 2; }
  git -C $MR apply $MV/seeded/$S/patch.diff || { echo "$S: patch does not apply"; continue; }
  for p in $CHECKS; do
    out=$(timeout 1800 bin/agv check $p --tier quick 2>/dev/null | grep -E "^VIOLATION" | head -1)
    v=quiet
    [ -n "$out" ] && v=caught
    echo "$out" | grep -q "no-failing-input-found" && v=caught-nfif
    printf "%s\t%s\t%s\n" "$S" "$p" "$v" >> $OUT
  done
  git -C $MR checkout -- .
done
git -C $MR status --short | head -3
