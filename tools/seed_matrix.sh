#!/bin/bash
# usage: seed_matrix.sh [seed names...] — for every seeded change: apply it to /repo, run every claimed
# quick check, undo it.  Writes build/seed_matrix.tsv (seed, check, verdict).  Evidence goes to build/.
set -u
cd /verif
export AGV_EVIDENCE_DIR=/verif/build/seed-evidence
SEEDS=${@:-$(ls seeded)}
CHECKS=$(seq -f "C%02g" 1 20)
OUT=build/seed_matrix.tsv
for S in $SEEDS; do
  git -C /repo status --short | grep -q . && { echo "/repo not clean"; exit 2; }
  git -C /repo apply /verif/seeded/$S/patch.diff || { echo "$S: patch does not apply"; continue; }
  for p in $CHECKS; do
    out=$(timeout 1800 bin/agv check $p --tier quick 2>/dev/null | grep -E "^VIOLATION" | head -1)
    v=quiet
    [ -n "$out" ] && v=caught
    echo "$out" | grep -q "no-failing-input-found" && v=caught-nfif
    printf "%s\t%s\t%s\n" "$S" "$p" "$v" >> $OUT
  done
  git -C /repo checkout -- .
done
git -C /repo status --short | head -3
