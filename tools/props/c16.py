"""C16 — the live terminal view converges to the true result for any refresh schedule."""
import json
import re
import time
from concurrent.futures import ThreadPoolExecutor

import aglib
import gen
import ptydrive
from props.common import *

TRUSTED_BASE = ['the pseudo-terminal line discipline (ONLCR) and kernel scheduling; the terminal emulator is the extracted Coq model (Term.v) over the five-symbol alphabet agrind emits',
                'catch-up delay is measured with a generous threshold (0.6 s of idleness), not proved']
ASSUMPTIONS = ['terminals are wide enough for the generated tables (clipping with ellipsis is C19\'s business)']

QUERIES = [
    [('agg', [(None, ('count', None))], [(None, col('k'))])],
    [('agg', [(None, ('count', None)), (None, ('sum', col('a')))], [(None, col('k'))])],
    [('agg', [(None, ('count', None))], [])],
    [('agg', [(None, ('count', None))], [(None, col('k'))]), ('where', ('cmp', 'gt', col('_count'), lit(1)))],
    [('agg', [(None, ('count', None))], [(None, col('k'))]), ('limit', 2)],
    [('agg', [(None, ('count', None))], [(None, col('k'))]), ('sort', [col('k')], None), ('total', col('_count'), None)],
    [('agg', [(None, ('count', None))], [(None, col('k')), (None, col('g'))]), ('agg', [('n', ('count', None)), (None, ('sum', col('_count')))], [(None, col('k'))])],
    [('agg', [(None, ('max', col('a'))), (None, ('min', col('a')))], [(None, col('g'))]), ('sort', [col('g')], 'desc')],
    [('sort', [col('a')], None), ('fields', 'only', ['id', 'a', 'k'])],
    [('agg', [(None, ('count', None))], [(None, col('s'))])],
    # intermediate tables whose groups MOVE or DISAPPEAR as more input arrives: nothing of an earlier refresh may survive
    [('agg', [('hits', ('count', None))], [(None, col('k'))]), ('agg', [('users', ('count', None)), ('total', ('sum', col('hits')))], [(None, col('hits'))])],
    [('agg', [(None, ('count', None))], [(None, col('k'))]), ('agg', [('n', ('count', None))], [(None, col('_count'))])],
    [('agg', [(None, ('count', None))], [(None, col('k'))]), ('where', ('cmp', 'lt', col('_count'), lit(2)))],
    [('agg', [('lat', ('avg', col('a')))], [(None, col('k'))]), ('where', ('cmp', 'gt', col('lat'), lit(3))), ('limit', 5)],
]
MOVING = QUERIES[-4:]
# chains of aggregations (with a filter in between) whose second-level groups come and go between refreshes
CHAINED = MOVING[:2] + [
    [('agg', [(None, ('count', None))], [(None, col('k')), (None, col('g'))]), ('where', ('cmp', 'lt', col('_count'), lit(3))), ('agg', [('rare', ('count', None))], [(None, col('k'))])],
    [('agg', [(None, ('count', None))], [(None, col('k'))]), ('where', ('cmp', 'lt', col('_count'), lit(2))), ('agg', [('singles', ('count', None)), (None, ('max', col('_count')))], [])],
    [('agg', [('hits', ('count', None))], [(None, col('k')), (None, col('s'))]), ('agg', [('m', ('max', col('hits')))], [(None, col('k'))]), ('agg', [('n', ('count', None))], [(None, col('m'))])],
]


def norm(line):
    line = re.sub(r' +', ' ', line).strip()
    if line and set(line) == {'-'}:
        return '-'          # the separator is as long as the (padding dependent) header
    return line


def expected_lines(query, data, h, mode=None):
    o = aglib.run_impl_one(query, data, mode)
    text = o['out'].decode('utf8', 'replace')
    lines = [norm(l) for l in text.split('\n')]
    while lines and lines[-1] == '':
        lines.pop()
    return lines[:h - 1], o


def explore(ctx):
    quick = ctx['tier'] == 'quick'
    res = run_live(ctx, QUERIES, 56 if quick else 700)
    res['known_lines'] = known_histories(ctx, res['failures'])
    return res


def known_histories(ctx, failures):
    """KF-34 and KF-36 are histories on a terminal: replayed here; still present -> a KNOWN-FINDING line, and a violation
    if the class is not listed in known_findings.json"""
    lines = []
    known = ctx.get('known_classes', ())
    # KF-34: a frame line wider than the terminal (-o json) leaves its wrapped rows behind
    keys = ['key-%02d-xxxxx' % i for i in range(6)]
    b1 = b''.join(json.dumps({'k': k}).encode() + b'\n' for k in keys[:3])
    b2 = b''.join(json.dumps({'k': k}).encode() + b'\n' for k in keys)
    o = ptydrive.run_pty('* | json | count by k', [(b1, 0.3), (b2, 0.3)], 24, 40, mode='json')
    scr = ptydrive.emulate_many([(24, 40, o['out'])])[0]
    text = ''.join(l.rstrip() for l in (scr['lines'] if scr else []))
    want = aglib.run_impl_one('* | json | count by k', b1 + b2, 'json')['out'].decode('utf8', 'replace').strip()
    if scr is not None and text != want:
        if 'frame_line_wider_than_terminal' in known:
            lines.append('KF-34 a live frame with a line wider than the terminal (-o json: the whole table is one line) wraps, and the erase sequence, '
                         'which counts newlines, leaves its upper rows on the screen [history: -o json, 24x40 terminal, count by k over 6 keys in two bursts: '
                         'final screen holds %d characters, the final table %d]' % (len(text), len(want)))
        else:
            failures.append({'kind': 'spec', 'what': '-o json on a 24x40 terminal: the final screen is not the final table (residue of wrapped frames)',
                             'payload': {'query': '* | json | count by k', 'output_mode': 'json', 'terminal': [24, 40], 'screen': scr['lines']}})
    # KF-36: stderr on the same terminal
    o = ptydrive.run_pty('* | json | count by k', [(b'{"k":"a"}\n', 0.3), (b'not json\n', 0.3), (b'{"k":"b"}\n', 0.3)], 24, 80, stderr_to_pty=True)
    scr = ptydrive.emulate_many([(24, 80, o['out'])])[0]
    got = [norm(l) for l in (scr['lines'] if scr else [])]
    while got and got[-1] == '':
        got.pop()
    want2, _ = expected_lines('* | json | count by k', b'{"k":"a"}\n{"k":"b"}\n', 24)
    tbl = [l for l in got if not l.startswith('error:')]
    if scr is not None and tbl != want2:
        if 'stderr_shares_the_terminal' in known:
            lines.append('KF-36 an `error:` line written to stderr on the same terminal moves the cursor: the next refresh erases from the wrong row and a stale '
                         'table line stays [history: count by k on a 24x80 terminal, a non-JSON line between two bursts: screen %r]' % (got[:6],))
        else:
            failures.append({'kind': 'spec', 'what': 'stderr on the same terminal: the final screen shows %r, the final table is %r' % (got[:6], want2),
                             'payload': {'query': '* | json | count by k', 'terminal': [24, 80], 'screen': scr['lines']}})
    return lines


def run_live(ctx, queries, n):
    """drive the real binary on ptys with timed bursts; final and idle-checkpoint screens (through the extracted
    terminal model) must equal the non-terminal output for the same input"""
    rng = ctx['rng']
    quick = ctx['tier'] == 'quick'
    failures = []
    jobs = []
    for i in range(n):
        stages = [('json', None)] + queries[i % len(queries)]
        nrows = rng.randint(0, 40)
        rows = gen.gen_rows(rng, nrows, rich=False)
        for r in rows:
            r['k'] = rng.choice(['a', 'b', 'c', 'dd', 'e'])
            r['s'] = rng.choice(['x', 'yy', 'zzz'])
        lines = [gen.jtext(r).encode('utf8') for r in rows]
        h = rng.choice([1, 2, 3, 4, 5, 8, 12, 24, 40])
        w = rng.choice([60, 80, 120, 200])
        # split the input into timed bursts: 0..k refreshes between rows, an idle gap before the first row sometimes
        sched = []
        if rng.random() < 0.4:
            sched.append((b'', rng.choice([0.06, 0.12, 0.2])))
        pos = 0
        while pos < len(lines):
            k = rng.choice([1, 1, 2, 5, 10, 40])
            sched.append((b''.join(lines[pos:pos + k]), rng.choice([0, 0, 0.01, 0.06, 0.13])))
            pos += k
        # an idle checkpoint in the middle: the display must have caught up with everything received so far
        cp = None
        if len(sched) >= 2 and rng.random() < 0.7:
            cp = rng.randrange(0, len(sched) - 1)
            sched[cp] = (sched[cp][0], 0.6)
        c = Case('p%d' % i, STAR, stages, [l.decode('utf8') for l in lines])
        # one run in five in a machine-readable mode: until input ends the screen shows a one-line placeholder, then
        # exactly the rows a non-terminal run prints (no residue of the placeholders); no catch-up checkpoint there
        c.omode = rng.choice(['logfmt', 'format={k} {_count} {n}']) if rng.random() < 0.2 and h >= 12 else None
        if c.omode:
            cp = None
        jobs.append((c, sched, h, w, cp))
    # a post-aggregate `where` that first passes rows and later passes NONE: the table must shrink to `No data`
    for i in range(4 if n < 100 else 30):
        stages = [('json', None), ('agg', [('lat', ('avg', col('a')))], [(None, col('k'))]), ('where', ('cmp', 'gt', col('lat'), lit(3)))] \
                 + rng.choice([[], [('limit', 5)], [('fields', 'only', ['k'])], [('total', col('lat'), None)]])
        ks = rng.sample(['a', 'b', 'c', 'dd'], rng.randint(1, 3))
        first = [json.dumps({'id': j, 'k': k, 'a': 9}).encode() + b'\n' for j, k in enumerate(ks)]
        later = [json.dumps({'id': 100 + j, 'k': k, 'a': 0}).encode() + b'\n' for j, k in enumerate(ks * 6)]
        sched = [(b''.join(first), rng.choice([0.15, 0.3])), (b''.join(later), 0.0)]
        c = Case('e%d' % i, STAR, stages, [l.decode('utf8') for l in first + later])
        c.omode = None
        jobs.append((c, sched, rng.choice([8, 24]), rng.choice([80, 120]), None))

    # a wide value that is on screen at an early refresh and has dropped out of the table at the end (top-N, where):
    # the final table is laid out for the rows it shows -- the cells that fit are shown in full
    for i in range(4 if n < 100 else 30):
        tail = rng.choice([[('sort', [col('_count')], 'desc'), ('limit', 1)], [('where', ('cmp', 'gt', col('_count'), lit(3)))], [('limit', 1)]])
        stages = [('json', None), ('agg', [(None, ('count', None))], [(None, col('a')), (None, col('b'))])] + tail
        wide = rng.choice([90, 120, 200])
        first = [json.dumps({'id': j, 'a': 'L' * wide, 'b': 's'}).encode() + b'\n' for j in range(3)]
        mlen = rng.choice([30, 40])
        later = [json.dumps({'id': 10 + j, 'a': 't', 'b': 'M' * mlen}).encode() + b'\n' for j in range(5)]
        sched = [(b''.join(first), rng.choice([0.3, 0.6])), (b''.join(later), 0.0)]
        c = Case('w%d' % i, STAR, stages, [l.decode('utf8') for l in first + later])
        c.omode = None
        jobs.append((c, sched, 24, rng.choice([80, 100]), None))

    # second-level groups that come and go between refreshes, on a fixed schedule with generous gaps (does not depend on
    # the random bursts): hits per key 1,1 -> 3,1 -> 3,3, so the group `hits = 1` exists at two refreshes and is gone at the end
    for i in range(2 if n < 100 else 8):
        names = rng.sample(['a', 'b', 'c', 'dd', 'e'], 2)
        stages = [('json', None), ('agg', [('hits', ('count', None))], [(None, col('k'))]), ('agg', [('users', ('count', None))], [(None, col('hits'))])] \
                 + rng.choice([[], [('sort', [col('hits')], 'asc')]])
        mk = lambda j, k: json.dumps({'id': j, 'k': k}).encode() + b'\n'
        first = [mk(0, names[0]), mk(1, names[1])]
        second = [mk(2, names[0]), mk(3, names[0])]
        third = [mk(4, names[1]), mk(5, names[1])]
        gap = rng.choice([0.3, 0.45])
        sched = [(b''.join(first), gap), (b''.join(second), gap), (b''.join(third), 0.0)]
        c = Case('g%d' % i, STAR, stages, [l.decode('utf8') for l in first + second + third])
        c.omode = None
        jobs.append((c, sched, 24, 80, None))

    # machine-readable modes with input that goes IDLE before it ends (a refresh lands between the last row and end of
    # input): the placeholder must still be replaced by the rows - fixed schedules, not left to the random bursts
    for i, om in enumerate(['logfmt', 'format={k} {_count}']):
        stages = [('json', None), ('agg', [(None, ('count', None))], [(None, col('k'))])]
        mk = lambda j, k: json.dumps({'id': j, 'k': k}).encode() + b'\n'
        part1 = [mk(0, 'a'), mk(1, 'b'), mk(2, 'a')]
        part2 = [mk(3, 'c')]
        sched = [(b''.join(part1), 0.15), (b''.join(part2), rng.choice([0.3, 0.4]))]
        c = Case('m%d' % i, STAR, stages, [l.decode('utf8') for l in part1 + part2])
        c.omode = om
        jobs.append((c, sched, 24, 80, None))

    def run(job):
        c, sched, h, w, cp = job
        return ptydrive.run_pty(c.query, sched, h, w, mode=c.omode, checkpoints=(cp,) if cp is not None else ())
    with ThreadPoolExecutor(8) as ex:
        outs = list(ex.map(run, jobs))
    items = []
    index = []
    for j, (job, o) in enumerate(zip(jobs, outs)):
        c, sched, h, w, cp = job
        items.append((h, w, o['out']))
        index.append((j, 'final'))
        if o['snaps']:
            items.append((h, w, o['snaps'][0]))
            index.append((j, 'snap'))
    screens = ptydrive.emulate_many(items)
    nontrivial = set()
    frames_seen = 0
    for (j, kind), scr in zip(index, screens):
        c, sched, h, w, cp = jobs[j]
        o = outs[j]
        if scr is None:
            failures.append({'kind': 'corr', 'what': 'terminal emulator rejected the byte stream', 'payload': {'query': c.query}})
            continue
        if o['rc'] != 0 or b'panicked' in o['err']:
            failures.append({'kind': 'spec', 'what': 'tty run failed rc=%s' % o['rc'], 'payload': {'query': c.query, 'stderr': o['err'].decode('utf8', 'replace')[-300:]}})
            continue
        if kind == 'final':
            data = b''.join(s[0] for s in sched)
        else:
            data = b''.join(s[0] for s in sched[:cp + 1])
        want, nontty = expected_lines(c.query, data, h, c.omode)
        if c.omode:
            want = [norm(l) for l in (x.strip() for x in nontty['out'].decode('utf8', 'replace').split('\n')) if l]
            if len(want) > h - 1:
                continue            # these modes print every row: a result taller than the screen scrolls (nothing to compare)
        got = [norm(l) for l in scr['lines']]
        while got and got[-1] == '':
            got.pop()
        nframes = o['out'].count(b'\x1b[2K\x1b[1A') and len(re.findall(rb'(?:\x1b\[2K\x1b\[1A)+\x1b\[2K', o['out'])) + 1 or 1
        frames_seen += nframes if kind == 'final' else 0
        if scr['other']:
            failures.append({'kind': 'spec', 'what': 'the byte stream contains control sequences outside ESC[2K / ESC[1A / CR / LF', 'payload': {'query': c.query}})
        if got != want and kind == 'snap':
            # a busy machine is not a stalled display: the same schedule once more, alone, with 2.5 s of idleness
            sched2 = list(sched)
            sched2[cp] = (sched2[cp][0], 2.5)
            o2 = ptydrive.run_pty(c.query, sched2, h, w, mode=c.omode, checkpoints=(cp,))
            scr2 = ptydrive.emulate_many([(h, w, o2['snaps'][0])])[0] if o2['snaps'] else None
            if scr2 is not None:
                got2 = [norm(l) for l in scr2['lines']]
                while got2 and got2[-1] == '':
                    got2.pop()
                if got2 == want:
                    continue
        if got != want:
            what = ('once input ended the screen does not show exactly the final table' if kind == 'final'
                    else 'after 0.6 s of idle input the display has not caught up with the rows received so far')
            failures.append({'kind': 'spec', 'what': what + ': screen %r, expected %r' % (got[:8], want[:8]),
                             'payload': {'query': c.query, 'output_mode': c.omode, 'terminal': [h, w], 'schedule': [(s[0].decode('utf8', 'replace'), s[1]) for s in sched],
                                         'checkpoint_after_burst': cp, 'which': kind, 'screen': scr['lines'], 'expected_lines': want,
                                         'raw_bytes': o['out'][-2000:].decode('utf8', 'replace')}})
        if kind == 'final':
            if c.omode is None and (b'\x1b' in nontty['out'] or sum(1 for l in nontty['out'].split(b'\n') if l and set(l) == {ord('-')}) > 1):
                failures.append({'kind': 'spec', 'what': 'non-terminal run printed control sequences or more than one table', 'payload': {'query': c.query}})
            if nframes >= 3:
                nontrivial.add(c.query + '\0' + str(sched))
    # correspondence with the render-loop model (Render_loop.v, C16_render_loop_shape): every frame drawn before the final
    # one is the table of a PREFIX of the input lines, and the prefixes only grow
    loop_checked = 0
    for j, (job, o) in enumerate(zip(jobs, outs)):
        c, sched, h, w, cp = job
        if loop_checked >= (4 if n < 100 else 40):
            break
        if c.omode or o['rc'] != 0 or not (2 <= len(c.lines) <= 25) or h < 12:
            continue
        chunks = re.split(rb'(?:\x1b\[2K\x1b\[1A)*\x1b\[2K', o['out'])
        frames = []
        for ch in chunks:
            ls = [norm(l) for l in ch.decode('utf8', 'replace').replace('\r', '').split('\n')]
            while ls and ls[-1] == '':
                ls.pop()
            if ls:
                frames.append(ls)
        if len(frames) < 2:
            continue
        loop_checked += 1
        data_lines = [l.encode('utf8') for l in c.lines]
        tables = []
        too_wide = False
        for k in range(len(data_lines) + 1):
            wl, _o = expected_lines(c.query, b''.join(data_lines[:k]), h, None)
            tables.append(wl)
            # the non-terminal table is laid out for 240 columns: comparable only while it also fits the terminal
            if any(len(l) > w for l in _o['out'].decode('utf8', 'replace').split('\n')):
                too_wide = True
        if too_wide:
            loop_checked -= 1
            continue
        pos = 0
        for fi, fr in enumerate(frames):
            ks = [k for k in range(pos, len(tables)) if tables[k] == fr]
            if not ks:
                failures.append({'kind': 'corr', 'what': 'frame %d of %d on the terminal is not the table of any prefix (>= %d lines) of the input: %r' % (fi, len(frames), pos, fr[:6]),
                                 'payload': {'query': c.query, 'input_lines': c.lines, 'terminal': [h, w], 'schedule': [(s_[0].decode('utf8', 'replace'), s_[1]) for s_ in sched], 'frame': fr}})
                break
            pos = ks[0]
    cov = {
        'render_loop_frames_checked': loop_checked,
        'evaluations': len(items), 'distinct_nontrivial': len(nontrivial),
        'rule': 'aggregate pipelines (incl. aggregate-of-aggregate, post-aggregate where/limit/total/sort, sort of records) on a pty of 1..40 rows x 60..200 columns, input split into timed bursts '
                '(0..several refresh periods between bursts, idle gap before the first row, one 0.6 s idle checkpoint); one run in five with -o logfmt / -o format= (placeholder frames, then the rows); the captured bytes are replayed through the extracted terminal model; '
                'final screen and checkpoint screen compared with the table a non-terminal run prints (modulo padding, clipped to height-1); non-trivial = >= 3 frames drawn',
        'samples': [{'query': jobs[0][0].query, 'terminal': [jobs[0][2], jobs[0][3]], 'bursts': len(jobs[0][1])}],
        'pty_runs': len(jobs), 'frames_drawn_total': frames_seen, 'checkpoints': sum(1 for x in index if x[1] == 'snap'),
    }
    return {'coverage': cov, 'failures': failures}
