"""C09 — sorting returns an ordered permutation under one total value order."""
import functools

import aglib
import gen
import qast
from props.common import *
from props import aggoracle

TRUSTED_BASE = ['an independent Python implementation of the documented value order (None < bool < numbers < strings < arrays < objects, missing key last) checks the implementation\'s own output for plain-column sort keys']
ASSUMPTIONS = ['dates and durations do not occur as sort keys in the generated tables (parseDate is outside the model)']

MISSING = ('__missing__',)


def rank(v):
    if v is None:
        return 0
    if isinstance(v, bool):
        return 1
    if isinstance(v, (int, aglib.F)):
        return 2
    if isinstance(v, str):
        return 3
    if isinstance(v, list):
        return 6
    if isinstance(v, dict):
        return 7
    raise TypeError(v)


def num(v):
    return float(v) if isinstance(v, int) else qast.bits2f(v.bits)


def vcmp(a, b):
    """the documented total order; ints and floats by numeric value (generated data keeps them within 2^53 when mixed)"""
    ra, rb = rank(a), rank(b)
    if ra != rb:
        return -1 if ra < rb else 1
    if ra in (0,):
        return 0
    if ra == 1:
        return (a > b) - (a < b)
    if ra == 2:
        if isinstance(a, int) and isinstance(b, int):
            return (a > b) - (a < b)
        x, y = num(a), num(b)
        if x != x or y != y:
            return 0 if (x != x and y != y) else (1 if x != x else -1)
        return (x > y) - (x < y)
    if ra == 3:
        return (a > b) - (a < b)
    if ra == 6:
        for x, y in zip(a, b):
            c = vcmp(x, y)
            if c:
                return c
        return (len(a) > len(b)) - (len(a) < len(b))
    if ra == 7:
        ia, ib = sorted(a.items()), sorted(b.items())
        for (k1, v1), (k2, v2) in zip(ia, ib):
            if k1 != k2:
                return -1 if k1 < k2 else 1
            c = vcmp(v1, v2)
            if c:
                return c
        return (len(ia) > len(ib)) - (len(ia) < len(ib))


def key_cmp(a, b):
    if a is MISSING or b is MISSING:
        return 0 if (a is MISSING and b is MISSING) else (1 if a is MISSING else -1)
    return vcmp(a, b)


def explore(ctx):
    rng = ctx['rng']
    quick = ctx['tier'] == 'quick'
    n = 700 if quick else 15000
    cases = corpus_cases('C09')
    meta = {}
    for i in range(n):
        nrows = rng.randint(0, 25)
        rows = []
        for j in range(nrows):
            r = {'id': j}
            for c in ('x', 'y', 'z'):
                if rng.random() < 0.88:
                    r[c] = rng.choice([None, True, False, 0, 1, 1, 2, -1, 2**53, -2**53, 0.5, 1.5, -0.5, 1e300, 2.0, '', 'a', 'b', 'B', 'ab', 'é', '10', '9',
                                       [1], [1, 2], [0, 'a'], [], {'p': 1}, {'p': 2}, {'q': 0}, rng.randint(-3, 3), rng.choice(['a', 'b', 'c'])])
            rows.append(r)
        keys = rng.sample(['x', 'y', 'z', 'nope'], rng.randint(1, 3))
        if rng.random() < 0.08:
            keys = []              # `sort` / `sort desc` without keys: all columns, in the direction written
        direction = rng.choice([None, 'asc', 'desc', 'desc'])
        stages = [('json', None), ('sort', [col(k) for k in keys], direction)]
        lines = [gen.jtext(r) for r in rows]
        c = Case('s%d' % i, STAR, stages, lines, {'sort'})
        meta[c.cid] = (rows, keys, direction == 'desc')
        cases.append(c)
        # metamorphic: the same rows shuffled must give the same output (ties broken by the remaining columns; ids are unique)
        sh = list(lines)
        rng.shuffle(sh)
        c2 = Case('s%d-shuf' % i, STAR, stages, sh, {'shuffle'})
        meta[c2.cid] = (rows, keys, direction == 'desc')
        cases.append(c2)
    # implicit sort after an aggregation
    for i in range(n // 3):
        rows = gen.gen_rows(rng, rng.randint(0, 25), rich=False)
        st = gen.agg_stage(rng)
        if not st[1]:
            continue
        tail = [] if rng.random() < 0.6 else [('limit', rng.choice([1, 2, 3, -1, -2, None]))]
        cases.append(Case('a%d' % i, STAR, [('json', None), st] + tail, [gen.jtext(r) for r in rows], {'implicit'}, note={'stage': st, 'limited': bool(tail)}))
    # ... grouped by a time slice: then the implicit sort is ascending by _timeslice first, wherever it stands among the keys
    for i in range(n // 6):
        rows = gen.gen_rows(rng, rng.randint(3, 25), rich=False)
        for r in rows:
            r['ts'] = gen.gen_ts(rng)
        other = rng.choice(['k', 'g', 'flag'])
        keys = rng.choice([[col('_timeslice')], [col(other), col('_timeslice')], [col('_timeslice'), col(other)]])
        if rng.random() < 0.3:
            # the key written with redundant parentheses: the column is then NAMED `(_timeslice)`, and still is the time axis
            keys = [('paren', e) if e[1] == '_timeslice' else e for e in keys]
        st = ('agg', [(None, ('count', None))] + ([(None, ('sum', col('a')))] if rng.random() < 0.5 else []), [(None, e) for e in keys])
        tail = [] if rng.random() < 0.7 else [('limit', rng.choice([2, 5, None]))]
        cases.append(Case('ts%d' % i, STAR, [('json', None), ('timeslice', ('call', 'parseDate', [col('ts')]), rng.choice([3600, 60, 86400]) * 10**9, None), st] + tail,
                          [gen.jtext(r) for r in rows], {'timesliced'}, note={'limited': bool(tail)}))
    # computed keys, several directions: against the model only
    for i in range(n // 3):
        rows = gen.gen_rows(rng, rng.randint(0, 20))
        cases.append(Case('e%d' % i, STAR, [('json', None), gen.sort_stage(rng)], [gen.jtext(r, rng) for r in rows], {'expr'}))
    results = run_cases(cases)
    by_id = {r['case'].cid: r for r in results}
    failures = []
    nontrivial = set()
    for r in results:
        c = r['case']
        impl = r['impl']
        spec = None
        if impl['kind'] != 'table':
            spec = 'sort did not produce a table: %s' % impl['kind']
        elif c.cid in meta:
            rows, keys, desc = meta[c.cid]
            out = impl['rows']
            # permutation: the ids are exactly the input ids, every cell as in the input
            want = {row['id']: {k: aggoracle.canon_in(v) for k, v in row.items()} for row in rows}
            got_ids = [o.get('id') for o in out]
            if sorted(got_ids) != sorted(want):
                spec = 'output rows are not a permutation of the input rows: ids %r' % (got_ids[:20],)
            else:
                for o in out:
                    w = want[o['id']]
                    if any(not aglib.same(o.get(k), w.get(k)) for k in set(o) | set(w)):
                        spec = 'row %r changed while sorting: %r' % (o['id'], o)
                        break
            if spec is None:
                def kv(o):
                    w = want[o['id']]
                    if not keys:
                        return [w['id']]          # no keys: ordered by all columns, of which the unique `id` comes first
                    return [w.get(k, MISSING) if k in w else MISSING for k in keys]
                for a, b in zip(out, out[1:]):
                    ka, kb = kv(a), kv(b)
                    cmpv = 0
                    for x, y in zip(ka, kb):
                        cmpv = key_cmp(x, y)
                        if cmpv:
                            break
                    if desc:
                        cmpv = -cmpv
                    if cmpv > 0:
                        spec = 'adjacent rows out of order under the documented value order: keys %r then %r (%s)' % (ka, kb, 'desc' if desc else 'asc')
                        break
            if spec is None and 'shuffle' in c.tags:
                base = by_id[c.cid[:-5]]
                if base['impl']['kind'] == 'table' and [aglib.canon_key(x) for x in base['impl']['rows']] != [aglib.canon_key(x) for x in out]:
                    spec = 'the same rows in a different arrival order were sorted differently (tie-break not deterministic)'
            if keys and len(rows) >= 5 and len({aglib.canon_key(aggoracle.canon_in(row.get(keys[0]))) for row in rows}) < len(rows):
                nontrivial.add(c.query + '\0' + c.inp.decode('utf8', 'replace'))
        elif 'timesliced' in c.tags and impl['kind'] == 'table' and impl['rows']:
            tsl = [str(r0.get('_timeslice', r0.get('(_timeslice)'))) for r0 in impl['rows']]
            if tsl != sorted(tsl):
                spec = 'an aggregation grouped by _timeslice is not ordered by time: %r' % tsl[:6]
        elif 'implicit' in c.tags and not c.note['limited'] and impl['rows']:
            st = c.note['stage']
            aggcols = [(nm if nm is not None else qast.fn_default_name(fn)) for nm, fn in st[1]]
            for a, b in zip(impl['rows'], impl['rows'][1:]):
                cmpv = 0
                for k in aggcols:
                    x, y = a.get(k), b.get(k)
                    if isinstance(x, dict) or isinstance(y, dict) or x is None or y is None:
                        # a null cell may be a NaN average (the greatest number) or None: not decidable from the JSON
                        cmpv = 0
                        break
                    cmpv = vcmp(x, y)
                    if cmpv:
                        break
                if cmpv < 0:
                    spec = 'aggregate result not in descending order of its aggregate columns: %r then %r' % (a, b)
                    break
        if spec:
            failures.append({'kind': 'spec', 'what': spec, 'payload': payload(r)})
        elif r['corr']:
            failures.append({'kind': 'corr', 'what': r['corr'], 'payload': payload(r)})
    kinds = {}
    for r in results:
        kinds[r['model']['kind']] = kinds.get(r['model']['kind'], 0) + 1
    tags = {}
    for c in cases:
        for t in c.tags:
            tags[t] = tags.get(t, 0) + 1
    cov = {
        'evaluations': len(cases), 'distinct_nontrivial': len(nontrivial),
        'rule': 'record streams of 0..25 rows with mixed-type cells (null, bools, ints incl. +-2^53, floats, strings, arrays, objects, missing) sorted by 0..3 plain keys (no key = all columns) '
                '(incl. a missing column) in either direction, each also with the input shuffled; aggregations with their implicit sort (with and without limit); '
                'computed keys against the model; non-trivial = >=5 rows with a tie on the first key',
        'samples': samples_of([c for c in cases if 'sort' in c.tags][4:7]),
        'case_kinds': tags, 'model_outcomes': kinds, 'unmodelled': kinds.get('unm', 0),
        'model_vs_impl_disagreements': sum(1 for r in results if r['corr']),
    }
    return {'coverage': cov, 'failures': failures}
