"""C10 — limit keeps exactly the first or the last N rows."""
import itertools

import aglib
from props.common import *

TRUSTED_BASE = ['crossbeam bounded channel and the renderer thread are outside the model (rows are compared after the whole run)']
ASSUMPTIONS = ['rows are identified by an "id" field; the spec side is computed by Python slicing of the input order']


def rows(n, rng):
    return [{'id': i, 'v': rng.randint(0, 5), 'k': 'abc'[rng.randint(0, 2)]} for i in range(n)]


def expected_limit(seq, n):
    if n is None:
        n = 10
    return seq[:n] if n > 0 else seq[len(seq) + n:] if -n <= len(seq) else seq


def gen(ctx):
    rng = ctx['rng']
    quick = ctx['tier'] == 'quick'
    maxlen = 7 if quick else 12
    cases = []
    k = 0
    for ln in range(0, maxlen + 1):
        data = rows(ln, rng)
        lines = [jline(r) for r in data]
        for n in [x for x in range(-ln - 2, ln + 3) if x != 0]:
            nontriv = abs(abs(n) - ln) <= 2
            base_tags = {'nt'} if nontriv else set()
            # position: first (before the parser)
            cases.append(Case('first-%d-%d' % (ln, n), STAR, [('limit', n), ('json', None)], lines,
                              base_tags | {'first'}, note={'expect_ids': [r['id'] for r in expected_limit(data, n)]}))
            # after the parser
            cases.append(Case('afterparse-%d-%d' % (ln, n), STAR, [('json', None), ('limit', n)], lines,
                              base_tags | {'afterparse'}, note={'expect_ids': [r['id'] for r in expected_limit(data, n)]}))
            # after a filter + where
            keep = [r for r in data if r['v'] >= 2]
            cases.append(Case('afterwhere-%d-%d' % (ln, n), STAR,
                              [('json', None), ('where', ('cmp', 'gte', col('v'), lit(2))), ('limit', n)], lines,
                              base_tags | {'afterwhere'}, note={'expect_ids': [r['id'] for r in expected_limit(keep, n)]}))
            # after a sort (stable order fixed by id tie-break: sort by v then all columns)
            srt = sorted(data, key=lambda r: (r['v'], r['id']))
            cases.append(Case('aftersort-%d-%d' % (ln, n), STAR,
                              [('json', None), ('fields', 'only', ['id', 'v']), ('sort', [col('v')], None), ('limit', n)], lines,
                              base_tags | {'aftersort', 'table'}, note={'expect_ids': [r['id'] for r in expected_limit(srt, n)]}))
            # limit followed by a stateful operator (tail rows drain through it)
            if ln <= 6 or not quick:
                cases.append(Case('thentotal-%d-%d' % (ln, n), STAR,
                                  [('json', None), ('limit', n), ('total', col('v'), None)], lines,
                                  base_tags | {'thentotal'}, note={'expect_ids': [r['id'] for r in expected_limit(data, n)]}))
        # after an aggregate: count by k, implicit sort, limit
        for n in (1, 2, -1, -2, 5, -5, None):
            cases.append(Case('afteragg-%d-%s' % (ln, n), STAR,
                              [('json', None), ('agg', [(None, ('count', None))], [(None, col('k'))]), ('limit', n)],
                              lines, {'afteragg', 'table', 'nt'}))
    # chained limits, all sign combinations
    chain_len = 6 if quick else 9
    for ln in range(0, chain_len + 1):
        data = rows(ln, rng)
        lines = [jline(r) for r in data]
        span = [x for x in range(-ln - 1, ln + 2) if x != 0]
        for a, b in itertools.product(span, span):
            exp = expected_limit(expected_limit(data, a), b)
            cases.append(Case('chain-%d-%d-%d' % (ln, a, b), STAR, [('json', None), ('limit', a), ('limit', b)], lines,
                              {'chain', 'nt'}, note={'expect_ids': [r['id'] for r in exp]}))
    # a tail limit followed by TWO further row operators (its rows are released at end of input and must still pass the
    # later operators in the order written)
    for ln in (5, 8):
        data = rows(ln, rng)
        lines = [jline(r) for r in data]
        for a, b, c in itertools.product((-4, -3), (1, 2, 3, -2), (-1, 1, 2)):
            exp = expected_limit(expected_limit(expected_limit(data, a), b), c)
            cases.append(Case('tail3-%d-%d-%d-%d' % (ln, a, b, c), STAR, [('json', None), ('limit', a), ('limit', b), ('limit', c)], lines,
                              {'chain', 'nt'}, note={'expect_ids': [r['id'] for r in exp]}))
        for a, x, c in itertools.product((-4, -3), (0, 2), (1, -1, 2)):
            kept = [r for r in expected_limit(data, a) if r['id'] > data[0]['id'] + x]
            exp = expected_limit(kept, c)
            cases.append(Case('tailw-%d-%d-%d-%d' % (ln, a, x, c), STAR,
                              [('json', None), ('limit', a), ('where', ('cmp', 'gt', col('id'), lit(data[0]['id'] + x))), ('limit', c)], lines,
                              {'chain', 'nt'}, note={'expect_ids': [r['id'] for r in exp]}))
    if not quick:
        for ln in range(0, 6):
            data = rows(ln, rng)
            lines = [jline(r) for r in data]
            span = [x for x in range(-ln - 1, ln + 2) if x != 0]
            for a, b, c in itertools.product(span, span, span):
                exp = expected_limit(expected_limit(expected_limit(data, a), b), c)
                cases.append(Case('chain3-%d-%d-%d-%d' % (ln, a, b, c), STAR,
                                  [('json', None), ('limit', a), ('limit', b), ('limit', c)], lines,
                                  {'chain', 'nt'}, note={'expect_ids': [r['id'] for r in exp]}))
    # far beyond N and beyond the channel capacity (1000)
    for ln in ((2500,) if quick else (2500, 20000)):
        data = rows(ln, rng)
        lines = [jline(r) for r in data]
        for n in (3, -3, 1500, -1500, None, ln, -ln, ln + 1, -ln - 1):
            cases.append(Case('long-%d-%s' % (ln, n), STAR, [('json', None), ('limit', n)], lines, {'long', 'nt'},
                              note={'expect_ids': [r['id'] for r in expected_limit(data, n)]}))
    # bare limit == limit 10
    for ln in (0, 9, 10, 11, 25):
        data = rows(ln, rng)
        cases.append(Case('bare-%d' % ln, STAR, [('json', None), ('limit', None)], [jline(r) for r in data], {'bare', 'nt'},
                          note={'expect_ids': [r['id'] for r in expected_limit(data, 10)]}))
    return cases


STATIC_REJECT = ['limit 0', 'limit 0.0', 'limit -0', 'limit 1.5', 'limit -2.5', 'limit 0.5', 'limit 1e-3',
                 'limit 10.000001', 'count | limit 0', 'sort by x | limit 0.25']
STATIC_ACCEPT = ['limit 1', 'limit -1', 'limit 1e2', 'limit 10.0', 'limit -99999999999999999999',
                 'limit 99999999999999999999', 'limit -999999999999999999', 'limit -99999999999999']


def explore(ctx):
    cases = corpus_cases('C10') + gen(ctx)
    results = run_cases(cases)
    failures = []
    nontrivial = set()
    for r in results:
        c = r['case']
        impl = r['impl']
        # executable spec on the implementation's own output
        spec = None
        if impl['kind'] in ('crash', 'hang', 'reject', 'garbled'):
            spec = 'accepted limit query did not run cleanly: %s' % impl['kind']
        elif c.note and 'expect_ids' in c.note:
            got = [row.get('id') for row in impl['rows']]
            if got != c.note['expect_ids']:
                spec = 'rows kept by limit: got ids %r, expected %r' % (got[:20], c.note['expect_ids'][:20])
        if spec:
            failures.append({'kind': 'spec', 'what': spec, 'payload': payload(r)})
        elif r['corr']:
            failures.append({'kind': 'corr', 'what': r['corr'], 'payload': payload(r)})
        if 'nt' in c.tags:
            nontrivial.add(c.query + '\0' + str(len(c.lines)))
    # static checks through the real binary
    jobs = [('* | json | ' + q, b'{"x":1}\n', 'json', ()) for q in STATIC_REJECT + STATIC_ACCEPT]
    outs = aglib.run_impl_many(jobs)
    for (q, _i, _m, _e), o in zip(jobs, outs):
        bad = None
        if q[len('* | json | '):] in STATIC_REJECT:
            if o['rc'] in (0, None) or o['out'] != b'' or b'panicked' in o['err'] or o['err'] == b'':
                bad = 'zero/fractional limit not rejected cleanly (rc=%s stdout=%r)' % (o['rc'], o['out'][:80])
        else:
            if o['rc'] != 0 or b'panicked' in o['err']:
                bad = 'valid limit rejected or crashed (rc=%s stderr=%r)' % (o['rc'], o['err'][-200:])
        if bad:
            failures.append({'kind': 'spec', 'what': bad, 'payload': {'query': q, 'input_lines': ['{"x":1}\n'], 'rc': o['rc'],
                                                                     'stderr': o['err'].decode('utf8', 'replace')[-500:]}})
    unm = sum(1 for r in results if r['model']['kind'] in ('unm', 'driver-error', 'bad-case'))
    tags = {}
    for c in cases:
        for t in c.tags:
            tags[t] = tags.get(t, 0) + 1
    cov = {
        'evaluations': len(cases) + len(jobs),
        'distinct_nontrivial': len(nontrivial),
        'rule': 'exhaustive small scope: stream lengths 0..%d x N in [-len-2, len+2]\\{0} x positions '
                '{first, after parser, after where, after sort, before total, after aggregate}, all chained pairs '
                '(thorough: triples) of limits, streams of 2500+ rows; non-trivial = |N| within 2 of the stream '
                'length, chained, after an aggregate, or long' % (7 if ctx['tier'] == 'quick' else 12),
        'exhaustive': True,
        'samples': samples_of([c for c in cases if 'chain' in c.tags][40:43] + [c for c in cases if 'aftersort' in c.tags][30:32]),
        'distribution': tags,
        'unmodelled': unm,
        'static_cases': len(jobs),
        'model_vs_impl_disagreements': sum(1 for r in results if r['corr']),
    }
    return {'coverage': cov, 'failures': failures}
