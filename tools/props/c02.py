"""C02 — filters select exactly the matching lines."""
import re

import aglib
import gen
import qast
from props.common import *
from props import pyref

TRUSTED_BASE = ['keyword matching is checked against Python\'s re: a bare keyword is caseless with * as a wildcard, a quoted keyword is its literal text, case-sensitive (README; fix 9cc9c86); the regex crate is not modelled',
                'a blank in a quoted keyword is a blank (README: only parse patterns match any whitespace)']
ASSUMPTIONS = ['keywords use ASCII letters for case variation']

BARE = ['error', 'ERROR', 'warn', 'a.b', 'x-y', 'foo_bar', 'a*b', 'a*', '*b', 'GET', '/index', 'user@host', '100%', 'c++', 'NOTHING', 'ORDER', 'ANDROID', 'k:v', '$5', '#tag', '^x', '*', '*', '**']
QUOTED = ['two words', 'a*b', 'x(y)', '[z]', 'a.b', 'Error', 'q"uote', "it's", ' lead', 'trail ', 'a|b', 'c\\d', '{}', 'a  b', 'AND', 'é', '', 'a\\"b', 'end\\']


# keywords whose occurrences overlap in a line (one contains, or shares an end with, another)
OVERLAP = [['conn', 'connection', 'connect', 'nect'], ['abc', 'bcd', 'abcd', 'cd', 'b'], ['err', 'error', 'rror', 'ro'], ['aa', 'aaa', 'a'],
           ['time', 'timeout', 'out', 'meo'], ['x*z', 'xyz', 'yz', 'x*'], ['a b', 'b c', 'a b c', 'b']]


def gen_filter(rng, depth, bare=None, quoted=None):
    r = rng.random()
    if depth <= 0 or r < 0.4:
        if rng.random() < 0.6:
            return ('kw', 'wild', rng.choice(bare or BARE))
        return ('kw', 'exact', rng.choice(quoted or QUOTED))
    if r < 0.6:
        return ('and', [gen_filter(rng, depth - 1, bare, quoted), gen_filter(rng, depth - 1, bare, quoted)])
    if r < 0.8:
        return ('or', [gen_filter(rng, depth - 1, bare, quoted), gen_filter(rng, depth - 1, bare, quoted)])
    return ('not', gen_filter(rng, depth - 1, bare, quoted))


def keywords(f, out):
    if f[0] == 'kw':
        out.append(f)
    elif f[0] == 'not':
        keywords(f[1], out)
    else:
        for x in f[1]:
            keywords(x, out)
    return out


def model_filter(f):
    """the filter as the parser sees it: bare keywords lose leading/trailing '*'"""
    if f[0] == 'kw' and f[1] == 'wild':
        t = f[2].strip('*')
        return ('kw', 'wild', t) if t else ('and', [])
    if f[0] == 'kw':
        return f
    if f[0] == 'not':
        return ('not', model_filter(f[1]))
    return (f[0], [model_filter(x) for x in f[1]])


def ev(f, line, mode):
    """does the line (given with its terminator) satisfy the filter?  The filter looks at the text of the line, not at the newline"""
    if line.endswith('\n'):
        line = line[:-1]
    t = f[0]
    if t == 'kw':
        if f[1] == 'wild':
            text = f[2].strip('*')
            if not text:
                return True
            return pyref.kw_regex(text, 'wild').search(line) is not None
        return pyref.kw_regex(f[2], 'exact').search(line) is not None
    if t == 'and':
        return all(ev(x, line, mode) for x in f[1])
    if t == 'or':
        return any(ev(x, line, mode) for x in f[1])
    return not ev(f[1], line, mode)


def explore(ctx):
    rng = ctx['rng']
    quick = ctx['tier'] == 'quick'
    n = 700 if quick else 15000
    failures = []
    cases = corpus_cases('C02')
    for i in range(n):
        short = rng.random() < 0.2
        fam = rng.choice(OVERLAP)
        if short:
            # overlapping keywords on lines that are nothing but a keyword or a few glued together
            top = [gen_filter(rng, rng.randint(0, 2), [w for w in fam if ' ' not in w], fam) for _ in range(rng.randint(1, 3))]
        else:
            top = [gen_filter(rng, rng.randint(0, 3)) for _ in range(rng.randint(1, 3))]
        if not short and rng.random() < 0.2:
            # the same text once bare and once quoted in one filter: * is a wildcard in one, literal in the other
            twin = rng.choice(['a*b', 'x*', 'a.b', 'er*or', 'GET*index'])
            a, b = ('kw', 'wild', twin), ('kw', 'exact', twin)
            if rng.random() < 0.5:
                a, b = b, a
            top.append(rng.choice([('or', [a, b]), ('and', [a, ('not', b)]), ('and', [('not', a), b])]))
        filt = ('and', top)
        kws = keywords(filt, [])
        lines = []
        for j in range(rng.randint(3, 14)):
            parts = []
            for _ in range(rng.randint(0, 4)):
                k = rng.choice(kws)[2] if rng.random() < 0.7 else rng.choice(BARE + QUOTED)
                r = rng.random()
                if r < 0.25:
                    k = ''.join(ch.swapcase() if ch.isascii() else ch for ch in k)   # Unicode case folding is outside the model
                elif r < 0.35:
                    k = k.replace('*', rng.choice(['', 'zz', ' mid ']))
                elif r < 0.45:
                    k = k.replace(' ', '\t')
                elif r < 0.5:
                    k = k[:-1]
                elif r < 0.6:
                    k = k.replace('\\', '')          # the same text without its backslashes must NOT match a quoted keyword that has them
                parts.append(k)
            if short:
                lines.append(rng.choice(['', '', ' ', '-']).join(rng.choice(fam).replace('*', rng.choice(['', 'y'])) for _ in range(rng.randint(1, 2))) + '\n')
            else:
                lines.append('L%d %s\n' % (j, rng.choice([' ', ' - ', ' | ']).join(parts)))
        if short and rng.random() < 0.3:
            lines[-1] = lines[-1].rstrip('\n')        # the last line of the input need not end in a newline
            if lines[-1] == '':
                lines.pop()
        try:
            q = qast.filter_text(filt)
        except Exception:
            continue
        if q is None or 'None' in q:
            continue
        c = Case('f%d' % i, model_filter(filt), [], lines, {'filter'}, note={'filt': filt})
        c.query = q            # the text as written (the model gets the trimmed keywords)
        cases.append(c)
        c2 = Case('f%d-count' % i, model_filter(filt), [('agg', [(None, ('count', None))], [])], lines, {'count'}, note={'filt': filt})
        c2.query = q + ' | count'
        cases.append(c2)
    # `*` alone selects every line
    cases.append(Case('star', STAR, [], ['a\n', '\n', 'b c\n', '  \n'], {'star'}, note={'filt': ('and', [])}))
    # the terminator is not part of the line: a line is treated the same whether or not a newline follows it
    # (a blank in a keyword matches any whitespace -- but not the line break after the line)
    for kw, text in (('"err "', 'err'), ('"err "', 'err '), ('" "', 'abc'), ('"b "', 'a b'), ('"a  b"', 'a b '), ('err*', 'error'), ('"x" " "', 'x'), ('NOT "r "', 'r')):
        c = Case('nl-%s-%s' % (kw, text), STAR, [], [text + '\n', text], {'nl'}, note={'filt': None})
        c.query = kw
        cases.append(c)
    jobs = [(c.query, c.inp, None, ()) for c in cases]
    outs = aglib.run_impl_many(jobs)
    model = aglib.run_model_many([c.sexp() for c in cases])
    nontrivial = set()
    agree = 0
    for c, o, m in zip(cases, outs, model):
        if o['rc'] != 0 or b'panicked' in o['err']:
            failures.append({'kind': 'spec', 'what': 'filter query rejected or crashed (rc=%s): %s' % (o['rc'], o['err'].decode('utf8', 'replace')[-200:]),
                             'payload': {'query': c.query, 'input_lines': c.lines}})
            continue
        out_lines = o['out'].decode('utf8', 'replace').split('\n')
        if 'nl' in c.tags:
            nsel = len([l for l in out_lines if l != ''])
            if nsel not in (0, 2):
                failures.append({'kind': 'spec', 'what': 'the same line is selected when a newline follows it and not when it is the unterminated last line (or the other way round): %d of 2 selected' % nsel,
                                 'payload': {'query': c.query, 'input_lines': c.lines}})
            continue
        filt = c.note['filt']
        want = [l for l in c.lines if ev(filt, l, 'impl')]
        if 'count' in c.tags:
            got_n = None
            for l in out_lines:
                if l.strip().isdigit():
                    got_n = int(l.strip())
            if len(want) == 0:
                ok = 'No data' in o['out'].decode('utf8', 'replace') or got_n == 0
            else:
                ok = got_n == len(want)
            if not ok:
                failures.append({'kind': 'spec', 'what': 'count after the filter is %r, %d lines match' % (got_n, len(want)),
                                 'payload': {'query': c.query, 'input_lines': c.lines, 'expected_lines': want}})
            continue
        got = [l + '\n' for l in out_lines if l != '']
        want_printed = [l.rstrip('\r\n') + '\n' for l in want]      # a passed line is printed with its bytes, minus the terminator (fix 7f51c1d)
        want_printed = [w for w in want_printed if w != '\n']
        if got != want_printed:
            missing = [w for w in want_printed if w not in got]
            extra = [g for g in got if g not in want_printed]
            failures.append({'kind': 'spec', 'what': 'selected lines differ: lost %r, wrongly passed %r%s' % (missing[:3], extra[:3], '' if missing or extra else ' (order)'),
                             'payload': {'query': c.query, 'input_lines': c.lines, 'printed': got[:20], 'expected': want_printed[:20]}})
            continue
        # model correspondence: the model's selected lines
        mm = aglib.parse_model_result(m)
        if mm['kind'] == 'rows':
            agree += 1
            if len(mm['rows']) != len(want):
                failures.append({'kind': 'corr', 'what': 'model selects %d lines, implementation %d' % (len(mm['rows']), len(want)),
                                 'payload': {'query': c.query, 'input_lines': c.lines, 'model_case': c.sexp()}})
        if len(keywords(filt, [])) >= 2 and 0 < len(want) < len(c.lines):
            nontrivial.add(c.query + '\0' + c.inp.decode('utf8', 'replace'))
    cov = {
        'evaluations': len(cases), 'distinct_nontrivial': len(nontrivial),
        'rule': 'filter ASTs (depth <= 3, 1..3 juxtaposed terms) over bare keywords (regex metacharacters, * in every position and `*` alone as an operand of AND/OR/NOT, reserved words as substrings) and quoted keywords (also empty, with backslash-quote, ending in a backslash); '
                '3..14 tagged lines built from the keywords (present, case-flipped, wildcard gap filled, whitespace varied, truncated); one case in five uses keywords whose occurrences overlap (conn/connection, abc/bcd) on untagged lines that are just one or two keywords glued together, the last one sometimes without a newline; observed: the printed lines and the count; '
                'non-trivial = >=2 keywords with both a passing and a rejected line',
        'samples': [{'query': c.query, 'input_lines': c.lines[:4]} for c in cases[2:5]],
        'model_agreement_checked': agree,
    }
    return {'coverage': cov, 'failures': failures}
