"""C20 — equivalent spellings of a query mean the same thing."""
import json
import os
import re
import subprocess
import tempfile

import aglib
import gen
import qast
import sexp
from sexp import Sym
from props.common import *

TRUSTED_BASE = ['the name of a key column is the source text of its expression (pinned by the repository test structured_tests/escaped_ident.toml, so by design): spellings that change the text inside a key expression are compared modulo that column\'s name',
                'spellings are produced by rewriting the canonical text outside string literals (whitespace runs, optional whitespace, synonyms, quote style, redundant parentheses, explicit defaults)']
ASSUMPTIONS = []


RESERVED_START = re.compile(r'(parse|limit|json|logfmt|total|fields|where|split|timeslice|count_distinct|min|max|sum|avg|average|sort|apache|nginx|k8singressnginx|testmultioperator)\b(?!\()')


def split_strings(q):
    """-> list of (is_string, text)"""
    out = []
    i = 0
    cur = ''
    while i < len(q):
        c = q[i]
        if c in '"\'':
            if cur:
                out.append((False, cur))
                cur = ''
            j = i + 1
            while j < len(q) and q[j] != c:
                j += 2 if q[j] == '\\' else 1
            out.append((True, q[i:j + 1]))
            i = j + 1
        else:
            cur += c
            i += 1
    if cur:
        out.append((False, cur))
    return out


def respell_code(t, rng):
    choices = 0

    def pick(options):
        nonlocal choices
        choices += 1
        return rng.choice(options)
    # optional whitespace around operators (before `fields +` is introduced)
    t = re.sub(r' (==|>=|<=|>|<|\+|/) ', lambda m: pick([' %s ', '%s', '  %s ', ' %s\n']) % m.group(1), t)
    # synonyms
    t = re.sub(r' != ', lambda m: pick([' != ', ' <> ', '!=', '<>']), t)
    t = re.sub(r' and ', lambda m: pick([' and ', ' && ', '&&', '  and\n']), t)
    t = re.sub(r' or ', lambda m: pick([' or ', ' || ', '||', '\tor ']), t)
    t = re.sub(r'\bavg\(', lambda m: pick(['avg(', 'average(']), t)
    t = re.sub(r'\bp(\d+)\(', lambda m: pick(['p', 'pct', 'percentile']) + m.group(1) + '(', t)
    t = re.sub(r' asc\b', lambda m: pick([' asc', ' ascending', '']), t)
    t = re.sub(r' desc\b', lambda m: pick([' desc', ' dsc', ' descending']), t)
    t = re.sub(r'\bfields except ', lambda m: pick(['fields except ', 'fields - ', 'fields drop ', 'fields -']), t)
    t = re.sub(r'\bfields (?!except |- |drop |-)', lambda m: pick(['fields ', 'fields + ', 'fields only ', 'fields include ', 'fields +']), t)
    t = re.sub(r'\blimit(?= *(\||$))', lambda m: pick(['limit', 'limit 10', 'limit 10.0', 'limit 1e1']), t)
    t = re.sub(r'\bcount(?= *(\||$|,| by ))', lambda m: pick(['count', 'count as _count']), t)
    # whitespace: longer runs where there is a space, none where it is optional
    # ["name"] for a bare name (not a key column: its header is the source text)
    def brk(m):
        before = t[:m.start()]
        if ' by ' in before.split('|')[-1]:
            return m.group(0)
        return pick([m.group(0), m.group(0), '["%s"]' % m.group(1)])
    t = BRACKETABLE.sub(brk, t)
    t = re.sub(r' \| ', lambda m: pick([' | ', '|', '  |  ', '\n| ', ' |\t']), t)
    t = re.sub(r', ', lambda m: pick([', ', ',', ' , ', ',\n  ']), t)
    t = re.sub(r'\( *', lambda m: pick(['(', '( ']), t)
    t = re.sub(r'\)', lambda m: pick([')', ' )', '\n)']), t)
    t = re.sub(r'!(?!=)', lambda m: pick(['!', '! ']), t)
    t = re.sub(r' (?=[^ ])', lambda m: pick([' ', ' ', '  ', '\t', ' \n ']), t)
    return t, choices


def respell(q, rng):
    parts = split_strings(q)
    out = []
    n = 0
    for is_str, t in parts:
        if is_str:
            body = t[1:-1]
            if t[0] == '"' and "'" not in body and '\\' not in body and rng.random() < 0.5:
                t = "'" + body + "'"
                n += 1
            out.append(t)
        else:
            t2, k = respell_code(t, rng)
            n += k
            out.append(t2)
    return ''.join(out), n


def paren_expr(e, rng, depth=0):
    """insert redundant parentheses (an AST-preserving change: 'paren' nodes are transparent)"""
    t = e[0]
    if t in ('lg', 'cmp', 'ar'):
        e = (t, e[1], paren_expr(e[2], rng, depth + 1), paren_expr(e[3], rng, depth + 1))
    elif t == 'not':
        e = ('not', paren_expr(e[1], rng, depth + 1))
    elif t == 'call':
        e = ('call', e[1], [paren_expr(a, rng, depth + 1) for a in e[2]])
    elif t == 'if':
        e = ('if',) + tuple(paren_expr(a, rng, depth + 1) for a in e[1:4])
    if rng.random() < 0.25:
        e = ('paren', e)
        if rng.random() < 0.2:
            e = ('paren', e)
    return e


def variant_stage(s, rng):
    """an equivalent stage: redundant parentheses, explicit defaults; returns (text, nchoices)"""
    t = s[0]
    n = 0
    if t == 'where':
        return 'where ' + qast.expr_text(paren_expr(s[1], rng)), 1
    if t == 'let':
        return qast.expr_text(paren_expr(s[1], rng)) + ' as ' + qast.ident_text(s[2]), 1
    if t == 'limit' and s[1] is None:
        return rng.choice(['limit', 'limit 10']), 1
    if t == 'sort':
        out = 'sort'
        if s[1]:
            out += ' by ' + ', '.join(qast.expr_text(paren_expr(e, rng)) for e in s[1])
        d = s[2]
        if d is None or d == 'asc':
            d = rng.choice([None, 'asc'])
        return out + ('' if d is None else ' ' + d), 2
    if t == 'timeslice':
        nm = s[3] if s[3] is not None else rng.choice([None, '_timeslice'])
        return qast.stage_text(('timeslice', paren_expr(s[1], rng), s[2], nm)), 2
    if t == 'total':
        nm = s[2] if s[2] is not None else rng.choice([None, '_total'])
        return qast.stage_text(('total', paren_expr(s[1], rng), nm)), 2
    if t == 'agg':
        fns = []
        for nme, fn in s[1]:
            if nme is None and rng.random() < 0.5:
                nme = qast.fn_default_name(fn)
                n += 1
            if fn[0] == 'count':
                fn = ('count', None if fn[1] is None else paren_expr(fn[1], rng))
            elif fn[0] == 'pct':
                fn = ('pct', fn[1], paren_expr(fn[2], rng))
            else:
                fn = (fn[0], paren_expr(fn[1], rng))
            fns.append((nme, fn))
        return qast.stage_text(('agg', fns, s[2])), n + 1
    if t == 'parse' and s[3] is not None and s[2] and rng.random() < 0.5:
        out = 'parse ' + qast.quote_str(s[1]) + ' as ' + ', '.join(qast.ident_text(f) for f in s[2]) + ' from ' + qast.expr_text(s[3])
        return out + (' nodrop' if s[4] else '') + (' noconvert' if s[5] else ''), 1
    if t == 'split' and s[2] is not None:
        sep = s[1] if s[1] is not None else rng.choice([None, ','])
        return qast.stage_text(('split', sep, s[2], s[3])), 1
    return qast.stage_text(s), 0


BRACKETABLE = re.compile(r'(?<![\w.\]"])(a|b|k|s|g|id|flag|n|obj)(?![\w(\[.])')


def canon_result(parsed, keycols_by_pos):
    """rename computed key columns by position so that only values are compared"""
    rows = []
    for r in parsed.get('rows', []):
        rows.append(aglib.canon_key(r))
    return rows


def explore(ctx):
    rng = ctx['rng']
    quick = ctx['tier'] == 'quick'
    n = 250 if quick else 5000
    nsp = 5 if quick else 25
    failures = []
    base = []
    for i in range(n):
        stages = [rng.choice([('json', None), ('json', None), ('logfmt', None)])]
        cols = None
        for _ in range(rng.randint(1, 4)):
            r = rng.random()
            if r < 0.55:
                st = gen.inline_stage(rng, cols)
                if st[0] == 'split' and st[1] is None:
                    continue
            elif r < 0.85:
                st = gen.agg_stage(rng, cols, allow_pct=True)
                if not st[1]:
                    continue
                # keep key expressions plain: the header of a computed key is its source text
                st = ('agg', st[1], [(h, e) for h, e in st[2] if e[0] == 'col' and not e[2]])
                cols = gen.agg_columns(st)
            else:
                st = gen.sort_stage(rng, cols)
                st = ('sort', st[1], st[2] if st[2] else rng.choice([None, 'asc']))
            stages.append(st)
            if st[0] == 'agg' and rng.random() < 0.3:
                stages.append(('limit', None))
            if st[0] == 'parse' and st[3] is None and rng.random() < 0.5:
                pass
        if rng.random() < 0.15:
            stages.insert(1, ('parse', '*=*', ['pk', 'pv'], ('col', 's', ()), rng.random() < 0.5, False))
        try:
            base.append((qast.query_text(STAR, stages), stages))
        except ValueError:
            pass
    rows = gen.gen_rows(rng, 14)
    lines = [gen.jtext(r) for r in rows] + ['a=1 b=2 k=a s="x y"\n', 'a=2 b=x k=b flag\n']
    inp = ''.join(lines).encode('utf8')
    jobs = []
    meta = []
    for qi, (q, stages) in enumerate(base):
        jobs.append((q, inp, 'json', ()))
        meta.append((qi, q, 0))
        for k in range(nsp):
            parts = [variant_stage(st, rng) for st in stages]
            q1 = ' | '.join(['*'] + [p[0] for p in parts])
            q2, nchoices = respell(q1, rng)
            nchoices += sum(p[1] for p in parts)
            jobs.append((q2, inp, 'json', ()))
            meta.append((qi, q2, nchoices))
    outs = aglib.run_impl_many(jobs)
    canon = {}
    nontrivial = set()
    for (qi, q2, nch), o in zip(meta, outs):
        if nch == 0 and qi not in canon:
            canon[qi] = o
            continue
        ref = canon[qi]
        if o['rc'] != ref['rc'] or o['out'] != ref['out']:
            known = None
            if 'stage_starts_with_reserved_word' in ctx.get('known_classes', ()) and any(
                    st[0] == 'let' and RESERVED_START.match(qast.expr_text(st[1])) for st in base[qi][1]):
                known = 'KF-30'
            failures.append({'kind': 'spec', 'known': known, 'what': 'two spellings of one query give different results (rc %s vs %s)' % (ref['rc'], o['rc']),
                             'payload': {'query': q2, 'canonical_spelling': base[qi][0], 'input_lines': lines,
                                         'output': o['out'].decode('utf8', 'replace')[:600], 'canonical_output': ref['out'].decode('utf8', 'replace')[:600],
                                         'stderr': o['err'].decode('utf8', 'replace')[-300:]}})
        if nch >= 3:
            nontrivial.add(q2)
    # the grammar model reads every spelling the same way too
    sample = [(qi, q2) for (qi, q2, nch) in meta if nch > 0][:400 if quick else 6000]
    mres = aglib.run_model_many([sexp.dumps([Sym('runq'), q2, lines]) for _qi, q2 in sample])
    mcanon = {}
    cres = aglib.run_model_many([sexp.dumps([Sym('runq'), base[qi][0], lines]) for qi in sorted({qi for qi, _ in sample})])
    for qi, r in zip(sorted({qi for qi, _ in sample}), cres):
        mcanon[qi] = sexp.dumps(r)
    for (qi, q2), r in zip(sample, mres):
        if sexp.dumps(r) != mcanon[qi]:
            failures.append({'kind': 'corr', 'what': 'the grammar model reads two spellings of one query differently',
                             'payload': {'query': q2, 'canonical_spelling': base[qi][0]}})
    # spellings written by the EXTRACTED Coq printer (Print.v / PrintSyn.v, with synonym and default choices): the
    # printer of the round-trip theorems (C04_query_roundtrip / C20_query_roundtrip_with_synonyms) is the printer of this test, so the theorem's
    # statement is exercised against the real parser, not only against its transcription
    WS0 = ['', ' ', '  ', '\t', '\n ']
    WS1 = [' ', '  ', '\t', ' \n ', '\n']
    ppjobs = []
    for qi, (q, stages) in enumerate(base):
        for k in range(2 if quick else 6):
            flags = [Sym('true') if rng.random() < 0.5 else Sym('false') for _ in range(4)]
            try:
                sos = [rng.randrange(4), rng.randrange(3), rng.randrange(3), rng.randrange(3), Sym(rng.choice(['true', 'false'])), rng.randrange(3),
                       Sym(rng.choice(['true', 'false'])), Sym(rng.choice(['true', 'false'])), Sym(rng.choice(['true', 'false']))]
                ppjobs.append((qi, sexp.dumps([Sym('pps'), rng.choice(WS0), rng.choice(WS1), flags, sos, qast.filter_sexp(STAR), [qast.stage_sexp(st) for st in stages]])))
            except (ValueError, TypeError):
                pass
    ppres = aglib.run_model_many([j[1] for j in ppjobs])
    coq_jobs = []
    coq_meta = []
    pp_wf = pp_notwf = 0
    for (qi, _), r in zip(ppjobs, ppres):
        if isinstance(r, Sym) or not isinstance(r, list) or len(r) != 3:
            continue
        if str(r[1]) != 'wf':
            pp_notwf += 1
            continue
        pp_wf += 1
        coq_jobs.append((r[2], inp, 'json', ()))
        coq_meta.append((qi, r[2]))
    coq_outs = aglib.run_impl_many(coq_jobs)

    def positional(out):
        # values only, column by column: the NAME of a computed key column is its source text
        try:
            rows = [json.loads(l, object_pairs_hook=lambda kv: kv) for l in out.decode('utf8', 'replace').splitlines() if l.strip()]
        except ValueError:
            return out
        strip = lambda x: [strip(v) for _k, v in x] if isinstance(x, list) and x and isinstance(x[0], tuple) else ([strip(v) for v in x] if isinstance(x, list) else x)
        return json.dumps([strip(r) for r in rows], sort_keys=False)
    for (qi, text), o in zip(coq_meta, coq_outs):
        ref = canon.get(qi)
        if ref is None:
            continue
        plain_keys = all(e[0] == 'col' and not e[2] for st in base[qi][1] if st[0] == 'agg' for _h, e in st[2])
        same = (o['rc'] == ref['rc']) and ((o['out'] == ref['out']) if plain_keys else (positional(o['out']) == positional(ref['out'])))
        if not same:
            known = None
            if 'stage_starts_with_reserved_word' in ctx.get('known_classes', ()) and any(
                    st[0] == 'let' and RESERVED_START.match(qast.expr_text(st[1])) for st in base[qi][1]):
                known = 'KF-30'
            failures.append({'kind': 'spec', 'known': known, 'what': 'a spelling written by the printer of the round-trip theorem is read differently by the real parser (rc %s vs %s)' % (ref['rc'], o['rc']),
                             'payload': {'query': text, 'canonical_spelling': base[qi][0], 'input_lines': lines,
                                         'output': o['out'].decode('utf8', 'replace')[:600], 'canonical_output': ref['out'].decode('utf8', 'replace')[:600],
                                         'stderr': o['err'].decode('utf8', 'replace')[-300:]}})
    # redundant parentheses on operator chains: a left- or right-nested chain of 3..5 operands written with the fewest
    # parentheses, with every operation parenthesised, and with extra () around random sub-expressions
    def leaf():
        return rng.choice([col('a'), col('b'), col('g'), col('id'), lit(rng.choice([1, 2, 3, 5, 7, 10]))])

    def chain():
        kind = rng.choice(['addsub', 'addsub', 'muldiv', 'mixed', 'logic'])
        if kind == 'logic':
            mk = lambda: ('cmp', rng.choice(['gt', 'lt', 'eq', 'neq', 'gte']), leaf(), leaf())
            ops = ['and', 'or']
            node = lambda o, l, r: ('lg', o, l, r)
        else:
            mk = leaf
            ops = {'addsub': ['add', 'sub', 'sub'], 'muldiv': ['mul', 'div', 'div'], 'mixed': ['add', 'sub', 'mul', 'div']}[kind]
            node = lambda o, l, r: ('ar', o, l, r)
        e = mk()
        for _ in range(rng.randint(2, 4)):
            e = node(rng.choice(ops), e, mk()) if rng.random() < 0.75 else node(rng.choice(ops), mk(), e)
        return e

    def extra_parens(e):
        t = e[0]
        if t in ('ar', 'cmp', 'lg'):
            e = (t, e[1], extra_parens(e[2]), extra_parens(e[3]))
        return ('paren', e) if rng.random() < 0.3 else e
    nrows = [{'id': i, 'a': rng.choice([0, 1, 2, 3, 7, 10, -4]), 'b': rng.choice([1, 2, 5, 9, 2.5, -3]), 'g': rng.choice([1, 2, 3])} for i in range(8)]
    ninp = ''.join(json.dumps(r) + '\n' for r in nrows).encode('utf8')
    pjobs = []
    pmeta = []
    for i in range(60 if quick else 1500):
        e = chain()
        tmpl = rng.choice(['* | json | %s as r | fields id, r', '* | json | where (%s) > 2 or (%s) == true | fields id', '* | json | sum(%s) as t by g'])
        texts = [qast.expr_text(e), qast.expr_text_full(e), qast.expr_text(extra_parens(e))]
        for t in texts:
            pjobs.append((tmpl.replace('%s', t), ninp, 'json', ()))
            pmeta.append(i)
    pouts = aglib.run_impl_many(pjobs)
    paren_checked = 0
    for k in range(0, len(pjobs), 3):
        ref = pouts[k]
        paren_checked += 1
        for d in (1, 2):
            o = pouts[k + d]
            if o['rc'] != ref['rc'] or o['out'] != ref['out']:
                failures.append({'kind': 'spec', 'what': 'redundant parentheses change the result of an operator chain (rc %s vs %s)' % (ref['rc'], o['rc']),
                                 'payload': {'query': pjobs[k + d][0], 'canonical_spelling': pjobs[k][0], 'input_lines': [json.dumps(r) + '\n' for r in nrows],
                                             'output': o['out'].decode('utf8', 'replace')[:400], 'canonical_output': ref['out'].decode('utf8', 'replace')[:400]}})
                break
    # filters: whitespace runs between keywords, inside parentheses, quote style
    from props import c02
    flines = ['error a.b x-y\n', 'warn GET /index two words\n', 'ERROR foo_bar a*b x(y)\n', 'nothing here\n', 'Error user@host [z]\n']
    finp = ''.join(flines).encode('utf8')
    fjobs = []
    fmeta = []
    fgen = {}
    for i in range(120 if quick else 2500):
        f = c02.gen_filter(rng, 3)
        try:
            canon_q = qast.filter_text(f) + ' | count'
        except (ValueError, TypeError):
            continue
        fjobs.append((canon_q, finp, 'json', ()))
        fmeta.append((i, canon_q, True))
        fgen[i] = f
        for k in range(3):
            parts = split_strings(canon_q)
            out = []
            for is_str, t in parts:
                if is_str:
                    body = t[1:-1]
                    if t[0] == '"' and "'" not in body and '\\' not in body and rng.random() < 0.5:
                        t = "'" + body + "'"
                    out.append(t)
                else:
                    t = re.sub(r'\(', lambda m: rng.choice(['(', '( ', '(  ']), t)
                    t = re.sub(r'\)', lambda m: rng.choice([')', ' )', '\t)']), t)
                    t = re.sub(r' (?=[^ ])', lambda m: rng.choice([' ', '  ', '\t', ' \n ']), t)
                    out.append(t)
            fjobs.append((''.join(out), finp, 'json', ()))
            fmeta.append((i, ''.join(out), False))
    fouts = aglib.run_impl_many(fjobs)
    fcanon = {}
    for (i, q2, is_canon), o in zip(fmeta, fouts):
        if is_canon:
            fcanon[i] = o
            continue
        ref = fcanon[i]
        if o['rc'] != ref['rc'] or o['out'] != ref['out']:
            failures.append({'kind': 'spec', 'what': 'two spellings of one filter give different results (rc %s vs %s)' % (ref['rc'], o['rc']),
                             'payload': {'query': q2, 'canonical_spelling': [m for m in fmeta if m[0] == i][0][1], 'input_lines': flines,
                                         'output': o['out'].decode('utf8', 'replace')[:300], 'canonical_output': ref['out'].decode('utf8', 'replace')[:300],
                                         'stderr': o['err'].decode('utf8', 'replace')[-300:]}})
    # the same filters written by the extracted Coq filter printer (C02_filter_roundtrip's printer)
    fpp = []
    for i, f in fgen.items():
        flags = [Sym('true'), Sym('false'), Sym('true') if rng.random() < 0.5 else Sym('false'), Sym('false')]
        try:
            fpp.append((i, sexp.dumps([Sym('pp'), rng.choice(WS0), rng.choice(WS1), flags, qast.filter_sexp(('and', [f])),
                                       [qast.stage_sexp(('agg', [(None, ('count', None))], []))]])))
        except (ValueError, TypeError):
            pass
    fppres = aglib.run_model_many([x[1] for x in fpp])
    fcoq = [(i, r[2]) for (i, _), r in zip(fpp, fppres) if isinstance(r, list) and len(r) == 3 and str(r[1]) == 'wf']
    fcoq_out = aglib.run_impl_many([(t, finp, 'json', ()) for _i, t in fcoq])
    for (i, t), o in zip(fcoq, fcoq_out):
        ref = fcanon.get(i)
        if ref is not None and (o['rc'] != ref['rc'] or o['out'] != ref['out']):
            failures.append({'kind': 'spec', 'what': 'a filter spelling written by the printer of the round-trip theorem is read differently by the real parser (rc %s vs %s)' % (ref['rc'], o['rc']),
                             'payload': {'query': t, 'canonical_spelling': [m for m in fmeta if m[0] == i][0][1], 'input_lines': flines,
                                         'output': o['out'].decode('utf8', 'replace')[:300], 'canonical_output': ref['out'].decode('utf8', 'replace')[:300]}})
    quote_checked = 0
    # quote style when the text itself contains quotes or backslashes: both styles, each with the escapes it needs
    qrows = [{'s': "O'Brien"}, {'s': 'say "hi"'}, {'s': 'back\\slash'}, {'s': 'tab\there'}, {'s': 'plain'}]
    qinp = ''.join(json.dumps(r) + '\n' for r in qrows).encode('utf8')
    qpairs = [('"O\'Brien"', "'O\\'Brien'"), ('"say \\"hi\\""', "'say \"hi\"'"), ('"back\\\\slash"', "'back\\\\slash'"), ('"tab\\there"', "'tab\\there'"), ('"plain"', "'plain'")]
    for dq, sq in qpairs:
        outs2 = []
        for litx in (dq, sq):
            for tmpl in ('* | json | where s == %s | count', '* | json | where contains(s, %s) | count', '* | json | concat(%s, "") as t | where t == s | count'):
                q = tmpl % litx
                o = aglib.run_impl_one(q, qinp, 'json')
                outs2.append((q, o['rc'], o['out']))
                quote_checked += 1
        for (qa, rca, oa), (qb, rcb, ob) in zip(outs2[:3], outs2[3:]):
            if rca != rcb or oa != ob or rca != 0 or b'"_count":1' not in oa:
                failures.append({'kind': 'spec', 'what': 'the two quote styles of one string literal give different results (or miss the row): %r -> %r, %r -> %r' % (qa, oa[:60], qb, ob[:60]),
                                 'payload': {'query': qb, 'canonical_spelling': qa, 'input_lines': [json.dumps(r) + '\n' for r in qrows]}})
    # aliases versus their expansions
    alias_cases = [('* | apache', '* | parse "* - * [*] \\"* * *\\" * *" as ip, name, timestamp, method, url, protocol, status, contentlength'),
                   ('* | nginx | count by status', None), ('* | testmultioperator', '* | json | count')]
    alog = b'127.0.0.1 - frank [10/Oct/2000:13:55:36 -0700] "GET /apache_pb.gif HTTP/1.0" 200 2326\n10.0.0.1 - - [10/Oct/2000:13:55:37 -0700] "POST /x HTTP/1.1" 404 10\n{"a": 1}\n'
    for a, b in alias_cases:
        if b is None:
            continue
        oa = aglib.run_impl_one(a, alog, 'json')
        ob = aglib.run_impl_one(b, alog, 'json')
        if oa['out'] != ob['out'] or oa['rc'] != ob['rc']:
            failures.append({'kind': 'spec', 'what': 'alias and its expansion differ', 'payload': {'query': a, 'expansion': b}})
    # CLI: --format F == -o format=F ; --file P == stdin
    tmpd = tempfile.mkdtemp(prefix='agv-c20-', dir=aglib.BUILD)
    fpath = os.path.join(tmpd, 'in.json')
    open(fpath, 'wb').write(inp)
    cli_checked = 0
    for f in ('{id} {k}', 'x', '{a}-{b}-{nope}', '{{}} {s}'):
        a = subprocess.run([aglib.AGRIND, '* | json', '--format', f], input=inp, stdout=subprocess.PIPE, stderr=subprocess.PIPE, env=aglib.ENV)
        b = subprocess.run([aglib.AGRIND, '* | json', '-o', 'format=' + f], input=inp, stdout=subprocess.PIPE, stderr=subprocess.PIPE, env=aglib.ENV)
        c = subprocess.run([aglib.AGRIND, '* | json', '-m', f], input=inp, stdout=subprocess.PIPE, stderr=subprocess.PIPE, env=aglib.ENV)
        cli_checked += 1
        if a.stdout != b.stdout or a.returncode != b.returncode or c.stdout != a.stdout:
            failures.append({'kind': 'spec', 'what': '--format %r and -o format=%r differ' % (f, f), 'payload': {'format': f}})
    for q in ('* | json | count by k', '* | json | fields id, a', 'a | count'):
        a = subprocess.run([aglib.AGRIND, q, '-o', 'json', '--file', fpath], stdin=subprocess.DEVNULL, stdout=subprocess.PIPE, stderr=subprocess.PIPE, env=aglib.ENV)
        b = subprocess.run([aglib.AGRIND, q, '-o', 'json', '-f', fpath], stdin=subprocess.DEVNULL, stdout=subprocess.PIPE, stderr=subprocess.PIPE, env=aglib.ENV)
        c = subprocess.run([aglib.AGRIND, q, '-o', 'json'], input=inp, stdout=subprocess.PIPE, stderr=subprocess.PIPE, env=aglib.ENV)
        cli_checked += 1
        if a.stdout != c.stdout or b.stdout != c.stdout:
            failures.append({'kind': 'spec', 'what': '--file and stdin give different results', 'payload': {'query': q}})
    # an EMPTY file and a file that is not a regular file (a named pipe): still the same as stdin
    epath = os.path.join(tmpd, 'empty.json')
    open(epath, 'wb').close()
    for q in ('* | json | count', '* | json | count by k', '* | json'):
        a = subprocess.run([aglib.AGRIND, q, '-o', 'json', '--file', epath], stdin=subprocess.DEVNULL, stdout=subprocess.PIPE, stderr=subprocess.PIPE, env=aglib.ENV)
        c = subprocess.run([aglib.AGRIND, q, '-o', 'json'], input=b'', stdout=subprocess.PIPE, stderr=subprocess.PIPE, env=aglib.ENV)
        cli_checked += 1
        if a.stdout != c.stdout or a.returncode != c.returncode:
            failures.append({'kind': 'spec', 'what': '--file <empty file> and empty stdin give different results: %r vs %r' % (a.stdout[:60], c.stdout[:60]), 'payload': {'query': q, 'file': 'empty'}})
    ffpath = os.path.join(tmpd, 'in.fifo')
    os.mkfifo(ffpath)
    import threading
    for q in ('* | json | count by k', '* | json | fields id'):
        def writer():
            with open(ffpath, 'wb') as fh:
                fh.write(inp)
        tw = threading.Thread(target=writer, daemon=True)
        tw.start()
        a = subprocess.run([aglib.AGRIND, q, '-o', 'json', '--file', ffpath], stdin=subprocess.DEVNULL, stdout=subprocess.PIPE, stderr=subprocess.PIPE, env=aglib.ENV, timeout=30)
        tw.join(5)
        c = subprocess.run([aglib.AGRIND, q, '-o', 'json'], input=inp, stdout=subprocess.PIPE, stderr=subprocess.PIPE, env=aglib.ENV)
        cli_checked += 1
        if a.stdout != c.stdout or a.returncode != c.returncode:
            failures.append({'kind': 'spec', 'what': '--file <named pipe> and stdin give different results', 'payload': {'query': q, 'file': 'fifo'}})
    os.remove(epath)
    os.remove(ffpath)
    os.remove(fpath)
    os.rmdir(tmpd)
    cov = {
        'evaluations': len(jobs) + len(sample) + len(pjobs) + cli_checked + len(alias_cases) + len(fjobs) + len(coq_jobs), 'filter_spellings': len(fjobs), 'distinct_nontrivial': len(nontrivial),
        'rule': '%d query ASTs, each in %d spellings drawn by rewriting the canonical text outside string literals: whitespace runs / no whitespace where optional / line breaks, quote style, '
                'avg/average, pNN/pctNN/percentileNN, !=/<>, and/&&, or/||, asc/ascending/(none), desc/dsc/descending, fields +/only/include/(none) and -/except/drop, bare limit vs limit 10, '
                'count vs count as _count, explicit default names for every aggregate/timeslice/total, ["name"] vs bare name, from before/after as, redundant parentheses, whitespace inside parentheses and after `!`, sort by x vs sort by x asc; byte comparison of -o json output; operator chains (+ - * / and or, left- and right-nested, 3..5 operands) bare / fully parenthesised / with random extra parentheses; aliases vs expansions; --format vs -o format=, --file vs stdin; the grammar model on the same spellings; '
                'non-trivial = >= 3 spelling choices exercised' % (len(base), nsp),
        'samples': [{'canonical': base[0][0], 'spelling': meta[1][1]}, {'canonical': base[1][0], 'spelling': meta[nsp + 2][1]}],
        'spellings': len(jobs) - len(base), 'operator_chains_in_three_parenthesisations': paren_checked, 'cli_cases': cli_checked, 'quote_style_cases': quote_checked, 'coq_printer_spellings': pp_wf, 'coq_printer_filter_spellings': len(fcoq), 'coq_printer_outside_wf': pp_notwf,
    }
    return {'coverage': cov, 'failures': failures}
