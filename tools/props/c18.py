"""C18 — machine-readable output modes are well-formed and faithful."""
import json
import subprocess

import aglib
import gen
import qast
import sexp
from props.common import *
from props import ext
from props import aggoracle

TRUSTED_BASE = ['serde_json / ryu float printing is not modelled: floats are compared after re-parsing the implementation\'s JSON with Python',
                'strfmt format specs beyond {name}, {{ and }} are outside the modelled subset', 'clap argument parsing is exercised through the real binary only']
ASSUMPTIONS = ['dates (chrono Display) do not occur in text-mode cases']


def text_of(mres):
    if isinstance(mres, sexp.Sym):
        return str(mres), None, None
    return 'text', int(mres[1][1]), mres[2]


def explore(ctx):
    rng = ctx['rng']
    quick = ctx['tier'] == 'quick'
    n = 500 if quick else 12000
    failures = []
    evals = 0
    nontrivial = set()
    # ---- -o json: valid JSON, exactly the row's fields / every column in column order, lossless values
    jcases = corpus_cases('C18')
    for i in range(n):
        rows = gen.gen_rows(rng, rng.randint(0, 8))
        for j in range(len(rows)):
            if rng.random() < 0.08:
                rows[j] = rng.choice([{}, {}, {'zz': 1}, {'nope2': None}])      # a row with no field at all / none of the others' fields
        for r in rows:
            if rng.random() < 0.3:
                r['we"ird\\key\n'] = rng.choice(['q"uote', 'back\\slash', 'tab\there', 'nl\nx', '\x01ctl', '😀', 'é'])
            if rng.random() < 0.2:
                r['inf'] = rng.choice([1e308, -1e308])
        stages = [('json', None)]
        kind = rng.random()
        if kind < 0.35:
            pass
        elif kind < 0.5:
            stages.append(('let', ('ar', 'div', col('a'), lit(0)), 'nan_or_inf'))
        elif kind < 0.65:
            stages.append(('let', ('ar', 'mul', col('inf'), lit(10)), 'overflow'))
        elif kind < 0.85:
            st = gen.agg_stage(rng)
            if st[1]:
                stages.append(st)
        else:
            stages.append(gen.sort_stage(rng))
        try:
            jcases.append(Case('j%d' % i, STAR, stages, [gen.jtext(r, rng) for r in rows], {'json'}, note={'rows': rows}))
        except ValueError:
            pass
    jres = run_cases(jcases)
    for r in jres:
        c = r['case']
        impl = r['impl']
        evals += 1
        spec = None
        if impl['kind'] == 'garbled':
            spec = 'output is not valid JSON: %s' % impl.get('why')
        elif impl['kind'] not in ('rows', 'table'):
            spec = 'run failed: %s' % impl['kind']
        else:
            for row in impl['rows']:
                if '__dup_keys__' in row:
                    spec = 'a JSON object repeats the key(s) %r' % (row['__dup_keys__'],)
            if impl['kind'] == 'table' and impl['rows']:
                cols = impl['cols']
                if any(list(k for k in row.keys() if k != '__dup_keys__') != cols for row in impl['rows']):
                    spec = 'aggregate rows do not all carry every column in column order'
            if impl['kind'] == 'rows' and len(c.stages) == 1 and 'rows' in (c.note or {}):
                # exactly the row's fields, values lossless (through Python's reading of the same input)
                want = [{k: aggoracle.canon_in(v) for k, v in row.items()} for row in c.note['rows']]
                if len(want) != len(impl['rows']) or any(not aglib.same(a, b) for a, b in zip(impl['rows'], want)):
                    spec = 'record printed as JSON does not carry exactly the row\'s fields and values'
        if spec:
            failures.append({'kind': 'spec', 'what': spec, 'payload': payload(r)})
        elif r['corr']:
            failures.append({'kind': 'corr', 'what': r['corr'], 'payload': payload(r)})
        if any(isinstance(v, (dict, list)) for row in impl.get('rows', []) for v in row.values()):
            nontrivial.add(c.query + '\0' + c.inp.decode('utf8', 'replace'))
    # ---- -o logfmt and -o format=: exact text against the model
    tcases = []
    for i in range(n):
        rows = gen.gen_rows(rng, rng.randint(0, 8), rich=(rng.random() < 0.5))
        stages = [('json', None)]
        if rng.random() < 0.4:
            st = gen.agg_stage(rng)
            if st[1]:
                stages.append(st)
        elif rng.random() < 0.3:
            stages.append(gen.sort_stage(rng))
        if rng.random() < 0.5:
            mode = 'logfmt'
            arg = 'logfmt'
        else:
            fields = rng.sample(['a', 'b', 'k', 's', 'id', 'g', 'nope', 'flag', 'arr', 'obj', '_count', '_sum'], rng.randint(0, 3))
            lits = ['', ' ', ' => ', 'x{{y}}', ': ', '[', ']', 'é', '}}{{']
            text = rng.choice(lits) + ''.join('{%s}%s' % (f, rng.choice(lits)) for f in fields)
            if text == '':
                text = '-'
            mode = ('format', text)
            arg = 'format=' + text
        try:
            c = Case('t%d' % i, STAR, stages, [gen.jtext(r) for r in rows], {'text'}, mode=arg, note={'pmode': mode})
        except ValueError:
            continue
        tcases.append(c)
    outs = aglib.run_impl_many([(c.query, c.inp, c.mode, ()) for c in tcases])
    mres = aglib.run_model_many([qast.print_case_sexp(c.note['pmode'], c.filt, c.stages, c.lines) for c in tcases])
    unm = 0
    for c, o, m in zip(tcases, outs, mres):
        evals += 1
        kind, merr, mtext = text_of(m)
        if o['rc'] != 0 or b'panicked' in o['err']:
            failures.append({'kind': 'spec', 'what': 'text mode run failed rc=%s' % o['rc'], 'payload': {'query': c.query, 'mode': c.mode, 'input_lines': c.lines,
                                                                                                           'stderr': o['err'].decode('utf8', 'replace')[-300:]}})
            continue
        got = o['out'].decode('utf8', 'replace')
        if kind != 'text':
            unm += 1
            continue
        if got != mtext:
            failures.append({'kind': 'corr', 'what': 'text output differs from the model: %r vs %r' % (got[:300], mtext[:300]),
                             'payload': {'query': c.query, 'mode': c.mode, 'input_lines': c.lines, 'model_case': qast.print_case_sexp(c.note['pmode'], c.filt, c.stages, c.lines)}})
        # executable spec for format: every character outside the placeholders is intact
        if c.note['pmode'] != 'logfmt':
            tmpl = c.note['pmode'][1]
            import re as _re
            pieces = _re.split(r'\{[^{}]*\}', tmpl.replace('{{', '\x00').replace('}}', '\x01'))
            pieces = [p.replace('\x00', '{').replace('\x01', '}') for p in pieces]
            for line in got.split('\n')[:-1]:
                pos = 0
                okk = True
                for pi, p in enumerate(pieces):
                    j = line.find(p, pos) if pi else (0 if line.startswith(p) else -1)
                    if j < 0:
                        okk = False
                        break
                    pos = j + len(p)
                if not okk:
                    failures.append({'kind': 'spec', 'what': 'format output %r does not keep the literal text of %r' % (line, tmpl),
                                     'payload': {'query': c.query, 'mode': c.mode, 'input_lines': c.lines}})
                    break
    # ---- format templates that name the columns of an aggregate table in ANY order, or twice: each placeholder is that row's
    # cell, wherever the column stands in the table (expected text from the -o json output of the same run)
    flines = [json.dumps({'k': k, 's': s_, 'v': v}) + '\n' for k, s_, v in (('a', 'x', 1), ('b', 'y', 2), ('a', 'x', 3), ('c', 'x', 4), ('b', 'y', 5), ('a', 'z', 6))]
    for q, cols_ in (('* | json | count by k', ['k', '_count']), ('* | json | count, sum(v) as t by k, s', ['k', 's', '_count', 't']),
                     ('* | json | count by k | sort by k', ['k', '_count']), ('* | json | fields k, v', ['k', 'v'])):
        oj = aglib.run_impl_one(q, ''.join(flines).encode('utf8'), 'json')
        try:
            jrows = [r for l in oj['out'].decode('utf8').split('\n') if l.strip() for r in (json.loads(l) if l.lstrip().startswith('[') else [json.loads(l)])]
        except ValueError:
            jrows = None
        if oj['rc'] != 0 or not jrows:
            failures.append({'kind': 'spec', 'what': 'format family: the -o json run failed', 'payload': {'query': q, 'input_lines': flines}})
            continue
        orders = [list(reversed(cols_)), cols_ + cols_[:1], [cols_[-1], cols_[0], cols_[-1]], cols_[1:] + cols_[:1]]
        for order in orders:
            tmpl = ' | '.join('{%s}' % c_ for c_ in order)
            of = aglib.run_impl_one(q, ''.join(flines).encode('utf8'), 'format=' + tmpl)
            evals += 1
            txt = lambda v: 'None' if v is None else (v if isinstance(v, str) else str(v))
            exp = ''.join(' | '.join(txt(r.get(c_)) for c_ in order) + '\n' for r in jrows)
            got = of['out'].decode('utf8', 'replace')
            if of['rc'] != 0 or got != exp:
                failures.append({'kind': 'spec', 'what': '-o format=%r prints %r, the cells of the table are %r' % (tmpl, got[:300], exp[:300]),
                                 'payload': {'query': q, 'input_lines': flines, 'mode': 'format=' + tmpl, 'expected_stdout': exp}})
                break
    # ---- CLI: unknown -o values, empty/malformed format strings, -o together with --format: rejected before any input is read
    cli = [(['-o', 'jsn'], False), (['-o', ''], False), (['-o', 'format='], False), (['-o', 'format'], False), (['--format', ''], False),
           (['-o', 'format={'], False), (['-o', 'format=}x'], False), (['--format', '{a'], False), (['-o', 'json', '--format', '{a}'], False),
           (['-o', 'logfmt', '-m', 'x'], False), (['-o', 'json=1'], False), (['-o', 'legacy='], True),
           # placeholders whose spec cannot apply to a field's text are malformed format strings too
           (['-o', 'format={a:x}'], False), (['-o', 'format={a:05}'], False), (['--format', '{a:+}'], False), (['-o', 'format={a:#}'], False),
           (['-o', 'format={a:,}'], False), (['-o', 'format={a:=5}'], False), (['-o', 'format=x {a:e} y'], False), (['-o', 'format={a:<5}|{a:>5}|{a:^5}|{a:.1}'], True),
           (['-o', 'json'], True), (['-o', 'logfmt'], True), (['-o', 'legacy'], True), (['-o', 'format={a}'], True), (['--format', '{a} {b}'], True), (['-o', 'format={{}}'], True)]
    for args, ok in cli:
        evals += 1
        p = subprocess.run([aglib.AGRIND, '* | json'] + args, input=b'{"a": 1}\n', stdout=subprocess.PIPE, stderr=subprocess.PIPE, env=aglib.ENV, timeout=20)
        if ok:
            if p.returncode != 0:
                failures.append({'kind': 'spec', 'what': 'valid output option %r rejected' % (args,), 'payload': {'args': args, 'stderr': p.stderr.decode()[-300:]}})
        else:
            if p.returncode == 0 or p.stdout != b'' or b'panicked' in p.stderr or p.stderr == b'':
                failures.append({'kind': 'spec', 'what': 'invalid output option %r not rejected cleanly before reading input (rc=%s stdout=%r)' % (args, p.returncode, p.stdout[:60]),
                                 'payload': {'args': args, 'stderr': p.stderr.decode()[-300:]}})
    # the same selection logic against the model of main()/parse_output (Cli.v), on a grid of -o / --format values
    import sexp as _sx
    outs_ = [None, 'json', 'logfmt', 'legacy', 'json=', 'legacy=x', 'logfmt=', 'format', 'format=', 'format={a}', 'format=a=b', 'format==', 'fmt={a}', 'JSON', ' json', 'json ', '=json', '', 'legacy=legacy']
    fmts_ = [None, '', '{a}', 'x=y']
    grid = [(o_, f_) for o_ in outs_ for f_ in fmts_]
    mres = aglib.run_model_many([_sx.dumps([_sx.Sym('cli'), _sx.Sym('none') if o_ is None else o_, _sx.Sym('none') if f_ is None else f_]) for o_, f_ in grid])
    for (o_, f_), m in zip(grid, mres):
        evals += 1
        args = ([] if o_ is None else ['-o', o_]) + ([] if f_ is None else ['--format', f_])
        p = subprocess.run([aglib.AGRIND, '* | json'] + args, input=b'{"a": 1}\n', stdout=subprocess.PIPE, stderr=subprocess.PIPE, env=aglib.ENV, timeout=20)
        accepted = p.returncode == 0
        model_accepts = not (isinstance(m, _sx.Sym) and str(m) == 'reject')
        if b'panicked' in p.stderr:
            failures.append({'kind': 'spec', 'what': 'output options %r crash' % (args,), 'payload': {'args': args, 'stderr': p.stderr.decode()[-300:]}})
        elif accepted != model_accepts:
            failures.append({'kind': 'corr', 'what': 'output options %r: implementation %s, model of main() %s' % (args, 'accepts' if accepted else 'rejects', _sx.dumps(m)),
                             'payload': {'args': args, 'stderr': p.stderr.decode()[-300:]}})
        elif not accepted and p.stdout != b'':
            failures.append({'kind': 'spec', 'what': 'rejected output options %r still produced output' % (args,), 'payload': {'args': args}})
    kinds = {}
    for r in jres:
        kinds[r['model']['kind']] = kinds.get(r['model']['kind'], 0) + 1
    # dates as text: chrono's three renderings (DateFmt.v) on every output path, and the clause itself - the JSON text of a
    # date, read back independently, is the instant that went in
    n_d, nt_d, f_d, st_d = ext.date_family(rng, quick)
    failures += f_d
    evals += n_d
    n_u, ok_u, f_u, st_u = ext.dur_family(rng, quick)
    failures += f_u
    evals += n_u
    cov = {
        'evaluations': evals, 'distinct_nontrivial': len(nontrivial),
        'rule': 'rows and tables with every value type incl. nested, NaN/inf (division by zero, overflow), keys needing JSON escaping, through -o json (validity, exact fields, column order, lossless values), '
                '-o logfmt and -o format=<template> (exact text against the model, literal text intact), and the CLI matrix of output options; non-trivial = a nested value in the output',
        'samples': samples_of(jcases[:2]) + [{'query': c.query, 'mode': c.mode} for c in tcases[:2]],
        'text_cases_unmodelled': unm, 'model_outcomes': kinds, 'cli_cases': len(cli) + len(grid),
        'model_vs_impl_disagreements': sum(1 for r in jres if r['corr']),
    }
    cov['date_text_family'] = dict(st_d, texts_equal_to_the_model=n_d - len(f_d))
    cov['duration_text_family'] = dict(st_u, texts_equal_to_the_model=ok_u)
    return {'coverage': cov, 'failures': failures}
