"""helpers shared by the property modules"""
import json
import os

import aglib
import qast
from runner import Case, run_cases, compare_default

STAR = ('and', [])


def col(name, *refs):
    return ('col', name, list(refs))


def lit(v):
    return ('lit', v)


def jline(obj):
    return json.dumps(obj, ensure_ascii=False) + '\n'


def corpus_cases(pid):
    d = os.path.join(aglib.VERIF, 'corpus', pid)
    out = []
    if os.path.isdir(d):
        for f in sorted(os.listdir(d)):
            if f.endswith('.json'):
                j = json.load(open(os.path.join(d, f)))
                items = j if isinstance(j, list) else [j]
                for it in items:
                    out.append(Case(it.get('id', f), tuplify(it['filter']), tuplify(it['stages']), it['input'],
                                    it.get('tags', ()), it.get('mode', 'json'), it.get('note')))
    return out


def tuplify(x):
    """ASTs stored as JSON come back as lists; the printers index positionally so lists are fine,
    but dict-valued literals must stay dicts"""
    return x


def payload(r, extra=None):
    c = r['case']
    p = {'query': c.query, 'input_lines': c.lines, 'mode': c.mode, 'case_id': c.cid,
         'model_case': c.sexp(), 'implementation': summarize(r['impl']), 'model': summarize(r['model']),
         'how_to_replay': "printf '%s' \"$input\" | agrind '<query>' -o json   (or: bin/agv check <id> --replay <this file>)"}
    if extra:
        p.update(extra)
    return p


def summarize(x):
    s = dict(x)
    if 'rows' in s and len(s['rows']) > 30:
        s['rows'] = s['rows'][:30] + ['... %d more' % (len(x['rows']) - 30)]
    return s


def samples_of(cases, n=3):
    return [{'query': c.query, 'input_lines': c.lines[:6] + (['...'] if len(c.lines) > 6 else [])} for c in cases[:n]]
