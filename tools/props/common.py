"""helpers shared by the property modules"""
import json
import os

import aglib
import qast
from runner import Case, run_cases, compare_default

STAR = ('and', [])


def col(name, *refs):
    return ('col', name, list(refs))


def lit(v):
    return ('lit', v)


def jline(obj):
    return json.dumps(obj, ensure_ascii=False) + '\n'


def corpus_cases(pid):
    d = os.path.join(aglib.VERIF, 'corpus', pid)
    out = []
    if os.path.isdir(d):
        for f in sorted(os.listdir(d)):
            if f.endswith('.json'):
                j = json.load(open(os.path.join(d, f)))
                items = j if isinstance(j, list) else [j]
                for it in items:
                    if 'filter' not in it:
                        continue          # a text case of the regression corpus (tools/corpus.py replays those)
                    out.append(Case(it.get('id', f), tuplify(it['filter']), tuplify(it['stages']), it['input'],
                                    it.get('tags', ()), it.get('mode', 'json'), it.get('note')))
    return out


def tuplify(x):
    """ASTs stored as JSON come back as lists; the printers index positionally so lists are fine,
    but dict-valued literals must stay dicts"""
    return x


def payload(r, extra=None):
    c = r['case']
    p = {'query': c.query, 'input_lines': c.lines, 'mode': c.mode, 'case_id': c.cid,
         'model_case': c.sexp(), 'implementation': summarize(r['impl']), 'model': summarize(r['model']),
         'how_to_replay': "printf '%s' \"$input\" | agrind '<query>' -o json   (or: bin/agv check <id> --replay <this file>)"}
    if extra:
        p.update(extra)
    return p


def summarize(x):
    s = dict(x)
    if 'rows' in s and len(s['rows']) > 30:
        s['rows'] = s['rows'][:30] + ['... %d more' % (len(x['rows']) - 30)]
    return s


def samples_of(cases, n=3):
    return [{'query': c.query, 'input_lines': c.lines[:6] + (['...'] if len(c.lines) > 6 else [])} for c in cases[:n]]


def known_findings_for(pid):
    return [f for f in aglib.load_known() if pid in f.get('properties', []) and f.get('status') == 'known']


def replay_known(pid):
    """-> (lines to print as KNOWN-FINDING, set of class names still present)"""
    lines = []
    classes = set()
    for f in known_findings_for(pid):
        w = f['witness']
        if w.get('interactive'):
            # a history, not a one-shot input: the property module replays it and prints the line itself
            classes.add(f['class'])
            continue
        winp = ''.join(w['input'])
        if w.get('input_file'):
            winp = open(os.path.join(aglib.VERIF, w['input_file']), encoding='utf8').read()
        o = aglib.run_impl_one(w['query'], winp.encode('utf8'), w.get('mode', 'json'), timeout=60)
        out = o['out'].decode('utf8', 'replace').strip()
        still = True
        if w.get('correct_stdout_has') is not None:
            still = w['correct_stdout_has'] not in o['out'].decode('utf8', 'replace')
        elif w.get('correct_stderr_has') is not None:
            still = w['correct_stderr_has'] not in o['err'].decode('utf8', 'replace')
        elif w.get('correct_output') is not None:
            still = (out != w['correct_output'])
        elif w.get('correct_stdout_line_count') is not None:
            still = len(out.split('\n')) != w['correct_stdout_line_count']
        elif f['class'] == 'ckms_rank_error_beyond_tolerance':
            # still there iff the cell's true rank is further from the target than the documented 0.001 * n
            try:
                cell = json.loads(out)[0][w['pct_col']]
                vals = sorted(json.loads(l)['x'] for l in winp.split('\n') if l)
                ranks = [i + 1 for i, v in enumerate(vals) if v == cell]
                err = min(abs(r - w['pct'] / 100.0 * len(vals)) for r in ranks) if ranks else None
                still = err is None or err > 0.001 * len(vals)
                out = '%s, true rank %s..%s of %d' % (out, ranks[0] if ranks else '?', ranks[-1] if ranks else '?', len(vals))
            except (ValueError, KeyError, IndexError):
                still = True
        elif f['class'] == 'dup_agg_column_name':
            still = out.count('"_sum"') >= 2 or o['rc'] == 0 and '"_sum"' in out and '11' not in out
        if still:
            classes.add(f['class'])
            lines.append('%s %s [witness: %s on %r -> %s]' % (f['id'], f['what'], w['query'], (w.get('input_file') or ''.join(w['input']))[:80], out[:80]))
    return lines, classes


def check_pct_cell(cell, ph):
    """the implementation's percentile cell vs what the model says reached the sketch"""
    if any(x is None for x in ph['__pct_vals']):
        return None        # non-finite values reached the sketch: its answer is not constrained here
    vals = sorted(qast.bits2f(x.bits) if isinstance(x, aglib.F) else float(x) for x in ph['__pct_vals'])
    q = ph['__pct_q']
    q = qast.bits2f(q.bits) if isinstance(q, aglib.F) else float(q)
    if cell is None:
        return 'percentile of a non-empty group is None'
    c = qast.bits2f(cell.bits) if isinstance(cell, aglib.F) else float(cell)
    idx = [i for i, v in enumerate(vals) if v == c or (v != v and c != c)]
    if not idx:
        return 'percentile %r is not one of the observed values' % c
    n = len(vals)
    target = q * n
    tol = 0.001 * n + 1.0
    if min(abs(i + 1 - target) for i in idx) > tol + 1 and min(abs(i - target) for i in idx) > tol + 1:
        return 'percentile %r has rank %r, target %.2f of %d' % (c, idx, target, n)
    return None


def compare_with_pct(case, impl, model):
    """like the default comparison, but percentile cells are checked against the model's placeholder"""
    if model['kind'] != 'table' or impl['kind'] != 'table':
        return compare_default(case, impl, model)
    has_ph = any(isinstance(v, dict) and '__pct_q' in v for row in model['rows'] for v in row.values())
    if not has_ph:
        return compare_default(case, impl, model)
    if len(impl['rows']) != len(model['rows']):
        return 'row count: implementation %d, model %d' % (len(impl['rows']), len(model['rows']))
    # rows are matched by their non-percentile cells (the order may depend on the sketch's answer)
    def strip(row, phcols):
        return aglib.canon_key({k: v for k, v in row.items() if k not in phcols})
    phcols = {k for row in model['rows'] for k, v in row.items() if isinstance(v, dict) and '__pct_q' in v}
    mm = {}
    for row in model['rows']:
        mm.setdefault(strip({c: row.get(c) for c in model['cols']}, phcols), []).append(row)
    def cell_why(row, mrow):
        for c in phcols:
            ph = mrow.get(c)
            if isinstance(ph, dict):
                why = check_pct_cell(row.get(c), ph)
                if why:
                    return why
            elif not aglib.same(row.get(c), ph):
                return 'cell %s: implementation %r, model %r' % (c, row.get(c), ph)
        return None
    for row in impl['rows']:
        cand = mm.get(strip(row, phcols))
        if not cand:
            return 'row %r has no counterpart in the model' % (row,)
        # several model rows can look alike outside the percentile cells (group keys None and NaN both print null):
        # the row takes the first of them whose percentile cells fit; it is a difference only when none does
        whys = [cell_why(row, mrow) for mrow in cand]
        ok = [k for k, w in enumerate(whys) if w is None]
        if not ok:
            return whys[0]
        cand.pop(ok[0])
    return None


