"""Small Python references shared by C02/C06/C07: Rust-like from_string, the regex that
Keyword::to_regex builds (through Python's re), split_with_delimiters."""
import re

import aglib
from props import aggoracle

INT_RE = re.compile(r'^[+-]?\d+$')
FLOAT_RE = re.compile(r'^[+-]?(?:(?:\d+\.?\d*|\.\d+)(?:[eE][+-]?\d+)?|inf|infinity|nan)$', re.I)
RUST_WS = '\t\n\x0b\x0c\r \x85\xa0                　'


def rust_trim(s):
    return s.strip(RUST_WS)


def from_string(s):
    t = rust_trim(s)
    if INT_RE.match(t) and t.isascii():
        n = int(t)
        if -2**63 <= n <= 2**63 - 1:
            return n
    if FLOAT_RE.match(t) and t.isascii():
        return aggoracle.from_float(float(t))
    if t == 'true':
        return True
    if t == 'false':
        return False
    return t


META = set('\\.+*?()|[]{}^$#&-~')


def kw_regex(text, kind):
    """Keyword::to_regex for exact / wildcard keywords, as a Python regex"""
    t = text          # the literal text as written (the lexer's unescaping is done by the query printer's inverse)
    out = []
    for ch in t:
        if ch == ' ' and kind == 'wild':      # a blank of a parse pattern is any whitespace; in a quoted keyword it is a blank
            out.append(r'[\t\n\x0b\x0c\r \x85\xa0  -     　]')
        elif ch == '*' and kind == 'wild':
            out.append('(.*?)')
        elif ch in META:
            out.append('\\' + ch)
        else:
            out.append(re.escape(ch))
    rx = ''.join(out)
    if kind == 'wild' and text.endswith('*'):
        rx += r'\Z'
    # a bare keyword / parse pattern is caseless and its wildcards span line breaks; a quoted keyword is case-sensitive
    return re.compile(rx, (re.I | re.S) if kind == 'wild' else 0)


def split_with_delimiters(inp, sep):
    wip = inp
    ret = []
    while wip:
        if wip[0] in '"\'':
            q = wip[0]
            pos = 1
            found = None
            while pos < len(wip):
                i = wip.find(q, pos)
                if i < 0:
                    break
                if i == 0 or wip[i - 1] != '\\':
                    found = i
                    break
                pos = i + 1
            if found is None:
                token, rest = wip, ''
            else:
                token, rest = wip[1:found], wip[found + 1:]
        else:
            i = wip.find(sep)
            if i < 0:
                token, rest = wip, ''
            else:
                token, rest = wip[:i], wip[i + len(sep):]
        token = rust_trim(token)
        if token:
            ret.append(token)
        wip = rest
    return ret
