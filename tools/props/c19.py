"""C19 — tables fit the terminal and show all the data."""
import json
import re
from concurrent.futures import ThreadPoolExecutor

import aglib
import gen
import ptydrive
import qast
import sexp
from props.common import *

TRUSTED_BASE = ['display width is counted in characters (as the code does): East-Asian wide and combining characters make the visual width differ (stated bound)',
                'on a terminal the padding depends on how many intermediate frames were drawn (column widths persist): the screen is checked against layout constraints, the non-terminal output exactly against the model']
ASSUMPTIONS = ['column names and cells contain no newline']

CELLS = ['', 'a', 'ab', 'hello world', 'x' * 30, 'y' * 120, 'é', 'ёжик в тумане', '日本語', 'ünï', ' lead', 'trail ', '0', 'None']


def gen_table_rows(rng, ncols, nrows):
    cols = ['c%d' % i for i in range(ncols)]
    if rng.random() < 0.3:
        cols[rng.randrange(ncols)] = 'a_rather_long_column_name_%d' % rng.randint(0, 9)
    if rng.random() < 0.2:
        cols[rng.randrange(ncols)] = 'имя'
    cols = list(dict.fromkeys(cols))
    rows = []
    for i in range(nrows):
        r = {'id': i}
        for c in cols:
            k = rng.random()
            if k < 0.1:
                continue
            r[c] = rng.choice(CELLS) if k < 0.6 else rng.choice([rng.randint(-5, 10**6), rng.random() * 1000, None, True, [1, 'a'], {'p': 1.5}])
        rows.append(r)
    return cols, rows


def cell_text(v):
    """ValueDisplay, through Python"""
    if v is None:
        return 'None'
    if v is True:
        return 'true'
    if v is False:
        return 'false'
    if isinstance(v, str):
        return v
    if isinstance(v, int) and not (-2**63 <= v < 2**63):
        v = float(v)          # a JSON integer beyond i64 is read as a double
    if isinstance(v, int):
        return str(v)
    if isinstance(v, float):
        from props import aggoracle
        nv = aggoracle.from_float(v)
        if isinstance(nv, int):
            return str(nv)
        return '%.2f' % v
    if isinstance(v, list):
        return '[' + ', '.join(cell_text(x) for x in v) + ']'
    if isinstance(v, dict):
        return '{' + ', '.join('%s:%s' % (k, cell_text(x)) for k, x in sorted(v.items())) + '}'
    raise TypeError(v)


def column_order(cols, rows):
    """the Sorter discovers columns row by row (new keys of a row in sorted order); `fields` keeps that order"""
    order = []
    for r in rows:
        for k in sorted(r.keys()):
            if k not in order:
                order.append(k)
    present = [r for r in rows if any(k in r for k in cols)]
    return [k for k in order if k in cols and any(k in r for r in present)], present


def check_screen(lines, cols, rows, h, w):
    """layout constraints on the text of an aggregate table (sorted by id: `sort by id`)"""
    lines = [l for l in lines]
    while lines and lines[-1].strip() == '':
        lines.pop()
    if not rows:
        return None if [l.strip() for l in lines] == ['No data'[:w].strip()] else 'empty result does not print "No data" (cut to the width): %r' % lines[:3]
    if len(lines) > h - 1:
        return 'more than height-1 lines on the terminal (%d > %d)' % (len(lines), h - 1)
    for l in lines:
        if len(l.rstrip()) > w:
            return 'a line is wider than the terminal: %d > %d' % (len(l.rstrip()), w)
    all_rows = rows
    rows = rows[:max(0, h - 3)]
    # rows made of blank cells are indistinguishable from no row at the end of the text
    while len(lines) < min(h - 1, len(all_rows) + 2):
        lines.append('')
    if len(lines) < min(h - 1, len(all_rows) + 2):
        return 'too few lines: %d for %d rows (height %d)' % (len(lines), len(rows), h)
    header = lines[0]
    # column offsets from the header: every column named (possibly cut with an ellipsis), in column order
    offs = []
    pos = 0
    for c in cols:
        m = None
        for cut in range(len(c), -1, -1):
            probe = c[:cut] + ('' if cut == len(c) else '…')
            if probe == '':
                continue
            j = header.find(probe, pos)
            if j >= 0 and header[pos:j].strip() == '':
                m = (j, cut == len(c), len(probe))
                break
        if m is None:
            # a column squeezed to zero width cannot be shown at all: only acceptable when the terminal is narrower than 2 chars per column
            if w < 3 * len(cols):
                return None
            return 'header does not name column %r in order: %r' % (c, header)
        offs.append(m[0])
        pos = m[0] + m[2]
    if len(lines) >= 2 and set(lines[1].strip()) != {'-'}:
        return 'second line is not the separator: %r' % lines[1]
    bounds = offs + [None]
    for li, line in enumerate(lines[2:]):
        row = rows[li]
        for ci, c in enumerate(cols):
            seg = line[bounds[ci]:bounds[ci + 1]] if bounds[ci + 1] is not None else line[bounds[ci]:]
            width = (bounds[ci + 1] - bounds[ci]) if bounds[ci + 1] is not None else None
            want = cell_text(row.get(c)) if c in row else 'None'
            got = seg.rstrip(' ')
            want_r = want.rstrip(' ')
            if got == want_r:
                continue
            if got.endswith('…') and want.startswith(got[:-1]) and (width is None or len(want) > width):
                continue
            if width is not None and width <= 1 and want.startswith(got):
                continue
            return 'row %d column %r: cell shows %r at offset %d, value is %r' % (li, c, seg, bounds[ci], want)
    return None


def explore(ctx):
    rng = ctx['rng']
    quick = ctx['tier'] == 'quick'
    n = 300 if quick else 6000
    npty = 40 if quick else 800
    failures = []
    # ---- no terminal: the text is a deterministic function of the table -> exact comparison with the model
    cases = []
    for i in range(n):
        cols, rows = gen_table_rows(rng, rng.randint(1, 12) if rng.random() < 0.8 else rng.randint(13, 30), rng.randint(0, 12) if rng.random() < 0.8 else rng.randint(13, 200))
        stages = [('json', None), ('sort', [col('id')], None), ('fields', 'only', cols)]
        cases.append(Case('n%d' % i, STAR, stages, [gen.jtext(r) for r in rows], {'notty'}, note={'cols': cols, 'rows': rows}))
    outs = aglib.run_impl_many([(c.query, c.inp, None, ()) for c in cases])
    mres = aglib.run_model_many([qast.print_case_sexp(('legacy', None), c.filt, c.stages, c.lines) for c in cases])
    unm = 0
    nontrivial = set()
    for c, o, m in zip(cases, outs, mres):
        if o['rc'] != 0 or b'panicked' in o['err']:
            failures.append({'kind': 'spec', 'what': 'table printing crashed rc=%s' % o['rc'], 'payload': {'query': c.query, 'input_lines': c.lines[:5], 'stderr': o['err'].decode('utf8', 'replace')[-300:]}})
            continue
        got = o['out'].decode('utf8', 'replace')
        cols_present, rows_present = column_order(c.note['cols'], c.note['rows'])
        why = check_screen(got.split('\n'), cols_present, rows_present, 10**9, 240)
        if why:
            failures.append({'kind': 'spec', 'what': 'no-terminal table: ' + why, 'payload': {'query': c.query, 'input_lines': c.lines[:30], 'output': got[:3000]}})
            continue
        if isinstance(m, sexp.Sym):
            unm += 1
            continue
        if got != m[2]:
            failures.append({'kind': 'corr', 'what': 'table text differs from the model', 'payload': {'query': c.query, 'input_lines': c.lines[:30], 'output': got[:2000], 'model_output': m[2][:2000]}})
        if any(len(cell_text(v)) > 40 for r in rows_present for v in r.values()) or len(cols_present) > 12:
            nontrivial.add(c.query + '\0' + c.inp.decode('utf8', 'replace'))
    # ---- on a terminal: layout constraints on the final screen
    jobs = []
    for i in range(npty):
        h = rng.choice([3, 4, 6, 10, 24, 50])
        # one table in three has as many rows as just fit, one fewer or one more (header + rule + rows against height - 1)
        nrows = rng.randint(0, 40) if i % 3 else max(0, h - 3 + (i // 3) % 4 - 1)
        cols, rows = gen_table_rows(rng, rng.randint(1, 10), nrows)
        stages = [('json', None), ('sort', [col('id')], None), ('fields', 'only', cols)]
        w = rng.choice([4, 8, 12, 20, 40, 80, 120, 240])
        c = Case('t%d' % i, STAR, stages, [gen.jtext(r) for r in rows], {'tty'}, note={'cols': cols, 'rows': rows})
        jobs.append((c, h, w))

    def run(job):
        c, h, w = job
        return ptydrive.run_pty(c.query, [(c.inp, 0)], h, w)
    with ThreadPoolExecutor(8) as ex:
        pouts = list(ex.map(run, jobs))
    screens = ptydrive.emulate_many([(h, w, o['out']) for (c, h, w), o in zip(jobs, pouts)])
    for (c, h, w), o, scr in zip(jobs, pouts, screens):
        if o['rc'] != 0 or b'panicked' in o['err']:
            failures.append({'kind': 'spec', 'what': 'table printing on a %dx%d terminal crashed (rc=%s): %s' % (h, w, o['rc'], o['err'].decode('utf8', 'replace')[-200:]),
                             'payload': {'query': c.query, 'input_lines': c.lines[:30], 'terminal': [h, w]}})
            continue
        cols_present, rows_present = column_order(c.note['cols'], c.note['rows'])
        # the raw frames must not exceed the width either (a wrapped line would show up as an extra row)
        why = check_screen(scr['lines'], cols_present, rows_present, h, w)
        if why:
            failures.append({'kind': 'spec', 'what': 'terminal %dx%d: %s' % (h, w, why),
                             'payload': {'query': c.query, 'input_lines': c.lines[:30], 'terminal': [h, w], 'screen': scr['lines']}})
        if w <= 40 or len(rows_present) > h - 3:
            nontrivial.add(c.query + '\0' + str((h, w)) + c.inp.decode('utf8', 'replace'))
    # ---- records: every field as [name=value], column order stable across rows; text equal to the model's
    rec_checked = 0
    rec_cases = []
    for i in range(40 if quick else 600):
        rows = gen.gen_rows(rng, rng.randint(1, 15), rich=(i % 3 == 0))
        if i % 5 == 0:
            rows.insert(rng.randrange(len(rows) + 1), {})
        rec_cases.append(Case('r%d' % i, STAR, [('json', None)], [gen.jtext(r) for r in rows], {'records'}, note={'rows': rows}))
    routs = aglib.run_impl_many([(c.query, c.inp, None, ()) for c in rec_cases])
    rmodel = aglib.run_model_many([qast.print_case_sexp(('legacy', None), c.filt, c.stages, c.lines) for c in rec_cases])
    for c, o, m in zip(rec_cases, routs, rmodel):
        rows = c.note['rows']
        if o['rc'] != 0:
            continue
        rec_checked += 1
        got = o['out'].decode('utf8', 'replace')
        if not isinstance(m, sexp.Sym) and got != m[2]:
            failures.append({'kind': 'corr', 'what': 'record text differs from the model', 'payload': {'query': c.query, 'input_lines': c.lines[:30], 'output': got[:2000], 'model_output': m[2][:2000]}})
        order = {}
        lines = got.split('\n')
        for li, (line, row) in enumerate(zip(lines, rows)):
            names = re.findall(r'\[([A-Za-z_][A-Za-z0-9_]*)=', line)
            for k, v in row.items():
                tok = '[%s=%s]' % (k, cell_text(v))
                if tok not in line:
                    failures.append({'kind': 'spec', 'what': 'record line does not show field %s as %s: %r' % (k, tok, line),
                                     'payload': {'query': '* | json', 'input_lines': c.lines}})
                    break
            seq = [nm for nm in names if nm in row]
            for a in range(len(seq)):
                for b in range(a + 1, len(seq)):
                    if order.get((seq[b], seq[a])):
                        failures.append({'kind': 'spec', 'what': 'column order of record output is not stable: %s/%s swapped at line %d' % (seq[a], seq[b], li),
                                         'payload': {'query': '* | json', 'input_lines': c.lines}})
                    order[(seq[a], seq[b])] = True
    # records on narrow terminals: the overflow reset path, byte stream compared with the model
    rjobs = []
    for i in range(12 if quick else 200):
        rows = gen.gen_rows(rng, rng.randint(2, 10), rich=False)
        c = Case('rt%d' % i, STAR, [('json', None)], [gen.jtext(r) for r in rows], {'records', 'tty'}, note={'rows': rows})
        rjobs.append((c, rng.choice([6, 24]), rng.choice([20, 40, 60, 100])))
    with ThreadPoolExecutor(8) as ex:
        rpouts = list(ex.map(lambda j: ptydrive.run_pty(j[0].query, [(j[0].inp, 0)], j[1], j[2]), rjobs))
    rpm = aglib.run_model_many([qast.print_case_sexp(('legacy', (w, h)), c.filt, c.stages, c.lines) for (c, h, w) in rjobs])
    for (c, h, w), o, m in zip(rjobs, rpouts, rpm):
        if o['rc'] != 0 or b'panicked' in o['err']:
            failures.append({'kind': 'spec', 'what': 'record printing on a %dx%d terminal crashed (rc=%s)' % (h, w, o['rc']), 'payload': {'query': c.query, 'input_lines': c.lines, 'terminal': [h, w]}})
            continue
        rec_checked += 1
        got = o['out'].decode('utf8', 'replace').replace('\r\n', '\n')
        if not isinstance(m, sexp.Sym) and got != m[2]:
            failures.append({'kind': 'corr', 'what': 'record text on a %dx%d terminal differs from the model' % (h, w),
                             'payload': {'query': c.query, 'input_lines': c.lines[:30], 'terminal': [h, w], 'output': got[:2000], 'model_output': m[2][:2000]}})
    cov = {
        'evaluations': len(cases) + len(jobs) + rec_checked, 'distinct_nontrivial': len(nontrivial),
        'rule': 'tables of 1..30 columns x 0..200 rows (cells from empty to 120 characters, multi-byte text, long and non-ASCII column names, missing cells, nested values): '
                'without a terminal compared exactly with the model and against layout constraints; on ptys of 3..50 rows x 4..240 columns checked against the constraints '
                '(<= height-1 lines, no line wider than the terminal, header names every column in order, every cell at its column offset, whole or cut with an ellipsis); record output: every field as [name=value], stable order; '
                'non-trivial = needs clipping/ellipsis or has > 12 columns',
        'samples': samples_of(cases[:2]) + [{'query': jobs[0][0].query, 'terminal': [jobs[0][1], jobs[0][2]]}],
        'no_terminal_cases': len(cases), 'pty_cases': len(jobs), 'record_cases': rec_checked, 'unmodelled': unm,
    }
    # the empty result on a LIVE terminal: a table that had rows at an earlier refresh and has none at the end must
    # end as `No data` too (and a table that moves must end as the final table), whatever was drawn before
    from props import c16
    live = c16.run_live(ctx, c16.MOVING[2:], 4 if quick else 60)
    failures += live['failures']
    cov['live_terminal_cases'] = live['coverage']['evaluations']
    cov['evaluations'] += live['coverage']['evaluations']
    cov['rule'] += '; live-terminal schedules in which the table shrinks to empty: the last frame is `No data`'
    # KF-45 is a history on a terminal: replayed here
    known_lines = []
    wide = json.dumps({'a': 1, 'b': 2, 'c': 'x' * 70}).encode() + b'\n'
    o = ptydrive.run_pty('* | json', [(b'{"b":1}\n{"a":2,"b":1}\n', 0.1), (wide, 0.1), (b'{"a":3,"b":4}\n', 0.1)], 24, 60)
    text = o['out'].decode('utf8', 'replace').replace('\r', '')
    rows_ = [l for l in text.split('\n') if l.strip()]
    cov['evaluations'] += 1
    if len(rows_) == 4 and rows_[1].index('[b=') < rows_[1].index('[a=') and rows_[3].find('[a=') < rows_[3].find('[b='):
        if 'record_column_order_restarts_on_overflow' in ctx.get('known_classes', ()):
            known_lines.append('KF-45 record output on a terminal: after a row wider than the terminal the column order starts again from that row '
                               '[history: * | json on 24x60; row 2 prints %r, row 4 prints %r]' % (rows_[1].strip(), rows_[3].strip()))
        else:
            failures.append({'kind': 'spec', 'what': 'record output: the column order changed after an over-wide row: %r then %r' % (rows_[1].strip(), rows_[3].strip()),
                             'payload': {'query': '* | json', 'terminal': [24, 60], 'rows': rows_}})
    return {'coverage': cov, 'failures': failures, 'known_lines': known_lines}
