"""An independent (Python) reference for aggregations over plain columns, used by
C01 and C14 as the executable specification on the implementation's own output."""
import math

import aglib
import qast

I64_MIN, I64_MAX = -2**63, 2**63 - 1


def from_float(f):
    if f != f or f in (float('inf'), float('-inf')):
        return aglib.F(f)
    if f == math.floor(f) and -2.0**63 <= f < 2.0**63:
        return int(f)
    return aglib.F(f)


def canon_in(v):
    """a JSON input value as agrind holds it after `json`"""
    if isinstance(v, bool) or v is None or isinstance(v, str):
        return v
    if isinstance(v, int):
        if I64_MIN <= v <= I64_MAX:
            return v
        return from_float(float(v))
    if isinstance(v, float):
        return from_float(v)
    if isinstance(v, list):
        return [canon_in(x) for x in v]
    if isinstance(v, dict):
        return {k: canon_in(x) for k, x in v.items()}
    raise TypeError(v)


def num_of(v):
    """Evaluate<f64>: ints and floats only here (strings are kept out of oracle cases)"""
    if isinstance(v, bool) or v is None:
        return None
    if isinstance(v, int):
        return float(v)
    if isinstance(v, aglib.F):
        return qast.bits2f(v.bits)
    return None


def exact_of(v):
    """the numeric value itself: an int stays an int"""
    if isinstance(v, bool) or v is None:
        return None
    if isinstance(v, int):
        return v
    if isinstance(v, aglib.F):
        return qast.bits2f(v.bits)
    return None


MISSING = object()


def plain_col(e):
    return e[0] == 'col' and not e[2]


def oracle_applicable(stage, rows):
    """keys and arguments are plain columns; argument values are never strings"""
    for _h, e in stage[2]:
        if not plain_col(e):
            return False
    for _n, fn in stage[1]:
        if fn[0] == 'count':
            if fn[1] is not None:
                return False
        elif fn[0] == 'pct':
            return False
        else:
            if not plain_col(fn[1]):
                return False
            if fn[0] != 'distinct':
                c = fn[1][1]
                if any(isinstance(r.get(c), str) for r in rows):
                    return False
    return True


def aggregate(stage, rows):
    """-> list of dict rows (unordered)"""
    keycols = [e[1] for _h, e in stage[2]]
    groups = {}
    order = []
    for r in rows:
        cr = {k: canon_in(v) for k, v in r.items()}
        key = tuple(aglib.canon_key(cr.get(c, None)) for c in keycols)   # a key that fails groups under None
        if key not in groups:
            groups[key] = {'keyvals': [cr.get(c, None) for c in keycols], 'rows': []}
            order.append(key)
        groups[key]['rows'].append(cr)
    out = []
    for key in order:
        g = groups[key]
        row = dict(zip(keycols, g['keyvals']))
        for name, fn in stage[1]:
            col = name if name is not None else qast.fn_default_name(fn)
            t = fn[0]
            if t == 'count':
                row[col] = len(g['rows'])
                continue
            c = fn[1][1]
            if t == 'distinct':
                seen = set()
                for r in g['rows']:
                    if c in r:
                        seen.add(aglib.canon_key(r[c]))
                row[col] = len(seen)
                continue
            nums = [num_of(r[c]) for r in g['rows'] if c in r and num_of(r[c]) is not None]
            if t == 'sum':
                tot = 0.0
                for x in nums:
                    tot += x
                row[col] = from_float(tot)
            elif t == 'avg':
                tot = 0.0
                for x in nums:
                    tot += x
                row[col] = from_float(tot / len(nums)) if nums else None   # NaN prints as null
                if isinstance(row[col], aglib.F) and qast.bits2f(row[col].bits) != qast.bits2f(row[col].bits):
                    row[col] = None
            elif t in ('min', 'max'):
                # the extremum is one of the values, exactly (Python compares ints and floats by value); NaN is no candidate
                ex = [exact_of(r[c]) for r in g['rows'] if c in r and exact_of(r[c]) is not None]
                ex = [x for x in ex if x == x]
                if not ex:
                    row[col] = None
                else:
                    m = min(ex) if t == 'min' else max(ex)
                    row[col] = from_float(m) if isinstance(m, float) else m      # an infinite extremum is a value (prints as null in JSON)
        out.append({k: (None if isinstance(v, aglib.F) and (qast.bits2f(v.bits) != qast.bits2f(v.bits) or abs(qast.bits2f(v.bits)) == float('inf')) else v)
                    for k, v in row.items()})
    return out
