"""C07 — parse and split extract exactly the delimited text."""
import json
import re

import aglib
import gen
import qast
from props.common import *
from props import ext
from props import aggoracle, pyref

TRUSTED_BASE = ['the wildcard matcher is checked against Python\'s re on the regex that Keyword::to_regex is documented to build (escape, (?i), space -> \\s, * -> (.*?), trailing * -> $); the regex crate itself is not modelled',
                'parse regex: the regex crate is an oracle; the Coq matcher (Regex.v) covers a subset (literals, classes, . \\d \\w \\s on ASCII text, greedy/lazy * + ? {m,n}, groups, alternation, ^ $) and is compared with the binary on generated patterns; everything else is outside the model']
ASSUMPTIONS = ['patterns and case-varied text use ASCII letters (Unicode case folding of the regex crate is outside the model)']

LITS = ['a', 'b', 'ab', 'GET', 'id', '=', ':', ' ', '  ', '\t', '[', ']', '(', ')', '.', '+', '?', '|', '^', '$', '{', '}', '\\', '/', '-', '"', "'", ',', 'x.y', 'é', '#', '&', '~']
WORDS = ['foo', 'bar', '42', '-7', '3.5', 'true', 'Hello World', 'a=b', '', ' pad ', 'x', 'GET /index.html', '1e3', '007', 'ERROR', 'é']


def gen_pattern(rng):
    nstar = rng.randint(1, 8) if rng.random() < 0.3 else rng.randint(1, 3)
    segs = []
    for i in range(nstar + 1):
        seg = ''.join(rng.choice(LITS) for _ in range(rng.randint(0 if i in (0, nstar) else 1, 3)))
        segs.append(seg)
    # two adjacent wildcards are legal but degenerate; keep inner segments non-empty
    return segs


def build_line(rng, segs):
    """a line that should match (most of the time), with case/whitespace variation on the literal parts"""
    def vary(seg):
        out = []
        for ch in seg:
            if ch == ' ' and rng.random() < 0.3:
                out.append(rng.choice(['\t', ' ', ' ']))
            elif ch.isascii() and ch.isalpha() and rng.random() < 0.3:
                out.append(ch.swapcase())
            else:
                out.append(ch)
        return ''.join(out)
    caps = [rng.choice(WORDS) for _ in range(len(segs) - 1)]
    body = vary(segs[0])
    for cap, seg in zip(caps, segs[1:]):
        body += cap + vary(seg)
    kind = rng.random()
    if kind < 0.6:
        line = rng.choice(['', '', 'pre ', '  ']) + body + rng.choice(['', '', ' post', ' '])
    elif kind < 0.75:
        line = body + ' ' + body            # repeated text: leftmost / lazy matters
    elif kind < 0.9:
        line = body[:max(0, len(body) - rng.randint(1, 3))]     # near miss
    else:
        line = rng.choice(WORDS)
    return line.replace('\n', ' ')


def explore(ctx):
    rng = ctx['rng']
    quick = ctx['tier'] == 'quick'
    n = 1200 if quick else 30000
    failures = []
    cases = corpus_cases('C07')
    for i in range(n):
        segs = gen_pattern(rng)
        pat = '*'.join(segs)
        if not pat.replace('*', '') and rng.random() < 0.7:
            continue
        fields = ['f%d' % (k + 1) for k in range(len(segs) - 1)]
        nodrop = rng.random() < 0.3
        noconvert = rng.random() < 0.3
        lines = [build_line(rng, segs) for _ in range(rng.randint(1, 5))]
        use_from = rng.random() < 0.25
        if use_from:
            # a field value may contain line breaks: a wildcard spans them, a pattern blank matches them
            lines = [(l.replace(' ', '\n', 1) if rng.random() < 0.5 else l[::-1].replace(' ', '\n', 1)[::-1]) if rng.random() < 0.35 else l for l in lines]
            stages = [('json', None), ('parse', pat, fields, col('msg'), nodrop, noconvert)]
            inp = [json.dumps({'msg': l, 'f1': 'old'}) + '\n' for l in lines]
        else:
            stages = [('parse', pat, fields, None, nodrop, noconvert)]
            inp = [l + '\n' for l in lines]
        try:
            cases.append(Case('p%d' % i, STAR, stages, inp, {'parse', 'from' if use_from else 'raw'},
                              note={'pat': pat, 'fields': fields, 'nodrop': nodrop, 'noconvert': noconvert, 'lines': lines, 'from': use_from}))
        except ValueError:
            continue
    for i in range(n // 2):
        sep = rng.choice([',', ' ', ', ', '::', 'ab', '|', 'é', '--', '\t'])
        toks = []
        for _ in range(rng.randint(0, 6)):
            r = rng.random()
            if r < 0.6:
                toks.append(rng.choice(['a', 'b', '1', '2.5', ' x ', '', 'foo bar', 'true', 'é']))
            elif r < 0.85:
                q = rng.choice(['"', "'"])
                toks.append(q + rng.choice(['in, side', 'a b', '', 'esc \\' + q + ' q', sep]) + q)
            else:
                toks.append(rng.choice(['"unterminated', "it's", 'a"b']))
        text = sep.join(toks)
        as_expr = rng.choice([None, None, col('parts')])
        stages = [('json', None), ('split', sep, col('s'), as_expr)]
        cases.append(Case('s%d' % i, STAR, stages, [json.dumps({'s': text}) + '\n'], {'split'}, note={'sep': sep, 'text': text, 'out': 'parts' if as_expr else 's'}))
    results = run_cases(cases)
    nontrivial = set()
    for r in results:
        c = r['case']
        impl = r['impl']
        spec = None
        if impl['kind'] != 'rows':
            spec = 'parse/split did not run cleanly: %s' % impl['kind']
        elif 'parse' in c.tags:
            nt = c.note
            rx = pyref.kw_regex(nt['pat'], 'wild')
            want = []
            for l in nt['lines']:
                base = {'msg': l, 'f1': 'old'} if nt['from'] else {}
                m = rx.search(pyref.rust_trim(l))
                if m:
                    row = dict(base)
                    for f, g in zip(nt['fields'], m.groups()):
                        row[f] = g if nt['noconvert'] else pyref.from_string(g)
                    want.append(row)
                elif nt['nodrop']:
                    row = dict(base)
                    for f in nt['fields']:
                        if f not in row:
                            row[f] = None
                    want.append(row)
            want = [w for w in want]
            got = impl['rows']
            if len(got) != len(want) or any(not aglib.same(g, w) for g, w in zip(got, want)):
                spec = 'parse %r: got %r, expected %r' % (nt['pat'], got[:4], want[:4])
            if nt['pat'].count('*') >= 2:
                nontrivial.add(c.query + c.inp.decode('utf8', 'replace'))
        elif 'split' in c.tags:
            nt = c.note
            want = [pyref.from_string(t) for t in pyref.split_with_delimiters(nt['text'], nt['sep'])]
            got = impl['rows'][0].get(nt['out']) if impl['rows'] else '<no row>'
            if not aglib.same(got, want):
                spec = 'split on %r of %r: got %r, expected %r' % (nt['sep'], nt['text'], got, want)
            nontrivial.add(c.inp)
        if spec:
            failures.append({'kind': 'spec', 'what': spec, 'payload': payload(r)})
        elif r['corr']:
            failures.append({'kind': 'corr', 'what': r['corr'], 'payload': payload(r)})
    # parse regex with named groups: a subset on which Python re and the regex crate agree
    rx_cases = [(r'(?P<a>\d+)-(?P<b>[a-z]+)', ['12-ab', 'x 7-q y 8-z', 'nope', '3-', '-ab']),
                (r'id=(?P<id>\w+)', ['id=7 id=8', 'ID=9', 'id=']),
                (r'(?P<k>[A-Z]+):(?P<v>\S*)', ['KEY:val', 'a:b', 'X: y', 'AB:1 CD:2']),
                # optional / alternative named groups that do not take part in the match: None in their own position
                (r'(?:user=(?P<user>\w+) )?status=(?P<status>\d+)(?: ms=(?P<ms>\d+))?', ['user=bob status=200 ms=5', 'status=404 ms=7', 'status=500', 'user=al status=1', 'nothing']),
                (r'(?P<a>x\d)|(?P<b>y\d)', ['x1', 'y2', 'z3 y4']),
                (r'(?P<first>[a-z]+)?-(?P<second>[a-z]+)?-(?P<third>[a-z]+)?', ['a-b-c', '--c', 'a--', '-b-'])]
    nrx = 0
    for rx, lines in rx_cases:
        q = '* | parse regex "%s"' % rx.replace('\\', '\\\\')
        o = aglib.run_impl_one(q, ''.join(l + '\n' for l in lines).encode('utf8'), 'json')
        got = [aglib.json_value(json.loads(x)) for x in o['out'].decode('utf8').split('\n') if x] if o['rc'] == 0 else None
        want = []
        for l in lines:
            m = re.search(rx, l.strip())
            if m:
                want.append({k: (None if v is None else pyref.from_string(v)) for k, v in m.groupdict().items()})
        nrx += len(lines)
        if got is None or len(got) != len(want) or any(not aglib.same(g, w) for g, w in zip(got, want)):
            failures.append({'kind': 'spec', 'what': 'parse regex %s: got %r expected %r' % (rx, got, want), 'payload': {'query': q, 'input_lines': lines}})
    # generated user regexes with named groups (classes, greedy and lazy quantifiers, alternation, optional groups, anchors):
    # the binary against the Coq matcher (Regex.v, leftmost-first) and against Python's re as a second reading
    n_rx, nt_rx, f_rx, st_rx = ext.rx_family(rng, quick)
    failures += f_rx
    nrx += n_rx
    kinds = {}
    for r in results:
        kinds[r['model']['kind']] = kinds.get(r['model']['kind'], 0) + 1
    cov = {
        'evaluations': len(cases) + nrx, 'distinct_nontrivial': len(nontrivial),
        'rule': 'wildcard patterns of 1..8 wildcards over literal pieces incl. regex metacharacters, quotes, tabs, doubled spaces; lines assembled from the pattern (case-flipped, whitespace-varied, '
                'repeated, near misses, unrelated); drop / nodrop / noconvert / from field; split with 1..2-character separators incl. non-ASCII, quoted tokens with escapes, unterminated quotes; '
                'parse regex on a common subset; non-trivial = >=2 wildcards',
        'samples': samples_of([c for c in cases if 'parse' in c.tags][3:5] + [c for c in cases if 'split' in c.tags][:1]),
        'model_outcomes': kinds, 'unmodelled': kinds.get('unm', 0),
        'model_vs_impl_disagreements': sum(1 for r in results if r['corr']) + sum(1 for f in f_rx if f['kind'] == 'corr'),
        'parse_regex_family': dict(st_rx, rows_checked=nt_rx),
    }
    return {'coverage': cov, 'failures': failures}
