"""C05 — expressions evaluate with conventional, self-consistent semantics."""
import datetime
import itertools
import json

import aglib
import gen
import qast
from props.common import *
from props import ext

TRUSTED_BASE = ['transcendental functions (libm), parseDate (dtparse) on text other than RFC 3339 UTC, now(), and to_string of floats, dates, durations and of containers holding them or non-ASCII text are outside the model: such cases are counted as unmodelled',
                'timeslice is checked on the implementation alone against Python integer arithmetic on RFC 3339 timestamps']
ASSUMPTIONS = []

POOL = [None, True, False, 0, 1, -1, 2, 10, -0.25, -1.5, 0.75, 2**31, 2**53, -2**53, 2**53 + 1, 2**63 - 1, -2**63, 0.5, -0.5, 1.5, 2.5, 1e300, -1e300, 1e-300, 0.1, 1e15 + 0.5,
        '', 'a', 'b', 'B', 'ab', 'a b', '10', '9', 'é', 'true', [], [1], [2], [1, 2], [1, 'a'], [[1]], {}, {'p': 1}, {'p': 2}, {'p': 1, 'q': 2}, {'q': 1}]


HEX_POOL = ['0x1f', '0x0', '7b', '0', '0x0040', '0000', '0x', '', 'x', '0x0x1f', '0X1F', '0Xff', 'ff', 'FF', '-0x1', '-ff', '+ff', '+', '-', '7fffffffffffffff', '8000000000000000',
            '-8000000000000000', '-8000000000000001', ' 0x7b ', '\t1\t', '00x1', 'x0', '0x00', '0xx1', '1 2', 'g', '0x-1', 'DeadBeef', '0x0x', '00', 'é', 10, 255, 0, None, True, 1.5]


def run_raw(query, lines, mode='json'):
    o = aglib.run_impl_one(query, ''.join(lines).encode('utf8'), mode)
    rows = []
    ok = o['rc'] == 0 and b'panicked' not in o['err']
    if ok:
        for l in o['out'].decode('utf8', 'replace').split('\n'):
            if l:
                try:
                    rows.append(aglib.json_value(json.loads(l)))
                except ValueError:
                    ok = False
    return ok, rows, o


def check_comparisons(failures):
    lines = []
    pairs = list(itertools.product(range(len(POOL)), repeat=2))
    for i, j in pairs:
        lines.append(json.dumps({'i': i, 'j': j, 'a': POOL[i], 'b': POOL[j]}) + '\n')
    q = '* | json | a < b as lt | a == b as eq | a > b as gt | a <= b as le | a >= b as ge | a != b as ne | b < a as rlt | fields i, j, lt, eq, gt, le, ge, ne, rlt'
    ok, rows, o = run_raw(q, lines)
    if not ok or len(rows) != len(pairs):
        failures.append({'kind': 'spec', 'what': 'comparison sweep did not run cleanly (rc=%s, %d of %d rows)' % (o['rc'], len(rows), len(pairs)),
                         'payload': {'query': q, 'stderr': o['err'].decode('utf8', 'replace')[-400:]}})
        return 0
    n = 0
    for r in rows:
        n += 1
        a, b = POOL[r['i']], POOL[r['j']]
        lt, eq, gt, le, ge, ne = r['lt'], r['eq'], r['gt'], r['le'], r['ge'], r['ne']
        why = None
        if [lt, eq, gt].count(True) != 1:
            why = 'not exactly one of <, ==, > holds (lt=%s eq=%s gt=%s)' % (lt, eq, gt)
        elif le != (lt or eq) or ge != (gt or eq) or ne != (not eq):
            why = '<=, >=, != are not consistent with <, ==, > (%r)' % (r,)
        elif r['rlt'] != gt:
            why = 'a > b differs from b < a'
        elif r['i'] == r['j'] and not eq:
            why = 'a value is not == to itself'
        elif all(isinstance(x, (int, float)) and not isinstance(x, bool) for x in (a, b)) and (lt, eq, gt) != (a < b, a == b, a > b):
            # "comparisons are numeric between numbers": Python compares an int with a float exactly
            why = 'the numeric order says lt=%s eq=%s gt=%s, the tool lt=%s eq=%s gt=%s' % (a < b, a == b, a > b, lt, eq, gt)
        if why:
            failures.append({'kind': 'spec', 'what': 'comparison operators inconsistent for a=%r b=%r: %s' % (a, b, why),
                             'payload': {'query': q, 'input_lines': [json.dumps({'i': r['i'], 'j': r['j'], 'a': a, 'b': b}) + '\n'], 'row': r}})
            break
    # the same for COMPUTED values that land on a boundary (an overflowed result that rounds to -2^63, 2^63, 2^53):
    # exactly one of <, ==, > against the stored integer next to it, and equal values group together
    crow = json.dumps({'m': -2**63, 'M': 2**63 - 1, 'h': -4611686018427387905, 'H': 4611686018427387904, 'p': 2**53, 'one': 1, 'zero': 0,
                       'q': 10**16, 'r': 2**60, 'c': 10**18}) + '\n'
    for expr, other in (('m - one', 'm'), ('m + (zero - one)', 'm'), ('h * 2', 'm'), ('h + h', 'm'), ('M + one', 'M'), ('H * 2', 'M'), ('p + one', 'p'), ('m - zero', 'm'), ('M + zero', 'M'),
                        # the result of a FUNCTION that is an integer beyond 2^53 is that integer too (one normalisation for every producer)
                        ('hypot(q, zero)', 'q'), ('hypot(zero, r)', 'r'), ('sqrt(c) * sqrt(c)', 'c'), ('abs(zero - q)', 'q'), ('sqrt(r) * sqrt(r)', 'r')):
        q2 = '* | json | %s as x | x < %s as lt | x == %s as eq | x > %s as gt | x <= %s as le | x >= %s as ge | x != %s as ne | fields lt, eq, gt, le, ge, ne' % ((expr,) + (other,) * 6)
        ok2, rows2, o2 = run_raw(q2, [crow])
        n += 1
        if expr in ('m - one', 'm + (zero - one)', 'h * 2', 'h + h'):
            # the true result lies in [-2^63 - 1024, -2^63): its double is -2^63, an integer in range - the row is refused
            # rather than printed as a saturated i64::MIN (fix 9eb768d)
            if not ok2 or rows2 or b'out of range' not in o2['err']:
                failures.append({'kind': 'spec', 'what': 'the integer result of %s cannot be represented and its double would print as i64::MIN: expected an error for that row, got %r' % (expr, rows2),
                                 'payload': {'query': q2, 'input_lines': [crow], 'stderr': o2['err'].decode('utf8', 'replace')[-300:]}})
            continue
        if not ok2 or len(rows2) != 1:
            failures.append({'kind': 'spec', 'what': 'comparison of a computed boundary value did not run cleanly', 'payload': {'query': q2, 'input_lines': [crow], 'stderr': o2['err'].decode('utf8', 'replace')[-300:]}})
            continue
        r2 = rows2[0]
        if [r2['lt'], r2['eq'], r2['gt']].count(True) != 1 or r2['le'] != (r2['lt'] or r2['eq']) or r2['ge'] != (r2['gt'] or r2['eq']) or r2['ne'] != (not r2['eq']):
            failures.append({'kind': 'spec', 'what': 'comparison operators inconsistent for the computed value %s against %s: %r' % (expr, other, r2),
                             'payload': {'query': q2, 'input_lines': [crow], 'row': r2}})
    gq = '* | json | m - one as x | count by x'
    okg, rowsg, og = run_raw(gq, [crow, json.dumps({'m': -2**63, 'one': 0}) + '\n'])
    n += 1
    if okg and rowsg and len(rowsg[0] if isinstance(rowsg[0], list) else rowsg) != 1:
        failures.append({'kind': 'spec', 'what': 'i64::MIN - 1 (= the double -2^63) and i64::MIN compare equal but form %d groups' % len(rowsg[0] if isinstance(rowsg[0], list) else rowsg),
                         'payload': {'query': gq, 'input_lines': [crow, json.dumps({'m': -2**63, 'one': 0}) + '\n']}})
    # integer LITERALS in the query text and integer TEXT in a field are the exact integers, beyond 2^53 too: equal to the
    # stored integer, difference 0, smaller than their successor
    for B in (2**53 + 1, 2**53 + 3, 2**60 + 1, 2**62 + 12345, 2**63 - 2, -(2**53 + 1), -(2**63) + 1, 123456789012345679):
        brow = json.dumps({'x': B, 's': str(B)}) + '\n'
        if B > 0:       # (the language has no negative literals)
            q3 = ('* | json | x == %d as eq | %d == x as eq2 | %d - x as d | x < %d as lt | s + 0 == x as teq | s - %d as td | fields eq, eq2, d, lt, teq, td'
                  % (B, B, B, B + 1, B))
            exp3 = {'eq': True, 'eq2': True, 'd': 0, 'lt': True, 'teq': True, 'td': 0}
        else:
            q3 = '* | json | s + 0 == x as teq | s - x as td | x - s as td2 | s * 1 == x as teq2 | fields teq, td, td2, teq2'
            exp3 = {'teq': True, 'td': 0, 'td2': 0, 'teq2': True}
        ok3, rows3, o3 = run_raw(q3, [brow])
        n += 1
        if not ok3 or len(rows3) != 1:
            failures.append({'kind': 'spec', 'what': 'integer literal %d: the query did not run cleanly' % B, 'payload': {'query': q3, 'input_lines': [brow], 'stderr': o3['err'].decode('utf8', 'replace')[-300:]}})
        elif not aglib.same(rows3[0], exp3):
            failures.append({'kind': 'spec', 'what': 'the integer literal / integer text %d is not that integer: %r, expected %r' % (B, rows3[0], exp3),
                             'payload': {'query': q3, 'input_lines': [brow], 'row': rows3[0]}})
    # transitivity of < on all triples, from the pairwise table
    ltm = {(r['i'], r['j']): r['lt'] for r in rows}
    eqm = {(r['i'], r['j']): r['eq'] for r in rows}
    N = len(POOL)
    for i in range(N):
        for j in range(N):
            if not (ltm[(i, j)] or eqm[(i, j)]):
                continue
            for k in range(N):
                if (ltm[(j, k)] or eqm[(j, k)]) and not (ltm[(i, k)] or eqm[(i, k)]):
                    # 2^53+1 against floats is outside the property's +-2^53 domain
                    if any(isinstance(POOL[x], int) and not isinstance(POOL[x], bool) and abs(POOL[x]) > 2**53 for x in (i, j, k)):
                        continue
                    failures.append({'kind': 'spec', 'what': '<= is not transitive: %r <= %r <= %r but not %r <= %r' % (POOL[i], POOL[j], POOL[k], POOL[i], POOL[k]),
                                     'payload': {'query': q, 'values': [POOL[i], POOL[j], POOL[k]]}})
                    return n
    return n


def check_timeslice(rng, failures, n):
    lines = []
    want = []
    for i in range(n):
        secs = rng.randint(-2 * 10**9, 4 * 10**9) if rng.random() < 0.7 else rng.randint(-30610224000, 253402300799)     # years 1000 .. 9999 too
        frac = rng.choice([0, 0, 123000000, 999999999, 1])
        dt = datetime.datetime(1970, 1, 1) + datetime.timedelta(seconds=secs)
        ts = dt.strftime('%Y-%m-%dT%H:%M:%S') + ('.%09d' % frac if frac else '') + 'Z'
        lines.append(json.dumps({'i': i, 'ts': ts}) + '\n')
        want.append(secs * 10**9 + frac)
    checked = 0
    for span_txt, span in (('5m', 300 * 10**9), ('1h', 3600 * 10**9), ('1d', 86400 * 10**9), ('7s', 7 * 10**9), ('1w', 7 * 86400 * 10**9), ('250ms', 250 * 10**6),
                           ('36h', 36 * 3600 * 10**9), ('20000w', 20000 * 7 * 86400 * 10**9)):
        q = '* | json | parseDate(ts) as d | timeslice(d) %s as t | fields i, t' % span_txt
        ok, rows, o = run_raw(q, lines)
        if not ok:
            failures.append({'kind': 'spec', 'what': 'timeslice run failed', 'payload': {'query': q, 'stderr': o['err'].decode('utf8', 'replace')[-300:]}})
            continue
        if len(rows) != len(lines):
            missing = sorted(set(range(len(lines))) - {r['i'] for r in rows})
            failures.append({'kind': 'spec', 'what': 'timeslice %s refused %d of %d dates, e.g. %s' % (span_txt, len(missing), len(lines), lines[missing[0]].strip() if missing else '?'),
                             'payload': {'query': q, 'input_lines': [lines[missing[0]]] if missing else lines[:3], 'stderr': o['err'].decode('utf8', 'replace')[-200:]}})
            return checked
        for r in rows:
            ns = want[r['i']]
            t = r['t']
            base = datetime.datetime.strptime(t[:19], '%Y-%m-%dT%H:%M:%S')
            tns = int((base - datetime.datetime(1970, 1, 1)).total_seconds()) * 10**9
            rest = t[19:].replace('+00:00', '')
            if rest.startswith('.'):
                tns += int((rest[1:] + '000000000')[:9])
            checked += 1
            if not (tns % span == 0 and tns <= ns < tns + span):
                failures.append({'kind': 'spec', 'what': 'timeslice(%s) %s = %s is not the latest multiple of the span not after t' % (lines[r['i']].strip(), span_txt, t),
                                 'payload': {'query': q, 'input_lines': [lines[r['i']]]}})
                return checked
    return checked


def explore(ctx):
    rng = ctx['rng']
    quick = ctx['tier'] == 'quick'
    n = 900 if quick else 20000
    failures = []
    cases = corpus_cases('C05')
    pairs = []
    for i in range(n):
        rows = gen.gen_rows(rng, rng.randint(1, 8))
        lines = [gen.jtext(r, rng) for r in rows]
        depth = rng.randint(1, 4)
        e = gen.any_expr(rng, depth)
        kind = rng.random()
        st = ('let', e, 'r') if kind < 0.7 else ('where', e)
        try:
            c1 = Case('e%d' % i, STAR, [('json', None), st], lines, {'expr', 'd%d' % depth})
        except ValueError:
            continue
        cases.append(c1)
        # the same AST with every operator explicitly parenthesised: precedence / associativity
        full = qast.expr_text_full(e)
        q2 = '* | json | ' + (full + ' as r' if st[0] == 'let' else 'where ' + full)
        pairs.append((len(cases) - 1, q2))
    # parseHex on a fixed pool of hexadecimal spellings (zero values, prefixes, signs, range ends), against the model
    for i in range(0, len(HEX_POOL), 6):
        hl = [json.dumps({'id': i + k, 'h': h}) + '\n' for k, h in enumerate(HEX_POOL[i:i + 6])]
        cases.append(Case('hex%d' % i, STAR, [('json', None), ('let', ('call', 'parseHex', [('col', 'h', [])]), 'r')], hl, {'expr', 'hex'}))
    # a row on which an expression fails is dropped ALONE -- also when the rows are those of an aggregate table
    post = []
    for i in range(12 if quick else 200):
        ks = ['a', 'b', 'c', 'd', 'e', 'f']
        rows_ = []
        for j in range(rng.randint(4, 16)):
            r_ = {'id': j, 'k': rng.choice(ks)}
            if r_['k'] not in ('b', 'd') or rng.random() < 0.15:
                r_['a'] = rng.randint(1, 50)
            rows_.append(r_)
        tail = rng.choice([[('let', ('ar', 'mul', col('m'), lit(2)), 'd')], [('where', ('cmp', 'gt', ('ar', 'add', col('m'), lit(0)), lit(0)))],
                           [('let', ('ar', 'div', col('m'), lit(1000)), 'ms'), ('fields', 'only', ['k', 'ms'])]])
        c_ = Case('post%d' % i, STAR, [('json', None), ('agg', [('m', ('max', col('a'))), (None, ('count', None))], [(None, col('k'))])] + tail,
                  [gen.jtext(r_) for r_ in rows_], {'expr', 'post'}, note={'ok_keys': sorted({r_['k'] for r_ in rows_ if 'a' in r_})})
        cases.append(c_)
    results = run_cases(cases)
    for r in results:
        if 'post' in r['case'].tags and r['impl']['kind'] in ('rows', 'table'):
            got = sorted(x.get('k') for x in r['impl']['rows'])
            if got != r['case'].note['ok_keys']:
                failures.append({'kind': 'spec', 'what': 'after an aggregation, the groups on which the expression succeeds are %r but the rows printed are those of %r' % (r['case'].note['ok_keys'], got),
                                 'payload': payload(r)})
    full_out = aglib.run_impl_many([(q2, cases[idx].inp, 'json', ()) for idx, q2 in pairs])
    prec_checked = 0
    for (idx, q2), fo in zip(pairs, full_out):
        r = results[idx]
        f = aglib.parse_impl_json(fo, False)
        if r['impl']['kind'] != 'rows' or f['kind'] != 'rows':
            if r['impl']['kind'] != f['kind']:
                failures.append({'kind': 'spec', 'what': 'minimal and fully parenthesised spelling of one expression: %s vs %s' % (r['impl']['kind'], f['kind']),
                                 'payload': payload(r, {'fully_parenthesised_query': q2})})
            continue
        prec_checked += 1
        if [aglib.canon_key(x) for x in r['impl']['rows']] != [aglib.canon_key(x) for x in f['rows']] or r['impl']['err'] != f['err']:
            failures.append({'kind': 'spec', 'what': 'operator precedence/associativity: the expression and its fully parenthesised form evaluate differently',
                             'payload': payload(r, {'fully_parenthesised_query': q2, 'rows_fully_parenthesised': f['rows'][:10]})})
    nontrivial = set()
    import re
    for r in results:
        c = r['case']
        if 'hex' in c.tags and r['impl']['kind'] == 'rows':
            # documented: parseHex converts a hexadecimal string, with or without the 0x prefix, to its integer value
            got = {x.get('id'): x.get('r') for x in r['impl']['rows']}
            for l in c.lines:
                j = json.loads(l)
                h = j['h']
                if isinstance(h, str) and re.fullmatch(r'(0x)?[0-9a-fA-F]{1,15}', h) and got.get(j['id']) != int(h, 16):
                    failures.append({'kind': 'spec', 'what': 'parseHex(%r) gives %r, not %d' % (h, got.get(j['id']), int(h, 16)),
                                     'payload': payload(r, {'input_lines': [l]})})
        if r['impl']['kind'] in ('crash', 'hang', 'garbled'):
            failures.append({'kind': 'spec', 'what': 'expression evaluation did not run cleanly: %s' % r['impl']['kind'], 'payload': payload(r)})
        elif r['corr']:
            failures.append({'kind': 'corr', 'what': r['corr'], 'payload': payload(r)})
        if any(t in c.tags for t in ('d3', 'd4')):
            nontrivial.add(c.query)
    ncmp = check_comparisons(failures)
    nts = check_timeslice(rng, failures, 60 if quick else 600)
    # explicit short-circuit / laziness cases on the implementation
    sc_lines = [json.dumps({'f': False, 't': True, 'x': 1}) + '\n']
    for q, want in (('f and nope > 1 as r', False), ('t or nope > 1 as r', True), ('if(t, 1, nope) as r', 1), ('if(f, nope, 2) as r', 2),
                    ('!f as r', True), ('f and (1 / 0 > nope) as r', False), ('null == null as r', True)):
        ok, rows, o = run_raw('* | json | ' + q, sc_lines)
        if not ok or len(rows) != 1 or not aglib.same(rows[0].get('r'), want):
            failures.append({'kind': 'spec', 'what': 'short-circuit / laziness: %s should give %r' % (q, want),
                             'payload': {'query': '* | json | ' + q, 'input_lines': sc_lines, 'rows': rows, 'stderr': o['err'].decode('utf8', 'replace')[-300:]}})
    kinds = {}
    for r in results:
        kinds[r['model']['kind']] = kinds.get(r['model']['kind'], 0) + 1
    cov = {
        'evaluations': len(cases) + len(pairs) + ncmp + nts, 'distinct_nontrivial': len(nontrivial),
        'rule': 'random well-formed expressions (depth 1..4) over field references (incl. nested .k / [i]), literals, arithmetic, comparisons, and/or/!, if and the modelled functions, '
                'as field expressions and where conditions on rows with all value types; each also in fully parenthesised spelling; all %d^2 pairs (and triples for transitivity) of a pool of boundary values through the six comparison operators; '
                'timeslice on random timestamps; non-trivial = expression depth >= 3' % len(POOL),
        'samples': [{'query': c.query} for c in cases[5:9]],
        'model_outcomes': kinds, 'unmodelled': kinds.get('unm', 0),
        'comparison_pairs_checked': ncmp, 'timeslice_rows_checked': nts, 'precedence_pairs_checked': prec_checked,
        'model_vs_impl_disagreements': sum(1 for r in results if r['corr']),
    }
    # the text of a float as the string functions see it (Rust's `{}`; F64Display.v): equal to the model, reads back as the
    # same double, shortest, no exponent form
    n_f, ok_f, f_f, st_f = ext.f64_family(rng, quick)
    failures += f_f
    cov['evaluations'] += n_f
    cov['float_text_family'] = dict(st_f, texts_equal_to_the_model=ok_f)
    return {'coverage': cov, 'failures': failures}
