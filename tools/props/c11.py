"""C11 — running an accepted query never crashes or hangs, whatever the input."""
import json
import subprocess

import aglib
import gen
import qast
from props.common import *

TRUSTED_BASE = ['stack overflow, allocation failure and panics/hangs inside dependencies (regex, dtparse, chrono formatting, quantiles) cannot be exhibited by the model: they are reached only by driving the real binary',
                'debug build (integer overflow checks on); thorough also runs the release build']
ASSUMPTIONS = ['inputs up to ~1 MB (quick) / 16 MB (thorough); 10 s watchdog per run']
NEEDS_RELEASE = True

EXPLICIT_QUERIES = [
    '* | json | abs(a) as r1 | acos(a) as r2 | asin(a) as r3 | atan(a) as r4 | atan2(a, b) as r5 | cbrt(a) as r6 | ceil(a) as r7 | cos(a) as r8',
    '* | json | cosh(a) as r1 | exp(a) as r2 | expm1(a) as r3 | floor(a) as r4 | hypot(a, b) as r5 | log(a) as r6 | log10(a) as r7 | log1p(a) as r8',
    '* | json | round(a) as r1 | sin(a) as r2 | sinh(a) as r3 | sqrt(a) as r4 | tan(a) as r5 | tanh(a) as r6 | toDegrees(a) as r7 | toRadians(a) as r8',
    '* | json | concat(a, b, s) as r1 | contains(s, "a") as r2 | length(s) as r3 | length(arr) as r4 | length(obj) as r5 | parseHex(s) as r6',
    '* | json | substring(s, 1) as r1 | substring(s, 1, 3) as r2 | substring(s, a, b) as r3 | toLowerCase(s) as r4 | toUpperCase(s) as r5',
    '* | json | isNull(a) as r1 | isEmpty(s) as r2 | isBlank(s) as r3 | isNumeric(t) as r4 | num(t) as r5 | now() as r6 | fields except r6',
    '* | json | parseDate(t) as d | timeslice(d) 1h | count by _timeslice',
    '* | json | parseDate(s) as d | d + 1h as e | d - 1d as f | e - f as g | g * 3 as h | g / 2 as i',
    '* | json | parseDate(t) as d | d + 9223372036854775807ms as e',
    '* | json | count by parseDate(t)', '* | json | where parseDate(s) > parseDate(t) | count',
    '* | json | 1h / a as x | 1h * a as y | 1h + 1h * b as z',
    '* | json | split(s) | split(t) on " " as u | split(s) on "é" as v',
    '* | parse "*" as x | parse "* *" as a, b nodrop | parse "a*b*c" from x as p, q nodrop noconvert',
    '* | parse regex "(?P<num>\\\\d+)" | parse regex "(?P<w>\\\\w+)\\\\s+(?P<v>\\\\S*)" nodrop',
    '* | logfmt | count by a | sort by a',
    '* | json | p50(a), p90(b), p99(id), avg(a), sum(b), min(a), max(b), count_distinct(k), count(flag) by k',
    '* | json | total(a) | total(b) as tb | limit -3 | total(id) as ti',
    '* | json | sort by a, b, s desc | limit 5 | fields + a, b, s',
    '* | json | count by arr, obj | count by _count',
    '* | json | where a / b > 1 and (s == "x" or !flag) | if(isNull(a), 0, a * a * a * a * a * a) as big',
    '* | json | a / b as q | b / a as r | a - b as d | a + b as s2 | 0 - a as n',
    '* | json | a * b as p | p * p as q | q * q as r | r * r as s2 | s2 * s2 as t2 | t2 - t2 as z',
    '* | json | arr[0] as x | arr[-1] as y | obj.p as z | obj.q[0] as w | arr[99999999999] as v',
    '* | json from nope | json from s | logfmt from s | logfmt from t',
    '* | json | fields - a | fields + b | fields - b',
    '* | apache | count by status', '* | nginx | count', '* | k8singressnginx | sum(body_bytes_sent)',
    '"GET" OR (error AND NOT "x*y") a*b | count',
    '* | limit | limit -1 | limit 9223372036854775807 | limit -9223372036854775808',
    # wide aggregate tables in the default output: cells are shortened with an ellipsis (also multi-byte text)
    '* | json | count by s, k, t', '* | logfmt | count by msg, a', '* | parse "msg=*" as m | count by m',
    # more columns than distinct column names (KF-06) on a table wider than the terminal: the width allocation must not fault
    '* | json | sum(a), sum(b), p50(a), max(s), max(k)', '* | json | sum(a), sum(b), sum(id) by s, k', '* | json | count by s | count by _count, s',
]


def hostile_inputs(rng, quick):
    big = 1_000_000 if quick else 16_000_000
    rows = gen.gen_rows(rng, 30)
    base = ''.join(gen.jtext(r) for r in rows).encode('utf8')
    yield 'empty', b''
    yield 'only newline', b'\n'
    yield 'well formed', base
    yield 'no final newline', base[:-1]
    yield 'crlf', base.replace(b'\n', b'\r\n')
    yield 'one huge line', b'{"a": 1, "s": "' + b'x' * big + b'"}\n'
    yield 'huge line no newline', b'a=1 ' + b'y' * big
    yield 'binary', bytes(rng.randrange(256) for _ in range(20000))
    yield 'invalid utf8', b'{"s": "\xff\xfe\xc3", "a": 1}\n\xc3\x28 a=1 b=\xf0\x28\x8c\x28\n' + base[:200]
    yield 'nul bytes', b'{"a": 1, "s": "a\\u0000b"}\n\x00\x00 a=1\x00\n' + base[:300]
    yield 'extreme numbers', ''.join(json.dumps({'id': i, 'a': a, 'b': b, 's': s, 't': t}) + '\n' for i, (a, b, s, t) in enumerate([
        (-2**63, -1, 'x', '0'), (2**63 - 1, -2**63, '9' * 400, '1e999'), (1e308, -1e308, '0x7fffffffffffffff', '-0'), (5e-324, 0, '-', '9223372036854775808'),
        (0, 0, '', '0001-01-01T00:00:00Z'), (-1, 2**31, 'ff', '9999-12-31T23:59:59Z'), (1e15 + 0.5, 3, 'é' * 50, '1677-09-21T00:12:43Z'),
        (2**53 + 1, 2**32, 'NaN', '2262-04-11T23:47:17Z'), (4294967296, 0, 'inf', '275760-09-13T00:00:00Z'), (-2147483649, 1, '1,000,000.5', 'yesterday'),
        (7, 0, 'a' * 5, '2020-02-30'), (0.1, 1e-300, '0x', '12:00')])).encode('utf8')
    # text that looks like a date or a time and is not one (the date parser is a dependency with panics of its own)
    junk = ['12:30 -', '12:30-', '12:30+', '10:15:PM', '10:15: 30', '2020-01-01 10:15:xx', 'Jan/', 'Sept/', 'Feb/2020/', '1/Jan/', '2020/Feb/', '99999999999999999999 a-',
            '12:30:45 -', '2020-01-01 12:30-', '::', '-', '+', 'T', 'Z', '0', '00:00:00:00', '31/31/31', 'AM', '1 PM PM', 'Monday Tuesday', '2020-13-45T25:61:61Z', '1e9', '--1', '12/', '/12', ':5']
    toks = ['12', '30', ':', '-', '+', '/', 'PM', 'AM', 'Jan', 'Sept', 'T', 'Z', ' ', '.', '2020', '1', 'a', ',', 'UTC', '00']
    for _ in range(60 if quick else 3000):
        junk.append(''.join(rng.choice(toks) for _ in range(rng.randint(1, 6))))
    yield 'date-like junk', ''.join(json.dumps({'id': i, 'a': 1, 'b': 2, 's': t, 't': t}) + '\n' for i, t in enumerate(junk)).encode('utf8')
    yield 'deep json', b'{"a": ' + b'[' * 500 + b']' * 500 + b'}\n{"a": ' + b'{"k":' * 200 + b'1' + b'}' * 200 + b'}\n' + base[:200]
    yield 'many short lines', b'x\n' * (100000 if quick else 2000000)
    yield 'apache-ish', b'127.0.0.1 - frank [10/Oct/2000:13:55:36 -0700] "GET /apache_pb.gif HTTP/1.0" 200 2326\nbroken line "GET\n' * 50
    yield 'logfmt-ish', b'a=1 b="two words" c d=  e="unterminated\nlevel=info msg="x=y" =bad ==\n' * 50
    yield 'whitespace', b' \t \n\n   \n\t\n'
    yield 'long multibyte values', (''.join(json.dumps({'s': ch * n, 'k': ch * (n // 2), 't': 'x'}, ensure_ascii=False) + '\n' for ch in '€é日😀' for n in (150, 239, 240, 241, 400))
                                    + ''.join('msg=%s a=%s\n' % (ch * n, ch * 7) for ch in '€日' for n in (239, 300, 1000))).encode('utf8')
    yield 'unicode', 'ключ=значение 日本語=テキスト emoji=😀 "q" é́\n'.encode('utf8') * 20


def explore(ctx):
    rng = ctx['rng']
    quick = ctx['tier'] == 'quick'
    failures = []
    queries = list(EXPLICIT_QUERIES)
    # grammar-generated accepted pipelines
    gen_cases = []
    for i in range(60 if quick else 1500):
        stages = [rng.choice([('json', None), ('logfmt', None), ('json', None)])]
        cols = None
        for _ in range(rng.randint(1, 5)):
            r = rng.random()
            if r < 0.6:
                stages.append(gen.inline_stage(rng, cols))
            elif r < 0.85:
                st = gen.agg_stage(rng, cols, allow_pct=True)
                if st[1]:
                    stages.append(st)
                    cols = gen.agg_columns(st)
            else:
                stages.append(gen.sort_stage(rng, cols))
        try:
            queries.append(qast.query_text(STAR, stages))
        except ValueError:
            pass
    inputs = list(hostile_inputs(rng, quick))
    jobs = []
    for q in queries:
        # every query on a few hostile inputs (all of them for the explicit list)
        chosen = inputs if q in EXPLICIT_QUERIES else rng.sample(inputs, 4)
        for name, data in chosen:
            for mode in (('json',) if q not in EXPLICIT_QUERIES else ('json', 'legacy')):
                jobs.append((q, data, mode, (), name))
    binaries = [None] + ([aglib.AGRIND_REL] if not quick else [])
    evaluations = 0
    classes = {}
    for binary in binaries:
        outs = aglib.run_impl_many([(j[0], j[1], j[2], j[3]) for j in jobs], binary=binary, timeout=20 if quick else 120)
        for (q, data, mode, _e, name), o in zip(jobs, outs):
            evaluations += 1
            classes[name] = classes.get(name, 0) + 1
            err = o['err'].decode('utf8', 'replace')
            why = None
            if o['timed_out']:
                why = 'still running after the watchdog (hang)'
            elif 'panicked' in err or 'embarrassing' in err or o['rc'] in (101, 134, -6, -11, -9):
                why = 'panic / abort (rc=%s): %s' % (o['rc'], [l for l in err.split('\n') if 'panicked' in l or 'rs:' in l][:2])
            elif o['rc'] != 0:
                # the query must have been accepted: a non-zero exit is only fine when it was rejected at compile time
                if 'Failed to parse' in err or err.lstrip().startswith('error') or 'Error:' in err:
                    continue   # rejected query (not in C11's domain)
                why = 'exit status %s on an accepted query' % o['rc']
            if why:
                failures.append({'kind': 'spec', 'what': '%s on input class "%s": %s' % (q[:120], name, why),
                                 'payload': {'query': q, 'mode': mode, 'input_class': name, 'input_head': data[:300].decode('utf8', 'replace'), 'input_len': len(data),
                                             'binary': binary or 'debug', 'stderr_tail': err[-400:]}})
    # reads to END OF INPUT whatever the bytes are: the number of lines counted is the number of lines given
    for name, data in inputs:
        nlines = data.count(b'\n') + (1 if data and not data.endswith(b'\n') else 0)
        o = aglib.run_impl_one('* | count', data, 'json', timeout=60)
        evaluations += 1
        want = b'[{"_count":%d}]\n' % nlines if nlines else b'[]\n'
        if o['rc'] != 0 or o['out'] != want:
            failures.append({'kind': 'spec', 'what': '`* | count` on input class "%s" (%d lines): rc=%s, output %r, expected %r' % (name, nlines, o['rc'], o['out'][:80], want),
                             'payload': {'query': '* | count', 'input_class': name, 'input_head': data[:300].decode('utf8', 'replace'), 'input_len': len(data),
                                         'stderr_tail': o['err'].decode('utf8', 'replace')[-300:]}})
    # a bad row is skipped without changing the result for any other row (and reported on stderr before an aggregation)
    iso = 0
    for i in range(30 if quick else 600):
        rows = gen.gen_rows(rng, rng.randint(2, 10), rich=False)
        lines = [gen.jtext(r) for r in rows]
        bad = rng.choice(['not json\n', '{"broken": \n', '\xff\n', '[1, 2, 3]x\n'])
        pos = rng.randrange(len(lines) + 1)
        q = rng.choice(['* | json | where id >= 0', '* | json | id + 1 as n', '* | json | fields id, k'])
        a = aglib.run_impl_one(q, ''.join(lines).encode('utf8', 'replace'), 'json')
        b = aglib.run_impl_one(q, ''.join(lines[:pos] + [bad] + lines[pos:]).encode('utf8', 'replace'), 'json')
        iso += 1
        if a['out'] != b['out'] or b['rc'] != 0:
            failures.append({'kind': 'spec', 'what': 'a row the parser rejects changed the output for the other rows', 'payload': {'query': q, 'input_lines': lines[:pos] + [bad] + lines[pos:]}})
        elif b'error:' not in b['err']:
            failures.append({'kind': 'spec', 'what': 'a rejected row before any aggregation was skipped without an error: line on stderr', 'payload': {'query': q, 'bad_line': bad}})
    # "before any aggregation" includes behind a mere `sort`: a row operator written after a sort that fails on some rows
    # drops exactly those rows and writes one error: line for each (and stays silent behind a real aggregation)
    for i in range(10 if quick else 150):
        n = rng.randint(2, 9)
        has = [rng.random() < 0.6 for _ in range(n)]
        lines = [json.dumps({'id': j, 'x': rng.randint(0, 5), **({'z': j} if h else {})}) + '\n' for j, h in enumerate(has)]
        tail = rng.choice(['z + 1 as w', 'where z >= 0', 'z * 2 as w | w + 1 as v'])
        q = '* | json | sort by %s | %s | fields id' % (rng.choice(['x', 'id', 'x, id', 'id desc']), tail)
        o = aglib.run_impl_one(q, ''.join(lines).encode('utf8'), 'json')
        iso += 1
        nerr = o['err'].decode('utf8', 'replace').count('error:')
        try:
            ids = sorted(r['id'] for l in o['out'].decode('utf8').split('\n') if l.strip() for r in (json.loads(l) if l.lstrip().startswith('[') else [json.loads(l)]))
        except (ValueError, KeyError, TypeError):
            ids = None
        want_ids = [j for j, h in enumerate(has) if h]
        if o['rc'] != 0 or ids != want_ids:
            failures.append({'kind': 'spec', 'what': 'a row operator after a sort failing on some rows changed the others: rows %r, expected %r' % (ids, want_ids), 'payload': {'query': q, 'input_lines': lines}})
        elif nerr != has.count(False):
            failures.append({'kind': 'spec', 'what': '%d rows were dropped by an operator after a mere sort (no aggregation anywhere) with %d error: lines on stderr' % (has.count(False), nerr),
                             'payload': {'query': q, 'input_lines': lines, 'stderr': o['err'].decode('utf8', 'replace')[-300:]}})
        qa = '* | json | count by id, z | %s | fields id' % tail
        oa = aglib.run_impl_one(qa, ''.join(lines).encode('utf8'), 'json')
        if oa['rc'] != 0 or b'panicked' in oa['err']:
            failures.append({'kind': 'spec', 'what': 'a failing row operator after an aggregation: rc=%s' % oa['rc'], 'payload': {'query': qa, 'input_lines': lines}})
    # ... and on a live terminal, where the stages after the sort are re-run on every refresh: the error: lines are those of a
    # non-terminal run - each failing row once, the right row's message (inputs whose final table holds every row)
    import ptydrive
    for la in ([b'x=5 z=abc\n', b'x=1\n'], [b'x=1\n', b'x=5 z=abc\n', b'x=3\n'], [b'x=%d %s=1\n' % (j, b'z' if j % 3 == 0 else b'y') for j in range(9)]):
        q = '* | logfmt | sort by x | z + 1 as w'
        op = aglib.run_impl_one(q, b''.join(la), 'json')
        want_err = sorted(l for l in op['err'].decode('utf8', 'replace').split('\n') if l.startswith('error:'))
        got_err = None
        for attempt in range(2):         # a busy machine may merge refreshes: the lines must still be the same
            ol = ptydrive.run_pty(q, [(l, 0.2) for l in la[:-1]] + [(la[-1], 0.0)], 24, 80)
            got_err = sorted(l for l in ol['err'].decode('utf8', 'replace').split('\n') if l.startswith('error:'))
            if got_err == want_err:
                break
        iso += 1
        if got_err != want_err:
            failures.append({'kind': 'spec', 'what': 'rows dropped after a sort on a live terminal: stderr %r, a non-terminal run reports %r' % (got_err, want_err),
                             'payload': {'query': q, 'schedule': [(l.decode(), 0.2) for l in la], 'terminal': [24, 80]}})
    # the same after an aggregation: an aggregate row on which a later row operator fails is skipped, every other
    # aggregate row comes through (reference: each group run alone through the same query, results put together)
    for i in range(12 if quick else 200):
        keys = [rng.choice([None, 1, 2, 3, 'x', True, 4.5]) for _ in range(rng.randint(3, 9))]
        lines = [json.dumps({'id': j} if k is None else {'id': j, 'k': k}) + '\n' for j, k in enumerate(keys)]
        q = '* | json | count by k | ' + rng.choice(['k * 10 as k10', 'k - 1 as k10 | k10 + _count as s', 'k / 2 as h | where h >= 0'])
        full = aglib.run_impl_one(q, ''.join(lines).encode('utf8'), 'json')
        iso += 1
        groups = {}
        for ln, k in zip(lines, keys):
            groups.setdefault(repr(k), []).append(ln)
        parts = []
        for g in groups.values():
            o = aglib.run_impl_one(q, ''.join(g).encode('utf8'), 'json')
            try:
                parts += json.loads(o['out'].decode('utf8') or '[]') if o['rc'] == 0 else []
            except ValueError:
                pass
        try:
            got = json.loads(full['out'].decode('utf8') or '[]') if full['rc'] == 0 else None
        except ValueError:
            got = None
        canon = lambda rows: sorted(json.dumps(r, sort_keys=True) for r in rows)
        if got is None or canon(got) != canon(parts):
            failures.append({'kind': 'spec', 'what': 'after an aggregation, a row on which a later operator fails changed the result for other rows: got %r, each group alone gives %r' % (got, parts),
                             'payload': {'query': q, 'input_lines': lines}})
    # reads to END OF INPUT whatever the input is attached to: a pipe, a regular file on stdin, --file on a regular file,
    # on a named pipe (no size), on /dev/stdin: the count must be the number of lines given (computed here)
    import os
    import subprocess
    import tempfile
    import threading
    srcs = 0
    tmpd = tempfile.mkdtemp(prefix='agv-c11-', dir=aglib.BUILD)
    try:
        for rep in range(3 if quick else 20):
            nl = rng.choice([1, 3, 50, 2000]) if rep else 3
            data = b''.join(b'{"id": %d, "k": "v%d"}\n' % (i, i % 3) for i in range(nl))
            if rng.random() < 0.3:
                data = data[:-1]
            want = b'[{"_count":%d}]\n' % nl
            fpath = os.path.join(tmpd, 'in.json')
            open(fpath, 'wb').write(data)
            fifo = os.path.join(tmpd, 'in.fifo')
            if not os.path.exists(fifo):
                os.mkfifo(fifo)
            q = rng.choice(['* | count', '* | json | count', '"id" | json | where id >= 0 | count'])
            runs = {}

            def go(name, args, **kw):
                try:
                    p = subprocess.run([aglib.AGRIND, q, '-o', 'json'] + args, stdout=subprocess.PIPE, stderr=subprocess.PIPE, env=aglib.ENV, timeout=30, **kw)
                    runs[name] = (p.returncode, p.stdout)
                except subprocess.TimeoutExpired:
                    runs[name] = ('timeout', b'')
            go('stdin pipe', [], input=data)
            with open(fpath, 'rb') as fh:
                go('stdin from a regular file', [], stdin=fh)
            go('--file regular file', ['--file', fpath], stdin=subprocess.DEVNULL)
            go('--file /dev/stdin fed by a pipe', ['--file', '/dev/stdin'], input=data)

            def writer():
                with open(fifo, 'wb') as fh:
                    fh.write(data)
            tw = threading.Thread(target=writer, daemon=True)
            tw.start()
            go('--file named pipe', ['-f', fifo], stdin=subprocess.DEVNULL)
            tw.join(5)
            if tw.is_alive():
                # nobody opened the pipe for reading: unblock the writer
                try:
                    fd = os.open(fifo, os.O_RDONLY | os.O_NONBLOCK)
                    tw.join(2)
                    os.close(fd)
                except OSError:
                    pass
            for name, (rc, out) in runs.items():
                srcs += 1
                if rc != 0 or out != want:
                    failures.append({'kind': 'spec', 'what': 'input attached as "%s" was not read to its end: rc=%s, output %r, expected %r' % (name, rc, out[:80], want),
                                     'payload': {'query': q, 'source': name, 'lines': nl, 'generator': 'line i = {"id": i, "k": "v<i%3>"}', 'final_newline': data.endswith(b'\n')}})
    finally:
        for f in os.listdir(tmpd):
            os.remove(os.path.join(tmpd, f))
        os.rmdir(tmpd)
    # correspondence: generated pipelines on the well-formed input through the model (outcome class + rows)
    cases = []
    for i in range(80 if quick else 2000):
        rows = gen.gen_rows(rng, rng.randint(0, 10))
        stages = [('json', None)] + [gen.inline_stage(rng) for _ in range(rng.randint(1, 3))]
        try:
            cases.append(Case('m%d' % i, STAR, stages, [gen.jtext(r) for r in rows] + (['junk\n'] if rng.random() < 0.3 else [])))
        except ValueError:
            pass
    results = run_cases(cases)
    for r in results:
        if r['corr']:
            failures.append({'kind': 'corr', 'what': r['corr'], 'payload': payload(r)})
    cov = {
        'evaluations': evaluations + iso + srcs + len(cases), 'input_source_runs': srcs, 'distinct_nontrivial': sum(v for k, v in classes.items() if k != 'well formed'),
        'rule': '%d accepted queries (an explicit list covering every function, operator and option incl. date/duration arithmetic, aliases, percentiles, parse regex; plus grammar-generated pipelines) '
                'x %d input classes (empty, huge line, binary, invalid UTF-8, CRLF, no final newline, NULs, extreme numbers/dates, deep JSON, ...); observed: exit status 0, no panic text, no watchdog, and `* | count` equal to the number of lines of every input class; '
                'bad-row isolation; the same input attached as pipe / redirected file / --file regular file / --file named pipe / --file /dev/stdin, count against the number of lines; non-trivial = any input class other than "well formed"' % (len(queries), len(inputs)),
        'samples': [{'query': q} for q in queries[:3]] + [{'input_class': n} for n, _d in inputs[:4]],
        'input_classes': classes, 'queries': len(queries), 'isolation_cases': iso,
        'model_vs_impl_disagreements': sum(1 for r in results if r['corr']),
    }
    return {'coverage': cov, 'failures': failures}
