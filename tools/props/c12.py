"""C12 — row operators are local."""
import json
import aglib
import gen
from props.common import *

TRUSTED_BASE = ['-o json is used as the observation (legacy padding is history dependent by design)']
ASSUMPTIONS = []


def stateless_stage(rng):
    r = rng.random()
    if r < 0.25:
        return ('where', gen.bool_expr(rng, 2))
    if r < 0.45:
        return ('let', gen.any_expr(rng, 2), rng.choice(['r', 'r2', 'a', 'k']))
    if r < 0.58:
        return ('fields', rng.choice(['only', 'except']), rng.sample(gen.ANY_COLS, rng.randint(1, 4)))
    if r < 0.70:
        return ('split', rng.choice([None, ' ', 'a', ', ']), gen.col_ref(rng, ['s', 't', 'k']), rng.choice([None, col('parts'), col('obj', ('k', 'p')), col('arr', ('ix', rng.choice([0, 1, -1, 2, 3, -2, -4, -5, 4, 7, 99]))),
                            col('obj', ('k', 'q'), ('ix', rng.choice([0, -1, 1, 5, -3])))]))
    if r < 0.76:
        return ('json', gen.col_ref(rng, ['s', 't', 'js']))
    if r < 0.80:
        return ('json', None)          # the raw line again, after other operators added fields
    if r < 0.84:
        # a stateless operator by the property: the slice of a row depends on that row alone, in whatever order timestamps come
        return ('timeslice', gen.DATE_EXPR, rng.choice([60, 300, 3600, 86400]) * 10**9, rng.choice([None, 'slice']))
    if r < 0.90:
        return ('logfmt', gen.col_ref(rng, ['s', 'lf']))
    pat = rng.choice(['* *', 'a*', '*=*', '*', 'x*', '*a *'])
    # the target fields are sometimes fields that SOME rows already carry: a non-matching `nodrop` row keeps (or gets null for) them
    # on its own account, whatever earlier rows looked like
    names = rng.sample(['p1', 'p2', 'a', 'k', 'g', 't', 'flag', 'b', 's'] if rng.random() < 0.5 else ['p1', 'p2'], pat.count('*'))
    return ('parse', pat, names, gen.col_ref(rng, ['s', 't', 'k']), rng.random() < 0.6, rng.random() < 0.3)


def fix_parse(st):
    if st[0] == 'parse' and (not st[2] or len(st[2]) != st[1].count('*')):
        n = st[1].count('*')
        return ('parse', st[1], ['p%d' % (i + 1) for i in range(n)], st[3], st[4], st[5])
    return st


def writes(st):
    t = st[0]
    if t == 'let':
        return {st[2]}
    if t == 'parse':
        return set(st[2])
    if t == 'split':
        out = st[3] if st[3] is not None else st[2]
        return {out[1]} if out is not None else {'_split'}
    if t in ('where',):
        return set()
    if t == 'timeslice':
        return {st[3] or '_timeslice'}
    return None   # json/logfmt write data-dependent keys, fields removes: handled separately


def explore(ctx):
    rng = ctx['rng']
    quick = ctx['tier'] == 'quick'
    n = 500 if quick else 12000
    failures = []
    groups = []
    cases = corpus_cases('C12')
    for i in range(n):
        first = rng.random()
        if first < 0.7:
            head = [('json', None)]
        elif first < 0.85:
            # a raw-line parser first, the JSON extraction later: earlier fields must survive it
            head = [('parse', rng.choice(['"id": *,', '{*', '*"k": "*"*']), None, None, rng.random() < 0.7, rng.random() < 0.3)]
            head = [fix_parse(('parse', head[0][1], [], None, head[0][4], head[0][5]))]
            head.append(('json', None))
        else:
            head = [('logfmt', None), ('json', None)]
        stages = head + [fix_parse(stateless_stage(rng)) for _ in range(rng.randint(0 if len(head) > 1 else 1, 4))]
        ra = gen.gen_rows(rng, rng.randint(0, 8))
        rb = gen.gen_rows(rng, rng.randint(0, 8))
        for j, r in enumerate(rb):
            r['id'] = 1000 + j
        for r in ra + rb:
            if rng.random() < 0.3:
                r['js'] = '{"n": %d, "a": "in"}' % rng.randint(0, 9)
            if rng.random() < 0.3:
                r['lf'] = 'x=%d y="q r" flag' % rng.randint(0, 9)
        x = gen.gen_row(rng, 5000)
        la = [gen.jtext(r) for r in ra]
        lb = [gen.jtext(r) for r in rb]
        lx = [gen.jtext(x)] if rng.random() < 0.7 else ['not json at all\n']
        try:
            g = [Case('g%d-A' % i, STAR, stages, la, {'A'}), Case('g%d-B' % i, STAR, stages, lb, {'B'}),
                 Case('g%d-AB' % i, STAR, stages, la + lb, {'AB'}), Case('g%d-AxB' % i, STAR, stages, la + lx + lb, {'AxB'}),
                 Case('g%d-x' % i, STAR, stages, lx, {'x'}), Case('g%d-base' % i, STAR, [('json', None)], la + lb, {'base'}),
                 Case('g%d-head' % i, STAR, stages[:1], la + lb, {'head'})]
        except ValueError:
            continue
        groups.append((len(cases), stages, ra, rb))
        cases.extend(g)
    results = run_cases(cases)
    nontrivial = set()
    for start, stages, ra, rb in groups:
        A, B, AB, AxB, X, BASE, HEAD = results[start:start + 7]
        if any(r['impl']['kind'] != 'rows' for r in (A, B, AB, AxB, X, BASE, HEAD)):
            bad = [r for r in (A, B, AB, AxB, X, BASE, HEAD) if r['impl']['kind'] != 'rows'][0]
            failures.append({'kind': 'spec', 'what': 'stateless pipeline did not run cleanly: %s' % bad['impl']['kind'], 'payload': payload(bad)})
            continue
        key = lambda rows: [aglib.canon_key(x) for x in rows]
        if key(AB['impl']['rows']) != key(A['impl']['rows']) + key(B['impl']['rows']):
            failures.append({'kind': 'spec', 'what': 'output for A++B is not output(A) ++ output(B)',
                             'payload': payload(AB, {'out_A': A['impl']['rows'], 'out_B': B['impl']['rows'], 'len_A': len(A['case'].lines)})})
        if key(AxB['impl']['rows']) != key(A['impl']['rows']) + key(X['impl']['rows']) + key(B['impl']['rows']):
            failures.append({'kind': 'spec', 'what': 'a line inserted between A and B changed the rows produced for A or B',
                             'payload': payload(AxB, {'out_A': A['impl']['rows'], 'out_x': X['impl']['rows'], 'out_B': B['impl']['rows']})})
        if len(AB['impl']['rows']) > len(AB['case'].lines):
            failures.append({'kind': 'spec', 'what': 'more output rows than input lines', 'payload': payload(AB)})
        # frame of json on the raw line after another operator: what the first operator bound survives
        if len(stages) == 2 and stages[1] == ('json', None) and stages[0][0] == 'parse':
            want = {}
            for hrow in HEAD['impl']['rows']:
                pass
            heads = HEAD['impl']['rows']
            outs = AB['impl']['rows']
            if len(heads) == len(outs):
                for hrow, orow in zip(heads, outs):
                    for k, v in hrow.items():
                        doc_has = k in ('id', 'k', 'g', 'a', 'b', 's', 't', 'flag', 'arr', 'obj', 'js', 'lf')
                        if not doc_has and (k not in orow or not aglib.same(orow[k], v)):
                            failures.append({'kind': 'spec', 'what': 'json dropped or changed the field %r bound by the operator before it' % k,
                                             'payload': payload(AB, {'rows_before_json': heads[:10]})})
                            break
        # frame: single-operator pipelines only, fields the operator does not name are byte-identical
        if len(stages) == 2:
            w = writes(stages[1])
            base = {r.get('id'): r for r in BASE['impl']['rows'] if isinstance(r.get('id'), int)}
            for row in AB['impl']['rows']:
                b = base.get(row.get('id')) if isinstance(row.get('id'), int) else None
                if b is None:
                    continue
                if stages[1][0] == 'fields':
                    extra = [k for k in row if k not in b or not aglib.same(row[k], b[k])]
                    if extra:
                        failures.append({'kind': 'spec', 'what': 'fields added or changed a field: %r' % extra, 'payload': payload(AB)})
                        break
                elif stages[1][0] == 'split' and stages[1][3] is not None and stages[1][3][1] == 'arr' and len(stages[1][3][2]) == 1 \
                        and isinstance(b.get('arr'), list) and not any(isinstance(x, float) for x in b['arr']):
                    # a named array slot: only that element may change, and a slot that does not exist cannot be written
                    K = stages[1][3][2][0][1]
                    n = len(b['arr'])
                    idx = K if K >= 0 else n + K
                    na = row.get('arr')
                    if not (0 <= idx < n):
                        failures.append({'kind': 'spec', 'what': 'split wrote to arr[%d] of a %d-element array (no such slot): the row should have been dropped with an error' % (K, n),
                                         'payload': payload(AB, {'row_id': row.get('id')})})
                        break
                    if not isinstance(na, list) or len(na) != n or any(not aglib.same(x, y) for j, (x, y) in enumerate(zip(na, b['arr'])) if j != idx):
                        failures.append({'kind': 'spec', 'what': 'split as arr[%d] changed an element other than the one it names: %r -> %r' % (K, b['arr'], na),
                                         'payload': payload(AB, {'row_id': row.get('id')})})
                        break
                elif w is not None:
                    changed = [k for k in b if k not in w and (k not in row or not aglib.same(row[k], b[k]))]
                    added = [k for k in row if k not in b and k not in w]
                    if changed or added:
                        failures.append({'kind': 'spec', 'what': 'operator touched fields it does not name: changed %r added %r' % (changed, added),
                                         'payload': payload(AB)})
                        break
        for r in (A, B, AB, AxB, X):
            if r['corr']:
                failures.append({'kind': 'corr', 'what': r['corr'], 'payload': payload(r)})
        if len(stages) >= 3 and ra and rb:
            nontrivial.add(AB['case'].query + '\0' + AB['case'].inp.decode('utf8', 'replace'))
    # lines far longer than their neighbours (8 KiB .. 70 KiB; reader buffers are reused from line to line), on the
    # implementation alone (the model's text functions are quadratic in the line length): the rows produced for the
    # short lines are what they are without the long one
    long_checked = 0
    ljobs = []
    lmeta = []
    for i in range(24 if quick else 300):
        ra = gen.gen_rows(rng, rng.randint(1, 5), rich=False)
        rb = gen.gen_rows(rng, rng.randint(1, 5), rich=False)
        for j, r in enumerate(rb):
            r['id'] = 1000 + j
        x = {'id': 5000, 'k': 'long', 'zpad': rng.choice('pq') * rng.choice([8190, 8193, 9000, 20000, 70000])}
        q = rng.choice(['* | json | fields id, k', '* | parse "\\"id\\": *," as id', '* | json | where id >= 0 | fields id', 'long | json | fields id', '"id" | json | fields id, k'])
        la, lb, lx = [gen.jtext(r) for r in ra], [gen.jtext(r) for r in rb], [gen.jtext(x)]
        for part in (la, lb, lx, la + lx + lb, lx + lb):
            ljobs.append((q, ''.join(part).encode('utf8'), 'json', ()))
        lmeta.append((q, la, lb, lx))
    louts = aglib.run_impl_many(ljobs)
    for gi, (q, la, lb, lx) in enumerate(lmeta):
        oa, ob, ox, oaxb, oxb = [o['out'] for o in louts[gi * 5:gi * 5 + 5]]
        long_checked += 1
        if any(o['rc'] != 0 or o['timed_out'] for o in louts[gi * 5:gi * 5 + 5]):
            failures.append({'kind': 'spec', 'what': 'a pipeline over a long line did not run cleanly', 'payload': {'query': q, 'line_lengths': [len(l) for l in la + lx + lb]}})
        elif oaxb != oa + ox + ob or oxb != ox + ob:
            failures.append({'kind': 'spec', 'what': 'a %d-byte line changed the rows produced for the lines around it: %r, without it %r' % (len(lx[0]), oaxb[-300:], (oa + ob)[-300:]),
                             'payload': {'query': q, 'input_lines': la + lx + lb, 'mode': 'json'}})
    # one line in, at most one row out - also for a line beyond 1 MiB whose tail looks like a record of its own
    for size in ((1200000,) if quick else (1200000, 2200000, 4300000)):
        big = 'n=2; ' + 'x' * size + ' n=9; tail'
        inp = ('n=1; a\n' + big + '\nn=3; c\n').encode()
        for q, want in (('* | parse "n=*;" as n | fields n', [{'n': 1}, {'n': 2}, {'n': 3}]), ('* | parse "n=*;" as n nodrop | count', [[{'_count': 3}]])):
            o = aglib.run_impl_one(q, inp, 'json', timeout=120)
            long_checked += 1
            got = [json.loads(l) for l in o['out'].decode('utf8', 'replace').split('\n') if l]
            if o['rc'] != 0 or got != want:
                failures.append({'kind': 'spec', 'what': 'three lines, the middle one %d bytes long: %s gives %r, expected %r' % (len(big), q, got[:6], want),
                                 'payload': {'query': q, 'line_lengths': [6, len(big), 6], 'input_recipe': "'n=1; a', 'n=2; ' + 'x'*%d + ' n=9; tail', 'n=3; c'" % size}})
                break
    hist = {}
    for _s, stages, _a, _b in groups:
        for s in stages[1:]:
            hist[s[0]] = hist.get(s[0], 0) + 1
    kinds = {}
    for r in results:
        kinds[r['model']['kind']] = kinds.get(r['model']['kind'], 0) + 1
    cov = {
        'evaluations': len(cases) + long_checked, 'long_line_groups': long_checked,
        'distinct_nontrivial': len(nontrivial),
        'rule': 'pipelines json | 1..4 stateless operators over {where, field expression, fields, split, json from, logfmt from, parse from}; inputs A, B, A++B, A++[x]++B '
                'and x alone (x a fresh row or a non-JSON line); non-trivial = >=2 operators with A and B non-empty',
        'samples': samples_of([c for c in cases if 'AB' in c.tags][3:6]),
        'operator_histogram': hist,
        'model_outcomes': kinds,
        'unmodelled': kinds.get('unm', 0),
        'model_vs_impl_disagreements': sum(1 for r in results if r['corr']),
    }
    return {'coverage': cov, 'failures': failures}
