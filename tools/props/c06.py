"""C06 — json and logfmt extraction is faithful to the input data."""
import json

import aglib
import gen
import qast
from props.common import *
from props import aggoracle, pyref

TRUSTED_BASE = ['expected values come from Python\'s json module (last duplicate key wins, big ints exact) and float(); serde_json\'s tokenizer is inside the loop through the model\'s own JSON parser and through the real binary']
ASSUMPTIONS = ['documents stay within nesting 100 (serde_json\'s recursion limit 128 is outside the property\'s domain); no lone surrogates, no NaN/Infinity literals']

STR_CHARS = ['a', 'B', ' ', '"', '\\', '/', '\n', '\t', '\r', '\b', '\f', '\x01', '\x1f', 'é', 'ß', '中', '😀', ' ', ' ', "'", '{', '[', ',', ':', '0']


def gen_str(rng):
    return ''.join(rng.choice(STR_CHARS) for _ in range(rng.randint(0, 8)))


def gen_num_text(rng):
    r = rng.random()
    if r < 0.4:
        return str(rng.choice([0, 1, -1, 7, 2**31, -2**31, 2**53, 2**53 + 1, -2**53 - 1, 2**63 - 1, -2**63, 2**63, 2**64 - 1, 2**64, -2**64, rng.randint(-10**6, 10**6), rng.randint(-10**19, 10**19)]))
    if r < 0.7:
        return rng.choice(['0.5', '-0.5', '1.0', '2.0', '-0.0', '0.0', '1e2', '1E2', '1e+2', '1.5e-3', '1e300', '-1e300', '1e-300', '5e-324', '1.7976931348623157e308',
                           '0.1', '123456789.125', '9007199254740993.0', '1e400'[:4], '3.0000000000000004', '1e22', '1e23', '8.0e-135', '6.14547527720405608656e272'])
    m = str(rng.randint(1, 9)) + '.' + ''.join(rng.choice('0123456789') for _ in range(rng.randint(1, 18)))
    return rng.choice(['', '-']) + m + 'e' + str(rng.randint(-300, 300))


def gen_tree_text(rng, depth, ws):
    """returns JSON text (own serialiser: random whitespace, escape style, duplicate keys)"""
    def sp():
        return rng.choice(['', '', ' ', '  ', '\t']) if ws else ''

    def s_text(s):
        out = ['"']
        for ch in s:
            c = ord(ch)
            style = rng.random()
            if ch in '"\\':
                out.append('\\' + ch)
            elif ch == '/':
                out.append('\\/' if style < 0.5 else '/')
            elif c < 0x20:
                short = {'\n': '\\n', '\t': '\\t', '\r': '\\r', '\b': '\\b', '\f': '\\f'}.get(ch)
                out.append(short if short and style < 0.7 else '\\u%04x' % c)
            elif c > 0xFFFF and style < 0.5:
                c2 = c - 0x10000
                out.append('\\u%04x\\u%04x' % (0xD800 + (c2 >> 10), 0xDC00 + (c2 & 0x3FF)))
            elif c > 0x7E and style < 0.4 and c <= 0xFFFF:
                out.append('\\u%04X' % c)
            else:
                out.append(ch)
        out.append('"')
        return ''.join(out)

    def val(d):
        r = rng.random()
        if d <= 0 or r < 0.45:
            k = rng.random()
            if k < 0.35:
                return gen_num_text(rng)
            if k < 0.65:
                return s_text(gen_str(rng))
            return rng.choice(['true', 'false', 'null'])
        if r < 0.7:
            return '[' + sp() + (',' + sp()).join(val(d - 1) for _ in range(rng.randint(0, 4))) + sp() + ']'
        keys = [rng.choice(['a', 'b', 'k', '', 'a b', 'é', 'a', 'x.y', '0']) for _ in range(rng.randint(0, 4))]
        return '{' + sp() + (',' + sp()).join(s_text(k) + sp() + ':' + sp() + val(d - 1) for k in keys) + sp() + '}'
    return val(depth)


def py_parse(text):
    return json.loads(text, object_pairs_hook=lambda pairs: dict(pairs))


def explore(ctx):
    rng = ctx['rng']
    quick = ctx['tier'] == 'quick'
    n = 1500 if quick else 40000
    failures = []
    docs = []
    for i in range(n):
        depth = rng.choice([1, 1, 2, 3, 4]) if quick else rng.choice([1, 2, 3, 5, 8])
        body = gen_tree_text(rng, depth, ws=True)
        # top level: an object with an id, most of the time
        if rng.random() < 0.9:
            text = '{"id": %d, "v": %s%s}' % (i, body, rng.choice(['', ', "v": 1', ', "w": [1, {"z": null}]']))
        else:
            text = body
        docs.append(text)
    deep = '{"id": %d, "v": %s1%s}' % (n, '[' * 90, ']' * 90)
    docs.append(deep)
    lines = []
    expect = []
    for t in docs:
        lines.append(t + rng.choice(['\n', '  \n', '\r\n']))
        if rng.random() < 0.05:
            lines.append(rng.choice(['not json\n', '{"id": 1,}\n', '{"a": 01}\n', '\n', '{"a": "\x01"}\n', '[1 2]\n', '{"a": 1} trailing\n']))
    # expected rows, by Python
    for l in lines:
        try:
            v = py_parse(l)
        except ValueError:
            continue
        if isinstance(v, dict):
            expect.append({k: aggoracle.canon_in(x) for k, x in v.items()})
        else:
            expect.append({})
    o = aglib.run_impl_one('* | json', ''.join(lines).encode('utf8'), 'json')
    got = []
    if o['rc'] != 0 or b'panicked' in o['err']:
        failures.append({'kind': 'spec', 'what': 'json extraction crashed', 'payload': {'stderr': o['err'].decode('utf8', 'replace')[-400:]}})
    else:
        got = [aglib.json_value(py_parse(x)) for x in o['out'].decode('utf8').split('\n') if x]
        if len(got) != len(expect):
            failures.append({'kind': 'spec', 'what': 'json: %d rows out, %d documents in' % (len(got), len(expect)), 'payload': {'query': '* | json'}})
        else:
            for g, e in zip(got, expect):
                if not aglib.same(g, e):
                    failures.append({'kind': 'spec', 'what': 'printing the row does not reproduce the object: got %r expected %r' % (g, e),
                                     'payload': {'query': '* | json', 'input_lines': [l for l in lines if ('"id": %s,' % e.get('id')) in l][:1]}})
                    break
    # nested access and json-from-field, through the model as well
    cases = corpus_cases('C06')
    for i in range(n // 4):
        t = docs[rng.randrange(len(docs))]
        try:
            v = py_parse(t)
        except ValueError:
            continue
        if not isinstance(v, dict) or 'v' not in v:
            continue
        # a random path into v
        path = []
        cur = v['v']
        for _ in range(rng.randint(1, 3)):
            if isinstance(cur, dict) and cur and rng.random() < 0.9:
                k = rng.choice(list(cur))
                path.append(('k', k))
                cur = cur[k]
            elif isinstance(cur, list) and cur and rng.random() < 0.9:
                ix = rng.randrange(-len(cur), len(cur))
                path.append(('ix', ix))
                cur = cur[ix]
            else:
                path.append(rng.choice([('k', 'zz'), ('ix', 7), ('ix', -9)]))
                cur = None
                break
        e = col('v', *path)
        try:
            cases.append(Case('acc%d' % i, STAR, [('json', None), ('let', e, 'r'), ('fields', 'only', ['r'])], [t + '\n'], {'access'},
                              note={'want': aggoracle.canon_in(cur) if cur is not None or (path and path[-1] not in (('k', 'zz'), ('ix', 7), ('ix', -9))) else '<dropped>',
                                    'bad': path[-1] in (('k', 'zz'), ('ix', 7), ('ix', -9))}))
        except ValueError:
            pass
        # the same document as the text of another field
        # ... in a row that ALREADY has fields named like some of the document's members: the members must win
        envelope = {'doc': t, 'other': 1}
        for kk in list(v.keys())[:2]:
            if kk not in ('doc',) and i % 2 == 0:
                envelope[kk] = 'OLD'
        outer = json.dumps(envelope)
        cases.append(Case('from%d' % i, STAR, [('json', None), ('json', col('doc')), ('fields', 'except', ['doc'])], [outer + '\n'], {'from'},
                          note={'want_row': dict({k: aggoracle.canon_in(x) for k, x in v.items()}, **({} if 'other' in v else {'other': 1}))}))
    # logfmt lines from pair lists (documented forms)
    lf_expect = {}
    for i in range(n // 3):
        pairs = [('id', str(i))]
        for _ in range(rng.randint(0, 5)):
            k = rng.choice(['a', 'b', 'key', 'k2', 'x.y', 'ü'])
            form = rng.random()
            if form < 0.5:
                v = rng.choice(['1', '-5', '2.5', 'true', 'false', 'word', 'a/b', '1e3', '007', 'x:y', 'é', '9007199254740993', '9223372036854775807', '-9223372036854775808', '18446744073709551615', '1700000000123456789',
                                '.25', '-.5', '5.', '+8', '+.5', '-0', '0.0', '1E3', '1e-3', '00', '-', '+', '.', 'e5', '1e', 'TRUE', 'True', 't', 'f', 'yes', '0x10', '1_000', '٣'])
                pairs.append((k, v, v))
            elif form < 0.85:
                raw = rng.choice(['two words', '', 'say \\"hi\\"', 'a=b', ' padded ', '10', 'tab\there'])
                pairs.append((k, '"' + raw + '"', raw.replace('\\"', '"')))
            else:
                pairs.append((k, None, None))
        text = ' '.join(p[0] + ('=' + p[1] if len(p) > 1 and p[1] is not None else '') if len(p) > 2 else p[0] + '=' + p[1] for p in pairs)
        want = {}
        for p in pairs:
            if len(p) == 2:
                want[p[0]] = pyref.from_string(p[1])
            elif p[1] is None:
                want[p[0]] = None
            else:
                want[p[0]] = pyref.from_string(p[2])
        # known class KF-26: an empty value (unquoted, or quoted "") that is not the last pair is dropped by the logfmt crate
        vals = [(p[1] if len(p) == 2 else p[2]) for p in pairs]
        in_kf26 = any(v == '' for v in vals[:-1])
        c = Case('lf%d' % i, STAR, [('logfmt', None)], [text + '\n'], {'logfmt'} | ({'kf26'} if in_kf26 else set()), note={'want_row': want})
        cases.append(c)
    # text without any pair yields no field: blank lines, and `logfmt from` an empty / blank string
    for i, (stages, line, want) in enumerate([
            ([('logfmt', None)], '\n', {}), ([('logfmt', None)], '   \n', {}), ([('logfmt', None)], '\t\n', {}),
            ([('json', None), ('logfmt', col('m'))], '{"m": "", "id": 1}\n', {'m': '', 'id': 1}),
            ([('json', None), ('logfmt', col('m'))], '{"m": "  ", "id": 2}\n', {'m': '  ', 'id': 2}),
            ([('logfmt', None)], 'a=1\n', {'a': 1})]):
        cases.append(Case('lfblank%d' % i, STAR, stages, [line], {'logfmt'}, note={'want_row': want}))
    results = run_cases(cases)
    nontrivial = set()
    known_hits = 0
    for r in results:
        c = r['case']
        impl = r['impl']
        spec = None
        if impl['kind'] != 'rows':
            spec = 'extraction did not run cleanly: %s' % impl['kind']
        elif 'access' in c.tags:
            if c.note['bad']:
                if impl['rows']:
                    spec = 'out-of-range / missing nested access did not drop the row'
            elif len(impl['rows']) != 1 or not aglib.same(impl['rows'][0].get('r'), c.note['want']):
                spec = 'nested access %s returned %r, expected %r' % (c.query, impl['rows'], c.note['want'])
        elif 'kf26' in c.tags and 'logfmt_empty_unquoted_value' in ctx.get('known_classes', ()):
            known_hits += 1
        elif 'want_row' in (c.note or {}):
            if len(impl['rows']) != 1 or not aglib.same(impl['rows'][0], c.note['want_row']):
                spec = '%s: got %r, expected %r' % ('logfmt' if 'logfmt' in c.tags else 'json from field', impl['rows'], c.note['want_row'])
        if spec:
            failures.append({'kind': 'spec', 'what': spec, 'payload': payload(r)})
        elif r['corr']:
            failures.append({'kind': 'corr', 'what': r['corr'], 'payload': payload(r)})
        nontrivial.add(c.inp)
    # the model's own JSON parser on the documents (sample)
    mcases = [Case('doc%d' % i, STAR, [('json', None)], [docs[i] + '\n'], {'doc'}) for i in range(0, len(docs), 4 if quick else 1)]
    mres = run_cases(mcases)
    for r in mres:
        if r['corr']:
            failures.append({'kind': 'corr', 'what': r['corr'], 'payload': payload(r)})
    kinds = {}
    for r in results + mres:
        kinds[r['model']['kind']] = kinds.get(r['model']['kind'], 0) + 1
    cov = {
        'evaluations': len(lines) + len(cases) + len(mcases), 'distinct_nontrivial': len(nontrivial) + len(set(docs)),
        'rule': 'JSON documents written by the harness\'s own serialiser (nesting up to %d, plus one of depth 90; strings over ASCII, controls, BMP, astral, all escape styles incl. surrogate pairs; '
                'numbers around 0, 2^31, 2^53, 2^63, 2^64, fractions, exponents to +-300; duplicate and empty keys; random whitespace; interleaved invalid lines), nested .k/[i] paths incl. negative '
                'and out of range, the same documents inside a string field (json from), logfmt lines from pair lists (bare, quoted with escapes, bare keys)' % (4 if quick else 8),
        'samples': [{'document': d[:200]} for d in docs[:3]] + [{'logfmt': c.lines[0]} for c in cases if 'logfmt' in c.tags][:2],
        'documents': len(docs), 'known_class_hits': known_hits, 'model_outcomes': kinds, 'unmodelled': kinds.get('unm', 0),
        'model_vs_impl_disagreements': sum(1 for r in results + mres if r['corr']),
    }
    return {'coverage': cov, 'failures': failures}
