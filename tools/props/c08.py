"""C08 — numbers are never silently corrupted."""
import json
import math
import re

import aglib
import gen
import qast
from props.common import *
from props import aggoracle

TRUSTED_BASE = ['expected values are computed by Python: arbitrary-precision ints and float() (correctly rounded decimal -> binary64), independent of Rust and of the model\'s f_of_dec']
ASSUMPTIONS = ['text literals are restricted to the syntax that both Rust\'s str::parse::<f64> and Python\'s float() accept']
NEEDS_RELEASE = True

I64_MIN, I64_MAX = -2**63, 2**63 - 1


def gen_literal(rng):
    """-> (text, is_integer_syntax)"""
    r = rng.random()
    sign = rng.choice(['', '', '-', '-'])
    if r < 0.3:
        n = rng.choice([0, 1, 7, 42, 2**31 - 1, 2**31, 2**53 - 1, 2**53, 2**53 + 1, 2**63 - 1, 2**63, 2**63 + 1, 2**64 - 1, 2**64,
                        10**19, 10**25, rng.randint(0, 10**6), rng.randint(0, 10**18), rng.randint(2**53, 2**63)])
        return sign + str(n), True
    if r < 0.55:
        ip = str(rng.randint(0, 10**rng.randint(0, 17)))
        fp = ''.join(rng.choice('0123456789') for _ in range(rng.randint(1, 20)))
        return sign + ip + '.' + fp, False
    if r < 0.85:
        m = str(rng.randint(1, 9)) + ('.' + ''.join(rng.choice('0123456789') for _ in range(rng.randint(1, 17))) if rng.random() < 0.8 else '')
        e = rng.randint(-320, 305)
        return sign + m + rng.choice(['e', 'E']) + rng.choice(['', '+'] if e >= 0 else ['']) + str(e), False
    return sign + rng.choice(['0.0', '2.0', '2.50', '1e0', '1e2', '123456789.000', '0.1', '0.2', '0.30000000000000004', '1e-7', '5e-324', '1.7976931348623157e308',
                              '9007199254740993.0', '9223372036854775808.0', '4.35', '2.675', '1.005', '0.125', '0.375']), False


def expected_value(text, integer_syntax):
    """the value agrind should hold after extracting `text`"""
    if integer_syntax:
        n = int(text)
        if I64_MIN <= n <= I64_MAX:
            return n
        return aggoracle.from_float(float(n))
    return aggoracle.from_float(float(text))


def show(v):
    return qast.bits2f(v.bits) if isinstance(v, aglib.F) else v


def explore(ctx):
    rng = ctx['rng']
    quick = ctx['tier'] == 'quick'
    n = 1500 if quick else 40000
    failures = []
    lits = [gen_literal(rng) for _ in range(n)]
    lits += [(t, True) for t in ('0', '-0', '9223372036854775807', '-9223372036854775808', '9223372036854775808', '-9223372036854775809',
                                  '18446744073709551615', '18446744073709551616', '9007199254740993', '-9007199254740993')]
    want = [expected_value(t, i) for t, i in lits]
    evaluations = 0
    distinct = set()

    def check_rows(path, query, lines, getter, wants, mode='json', binary=None):
        nonlocal evaluations
        o = aglib.run_impl_one(query, ''.join(lines).encode('utf8'), mode, binary=binary)
        if o['rc'] != 0 or b'panicked' in o['err']:
            failures.append({'kind': 'spec', 'what': '%s: run failed rc=%s' % (path, o['rc']),
                             'payload': {'query': query, 'input_lines': lines[:5], 'stderr': o['err'].decode('utf8', 'replace')[-400:]}})
            return
        rows = {}
        for l in o['out'].decode('utf8', 'replace').split('\n'):
            if l:
                try:
                    r = aglib.json_value(json.loads(l))
                except ValueError:
                    continue
                for rr in (r if isinstance(r, list) else [r]):
                    rows[rr.get('i')] = rr
        for i, w in wants.items():
            evaluations += 1
            r = rows.get(i)
            got = getter(r) if r is not None else ('<row missing>',)
            if not aglib.same(got, w):
                failures.append({'kind': 'spec', 'what': '%s: literal %s came out as %r, expected %r' % (path, lits[i][0] if i < len(lits) else i, show(got) if not isinstance(got, tuple) else got, show(w)),
                                 'payload': {'query': query, 'input_lines': [lines[i]] if i < len(lines) else [], 'row': r, 'binary': binary or 'debug'}})
                return

    binaries = [None] + ([aglib.AGRIND_REL] if not quick else [])
    for binary in binaries:
        # 1. JSON numbers
        jl = ['{"i": %d, "x": %s}\n' % (i, t) for i, (t, _isint) in enumerate(lits)]
        jvalid = {i: w for i, w in enumerate(want) if not re.match(r'^-?0\d', lits[i][0])}
        check_rows('json', '* | json', jl, lambda r: r.get('x'), jvalid, binary=binary)
        # 2. logfmt / parse: text -> from_string
        ll = ['i=%d x=%s\n' % (i, t) for i, (t, _isint) in enumerate(lits)]
        check_rows('logfmt', '* | logfmt', ll, lambda r: r.get('x'), dict(enumerate(want)), binary=binary)
        check_rows('parse', '* | parse "i=* x=*" as i, x', ll, lambda r: r.get('x'), dict(enumerate(want)), binary=binary)
        # 3. noconvert keeps the text; num() coerces it to the same number
        check_rows('noconvert+num', '* | parse "i=* x=*" as i, x noconvert | num(x) as y | num(i) as i', ll, lambda r: r.get('y'),
                   {i: aggoracle.from_float(float(show(w))) if not isinstance(w, int) else w for i, w in enumerate(want)}, binary=binary)
        # 4. JSON strings that look like numbers coerce to that number in aggregates (one group per row)
        sl = ['{"i": %d, "s": "%s"}\n' % (i, t) for i, (t, _isint) in enumerate(lits)]
        coerced = {i: aggoracle.from_float(float(w)) if isinstance(w, int) else w for i, w in enumerate(want)}
        for fn in ('sum', 'min', 'max', 'avg'):
            # non-finite accumulators print as null / None
            src = coerced if fn in ('sum', 'avg') else dict(enumerate(want))      # min and max are exact on integers (b2f85e2)
            exp = {i: (None if isinstance(w, aglib.F) and not math.isfinite(show(w)) else w) for i, w in src.items()}
            check_rows('%s(string)' % fn, '* | json | %s(s) as y by i' % fn, sl, lambda r: r.get('y'), exp, binary=binary)
        # 4b. the same text padded with blanks: extraction trims it, so must every coercion
        slp = ['{"i": %d, "s": " %s  "}\n' % (i, t) for i, (t, _isint) in enumerate(lits)]
        for fn in ('sum', 'max'):
            src = coerced if fn == 'sum' else dict(enumerate(want))
            exp = {i: (None if isinstance(w, aglib.F) and not math.isfinite(show(w)) else w) for i, w in src.items()}
            check_rows('%s(padded string)' % fn, '* | json | %s(s) as y by i' % fn, slp, lambda r: r.get('y'), exp, binary=binary)
        check_rows('num(padded string)', '* | json | num(s) as y | fields i, y', slp, lambda r: r.get('y'),
                   dict(enumerate(want)), binary=binary)        # num() of integer text is that integer, exactly (43e6167)
        # 4c. the integer-to-integer functions on integers of any size: exact
        big = [(i, int(t)) for i, (t, isint) in enumerate(lits) if isint and I64_MIN <= int(t) <= I64_MAX]
        bl = ['{"i": %d, "x": %d}\n' % (i, v) for i, v in big]
        for fn, f in (('num', lambda v: v), ('abs', abs), ('ceil', lambda v: v), ('floor', lambda v: v), ('round', lambda v: v)):
            check_rows('%s(integer)' % fn, '* | json | %s(x) as y | fields i, y' % fn, bl, lambda r: r.get('y'),
                       {i: (f(v) if f(v) <= I64_MAX else aggoracle.from_float(float(f(v)))) for i, v in big}, binary=binary)
    # 4d. text holding an integer is that integer in + - * as well ("coerces to N wherever a number is expected")
    tl = [(i, int(t)) for i, (t, isint) in enumerate(lits) if isint and I64_MIN + 1 <= int(t) <= I64_MAX - 1]
    tlines = ['{"i": %d, "s": "%d"}\n' % (i, v) for i, v in tl]
    for expr, f in (('s + 0', lambda v: v), ('0 + s', lambda v: v), ('s * 1', lambda v: v), ('s - 1', lambda v: v - 1), ('1 + s', lambda v: v + 1)):
        check_rows('integer text in `%s`' % expr, '* | json | %s as y | fields i, y' % expr, tlines, lambda r: r.get('y'), {i: f(v) for i, v in tl})
    # 5. integer arithmetic: exact inside i64, a float (never a wrapped / saturated int) outside
    ints = [0, 1, -1, 2, 3, 10**9, 2**31, 2**32, 2**53, 2**62, 2**63 - 1, -2**63, -2**62, 3037000500, -3037000500, 4294967296, 9223372036854775806]
    al = []
    aw = {}
    k = 0
    for a in ints:
        for b in ints:
            al.append('{"i": %d, "a": %d, "b": %d}\n' % (k, a, b))
            def ex(v, fl):
                return v if I64_MIN <= v <= I64_MAX else aggoracle.from_float(fl)      # not an i64: the float computation, normalised like every number
            aw[k] = (ex(a + b, float(a) + float(b)), ex(a - b, float(a) - float(b)), ex(a * b, float(a) * float(b)))
            # a result beyond i64 whose double is itself an integer in range (only -2^63) would print as a saturated i64::MIN:
            # that row is refused (fix 9eb768d)
            if any(not (I64_MIN <= v <= I64_MAX) and isinstance(w, int) for v, w in zip((a + b, a - b, a * b), aw[k])):
                aw[k] = ('<row missing>',)
            k += 1
    for binary in [None] + ([aglib.AGRIND_REL] if not quick else []):
        check_rows('int arithmetic', '* | json | a + b as s | a - b as d | a * b as p', al,
                   lambda r: (r.get('s'), r.get('d'), r.get('p')), {i: w for i, w in aw.items()}, binary=binary)
    # 6. text output: two decimals for floats, integers exactly
    tl = ['{"i": %d, "x": %s}\n' % (i, t) for i, (t, _isint) in enumerate(lits[:400])]
    o = aglib.run_impl_one('* | json', ''.join(tl).encode('utf8'), 'logfmt')
    txt_checked = 0
    if o['rc'] == 0:
        for line in o['out'].decode('utf8', 'replace').split('\n'):
            m = re.match(r'^i=(\d+) x=(\S+)$', line)
            if not m:
                continue
            i = int(m.group(1))
            w = want[i]
            txt_checked += 1
            if isinstance(w, int):
                okk = m.group(2) == str(w)
            else:
                f = show(w)
                okk = (not math.isfinite(f)) or (re.match(r'^-?\d+\.\d\d$', m.group(2)) is not None and abs(float(m.group(2)) - f) <= 0.005 * (1 + 1e-9) + abs(f) * 2**-52)
            if not okk:
                failures.append({'kind': 'spec', 'what': 'text output of %s is %s' % (lits[i][0], m.group(2)), 'payload': {'query': '* | json  (-o logfmt)', 'input_lines': [tl[i]]}})
                break
    # 6b. a number handed to a second extraction (`parse ... from x`, `split(x)`): the row is refused with a message, or the
    # number comes back as it was - never a shortened rendering of it (the text modes' two decimals are for printing only)
    sub = [i for i in range(len(lits)) if not re.match(r'^-?0\d', lits[i][0])][:600 if quick else 6000]
    fl = ['{"i": %d, "x": %s}\n' % (i, lits[i][0]) for i in sub] + ['{"i": %d, "x": %s}\n' % (len(lits) + k, t) for k, t in enumerate(('3.14159', '0.000123', '-2.71828', '1234.5678', '2.5e-7'))]
    fwant = {i: want[i] for i in sub}
    fwant.update({len(lits) + k: aggoracle.from_float(float(t)) for k, t in enumerate(('3.14159', '0.000123', '-2.71828', '1234.5678', '2.5e-7'))})
    for q, get in (('* | json | parse "*" from x as y | fields i, y', lambda r: r.get('y')),
                   ('* | json | split(x) as y | fields i, y', lambda r: (r.get('y') or [None])[0] if isinstance(r.get('y'), list) and len(r.get('y')) == 1 else r.get('y'))):
        o = aglib.run_impl_one(q, ''.join(fl).encode('utf8'), 'json')
        if b'panicked' in o['err'] or o['rc'] not in (0,):
            failures.append({'kind': 'spec', 'what': 'second extraction of a number: run failed rc=%s' % o['rc'], 'payload': {'query': q, 'input_lines': fl[:5], 'stderr': o['err'].decode('utf8', 'replace')[-300:]}})
            continue
        for l in o['out'].decode('utf8', 'replace').split('\n'):
            if not l.strip():
                continue
            try:
                r = aglib.json_value(json.loads(l))
            except ValueError:
                continue
            evaluations += 1
            i = r.get('i')
            if i in fwant and 'y' in r and not aglib.same(get(r), fwant[i]):
                failures.append({'kind': 'spec', 'what': 'the number %s handed to a second extraction came back as %r' % (show(fwant[i]), show(get(r))),
                                 'payload': {'query': q, 'input_lines': [x for x in fl if x.startswith('{"i": %d,' % i)]}})
                break
    # 7. model correspondence on a sample (the model's own decimal->double and from_string)
    cases = []
    for i in range(0, len(lits), 3 if quick else 1):
        t, isint = lits[i]
        cases.append(Case('m%d' % i, STAR, [('logfmt', None), ('let', ('ar', 'add', col('x'), lit(0)), 'y')], ['x=%s\n' % t], {'model'}))
        if not re.match(r'^-?0\d', t):
            cases.append(Case('j%d' % i, STAR, [('json', None), ('agg', [(None, ('sum', col('x'))), (None, ('max', col('x')))], [])], ['{"x": %s}\n' % t], {'model'}))
    results = run_cases(cases)
    for r in results:
        if r['corr']:
            failures.append({'kind': 'corr', 'what': r['corr'], 'payload': payload(r)})
    for t, isint in lits:
        v = abs(float(t)) if not isint else abs(int(t))
        if v >= 2**53 or (0 < v < 1e-6) or not isint:
            distinct.add(t)
    cov = {
        'evaluations': evaluations + len(cases) + txt_checked, 'distinct_nontrivial': len(distinct),
        'rule': 'numeric literals (integers around 0, 2^31, 2^53, 2^63, 2^64 and beyond; fractions with up to 20 digits; exponents -320..305; boundary doubles) through '
                'json, logfmt, parse, noconvert+num(), sum/min/max/avg of numeric-looking strings, integer + - * on boundary pairs, and -o logfmt text output; '
                'expected values from Python ints/float(); thorough also runs the release build; non-trivial = magnitude >= 2^53 or < 1e-6 or non-integer syntax',
        'samples': [{'literal': t} for t, _ in lits[:8]],
        'literals': len(lits), 'text_output_checked': txt_checked, 'model_cases': len(cases),
        'model_vs_impl_disagreements': sum(1 for r in results if r['corr']),
    }
    # text that auto-converts to an integer N (leading +, surrounding blanks) is N in arithmetic as well, also beyond 2^53
    texts = ['+9007199254740993', ' 9007199254740993', '9007199254740993 ', '+9223372036854775807', '+36028797018963969', '-9007199254740993', ' -36028797018963969']
    q = '* | json | a + 0 as p | a - 0 as m | a * 1 as t | fields p, m, t'
    o = aglib.run_impl_one(q, ''.join(json.dumps({'a': t}) + '\n' for t in texts).encode(), 'json')
    lines = [l for l in o['out'].decode('utf8', 'replace').split('\n') if l]
    cov['evaluations'] += len(texts)
    for t, l in zip(texts, lines if len(lines) == len(texts) else [None] * len(texts)):
        want = int(t)
        row = json.loads(l) if l else None
        if not row or any(type(row.get(c)) is not int or row.get(c) != want for c in ('p', 'm', 't')):
            failures.append({'kind': 'spec', 'what': 'the text %r is the integer %d; in arithmetic it gives %r' % (t, want, row),
                             'payload': {'query': q, 'input_lines': [json.dumps({'a': t})], 'mode': 'json'}})
            break
    return {'coverage': cov, 'failures': failures}
