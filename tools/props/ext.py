"""Families that tie the later model files (Regex.v, Ckms.v, DateFmt.v) to the binary.

Each function returns (n_evaluated, n_nontrivial, failures, stats); a failure is a dict like those of the
property modules: kind 'spec' (the property fails on a concrete input) or 'corr' (model and binary differ).
The model side goes through the same extracted runner as every other case (entry points `rx`, `ckms`, `datefmt`
of Entry2.v)."""
import json
import re
import struct

import aglib
import sexp
from sexp import Sym


def f2bits(x):
    return struct.unpack('<Q', struct.pack('<d', float(x)))[0]


def bits2f(b):
    return struct.unpack('<d', struct.pack('<Q', b))[0]


# ------------------------------------------------------------------ percentile sketch
def ckms_value_lists(rng, quick):
    out = []
    pools = {
        'ints': lambda n: [rng.randint(-50, 50) for _ in range(n)],
        'floats': lambda n: [round(rng.uniform(-1000, 1000), rng.choice([0, 1, 3])) for _ in range(n)],
        'few': lambda n: [rng.choice([1, 2, 2.5, 7]) for _ in range(n)],
        'const': lambda n: [4.25] * n,
        'asc': lambda n: list(range(n)),
        'desc': lambda n: list(range(n, 0, -1)),
        'wide': lambda n: [rng.choice([1e-300, -1e300, 1e300, 0.0, -0.0, 3, 2 ** 53 + 2, -7.5, 1e15 + 0.5]) for _ in range(n)],
        'saw': lambda n: [(i * 37) % 101 for i in range(n)],
    }
    names = sorted(pools)
    for n in list(range(0, 12)) + [rng.randint(12, 60) for _ in range(10 if quick else 60)]:
        out.append((rng.choice(names), n))
    for n in ([150, 400, 1100] if quick else [150, 400, 1100, 2500, 5000] + [rng.randint(100, 3000) for _ in range(12)]):
        out.append((rng.choice(['ints', 'floats', 'asc', 'desc', 'saw', 'few']), n))
    res = [(k, pools[k](n)) for k, n in out]
    # descending run, then values that land in the middle of it: many one-entry blocks followed by middle inserts - the
    # arrival order on which the crate's rank bookkeeping goes wrong (known finding KF-60); the cell is still the model's
    import random as _r
    r3 = _r.Random(3)
    h = 2500 if quick else 2500
    res.append(('desc-then-middle', [2 * (h - i) for i in range(h)] + [2 * r3.randint(0, h - 1) + 1 for _ in range(h)]))
    if not quick:
        for _ in range(4):
            h = rng.randint(600, 3000)
            res.append(('desc-then-middle', [2 * (h - i) for i in range(h)] + [2 * rng.randint(0, h - 1) + 1 for _ in range(rng.randint(h // 2, h))]))
    return res


def ckms_family(rng, quick, known_classes=()):
    """exact agreement of every percentile cell with the transcription of the CKMS sketch (Ckms.v), and the property
    clause itself on the binary's answer: one of the observed values, within the documented rank tolerance"""
    lists = ckms_value_lists(rng, quick)
    jobs, notes = [], []
    for kind, vals in lists:
        pcts = sorted(set([50, 90, 99] + [rng.randint(1, 99) for _ in range(2)]))
        q = '* | json | ' + ', '.join('p%d(x)' % p for p in pcts)
        inp = ''.join(json.dumps({'x': v}) + '\n' for v in vals)
        # a row without the field and a non-numeric one in between: ignored by the sketch
        if vals and rng.random() < 0.3:
            inp = '{"y":1}\n' + inp + '{"x":"n/a"}\n'
        jobs.append((q, inp.encode(), 'json', ()))
        notes.append((kind, vals, pcts))
    outs = aglib.run_impl_many(jobs, timeout=60)
    mcases = []
    for (kind, vals, pcts) in notes:
        for p in pcts:
            mcases.append(sexp.dumps([Sym('ckms'), f2bits(p / 100.0), [f2bits(v) for v in vals]]))
    mres = aglib.run_model_many(mcases)
    failures, nontrivial, k = [], 0, 0
    stats = {'lists': len(lists), 'cells': 0, 'compressed_lists': sum(1 for _k, v in lists if len(v) > 100)}
    for (kind, vals, pcts), job, o in zip(notes, jobs, outs):
        payload = {'query': job[0], 'input_lines': job[1].decode().split('\n')[:-1] if len(vals) <= 60 else None,
                   'values': vals if len(vals) > 60 else None, 'kind': kind}
        row = None
        if o['rc'] == 0:
            try:
                arr = json.loads(o['out'].decode())
                row = arr[0] if arr else {}
            except ValueError:
                row = None
        if row is None:
            failures.append({'kind': 'spec', 'what': 'percentile query did not produce a table: rc=%r %r' % (o['rc'], o['err'][-200:]), 'payload': payload})
            k += len(pcts)
            continue
        svals = sorted(float(v) for v in vals)
        for p in pcts:
            m = mres[k]
            k += 1
            stats['cells'] += 1
            cell = row.get('p%d' % p)
            if not vals:
                # no group at all: an empty table (no row) — nothing to compare
                continue
            if cell is None:
                failures.append({'kind': 'spec', 'what': 'p%d of %d values is null' % (p, len(vals)), 'payload': payload})
                continue
            c = float(cell)
            idx = [i for i, v in enumerate(svals) if v == c]
            n = len(svals)
            if not idx:
                failures.append({'kind': 'spec', 'what': 'p%d = %r is not one of the %d observed values' % (p, cell, n), 'payload': payload})
                continue
            target = p / 100.0 * n
            tol = 0.001 * n + 1.0
            if min(abs(i + 1 - target) for i in idx) > tol + 1 and min(abs(i - target) for i in idx) > tol + 1:
                err = min(abs(i + 1 - target) for i in idx)
                if n >= 1000 and err <= 0.004 * n + 2 and 'ckms_rank_error_beyond_tolerance' in known_classes:
                    # KF-60: after its first compression (n >= 1000) the crate's sketch can miss the documented tolerance
                    stats['known_rank_error_cells'] = stats.get('known_rank_error_cells', 0) + 1
                else:
                    failures.append({'kind': 'spec', 'what': 'p%d = %r has rank %r of %d, target %.2f' % (p, cell, idx[:3], n, target), 'payload': payload})
                    continue
            if isinstance(m, list) and m and m[0] == 'some':
                mv = bits2f(int(m[2]))
                if mv != c:
                    failures.append({'kind': 'corr', 'what': 'p%d over %d values (%s): implementation %r, sketch model %r' % (p, n, kind, cell, mv), 'payload': payload})
                elif n > 100:
                    nontrivial += 1
            elif isinstance(m, list) and m and m[0] == 'unmodelled':
                stats['unmodelled'] = stats.get('unmodelled', 0) + 1
            else:
                failures.append({'kind': 'corr', 'what': 'p%d over %d values: implementation %r, sketch model answers %r' % (p, n, cell, m), 'payload': payload})
    return stats['cells'], nontrivial, failures, stats


# ------------------------------------------------------------------------- dates as text
def date_instants(rng, quick):
    base = [0, -1, 1, 951782400 * 10 ** 9,              # 2000-02-29
            -2203891200 * 10 ** 9,                        # 1900-03-01
            253402300799 * 10 ** 9 + 999999999,           # 9999-12-31T23:59:59.999999999
            -62135596800 * 10 ** 9,                       # 0001-01-01
            1628640000 * 10 ** 9 + 500000000, 1628640000 * 10 ** 9 + 123000, 1628640000 * 10 ** 9 + 7,
            86399 * 10 ** 9, -86400 * 10 ** 9, 1709251199 * 10 ** 9 + 999000000]
    out = list(base)
    for _ in range(40 if quick else 600):
        secs = rng.randint(-62135596800, 253402300799)
        frac = rng.choice([0, 0, 500000000, 120000000, 123456000, 123456789, 1, 999999999, 1000, 1000000])
        out.append(secs * 10 ** 9 + frac)
    for _ in range(20 if quick else 200):      # around year, month, leap-day and century boundaries
        y = rng.choice([1, 4, 100, 400, 1600, 1900, 1970, 1999, 2000, 2024, 2100, 9999])
        import datetime
        try:
            d = datetime.datetime(y, rng.choice([1, 2, 3, 12]), rng.choice([1, 28, 31]), tzinfo=datetime.timezone.utc)
            secs = int((d - datetime.datetime(1970, 1, 1, tzinfo=datetime.timezone.utc)).total_seconds())
        except (ValueError, OverflowError):
            continue
        out.append((secs + rng.choice([-1, 0, 86399, 86400])) * 10 ** 9 + rng.choice([0, 999999999]))
    return [ns for ns in out if -62135596800 * 10 ** 9 <= ns <= 253402300799 * 10 ** 9 + 999999999]


def date_family(rng, quick):
    """the text of a date in every output form against DateFmt.v, and the clause itself: the JSON text of a date read back
    (by an independent RFC 3339 reading) is the instant that went in"""
    inst = date_instants(rng, quick)
    # every instant goes in as the text of the day BEFORE plus `+ 1d`: the leap day of a year divisible by 400 cannot be
    # typed in (dtparse reads it as Feb 28, known finding dtparse_defects), and date arithmetic is on the path this way
    day = 86400 * 10 ** 9
    inst = [ns for ns in inst if ns - day >= -62135596800 * 10 ** 9]
    inst = [ns for ns in inst if not re.match(r'^(\d\d)(00)-02-29', aglib.rfc3339(ns - day)) or int(aglib.rfc3339(ns - day)[:4]) % 400 != 0]
    texts = [aglib.rfc3339(ns - day) for ns in inst]
    failures = []
    inp = ''.join(json.dumps({'t': t}) + '\n' for t in texts).encode()
    forms = [('rfc3339', 'json', '* | json | parseDate(t) + 1d as d | fields d'),
             ('display', 'logfmt', '* | json | parseDate(t) + 1d as d | fields d'),
             ('display', None, '* | json | parseDate(t) + 1d as d | fields d'),
             ('debug', 'json', '* | json | parseDate(t) + 1d as d | concat("", d) as s | fields s')]
    outs = aglib.run_impl_many([(q, inp, mode, ()) for (_f, mode, q) in forms], timeout=60)
    kinds = sorted(set(f for f, _m, _q in forms))
    mres = aglib.run_model_many([sexp.dumps([Sym('datefmt'), Sym(k), ns]) for k in kinds for ns in inst])
    model = {}
    i = 0
    for k in kinds:
        for ns in inst:
            model[(k, ns)] = mres[i]
            i += 1
    n = 0
    for (form, mode, q), o in zip(forms, outs):
        lines = o['out'].decode('utf8', 'replace').split('\n')
        if lines and lines[-1] == '':
            lines.pop()
        if o['rc'] != 0 or len(lines) != len(inst):
            failures.append({'kind': 'spec', 'what': 'dates through %s (-o %s): rc=%r, %d lines for %d rows: %r' % (q, mode, o['rc'], len(lines), len(inst), o['err'][-200:]),
                             'payload': {'query': q, 'mode': mode, 'input_lines': inp.decode().split('\n')[:-1]}})
            continue
        for ns, t, line in zip(inst, texts, lines):
            n += 1
            if mode == 'json':
                got = list(json.loads(line).values())[0]
            elif mode == 'logfmt':
                got = line.split('=', 1)[1]
            else:
                got = re.sub(r'^\[d=(.*)\]$', r'\1', line.strip())
            payload = {'query': q, 'mode': mode, 'input_lines': [json.dumps({'t': t})], 'ns': ns}
            want = model[(form, ns)]
            if form == 'rfc3339':
                back = parse_rfc3339_ns(got)
                if back != ns:
                    failures.append({'kind': 'spec', 'what': 'date %s is written as %r in JSON, which reads back as %r ns, not %r' % (t, got, back, ns), 'payload': payload})
                    continue
            if not isinstance(want, str) or want != got:
                failures.append({'kind': 'corr', 'what': 'date %s (%s form, -o %s): implementation %r, model %r' % (t, form, mode, got, want), 'payload': payload})
    return n, n, failures, {'instants': len(inst), 'forms': len(forms)}


def parse_rfc3339_ns(s):
    m = re.match(r'^([+-]?\d{4,})-(\d\d)-(\d\d)T(\d\d):(\d\d):(\d\d)(?:\.(\d{1,9}))?(Z|[+-]\d\d:\d\d)$', s)
    if not m:
        return None
    y, mo, d, hh, mi, ss = (int(m.group(i)) for i in range(1, 7))
    frac = int((m.group(7) or '0').ljust(9, '0'))
    off = 0
    if m.group(8) != 'Z':
        sign = -1 if m.group(8)[0] == '-' else 1
        off = sign * (int(m.group(8)[1:3]) * 3600 + int(m.group(8)[4:6]) * 60)
    # days from civil (Hinnant), written here independently of the model
    y2 = y - (1 if mo <= 2 else 0)
    era = (y2 if y2 >= 0 else y2 - 399) // 400
    yoe = y2 - era * 400
    doy = (153 * (mo + (-3 if mo > 2 else 9)) + 2) // 5 + d - 1
    doe = yoe * 365 + yoe // 4 - yoe // 100 + doy
    days = era * 146097 + doe - 719468
    return ((days * 86400 + hh * 3600 + mi * 60 + ss) - off) * 10 ** 9 + frac


# ------------------------------------------------------------------ parse regex
CLASSES = [r'\d', r'\w', r'[a-z]', r'[A-Z]', r'[0-9a-f]', r'[^ ]', r'[^=,]', r'\S', r'.', r'[a-c]', r'x', r'ab']
QUANT = ['+', '*', '?', '+?', '*?', '{2}', '{1,3}', '{2,}', '']
SEPS = ['-', '=', ':', ' ', ',', r'\.', '/', r'\s', r'\s+', '', '@', r'\[', r'\]']
NAMES = ['a', 'b', 'id', 'key', 'v1', 'user_name']
TOKENS = ['12', 'ab', 'x', '7', 'abc', 'KEY', 'q', '', ' ', '-', '=', ':', ',', '.', '/', 'x1', 'y2', 'id', '007', 'a1b2', '@', '[', ']', 'ff', 'Zz']


def rx_atom(rng):
    return rng.choice(CLASSES) + rng.choice(QUANT)


def rx_pattern(rng):
    names = rng.sample(NAMES, rng.randint(1, 3))
    parts = []
    if rng.random() < 0.15:
        parts.append('^')
    for i, nm in enumerate(names):
        body = ''.join(rx_atom(rng) for _ in range(rng.randint(1, 2)))
        r = rng.random()
        if r < 0.15:
            body = body + '|' + rx_atom(rng)
        grp = '(?P<%s>%s)' % (nm, body)
        r = rng.random()
        if r < 0.15:
            grp = '(?:%s%s)?' % (rng.choice(['', 'k=', '-']), grp)
        elif r < 0.25:
            grp = grp + '?'
        elif r < 0.32 and i + 1 < len(names):
            # alternation between two named groups: only one takes part
            nm2 = names[i + 1]
            grp = '%s|(?P<%s>%s)' % (grp, nm2, rx_atom(rng))
            parts.append('(?:%s)' % grp)
            parts.append(rng.choice(SEPS))
            names = names[:i + 1] + names[i + 2:]
            break
        parts.append(grp)
        if i + 1 < len(names):
            parts.append(rng.choice(SEPS))
    if rng.random() < 0.15:
        parts.append('$')
    return ''.join(parts)


def rx_lines(rng):
    out = []
    for _ in range(rng.randint(2, 5)):
        out.append(''.join(rng.choice(TOKENS) for _ in range(rng.randint(0, 6))))
    return [l.replace('\n', ' ') for l in out]


def agrind_quote(p):
    return '"' + p.replace('\\', '\\\\').replace('"', '\\"') + '"'


def rx_family(rng, quick):
    """`parse regex`: the named captures of the first (leftmost-first) match, against Regex.v and, where Python's re is
    a second independent reading of the same subset, against that too"""
    n = 500 if quick else 12000
    pats = []
    seen = set()
    while len(pats) < n:
        p = rx_pattern(rng)
        try:
            cre = re.compile(p)
        except re.error:
            continue
        if not cre.groupindex:
            continue
        # one case in three reads the text `from` a field of a row that ALREADY has fields named like the groups:
        # a group that takes no part in the match is None all the same, a line that does not match keeps them (nodrop)
        use_from = rng.random() < 0.34
        pats.append((p, cre, rx_lines(rng), rng.random() < 0.3, rng.random() < 0.5, use_from))
        seen.add(p)
    jobs = []
    for p, cre, lines, nodrop, noconv, use_from in pats:
        if use_from:
            names = [nm for nm, _i in sorted(cre.groupindex.items(), key=lambda kv: kv[1])]
            q = '* | json | parse regex %s from msg%s%s' % (agrind_quote(p), ' nodrop' if nodrop else '', ' noconvert' if noconv else '')
            jobs.append((q, ''.join(json.dumps(dict([('msg', l)] + [(nm, 'old') for nm in names])) + '\n' for l in lines).encode(), 'json', ()))
        else:
            q = '* | parse regex %s%s%s' % (agrind_quote(p), ' nodrop' if nodrop else '', ' noconvert' if noconv else '')
            jobs.append((q, ''.join(l + '\n' for l in lines).encode(), 'json', ()))
    outs = aglib.run_impl_many(jobs)
    from props import pyref
    mcases, where = [], []
    for k, (p, cre, lines, nodrop, noconv, use_from) in enumerate(pats):
        for l in lines:
            mcases.append(sexp.dumps([Sym('rx'), p, pyref.rust_trim(l)]))
            where.append(k)
    mres = aglib.run_model_many(mcases)
    # the same rows through the model of the STAGE (RegexStage.v: input from the field, trimming, conversion, binding over
    # existing fields, nodrop) for the cases that read from a field
    scases, swhere = [], []
    for k, (p, cre, lines, nodrop, noconv, use_from) in enumerate(pats):
        if not use_from:
            continue
        names = [nm for nm, _i in sorted(cre.groupindex.items(), key=lambda kv: kv[1])]
        for li, l in enumerate(lines):
            raw = json.dumps(dict([('msg', l)] + [(nm, 'old') for nm in names]))
            rec = [Sym('rec'), raw, ['msg', [Sym('s'), l]]] + [[nm, [Sym('s'), 'old']] for nm in names]
            scases.append(sexp.dumps([Sym('rxstage'), p, [Sym('some'), [Sym('col'), 'msg']], Sym('t' if nodrop else 'f'), Sym('t' if noconv else 'f'), rec]))
            swhere.append((k, li))
    sres = dict(zip(swhere, aglib.run_model_many(scases)))
    failures, nontrivial = [], 0
    stats = {'patterns': len(seen), 'stage_rows': len(scases), 'stage_rows_equal': 0, 'lines': len(mcases), 'model_unsupported': 0, 'model_fuel': 0, 'matches': 0, 'optional_none': 0, 'rejected_by_agrind': 0}
    mi = 0
    for pk, ((p, cre, lines, nodrop, noconv, use_from), job, o) in enumerate(zip(pats, jobs, outs)):
        ms = mres[mi:mi + len(lines)]
        mi += len(lines)
        payload = {'query': job[0], 'input_lines': lines}
        if o['rc'] != 0:
            # the regex crate refuses some patterns Python accepts (none in this grammar is expected to be)
            stats['rejected_by_agrind'] += 1
            failures.append({'kind': 'spec', 'what': 'parse regex %s is refused: %r' % (p, o['err'][-200:]), 'payload': payload})
            continue
        got = [aglib.json_value(json.loads(x)) for x in o['out'].decode('utf8').split('\n') if x]
        names = [nm for nm, _i in sorted(cre.groupindex.items(), key=lambda kv: kv[1])]
        want_model, want_py, usable = [], [], True
        for l, m in zip(lines, ms):
            t = pyref.rust_trim(l)
            pm = cre.search(t)
            base = dict([('msg', l)] + [(nm, 'old') for nm in names]) if use_from else {}
            keep = dict(base) if use_from else {k: None for k in names}      # a line that does not match, under nodrop
            if pm:
                want_py.append(dict(base, **{k: (None if v is None else (v if noconv else pyref.from_string(v))) for k, v in pm.groupdict().items()}))
            elif nodrop:
                want_py.append(dict(keep))
            head = m[0] if isinstance(m, list) and m else m
            if head == 'match':
                row = {}
                for item in m[1:]:
                    nm, v = item[0], item[1]
                    if isinstance(v, list) and v and v[0] == 'some':
                        row[nm] = v[1] if noconv else pyref.from_string(v[1])
                    else:
                        row[nm] = None
                        stats['optional_none'] += 1
                want_model.append(dict(base, **row))
                stats['matches'] += 1
            elif head == 'nomatch':
                if nodrop:
                    want_model.append(dict(keep))
            else:
                usable = False
                stats['model_unsupported' if head == 'unsupported' else 'model_fuel'] += 1
        def differs(want):
            return len(got) != len(want) or any(not aglib.same(g, w) for g, w in zip(got, want))
        # the clause itself: exactly the named groups, each bound to the text its group matched in the first match
        for g in got:
            if sorted(k for k in g.keys() if k != 'msg' or not use_from) != sorted(names):
                failures.append({'kind': 'spec', 'what': 'parse regex %s binds %r, the named groups are %r' % (p, sorted(g.keys()), names), 'payload': payload})
                break
        else:
            py_bad = differs(want_py)
            mo_bad = usable and differs(want_model)
            if py_bad and (mo_bad or not usable):
                failures.append({'kind': 'spec', 'what': 'parse regex %s on %r: got %r, the first match binds %r' % (p, lines, got[:4], want_py[:4]), 'payload': payload})
            elif mo_bad:
                failures.append({'kind': 'corr', 'what': 'parse regex %s on %r: implementation %r, model %r' % (p, lines, got[:4], want_model[:4]), 'payload': payload})
            elif py_bad:
                stats['python_re_differs_model_agrees'] = stats.get('python_re_differs_model_agrees', 0) + 1
            elif got:
                nontrivial += 1
            if use_from and not py_bad:
                # the stage model row by row
                want_stage, ok_stage = [], True
                for li in range(len(lines)):
                    m = sres.get((pk, li))
                    if isinstance(m, list) and m and m[0] == 'row':
                        want_stage.append({item[0]: aglib.model_value(item[1]) for item in m[1][1:]})
                    elif isinstance(m, list) and m and m[0] == 'dropped':
                        pass
                    else:
                        ok_stage = False
                if ok_stage and differs(want_stage):
                    failures.append({'kind': 'corr', 'what': 'parse regex %s from msg on %r: implementation %r, stage model %r' % (p, lines, got[:4], want_stage[:4]), 'payload': payload})
                elif ok_stage:
                    stats['stage_rows_equal'] += len(lines)
    return len(mcases), nontrivial, failures, stats


# ------------------------------------------------------------------------- durations as text
def dur_family(rng, quick):
    """chrono's two texts of a duration (DurFmt.v): the JSON text (Display of TimeDelta) and the text the string functions
    see (derived Debug), on durations built by arithmetic `1ms * m + 1ns * n`; the clause itself: the JSON text, read
    back independently, is the duration that went in"""
    pairs = [(0, 0), (0, 1), (0, -1), (1500, 0), (-1500, 0), (5400000, 0), (86400000, 1), (1, 999999), (-1, -999999),
             (9223372036854775, 0), (-9223372036854775, 0), (0, 500000000), (999, 999999), (1000, 0), (0, 1000), (0, 1000000)]
    for _ in range(40 if quick else 1500):
        m = rng.choice([0, rng.randint(-10 ** 6, 10 ** 6), rng.randint(-10 ** 12, 10 ** 12), rng.randint(-9 * 10 ** 15, 9 * 10 ** 15)])
        n = rng.choice([0, rng.randint(-999999, 999999), rng.choice([1, 10, 100, 1000, 10 ** 4, 10 ** 5]) * rng.choice([1, -1])])
        pairs.append((m, n))
    inp = ''.join(json.dumps({'m': m, 'n': n}) + '\n' for m, n in pairs).encode()
    forms = [('iso', '* | json | 1ms * m + 1ns * n as d | fields d'),
             ('debug', '* | json | 1ms * m + 1ns * n as d | concat("", d) as s | fields s')]
    outs = aglib.run_impl_many([(q, inp, 'json', ()) for _f, q in forms], timeout=60)
    nss = [m * 10 ** 6 + n for m, n in pairs]
    mres = aglib.run_model_many([sexp.dumps([Sym('durfmt'), Sym(f), ns]) for f, _q in forms for ns in nss])
    failures, n_ok = [], 0
    for fi, ((form, q), o) in enumerate(zip(forms, outs)):
        lines = [l for l in o['out'].decode('utf8', 'replace').split('\n') if l]
        if o['rc'] != 0 or len(lines) != len(pairs):
            failures.append({'kind': 'spec', 'what': 'durations through %s: rc=%r, %d lines for %d rows: %r' % (q, o['rc'], len(lines), len(pairs), o['err'][-200:]),
                             'payload': {'query': q, 'input_lines': inp.decode().split('\n')[:-1]}})
            continue
        for k, ((m, n), ns, line) in enumerate(zip(pairs, nss, lines)):
            got = list(json.loads(line).values())[0]
            want = mres[fi * len(pairs) + k]
            payload = {'query': q, 'input_lines': [json.dumps({'m': m, 'n': n})], 'ns': ns}
            if form == 'iso':
                mm = re.match(r'^(-?)P(?:0D|T(\d+)(?:\.(\d{1,9}))?S)$', got)
                back = None
                if mm:
                    back = (int(mm.group(2) or 0) * 10 ** 9 + int((mm.group(3) or '0').ljust(9, '0'))) * (-1 if mm.group(1) else 1)
                if back != ns:
                    failures.append({'kind': 'spec', 'what': 'the duration %d ns is written as %r in JSON, which reads back as %r' % (ns, got, back), 'payload': payload})
                    continue
            if want != got:
                failures.append({'kind': 'corr', 'what': 'duration %d ns (%s form): implementation %r, model %r' % (ns, form, got, want), 'payload': payload})
            else:
                n_ok += 1
    return len(pairs) * len(forms), n_ok, failures, {'durations': len(pairs), 'forms': len(forms)}


# ------------------------------------------------------------------------- floats as text (to_string)
def f64_values(rng, quick):
    import struct as _s
    out = [0.1, 0.3, 1 / 3, 2.5, 5e-324, 1.7976931348623157e308, 1e21, 1.5e21, 1e22, 1e23, 1e-5, 1e-7, 1.5e-7, 123456.789, 0.1 + 0.2,
           9.5e18, 1.8446744073709552e19, 2.0 ** 63 + 2048, 4.35, 2.675, 1e15 + 0.5, 9007199254740993.0 * 2 + 0.0, 2.2250738585072014e-308,
           4.9e-324 * 3, 0.000001, 100000.5, 1e300, -1e300, -0.1, -2.5e-9]
    for _ in range(150 if quick else 4000):
        r = rng.random()
        if r < 0.35:
            x = _s.unpack('<d', _s.pack('<Q', rng.getrandbits(64)))[0]
        elif r < 0.6:
            x = float('%d.%s' % (rng.randint(-10 ** rng.randint(0, 6), 10 ** rng.randint(0, 6)), ''.join(rng.choice('0123456789') for _ in range(rng.randint(1, 17)))))
        elif r < 0.8:
            x = rng.choice([-1, 1]) * rng.random() * 10.0 ** rng.randint(-320, 308)
        else:
            k = rng.randint(-1070, 1020)
            x = 2.0 ** k * rng.choice([1, 1 + 2.0 ** -52, 1 - 2.0 ** -53, 1.5])
        if x != x or x in (float('inf'), float('-inf')):
            continue
        if x == int(x) and abs(x) < 2.0 ** 63:
            continue          # integral values in the i64 range are integers in agrind
        out.append(x)
    return out


def f64_family(rng, quick):
    """the text of a float as the string functions see it (Rust's `{}` for f64, F64Display.v): equal to the model, and the
    clause itself: the text reads back as the same double (no exponent form, shortest digits)"""
    vals = f64_values(rng, quick)
    inp = ''.join('{"x":%r}\n' % v for v in vals).encode()
    q = '* | json | concat("", x) as s | fields s'
    o = aglib.run_impl_one(q, inp, 'json', timeout=120)
    lines = [l for l in o['out'].decode('utf8', 'replace').split('\n') if l]
    failures = []
    if o['rc'] != 0 or len(lines) != len(vals):
        return 0, 0, [{'kind': 'spec', 'what': 'float texts: rc=%r, %d lines for %d rows: %r' % (o['rc'], len(lines), len(vals), o['err'][-200:]), 'payload': {'query': q}}], {}
    mres = aglib.run_model_many([sexp.dumps([Sym('f64disp'), f2bits(v)]) for v in vals])
    n_ok = 0
    for v, line, m in zip(vals, lines, mres):
        got = json.loads(line)['s']
        payload = {'query': q, 'input_lines': ['{"x":%r}' % v]}
        try:
            back = float(got)
        except ValueError:
            back = None
        if back != v or 'e' in got.lower():
            failures.append({'kind': 'spec', 'what': 'the float %r has the text %r, which reads back as %r' % (v, got, back), 'payload': payload})
        elif len(got.replace('-', '').replace('.', '').strip('0')) > len(repr(v).split('e')[0].replace('-', '').replace('.', '').strip('0')):
            failures.append({'kind': 'spec', 'what': 'the float %r has the text %r: more digits than the shortest text that reads back (%r)' % (v, got, repr(v)), 'payload': payload})
        elif m != got:
            failures.append({'kind': 'corr', 'what': 'float %r: implementation %r, model %r' % (v, got, m), 'payload': payload})
        else:
            n_ok += 1
    return len(vals), n_ok, failures, {'floats': len(vals)}
