"""C01 — grouped aggregation reports the true per-group statistics."""
import json
import aglib
import gen
import qast
from props.common import *
from props import ext
from props import aggoracle

TRUSTED_BASE = ['quantiles::CKMS (percentile sketch) is not modelled: percentile cells are checked against the exact order statistics of the values the model says reached the sketch, within the rank tolerance 0.001*n (+1)',
                'an independent Python reference (tools/props/aggoracle.py) recomputes count/sum/min/max/avg/count_distinct for aggregations over plain columns']
ASSUMPTIONS = ['result rows are compared as a multiset against the Python reference (row order is C09\'s business) and exactly, in order, against the model']


def simple_rows(rng, n):
    rows = []
    for i in range(n):
        r = {'id': i}
        if rng.random() < 0.92:
            r['k'] = rng.choice(['a', 'b', 'c', 'a', 1, 1.0, 1.5, True, None, '1'])
        if rng.random() < 0.85:
            r['g'] = rng.choice([1, 2, 2, 3, None, 'x', [1], [1, 2], {'p': 1}, {'p': 1, 'q': 2}])
        if rng.random() < 0.9:
            r['a'] = rng.choice([gen.small_int(rng), gen.small_int(rng), gen.any_int(rng), gen.any_float(rng), None, True])
        if rng.random() < 0.9:
            r['b'] = rng.choice([rng.randint(-5, 5), rng.randint(-5, 5), rng.randint(-5, 4) + rng.choice([0.25, 0.5, 0.75]), rng.randint(-5, 4) + 0.5, 2**53, -2**53, 1e300, None])   # integers next to fractions of either sign: min/max compare Int with Float exactly
        if rng.random() < 0.7:
            r['s'] = rng.choice(gen.WORDS)
        rows.append(r)
    return rows


def plain_stage(rng):
    fns = []
    used = set()
    for _ in range(rng.randint(1, 5)):
        t = rng.choice(['count', 'sum', 'min', 'max', 'avg', 'distinct', 'sum', 'max'])
        fn = ('count', None) if t == 'count' else (t, col(rng.choice(['a', 'b', 'nope'] if t != 'distinct' else ['a', 'b', 's', 'k', 'g', 'nope'])))
        name = rng.choice([None, None, 'n1', 'n2', 'tot', 'm'])
        eff = name if name is not None else qast.fn_default_name(fn)
        if eff in used:
            name = 'c%d' % len(fns)
            eff = name
        used.add(eff)
        fns.append((name, fn))
    keys = []
    for c in rng.sample(['k', 'g', 'nope', 's'], rng.choice([0, 1, 1, 2, 3])):
        keys.append((None, col(c)))
    return ('agg', fns, keys)


def explore(ctx):
    rng = ctx['rng']
    quick = ctx['tier'] == 'quick'
    n_plain = 900 if quick else 20000
    n_rich = 900 if quick else 20000
    cases = corpus_cases('C01')
    for i in range(n_plain):
        rows = simple_rows(rng, rng.randint(0, 30))
        st = plain_stage(rng)
        cases.append(Case('p%d' % i, STAR, [('json', None), st], [gen.jtext(r) for r in rows], {'plain'},
                          note={'rows': rows, 'stage': st}))
    for i in range(n_rich):
        rows = gen.gen_rows(rng, rng.randint(0, 30))
        st = gen.agg_stage(rng, None, allow_pct=True)
        if not st[1]:
            continue
        tags = {'rich'}
        if any(fn[0] == 'pct' for _n, fn in st[1]):
            tags.add('pct')
        cases.append(Case('x%d' % i, STAR, [('json', None), st], [gen.jtext(r, rng) for r in rows], tags))
    results = run_cases(cases, compare=compare_with_pct)
    failures = []
    nontrivial = set()
    oracle_checked = 0
    for r in results:
        c = r['case']
        impl = r['impl']
        spec = None
        if impl['kind'] != 'table':
            spec = 'aggregation did not produce a table: %s' % impl['kind']
        elif 'plain' in c.tags and aggoracle.oracle_applicable(c.note['stage'], c.note['rows']):
            oracle_checked += 1
            want = aggoracle.aggregate(c.note['stage'], c.note['rows'])
            cols = gen.agg_columns(c.note['stage'])
            got = sorted(aglib.canon_key(x) for x in impl['rows'])
            exp = sorted(aglib.canon_key({k: row.get(k) for k in cols}) for row in want)
            if got != exp:
                spec = 'per-group statistics differ from the reference computation: got %s expected %s' % (got[:6], exp[:6])
            elif impl['rows'] and impl.get('cols') != cols:
                spec = 'columns %r, expected %r' % (impl.get('cols'), cols)
            else:
                # the counts of all groups add up to the number of rows that reached the stage
                for n, fn in c.note['stage'][1]:
                    if fn == ('count', None):
                        name = n if n is not None else '_count'
                        tot = sum(row[name] for row in impl['rows'])
                        if tot != len(c.note['rows']) and (impl['rows'] or c.note['rows']):
                            spec = 'group counts add up to %d for %d input rows' % (tot, len(c.note['rows']))
        if spec:
            failures.append({'kind': 'spec', 'what': spec, 'payload': payload(r)})
        elif r['corr']:
            failures.append({'kind': 'corr', 'what': r['corr'], 'payload': payload(r)})
        if impl['kind'] == 'table' and len(impl['rows']) >= 2 and len(c.lines) > len(impl['rows']):
            nontrivial.add(c.query + '\0' + c.inp.decode('utf8', 'replace'))
    fh = {}
    for c in cases:
        for _n, fn in c.stages[1][1]:
            fh[fn[0]] = fh.get(fn[0], 0) + 1
    kinds = {}
    for r in results:
        kinds[r['model']['kind']] = kinds.get(r['model']['kind'], 0) + 1
    cov = {
        'evaluations': len(cases), 'distinct_nontrivial': len(nontrivial),
        'rule': 'json | <aggregation>: "plain" stages (1-5 functions over plain columns, 0-3 plain key columns; key values mix strings, 1 / 1.0 / "1", bools, null, missing, arrays, objects) '
                'checked against an independent Python reference, and "rich" stages (computed keys and arguments, conditional counts, percentiles) checked against the model; '
                'non-trivial = >=2 groups and some group with >=2 rows',
        'samples': samples_of([c for c in cases if 'plain' in c.tags][2:4] + [c for c in cases if 'pct' in c.tags][:1]),
        'function_histogram': fh, 'model_outcomes': kinds, 'unmodelled': kinds.get('unm', 0),
        'python_reference_checked': oracle_checked,
        'percentile_cases': sum(1 for c in cases if 'pct' in c.tags),
        'model_vs_impl_disagreements': sum(1 for r in results if r['corr']),
    }
    # the same on a live terminal, where a downstream aggregation is re-fed on every refresh: groups of an earlier
    # refresh whose key no longer occurs must not survive (one row per key among the rows that REACH the stage)
    from props import c16
    live = c16.run_live(ctx, c16.MOVING[:2], 6 if quick else 80)
    failures += live['failures']
    cov['live_terminal_cases'] = live['coverage']['evaluations']
    cov['evaluations'] += live['coverage']['evaluations']
    # "over the values that are numeric": a date is not a number for sum / min / max / avg (it is for num(), which is
    # a conversion one asks for) - groups whose argument is a date report 0 / None / None / None
    dl = [json.dumps({'k': k_, 'ts': t_}) + '\n' for k_, t_ in (('a', '2021-03-01T10:00:00Z'), ('a', '2021-03-01T11:00:00Z'), ('b', '1970-01-01T00:00:01Z'))]
    dq = '* | json | parseDate(ts) as d | count, sum(d) as s, min(d) as lo, max(d) as hi, avg(d) as av by k'
    do = aglib.run_impl_one(dq, ''.join(dl).encode('utf8'), 'json')
    try:
        drows = sorted((r['k'], r['_count'], r['s'], r['lo'], r['hi'], r['av']) for r in json.loads(do['out'].decode('utf8')))
    except (ValueError, KeyError, TypeError):
        drows = None
    cov['evaluations'] += 1
    if do['rc'] != 0 or drows != [('a', 2, 0, None, None, None), ('b', 1, 0, None, None, None)]:
        failures.append({'kind': 'spec', 'what': 'aggregates over a DATE argument: %r, expected count 2/1, sum 0, min/max/avg None (a date is not a numeric value)' % (drows,),
                         'payload': {'query': dq, 'input_lines': dl, 'mode': 'json'}})
    # the percentile sketch: every cell against the transcription of the CKMS sketch (Ckms.v, exact), and against the clause
    # itself (one of the observed values, rank within the documented tolerance) on lists long enough to be compressed
    n_k, nt_k, f_k, st_k = ext.ckms_family(rng, quick, ctx.get('known_classes', ()))
    failures += f_k
    cov['evaluations'] += n_k
    cov['percentile_sketch'] = dict(st_k, cells_exactly_equal_to_the_model=n_k - len(f_k), compressed_cells_equal=nt_k)
    return {'coverage': cov, 'failures': failures}
