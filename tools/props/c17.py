"""C17 — I/O faults end the run cleanly."""
import os
import stat
import subprocess
import tempfile
import threading
import time

import aglib
import gen
import ptydrive
from props.common import *

TRUSTED_BASE = ['OS delivery of EPIPE / SIGPIPE disposition / exit codes; faults are injected by closing the read end of stdout after k bytes',
                'the model (Stream.v) assumes every write at or after the fault fails']
ASSUMPTIONS = ['"promptly" = the process has exited 2 s after the consumer went away, also on endless input']


def run_filtered_close(variant, timeout=2.0):
    """`first` on: one matching line (read by the consumer, which then goes away); variant A: one more matching line
    (its write fails); then endless non-matching lines.  Returns dict(rc (None = still running), stderr)."""
    p = subprocess.Popen([aglib.AGRIND, 'first'], stdin=subprocess.PIPE, stdout=subprocess.PIPE, stderr=subprocess.PIPE, env=aglib.ENV, bufsize=0)
    def feed(data):
        try:
            p.stdin.write(data)
            return True
        except (BrokenPipeError, OSError):
            return False
    feed(b'first 1\n')
    p.stdout.readline()
    p.stdout.close()
    if variant == 'A':
        feed(b'first 2\n')
        time.sleep(0.4)
    deadline = time.time() + timeout
    while time.time() < deadline and p.poll() is None:
        if not feed(b'later\n' * 200):
            break
        time.sleep(0.01)
    try:
        rc = p.wait(timeout=0.5)
    except subprocess.TimeoutExpired:
        rc = None
        p.kill()
        p.wait()
    try:
        p.stdin.close()
    except Exception:
        pass
    return {'rc': rc, 'stderr': p.stderr.read()}


def run_close_after(args, k, endless, finite_input=b'', timeout=2.0, matching_lines=None, pad=0):
    """a run that is still going after `timeout` is repeated once with 10 s: a busy machine is slow, a process that
    did not notice the closed pipe never ends"""
    res = _run_close_after(args, k, endless, finite_input, timeout, matching_lines, pad)
    if res['rc'] is None and timeout < 10:
        res = _run_close_after(args, k, endless, finite_input, 10.0, matching_lines, pad)
    return res


def _run_close_after(args, k, endless, finite_input=b'', timeout=2.0, matching_lines=None, pad=0):
    """start agrind, read k bytes of stdout, close it; keep feeding stdin (endless) or feed finite input; returns dict"""
    p = subprocess.Popen([aglib.AGRIND] + args, stdin=subprocess.PIPE, stdout=subprocess.PIPE, stderr=subprocess.PIPE, env=aglib.ENV)
    stop = threading.Event()

    def feeder():
        i = 0
        try:
            if endless:
                while not stop.is_set():
                    # matching_lines: only the first so many lines contain the word the query filters on
                    word = lambda j: b'first' if matching_lines is None or j < matching_lines else b'later'
                    padding = b'x' * pad
                    p.stdin.write(b''.join(b'{"id": %d, "k": "%s", "v": %d, "w": "%s%s"}\n' % (j, b'abc'[j % 3:j % 3 + 1], j % 7, word(j), padding) for j in range(i, i + 200)))
                    p.stdin.flush()
                    i += 200
            else:
                p.stdin.write(finite_input)
                p.stdin.close()
        except (BrokenPipeError, ValueError, OSError):
            pass
    tf = threading.Thread(target=feeder, daemon=True)
    tf.start()
    got = b''
    t_start = time.time()
    while len(got) < k and time.time() - t_start < 5:
        d = os.read(p.stdout.fileno(), min(4096, k - len(got)))
        if not d:
            break
        got += d
    p.stdout.close()
    t_closed = time.time()
    try:
        rc = p.wait(timeout=timeout)
        exited_after = time.time() - t_closed
    except subprocess.TimeoutExpired:
        rc = None
        exited_after = None
        p.kill()
    stop.set()
    try:
        p.stdin.close()
    except Exception:
        pass
    err = p.stderr.read()
    return {'rc': rc, 'exited_after': exited_after, 'stderr': err, 'read': len(got)}


def bad(res):
    err = res['stderr'].decode('utf8', 'replace')
    if res['rc'] is None:
        return 'still running 2 s after the consumer closed stdout'
    if 'panicked' in err or 'Well, this is embarrassing' in err or res['rc'] in (101, 134, -6, -11):
        return 'panic / crash report (rc=%s): %s' % (res['rc'], err[-300:])
    lines = [l for l in err.split('\n') if l.strip()]
    if len(lines) > 1:
        return 'more than one line on stderr: %r' % lines[:4]
    if lines and not lines[0].lower().startswith('error'):
        return 'unexpected stderr: %r' % lines[0]
    return None


def explore(ctx):
    rng = ctx['rng']
    quick = ctx['tier'] == 'quick'
    failures = []
    known_lines = []
    evaluations = 0
    nontrivial = 0
    samples = []
    rec_q = '* | json'
    line_len = len(b'{"id":0,"k":"a","v":0}\n')
    offsets = [0, 1, 5] + [line_len * i for i in range(1, 12 if quick else 200)] + [rng.randint(1, 4000) for _ in range(8 if quick else 300)]
    for mode in ('json', 'logfmt', 'legacy', 'format={id} {k}'):
        for k in (offsets if mode == 'json' else offsets[:8] if quick else offsets[:60]):
            for endless in (True, False):
                finite = b''.join(b'{"id": %d, "k": "a", "v": 1}\n' % j for j in range(3000))
                res = run_close_after([rec_q, '-o', mode], k, endless, finite)
                evaluations += 1
                why = bad(res)
                if why:
                    failures.append({'kind': 'spec', 'what': 'record pipeline, -o %s, stdout closed after %d bytes, %s input: %s' % (mode, k, 'endless' if endless else 'finite', why),
                                     'payload': {'query': rec_q, 'mode': mode, 'close_after_bytes': k, 'endless': endless, 'rc': res['rc']}})
                if k >= line_len:
                    nontrivial += 1
    samples.append({'query': rec_q, 'close_after_bytes': offsets[:6], 'modes': ['json', 'logfmt', 'legacy', 'format']})
    # records larger than stdout's line buffer (1 KB) and than a pipe's atomic write (4 KB): the write path differs
    for mode in ('json', 'logfmt', 'legacy', 'format={id} {w}'):
        for pad in (1500, 9000):
            for k in ((0, pad + 40, 3 * pad) if quick else (0, 1, pad // 2, pad + 40, 3 * pad, 10 * pad)):
                res = run_close_after([rec_q, '-o', mode], k, True, pad=pad)
                evaluations += 1
                nontrivial += 1
                why = bad(res)
                if why:
                    failures.append({'kind': 'spec', 'what': 'records of %d bytes, -o %s, stdout closed after %d bytes, endless input: %s' % (pad + 40, mode, k, why),
                                     'payload': {'query': rec_q, 'mode': mode, 'close_after_bytes': k, 'record_bytes': pad + 40, 'rc': res['rc'], 'stderr': res.get('stderr', b'')[-300:].decode('utf8', 'replace')}})
    # a keyword filter and endless input that stops matching it: (A) one more matching line arrives after the consumer
    # went away, so the write fails and agrind knows: it must stop although no row reaches the channel again;
    # (B) nothing is ever written again after the close: agrind cannot notice without polling stdout (KF-31)
    for variant in ('A', 'B'):
        for rep in range(2 if quick else 10):
            res = run_filtered_close(variant)
            if res['rc'] is None and variant == 'A':
                res = run_filtered_close(variant, timeout=10.0)
            evaluations += 1
            nontrivial += 1
            if res['rc'] is None:
                if variant == 'B':
                    if 'stdout_closed_without_further_output' in ctx.get('known_classes', ()):
                        line = 'KF-31 stdout closed and no row is ever produced again (endless input that no longer matches the filter): agrind keeps reading, a closed stdout is only noticed by writing to it [history: `first` with 1 matching line, stdout closed after it was read, then endless non-matching lines]'
                        if line not in known_lines:
                            known_lines.append(line)
                    else:
                        failures.append({'kind': 'spec', 'what': 'stdout closed, endless input that never matches again: still running after 2 s', 'payload': {'query': 'first', 'variant': 'B'}})
                else:
                    failures.append({'kind': 'spec', 'what': 'stdout closed, one more matching line made the write fail, then endless non-matching input: still running 2 s later',
                                     'payload': {'query': 'first', 'variant': 'A', 'stderr': res['stderr'][-200:].decode('utf8', 'replace')}})
            elif b'panicked' in res['stderr'] or res['stderr'].count(b'\n') > 1:
                failures.append({'kind': 'spec', 'what': 'stdout closed on a filtered pipeline: unclean exit', 'payload': {'variant': variant, 'stderr': res['stderr'][-300:].decode('utf8', 'replace')}})
    # aggregate pipelines: the consumer goes away before the final print (finite input), and on a live terminal (endless input)
    for q in ('* | json | count by k', '* | json | sum(v), count by k | sort by k', '* | json | count'):
        for mode in ('json', 'legacy', 'logfmt'):
            finite = b''.join(b'{"id": %d, "k": "a", "v": 1}\n' % j for j in range(2000))
            res = run_close_after([q, '-o', mode], 0, False, finite)
            evaluations += 1
            why = bad(res)
            if why:
                failures.append({'kind': 'spec', 'what': 'aggregate pipeline, -o %s, stdout closed before the final print: %s' % (mode, why), 'payload': {'query': q, 'mode': mode}})
            nontrivial += 1
    # a terminal that goes away while a live aggregate is running on endless input (constant and changing frames)
    import pty, fcntl, termios, struct
    for q in ('* | json | count by k', '* | json | max(v)', '* | parse "v=*" as v | max(v)'):
        master, slave = pty.openpty()
        fcntl.ioctl(slave, termios.TIOCSWINSZ, struct.pack('HHHH', 24, 80, 0, 0))
        p = subprocess.Popen([aglib.AGRIND, q], stdin=subprocess.PIPE, stdout=slave, stderr=subprocess.PIPE, env=aglib.ENV)
        os.close(slave)
        stop = threading.Event()

        def feeder():
            i = 0
            try:
                while not stop.is_set():
                    p.stdin.write(b''.join(b'{"id": %d, "k": "a", "v": 3}\n' % j for j in range(i, i + 50)))
                    p.stdin.flush()
                    i += 50
                    time.sleep(0.01)
            except (BrokenPipeError, ValueError, OSError):
                pass
        tf = threading.Thread(target=feeder, daemon=True)
        tf.start()
        time.sleep(0.4)
        try:
            os.read(master, 65536)
        except OSError:
            pass
        os.close(master)
        try:
            rc = p.wait(timeout=3.0)
        except subprocess.TimeoutExpired:
            rc = None
            p.kill()
        stop.set()
        err = p.stderr.read().decode('utf8', 'replace')
        evaluations += 1
        nontrivial += 1
        if rc is None:
            failures.append({'kind': 'spec', 'what': 'live aggregate on a terminal keeps running 3 s after the terminal went away', 'payload': {'query': q}})
        elif 'panicked' in err:
            failures.append({'kind': 'spec', 'what': 'panic after the terminal went away: ' + err[-200:], 'payload': {'query': q}})
    # stderr goes away together with stdout (`agrind ... 2>&1 | head -1`): still a clean stop, not a panic while reporting
    for q, feed, what in (('*', b'hello world\n', 'records'), ('* | json', b'{"a": 1}\n', 'json records'),
                          ('* | json | where nope > 1', b'{"a": 1}\n', 'every row fails (finite input)')):
        endless = what != 'every row fails (finite input)'
        p = subprocess.Popen([aglib.AGRIND, q], stdin=subprocess.PIPE, stdout=subprocess.PIPE, stderr=subprocess.STDOUT, env=aglib.ENV)
        stop = threading.Event()

        def feeder(p=p, feed=feed, endless=endless):
            try:
                if endless:
                    while not stop.is_set():
                        p.stdin.write(feed * 500)
                else:
                    p.stdin.write(feed * 100000)
                p.stdin.close()
            except (BrokenPipeError, ValueError, OSError):
                pass
        tf = threading.Thread(target=feeder, daemon=True)
        tf.start()
        os.read(p.stdout.fileno(), 16)
        p.stdout.close()
        try:
            rc = p.wait(timeout=20)
        except subprocess.TimeoutExpired:
            rc = None
            p.kill()
        stop.set()
        evaluations += 1
        nontrivial += 1
        if rc is None or rc in (101, 134, -6, -11):
            failures.append({'kind': 'spec', 'what': 'stdout and stderr are the same pipe and its reader went away (%s): %s' % (what, 'still running after 20 s' if rc is None else 'exit status %s (panic)' % rc),
                             'payload': {'query': q, 'how': "agrind '%s' 2>&1 | head -c 16" % q}})
    # unreadable inputs and invalid command lines
    tmpd = tempfile.mkdtemp(prefix='agv-c17-', dir=aglib.BUILD)
    noperm = os.path.join(tmpd, 'noperm')
    open(noperm, 'w').write('x\n')
    os.chmod(noperm, 0)
    cli = [(['* | count', '--file', os.path.join(tmpd, 'missing')], 'missing file'),
           (['* | count', '--file', tmpd], 'a directory'),
           (['* | count', '--file', '/proc/self/mem'], 'a file whose reads fail'),
           (['--file', noperm, '* | count'], 'permission denied' if os.geteuid() != 0 else 'unreadable (root can read it)'),
           ([], 'no query'), (['--bogus', '* | count'], 'unknown flag'), (['* | count', 'extra'], 'extra positional'),
           (['* | count', '-o'], 'flag without value'), (['* | count', '--file'], 'flag without value'),
           (['* | count', '-o', 'bogus'], 'unknown output mode'), (['* | count', '-o', ''], 'empty output mode'), (['* | count', '-o', 'format='], 'empty format string'),
           (['-m', '', '* | logfmt'], 'empty --format'), (['--format=', '* | logfmt'], 'empty --format'), (['* | logfmt', '--format', ''], 'empty --format'),
           (['* | logfmt', '-m', '{a', ], 'malformed format string'), (['* | logfmt', '-o', 'json', '-m', '{a}'], '-o together with --format')]
    for args, what in cli:
        p = subprocess.run([aglib.AGRIND] + args, input=b'a\n', stdout=subprocess.PIPE, stderr=subprocess.PIPE, env=aglib.ENV, timeout=20)
        evaluations += 1
        err = p.stderr.decode('utf8', 'replace')
        if 'panicked' in err or p.returncode in (101, 134, -6, -11) or 'embarrassing' in err:
            failures.append({'kind': 'spec', 'what': '%s: crash instead of an error message (rc=%s): %s' % (what, p.returncode, err[-300:]), 'payload': {'args': args}})
        elif err.strip() == '' and what not in ('unreadable (root can read it)',):
            failures.append({'kind': 'spec', 'what': '%s: no error message (rc=%s)' % (what, p.returncode), 'payload': {'args': args}})
        elif p.returncode == 0 and what not in ('unreadable (root can read it)', 'a file whose reads fail', 'a directory'):
            failures.append({'kind': 'spec', 'what': '%s: exit status 0' % what, 'payload': {'args': args, 'stderr': err[-200:]}})
    # a rejected query whose diagnostic cannot be delivered (stderr is a pipe nobody reads): still exit 1, not a panic
    for q in ('* | json | count by', '* | limit 0', '* | nosuchop', '("unclosed'):
        rfd, wfd = os.pipe()
        os.close(rfd)
        p = subprocess.run([aglib.AGRIND, q], input=b'a\n', stdout=subprocess.PIPE, stderr=wfd, env=aglib.ENV, timeout=20)
        os.close(wfd)
        evaluations += 1
        if p.returncode in (101, 134, -6, -11) or p.returncode == 0:
            failures.append({'kind': 'spec', 'what': 'a rejected query with the reader of stderr gone: exit status %s (expected 1)' % p.returncode, 'payload': {'query': q}})
    os.chmod(noperm, 0o600)
    os.remove(noperm)
    os.rmdir(tmpd)
    cov = {
        'evaluations': evaluations, 'distinct_nontrivial': nontrivial,
        'rule': 'fault enumeration on the real binary: stdout closed after k bytes for k in {0, 1, 5, every line boundary of the first %d lines, random offsets}, for record pipelines in each output mode '
                'with finite and endless input; aggregate pipelines closed before the final print; a terminal that disappears under a live aggregate on endless input; '
                'unreadable inputs (missing, directory, failing reads, no permission) and invalid command lines; non-trivial = a fault after at least one complete line' % (11 if quick else 199),
        'samples': samples,
        'fault_points': len(offsets),
    }
    return {'coverage': cov, 'failures': failures, 'known_lines': known_lines}
