"""C03 — pipeline stages apply strictly in the order written."""
import json

import aglib
import gen
import qast
from props.common import *

TRUSTED_BASE = ['the stage-splitting oracle re-feeds the implementation\'s own -o json output as input (values survive the JSON round trip; raw text and dates/durations do not, such pipelines skip the oracle)']
ASSUMPTIONS = ['row order after an aggregation that is not followed by a sort is not fixed by the property: compared as a multiset there']


def uses_dur(x):
    """does the pipeline compute durations or dates?  They print as text, so a table holding them cannot be re-fed"""
    if isinstance(x, tuple) and len(x) == 2 and x[0] == 'dur':
        return True
    if isinstance(x, (list, tuple)) and len(x) >= 2 and x[0] in ('call', 'timeslice') and (x[0] == 'timeslice' or x[1] == 'parseDate'):
        return True
    if isinstance(x, (list, tuple)):
        return any(uses_dur(y) for y in x)
    return False


def gen_pipeline(rng, maxlen):
    stages = [('json', None)]
    cols = None
    kinds = []
    for _ in range(rng.randint(1, maxlen)):
        r = rng.random()
        if r < 0.55:
            st = gen.inline_stage(rng, cols)
            kinds.append('inline')
        elif r < 0.8:
            st = gen.agg_stage(rng, cols)
            if not st[1]:
                continue
            cols = gen.agg_columns(st)
            kinds.append('agg')
        else:
            st = gen.sort_stage(rng, cols)
            kinds.append('sort')
        stages.append(st)
    return stages, kinds


TARGETED = [
    # (stages after json) — shapes the property names explicitly
    [('sort', [col('a')], None), ('limit', 2)],
    [('sort', [col('a')], 'desc'), ('limit', -2)],
    [('sort', [col('a')], None), ('total', col('a'), None)],
    [('sort', [col('b')], None), ('where', ('cmp', 'gt', col('a'), lit(1))), ('limit', 3)],
    [('sort', [col('a')], None), ('let', ('ar', 'mul', col('a'), lit(2)), 'dbl'), ('fields', 'only', ['id', 'dbl'])],
    [('agg', [(None, ('count', None))], [(None, col('k'))]), ('where', ('cmp', 'gt', col('_count'), lit(1)))],
    [('agg', [(None, ('count', None))], [(None, col('k'))]), ('let', ('ar', 'add', col('_count'), lit(100)), 'c2')],
    [('agg', [(None, ('count', None)), (None, ('sum', col('a')))], [(None, col('k'))]), ('fields', 'except', ['_sum'])],
    [('agg', [(None, ('count', None))], [(None, col('k'))]), ('limit', 1)],
    [('agg', [(None, ('count', None))], [(None, col('k'))]), ('sort', [col('k')], None), ('total', col('_count'), None)],
    [('agg', [(None, ('count', None))], [(None, col('k')), (None, col('g'))]), ('agg', [(None, ('sum', col('_count'))), (None, ('count', None))], [(None, col('k'))])],
    [('agg', [(None, ('count', None))], [(None, col('k'))]), ('agg', [(None, ('max', col('_count')))], [])],
    [('limit', -3), ('let', ('ar', 'add', col('a'), lit(1)), 'a1')],
    [('limit', -2), ('where', ('cmp', 'gte', col('id'), lit(0))), ('fields', 'only', ['id'])],
    [('limit', -4), ('limit', 2), ('total', col('id'), None)],
    [('limit', -3), ('agg', [(None, ('sum', col('id')))], [])],
    [('limit', -3), ('sort', [col('id')], 'desc')],
    [('total', col('a'), None), ('limit', -2), ('total', col('a'), 't2')],
    [('where', ('cmp', 'gt', col('a'), lit(0))), ('limit', 2), ('agg', [(None, ('count', None))], [])],
    [('let', lit(1), 'one'), ('total', col('one'), None), ('where', ('cmp', 'gt', col('_total'), lit(2))), ('limit', 2)],
]


def split_oracle(case, results_by_query, rng):
    """returns list of (prefix_stages, last_stage) splits that are meaningful for this pipeline"""
    st = case.stages
    if len(st) < 3 or uses_dur(st):
        return []
    out = []
    n = len(st)
    last = st[-1]
    prev = st[-2]
    # the last stage must not read the raw line, and must not be order sensitive right after an unsorted aggregate
    if last[0] in ('json', 'logfmt', 'parse', 'split') and last[1 if last[0] != 'parse' else 3] is None:
        return []
    if last[0] == 'split' and last[2] is None:
        return []
    if prev[0] == 'agg' and last[0] in ('total',):
        return []
    return [(st[:-1], last)]


def order_fixed(stages):
    """is the row order of the pipeline's result determined by the property?"""
    fixed = True
    for i, s in enumerate(stages):
        if s[0] == 'agg':
            nxt = stages[i + 1] if i + 1 < len(stages) else None
            fixed = nxt is None or nxt[0] == 'limit'
        elif s[0] == 'sort':
            fixed = True
    return fixed


def rows_to_lines(rows):
    def dej(v):
        if isinstance(v, aglib.F):
            return qast.bits2f(v.bits)
        if isinstance(v, list):
            return [dej(x) for x in v]
        if isinstance(v, dict):
            return {k: dej(x) for k, x in v.items()}
        return v
    return [json.dumps(dej(r)) + '\n' for r in rows]


def explore(ctx):
    rng = ctx['rng']
    quick = ctx['tier'] == 'quick'
    n_random = 1200 if quick else 25000
    cases = corpus_cases('C03')
    for i, tail in enumerate(TARGETED):
        for rep in range(3 if quick else 20):
            rows = gen.gen_rows(rng, rng.randint(0, 14), rich=False)
            cases.append(Case('t%d-%d' % (i, rep), STAR, [('json', None)] + tail, [gen.jtext(r) for r in rows], {'targeted', 'nt'}))
    for i in range(n_random):
        stages, kinds = gen_pipeline(rng, 6)
        rows = gen.gen_rows(rng, rng.randint(0, 14))
        lines = [gen.jtext(r, rng) for r in rows]
        tags = set()
        if len(stages) >= 4 and any(k in ('agg', 'sort') for k in kinds[:-1]):
            tags.add('nt')
        try:
            cases.append(Case('r%d' % i, STAR, stages, lines, tags))
        except ValueError:
            continue
    results = run_cases(cases)
    failures = []
    # stage-splitting oracle through the implementation itself
    oracle_jobs = []
    for r in results:
        if r['impl']['kind'] not in ('rows', 'table'):
            continue
        for prefix, last in split_oracle(r['case'], None, rng):
            oracle_jobs.append((r, prefix, last))
    pre_cases = [Case(j[0]['case'].cid + '-pre', STAR, j[1], j[0]['case'].lines) for j in oracle_jobs]
    pre_jobs = [(c.query, c.inp, 'json', ()) for c in pre_cases]
    pre_out = aglib.run_impl_many(pre_jobs)
    second = []
    pre_kind = {}
    for (r, prefix, last), pc, po in zip(oracle_jobs, pre_cases, pre_out):
        p = aglib.parse_impl_json(po, aglib.is_agg_query(prefix))
        if p['kind'] not in ('rows', 'table'):
            second.append(None)
            continue
        if any(v is None for row in p['rows'] for v in row.values()):
            # -o json prints a missing cell, a null cell and a non-finite number (NaN, inf) alike, as null:
            # re-feeding such output would not be the same rows
            second.append(None)
            continue
        pre_kind[len(second)] = p['kind']
        lines = rows_to_lines(p['rows'])
        second.append(Case(r['case'].cid + '-last', STAR, [('json', None), last], lines))
    idx = [i for i, c in enumerate(second) if c is not None]
    sec_out = aglib.run_impl_many([(second[i].query, second[i].inp, 'json', ()) for i in idx])
    oracle_checked = 0
    for i, so in zip(idx, sec_out):
        r, prefix, last = oracle_jobs[i]
        s = aglib.parse_impl_json(so, aglib.is_agg_query([last]))
        full = r['impl']
        if s['kind'] not in ('rows', 'table'):
            continue
        oracle_checked += 1
        # a table printed as JSON carries null for every missing cell; re-feeding it turns "missing"
        # into "null", so the oracle compares rows modulo null-valued fields
        nonull = lambda row: {k: v for k, v in row.items() if v is not None}
        a = [aglib.canon_key(nonull(x)) for x in full['rows']]
        b = [aglib.canon_key(nonull(x)) for x in s['rows']]
        fixed = order_fixed(r['case'].stages) and order_fixed(prefix)
        # a sorter breaks ties by all columns IN COLUMN ORDER; a table re-fed as records has its columns
        # rediscovered in sorted-name order, so within ties the two runs may legitimately differ:
        # compare the rows as a multiset and the sequence of sort keys
        tie_sensitive = last[0] in ('sort', 'agg') and pre_kind[i] == 'table'
        if fixed and tie_sensitive:
            ok = sorted(a) == sorted(b)
            if ok and last[0] == 'sort' and all(e[0] == 'col' and not e[2] for e in last[1]):
                keyseq = lambda rows: [aglib.canon_key([row.get(e[1]) for e in last[1]]) for row in rows]
                ok = keyseq(full['rows']) == keyseq(s['rows'])
        else:
            ok = (a == b) if fixed else (sorted(a) == sorted(b))
        if not ok:
            failures.append({'kind': 'spec',
                             'what': 'running the whole pipeline differs from running the last stage on the complete output of the stages before it',
                             'payload': payload(r, {'prefix_query': pre_cases[i].query, 'last_stage_query': second[i].query,
                                                    'staged_rows': s['rows'][:30], 'order_compared': fixed})})
    nontrivial = set()
    kinds = {}
    for r in results:
        c = r['case']
        if r['impl']['kind'] in ('crash', 'hang', 'garbled'):
            failures.append({'kind': 'spec', 'what': 'pipeline did not run cleanly: %s' % r['impl']['kind'], 'payload': payload(r)})
        elif r['corr']:
            failures.append({'kind': 'corr', 'what': r['corr'], 'payload': payload(r)})
        if 'nt' in c.tags:
            nontrivial.add(c.query + '\0' + c.inp.decode('utf8', 'replace'))
        k = r['model']['kind']
        kinds[k] = kinds.get(k, 0) + 1
    hist = {}
    for c in cases:
        for s in c.stages:
            hist[s[0]] = hist.get(s[0], 0) + 1
    cov = {
        'evaluations': len(cases) + len(pre_jobs) + len(idx),
        'distinct_nontrivial': len(nontrivial),
        'rule': 'random pipelines json | 1..6 stages over {where, field expr, fields, limit +-n, total, split, json from, aggregations, sort} + %d targeted shapes '
                '(sort->limit/total/where, agg->where/fields/let/limit, agg->agg, tail-limit->more operators); non-trivial = >=3 stages with one after an aggregation/sort, or targeted' % len(TARGETED),
        'samples': samples_of([c for c in cases if 'nt' in c.tags][5:8]),
        'stage_histogram': hist,
        'model_outcomes': kinds,
        'unmodelled': kinds.get('unm', 0),
        'stage_split_oracle_checked': oracle_checked,
        'model_vs_impl_disagreements': sum(1 for r in results if r['corr']),
    }
    # order-dependent row operators between a sort and an aggregation see the SORTED rows (reference computed here, from
    # the property text: sort, then limit / total on that order, then aggregate what is left)
    ref_checked = 0
    for i in range(16 if quick else 300):
        nrows = rng.randint(4, 12)
        vs = rng.sample(range(1, 60), nrows)
        rows = [{'id': j, 'v': v, 'k': rng.choice('abc')} for j, v in enumerate(vs)]
        lines = [json.dumps(r) + '\n' for r in rows]
        N = rng.randint(1, nrows - 1)
        desc = rng.random() < 0.4
        srt = sorted(rows, key=lambda r: r['v'], reverse=desc)
        shape = rng.choice(['head', 'tail', 'total'])
        sq = 'sort by v%s' % (' desc' if desc else '')
        if shape == 'head':
            q = '* | json | %s | limit %d | count by k' % (sq, N)
            kept = srt[:N]
        elif shape == 'tail':
            q = '* | json | %s | limit -%d | count by k' % (sq, N)
            kept = srt[-N:]
        else:
            q = '* | json | %s | total(v) as t | max(t) as m by k' % sq
            kept = srt
        if shape == 'total':
            run = 0
            best = {}
            for r in srt:
                run += r['v']
                best[r['k']] = max(best.get(r['k'], run), run)
            want = sorted((k_, m_) for k_, m_ in best.items())
            col_ = 'm'
        else:
            cnt = {}
            for r in kept:
                cnt[r['k']] = cnt.get(r['k'], 0) + 1
            want = sorted(cnt.items())
            col_ = '_count'
        o = aglib.run_impl_one(q, ''.join(lines).encode('utf8'), 'json')
        ref_checked += 1
        try:
            got = sorted((r['k'], r[col_]) for l in o['out'].decode('utf8').split('\n') if l.strip() for r in json.loads(l))
        except (ValueError, KeyError, TypeError):
            got = None
        if o['rc'] != 0 or got != want:
            failures.append({'kind': 'spec', 'what': 'a %s between a sort and an aggregation did not act on the sorted rows: got %r, expected %r' % ('limit' if shape != 'total' else 'total', got, want),
                             'payload': {'query': q, 'input_lines': lines, 'mode': 'json'}})
            break
    # a head limit followed by a tail limit: the last M of the first N rows (the tail limit emits at end of input, which
    # still has to be flushed through after the head limit has stopped taking rows)
    for i in range(8 if quick else 100):
        nrows = rng.randint(3, 12)
        rows = [{'id': j} for j in range(nrows)]
        lines = [json.dumps(r) + '\n' for r in rows]
        N = rng.randint(1, nrows + 2)
        M = rng.randint(1, 4)
        q = '* | json | limit %d | limit -%d%s' % (N, M, rng.choice(['', ' | id + 0 as id', ' | where id >= 0']))
        want_ids = [r['id'] for r in rows[:N][-M:]]
        o = aglib.run_impl_one(q, ''.join(lines).encode('utf8'), 'json')
        ref_checked += 1
        try:
            got_ids = [json.loads(l)['id'] for l in o['out'].decode('utf8').split('\n') if l.strip()]
        except (ValueError, KeyError, TypeError):
            got_ids = None
        if o['rc'] != 0 or got_ids != want_ids:
            failures.append({'kind': 'spec', 'what': '`limit %d | limit -%d` printed the rows %r, expected %r' % (N, M, got_ids, want_ids), 'payload': {'query': q, 'input_lines': lines, 'mode': 'json'}})
            break
    cov['sorted_then_order_dependent_checked'] = ref_checked
    # the same on a live terminal, where every refresh re-runs the chain on the first aggregation's CURRENT table:
    # a second aggregation must aggregate exactly those rows (no group of an earlier refresh may linger)
    from props import c16
    live = c16.run_live(ctx, c16.CHAINED, 10 if quick else 150)
    failures += live['failures']
    cov['live_terminal_cases'] = live['coverage']['evaluations']
    cov['evaluations'] += live['coverage']['evaluations']
    cov['rule'] += '; chained aggregations (with a filter in between) on a live terminal with timed input bursts, final and idle-checkpoint screens against the non-terminal result'
    return {'coverage': cov, 'failures': failures}
