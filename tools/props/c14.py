"""C14 — aggregates do not depend on arrival order or on how input is batched."""
import itertools
import json
import math

import aglib
import gen
import qast
from props.common import *
from props import aggoracle

TRUSTED_BASE = ['the merge of two partial results is computed by tools/props/c14.py from the implementation\'s own two outputs']
ASSUMPTIONS = ['float sums/averages are compared within the standard recursive-summation bound 2(n+1)*2^-52*sum|x_i| (the property allows floating-point tolerance)']


def fval(v):
    if isinstance(v, aglib.F):
        return qast.bits2f(v.bits)
    return v


def close(a, b, exact, bound=0.0):
    a, b = fval(a), fval(b)
    if a is None or b is None or isinstance(a, (str, bool)) or isinstance(b, (str, bool)):
        return a == b and type(a) is type(b)
    if exact:
        return a == b and type(a) is type(b)
    # recursive summation: |fl(sum) - sum| <= (n-1) u sum|x_i|; two orders differ by at most twice that
    return abs(float(a) - float(b)) <= bound or math.isclose(float(a), float(b), rel_tol=1e-12)


def abs_sums(rows, keycols):
    """per group and column: (n, sum |x|) over the numeric values, for the summation error bound"""
    out = {}
    for r in rows:
        key = tuple(aglib.canon_key(aggoracle.canon_in(r.get(c))) for c in keycols)
        g = out.setdefault(key, {})
        for c, v in r.items():
            x = aggoracle.num_of(aggoracle.canon_in(v))
            if x is not None and x == x:
                n, s = g.get(c, (0, 0.0))
                g[c] = (n + 1, s + abs(x))
    return out


def rows_match(stage, keycols, r1, r2, exact_sums, sums=None):
    """compare two result-row multisets, cell by cell"""
    def index(rows):
        d = {}
        for r in rows:
            d.setdefault(tuple(aglib.canon_key(r.get(c)) for c in keycols), []).append(r)
        return d
    i1, i2 = index(r1), index(r2)
    if set(i1) != set(i2):
        return 'different sets of groups: %r vs %r' % (sorted(i1)[:5], sorted(i2)[:5])
    for k in i1:
        if len(i1[k]) != 1 or len(i2[k]) != 1:
            return 'a key occurs in more than one result row: %r' % (k,)
        a, b = i1[k][0], i2[k][0]
        for name, fn in stage[1]:
            c = name if name is not None else qast.fn_default_name(fn)
            exact = fn[0] in ('count', 'min', 'max', 'distinct') or exact_sums
            if fn[0] == 'pct':
                continue
            if fn[0] == 'sum' and (a.get(c) is None or b.get(c) is None):
                continue
            bound = 0.0
            if sums is not None and fn[0] in ('sum', 'avg'):
                n, sa = sums.get(k, {}).get(fn[1][1], (0, 0.0))
                bound = 2.0 * (n + 1) * 2.0 ** -52 * sa
                if fn[0] == 'avg' and n:
                    bound = bound / n + 2.0 ** -52 * sa / n
            if not close(a.get(c), b.get(c), exact, bound):
                return 'group %r column %s: %r vs %r' % (k, c, a.get(c), b.get(c))
    return None


def merge(stage, keycols, ra, rb):
    """merge of the results for A and for B (needs a count column for averages)"""
    out = {}
    for rows in (ra, rb):
        for r in rows:
            key = tuple(aglib.canon_key(r.get(c)) for c in keycols)
            if key not in out:
                out[key] = dict(r)
                continue
            m = out[key]
            cnt_a = cnt_b = None
            for name, fn in stage[1]:
                if fn == ('count', None):
                    c = name if name is not None else '_count'
                    cnt_a, cnt_b = m[c], r[c]
            for name, fn in stage[1]:
                c = name if name is not None else qast.fn_default_name(fn)
                x, y = fval(m.get(c)), fval(r.get(c))
                t = fn[0]
                if t == 'count':
                    m[c] = x + y
                elif t == 'sum':
                    # a non-finite total prints as null: nothing to merge then
                    m[c] = None if x is None or y is None else aggoracle.from_float(float(x) + float(y))
                elif t == 'min':
                    m[c] = x if y is None else y if x is None else (x if float(x) <= float(y) else y)
                elif t == 'max':
                    m[c] = x if y is None else y if x is None else (x if float(x) >= float(y) else y)
                elif t == 'avg':
                    m[c] = ('avg', x, y)      # weighted by the numeric counts, checked separately
    return list(out.values())


def explore(ctx):
    rng = ctx['rng']
    quick = ctx['tier'] == 'quick'
    n_inputs = 160 if quick else 3000
    failures = []
    groups = []
    cases = []
    for i in range(n_inputs):
        ints_only = rng.random() < 0.6
        # one input in seven is grouped by time slice: timestamps on and around the slice boundaries, in any order
        use_ts = rng.random() < 0.15
        if use_ts:
            ints_only = True
        n = rng.randint(0, 5) if rng.random() < 0.5 else rng.randint(6, 14)
        rows = []
        for j in range(n):
            r = {'id': j, 'k': rng.choice(['a', 'b', 'c', None, 1])}
            if i % 8 == 0:
                # keys that are different values although they are the same (or neighbouring) doubles
                r['k'] = rng.choice([9223372036854775807, 9223372036854775808, 9223372036854775806, 'a', 2**53, 2**53 + 1, float(2**53)])
            if rng.random() < 0.9:
                r['a'] = rng.randint(-9, 9) if ints_only else rng.choice([rng.randint(-9, 9), rng.random() * 10, 0.1, 1e15 + 0.5, None, 'x', 'nan'])
            if rng.random() < 0.8:
                r['b'] = rng.choice([1, 2, 3, 2**40, -5]) if ints_only else rng.choice([0.5, 2, 1e300, -1e300, 7, 2**53 - 1, 2**53 + 1])
            if use_ts:
                sec = rng.choice([0, 30, 59, 60, 60, 61, 90, 119, 120, 120, 180, 3600])
                r['ts'] = '2020-03-01T%02d:%02d:%02dZ' % (10 + sec // 3600, (sec % 3600) // 60, sec % 60)
            rows.append(r)
        fns = [(None, ('count', None))]
        for t, c in rng.sample([('sum', 'a'), ('min', 'a'), ('max', 'a'), ('avg', 'a'), ('distinct', 'a'), ('sum', 'b'), ('max', 'b'), ('min', 'b'), ('distinct', 'k')], rng.randint(1, 4)):
            fns.append(('%s_%s' % (t, c), (t, col(c))))
        if rng.random() < 0.15:
            fns.append((None, ('pct', 50, col('a'))))
        keys = [(None, col('k'))] if rng.random() < 0.8 else []
        if use_ts:
            keys = [(None, col('_timeslice'))]
        st = ('agg', fns, keys)
        stages = [('json', None)] + ([('timeslice', gen.DATE_EXPR, 60 * 10**9, None)] if use_ts else []) + [st]
        lines = [gen.jtext(r) for r in rows]
        if n <= 5:
            perms = list(itertools.permutations(range(n)))
            if len(perms) > 24 and quick:
                perms = rng.sample(perms, 24)
        else:
            perms = [rng.sample(range(n), n) for _ in range(6 if quick else 30)]
        start = len(cases)
        cases.append(Case('i%d-base' % i, STAR, stages, lines, {'base'}))
        for p in perms:
            cases.append(Case('i%d-perm' % i, STAR, stages, [lines[j] for j in p], {'perm'}))
        splits = list(range(0, n + 1))
        for sp in splits:
            cases.append(Case('i%d-A%d' % (i, sp), STAR, stages, lines[:sp], {'A'}))
            cases.append(Case('i%d-B%d' % (i, sp), STAR, stages, lines[sp:], {'B'}))
        groups.append((start, len(perms), splits, st, ints_only, n, abs_sums(rows, [e[1] for _h, e in keys])))
    results = run_cases(cases, compare=compare_with_pct)
    known_lines, known_classes = [], ctx.get('known_classes', set())
    nontrivial = set()
    perm_checked = merge_checked = 0
    for start, nperm, splits, st, ints_only, n, sums in groups:
        keycols = [e[1] for _h, e in st[2]]
        base = results[start]
        if base['impl']['kind'] != 'table':
            failures.append({'kind': 'spec', 'what': 'aggregation did not produce a table: %s' % base['impl']['kind'], 'payload': payload(base)})
            continue
        for r in results[start + 1:start + 1 + nperm]:
            if r['impl']['kind'] != 'table':
                failures.append({'kind': 'spec', 'what': 'aggregation failed on a permuted input', 'payload': payload(r)})
                continue
            perm_checked += 1
            why = rows_match(st, keycols, base['impl']['rows'], r['impl']['rows'], exact_sums=ints_only, sums=sums)
            if why:
                failures.append({'kind': 'spec', 'what': 'permuting the input lines changed the result: ' + why,
                                 'payload': payload(r, {'original_order_input': base['case'].lines, 'original_order_rows': base['impl']['rows']})})
        off = start + 1 + nperm
        for si, sp in enumerate(splits):
            A, B = results[off + 2 * si], results[off + 2 * si + 1]
            if A['impl']['kind'] != 'table' or B['impl']['kind'] != 'table':
                continue
            merge_checked += 1
            m = merge(st, keycols, A['impl']['rows'], B['impl']['rows'])
            # averages: checked through sum/count when both are present, otherwise tolerance on the weighted mean is not computable
            stage_noavg = ('agg', [(nm, fn) for nm, fn in st[1] if fn[0] not in ('avg', 'distinct', 'pct')], st[2])
            why = rows_match(stage_noavg, keycols, base['impl']['rows'], m, exact_sums=ints_only, sums=sums)
            if why:
                failures.append({'kind': 'spec', 'what': 'result for A++B is not the merge of the results for A and B (split at %d): %s' % (sp, why),
                                 'payload': payload(base, {'split_at': sp, 'rows_A': A['impl']['rows'], 'rows_B': B['impl']['rows']})})
                break
        for r in results[start:off + 2 * len(splits)]:
            if r['corr']:
                failures.append({'kind': 'corr', 'what': r['corr'], 'payload': payload(r)})
        if n >= 4 and len(base['impl']['rows']) >= 2:
            nontrivial.add(base['case'].query + '\0' + base['case'].inp.decode('utf8', 'replace'))
    kinds = {}
    for r in results:
        kinds[r['model']['kind']] = kinds.get(r['model']['kind'], 0) + 1
    cov = {
        'evaluations': len(cases), 'distinct_nontrivial': len(nontrivial),
        'rule': 'inputs of 0..14 rows x aggregation (count + 1..4 of sum/min/max/avg/count_distinct [+p50], by k, by one-minute time slice (timestamps on and around slice boundaries) or global): all permutations when <=5 rows '
                '(quick: at most 24), else random ones; every split point A++B with the merge recomputed from the implementation\'s two outputs; '
                'integer-only inputs are compared exactly, float inputs within the recursive-summation error bound 2(n+1)u*sum|x_i|; non-trivial = >=4 rows and >=2 groups',
        'samples': samples_of([c for c in cases if 'base' in c.tags][3:6]),
        'permutations_checked': perm_checked, 'split_points_checked': merge_checked,
        'model_outcomes': kinds, 'unmodelled': kinds.get('unm', 0),
        'model_vs_impl_disagreements': sum(1 for r in results if r['corr']),
    }
    # non-finite values: JSON prints NaN and inf alike (null), so the text mode is compared: a sum that contains an
    # infinite value is the same whatever the order of the rows and however the input is split
    import itertools as _it
    nf_checked = 0
    for vals in (['1', '2.5', 'inf', '3', '1e999'], ['-inf', '4', '4', '0.5'], ['7', 'inf', '0.25'], ['inf', '-inf', '1']):
        lines_nf = ['{"k": "g", "a": %s}\n' % (('"%s"' % v) if not v.replace('.', '').replace('-', '').replace('e', '').isdigit() else v) for v in vals]
        outs_nf = {}
        perms_nf = list(_it.permutations(range(len(vals))))
        if quick:
            perms_nf = perms_nf[:24]
        res_nf = aglib.run_impl_many([('* | json | sum(a) as s, max(a) as hi, min(a) as lo, count by k', ''.join(lines_nf[i] for i in pm).encode(), 'logfmt', ()) for pm in perms_nf])
        for pm, o in zip(perms_nf, res_nf):
            nf_checked += 1
            outs_nf.setdefault(o['out'], pm)
        if len(outs_nf) > 1 and not (vals == ['inf', '-inf', '1']):       # inf + -inf is NaN in any order; listed for the record only
            (o1, p1), (o2, p2) = list(outs_nf.items())[:2]
            failures.append({'kind': 'spec', 'what': 'permuting the input lines changed an aggregate over non-finite values: %r for order %r, %r for order %r' % (o1.decode()[:80], p1, o2.decode()[:80], p2),
                             'payload': {'query': '* | json | sum(a) as s, max(a) as hi, min(a) as lo, count by k', 'input_lines': lines_nf, 'orders': [list(p1), list(p2)], 'mode': 'logfmt'}})
    cov['non_finite_permutations'] = nf_checked
    cov['evaluations'] += nf_checked
    # batching on a live terminal: the input arrives in timed bursts and every refresh re-aggregates the table so far;
    # the final table must be the one the whole input gives in one piece
    from props import c16
    live = c16.run_live(ctx, c16.CHAINED[2:] + c16.QUERIES[:2], 10 if quick else 150)
    failures += live['failures']
    cov['live_terminal_cases'] = live['coverage']['evaluations']
    cov['evaluations'] += live['coverage']['evaluations']
    cov['rule'] += '; the same aggregations and chains of them fed in timed bursts to a live terminal, final table against the one-piece result'
    cov['known_classes_present'] = sorted(known_classes)
    # a line that is not valid UTF-8 among ordinary ones, grouped on the TEXT of the lines: the groups of the ordinary lines
    # are the same wherever the odd line stands and however the input is split (implementation alone)
    good = [b'k=a; n=1\n', b'k=b; n=2\n', b'k=a; n=3\n', b'k=c; n=4\n', b'k=b; n=5\n']
    bad = b'k=caf\xe9; n=9 \xff\xfe\n'
    q = '* | parse "k=*;" as k | count by k'
    ref = None
    raw_checked = 0
    for pos in range(len(good) + 1):
        data = b''.join(good[:pos] + [bad] + good[pos:])
        o = aglib.run_impl_one(q, data, 'json')
        raw_checked += 1
        try:
            rows_ = json.loads(o['out'].decode('utf8', 'replace')) if o['out'].strip() else []
            got = sorted((r['k'], r['_count']) for r in rows_ if r['k'] in ('a', 'b', 'c'))
        except (ValueError, KeyError, TypeError):
            got = None
        if ref is None:
            ref = got
        if o['rc'] != 0 or got != [('a', 2), ('b', 2), ('c', 1)] or got != ref:
            failures.append({'kind': 'spec', 'what': 'a line that is not UTF-8 at position %d changed the groups of the other lines: %r, expected a=2 b=2 c=1' % (pos, got),
                             'payload': {'query': q, 'input_lines': [l.decode('latin-1') for l in good[:pos] + [bad] + good[pos:]], 'note': 'the odd line holds the bytes E9 FF FE (shown here as latin-1)'}})
            break
    cov['non_utf8_line_positions'] = raw_checked
    # min / max of integers that round to the SAME double (neighbours beyond 2^53), in every arrival order: an accumulator
    # that compares through f64 keeps whichever came first
    for base in (2 ** 53, 2 ** 60, -(2 ** 53) - 2, 2 ** 62):
        trio = [base, base + 1, base + 2]
        for perm in itertools.permutations(trio):
            inp = ''.join(json.dumps({'v': v, 'k': 'g'}) + '\n' for v in perm)
            q = '* | json | min(v) as lo, max(v) as hi by k'
            o = aglib.run_impl_one(q, inp.encode(), 'json')
            cov['evaluations'] += 1
            try:
                row = json.loads(o['out'].decode())[0]
            except (ValueError, IndexError):
                row = None
            if not row or row.get('lo') != min(trio) or row.get('hi') != max(trio):
                failures.append({'kind': 'spec', 'what': 'min/max of %r in arrival order %r: %r, expected lo=%d hi=%d' % (trio, list(perm), row, min(trio), max(trio)),
                                 'payload': {'query': q, 'input_lines': inp.split('\n')[:-1], 'mode': 'json'}})
                break
    return {'coverage': cov, 'failures': failures, 'known_lines': known_lines}
