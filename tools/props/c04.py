"""C04 — every query is either fully honoured or rejected with a diagnostic."""
import glob
import os
import re

import aglib
import gen
import qast
import sexp
from sexp import Sym
from props.common import *

TRUSTED_BASE = ['the accepted language is the hand-written transcription Grammar.v of src/lang.rs + typecheck.rs (error recovery = reject); tied to the parser by accept/reject and behaviour comparison on valid, mutated and Unicode-injected queries',
                'user regexes (parse regex) and clap are outside the model; annotate-snippets rendering is exercised through the real binary (a highlight outside the query makes it panic)']
ASSUMPTIONS = ['queries up to ~300 characters, nesting up to 40']

UNI = ['ü', 'Ł', '“', '”', 'é́', '😀', '́', 'ß', '—', ' ', ' ', '日本']
TOKS = ['|', '(', ')', '[', ']', '"', "'", ',', ' as ', ' by ', '*', '{', '}', '\\', ' and ', ' or ', '==', '!', ' from ', ' on ', '0', '1.5', ' limit ', ' count ', ' desc', ' nan', ' inf', '1e999', ' ascending', ' dsc', ' only ', ' nodrop']

STATIC_ERRORS = [
    '* | limit nan', '* | limit NaN', '* | limit inf', '* | limit -inf', '* | limit infinity', '* | limit 1e400', '* | json | count | limit nan',
    '* | limit 0', '* | limit 0.5', '* | limit -1.5', '* | limit 1e-2', '* | json | limit 0.0',
    '* | parse "* *" as a', '* | parse "*" as a, b', '* | parse "x" as a', '* | parse "* *"',
    '* | parse "*" from a as x from b', '* | parse "*" from a from b as x',
    '* | json | where 5', '* | json | where "str"', '* | json | where null', '* | json | where',
    '* | json | nosuchfn(a) as x', '* | json | where nosuchfn(a) > 1', '* | json | sum(nosuch(a))', '* | json | nosuchop', '* | json | cuont by x',
    '* | parse regex "(\\\\d+)"', '* | parse regex "(?P<a>\\\\d+)" as a', '* | parse regex "(unclosed"',
    '* | parse regex "status=[0-9]+" as code', '* | parse regex "x" as a', '* | parse regex "(?P<a>x)(?P<b>y)" as a, b',
    '* | json | p0(a)', '* | json | p100(a)', '* | json | p150(a)', '* | json | pct0(a)', '* | json | percentile100(a)',
    '* | json | sum', '* | json | sum()', '* | json | min', '* | json | avg', '* | json | total', '* | json | timeslice', '* | json | timeslice(t)',
    '* | json | count_distinct', '* | json | count_distinct()', '* | json | count_distinct(a, b)', '* | json | if(a, b) as x', '* | json | if(a) as x',
    '* | json | split(a) on ""', '* | json | x +', '* | json | x * as y', '* | json | (a as b', '* | json | f(a as b', '* | json | "unterminated as x',
    '* | json | a and as x', '* | json | where a ==', '* | json |', '* | | json', '* | json | count by', '* | json | sort by',
    '* | json | fields', '* | json | fields a b', '* | json | count by x extra', '* | json | sort by x ascendingly', '* | json | limit 5 6',
    '* | json(x)', '* | logfmt(x)', '* | limit(5)', '* | json from', '* | json | 9223372036854775807s as d', '* | json | 99999999999999w as d',
    '("unclosed', "'unclosed", '(a OR b', '* | json | [\"x as y', '* | json | count as', '* | json | total(a) as',
]
STATIC_OK = [
    '*', 'error', '"two words" error*', '(a OR b) AND NOT c', 'NOT (a AND b)', '* | json', '* | json | count', '* | json | count by a, b.c, d[0]', '* | limit', '* | limit 3', '* | limit -3', '* | limit 1e2',
    '* | json | where a > 1 and (b == "x" or !c)', '* | json | a + b * c - d / e as r', '* | json | if(a, 1, 2) as x', '* | json | count, sum(a) as s, p50(b), avg(c) by k | sort by s desc | limit 2',
    '* | parse "* - *" as a, b nodrop noconvert', '* | parse "*" from x as y', '* | parse "*" as y from x', '* | json | split(a) on "," as parts', '* | json | split(a)', '* | json | timeslice(parseDate(t)) 5m as ts | count by ts',
    '* | json | total(a) as run', '* | json | fields + a, b', '* | json | fields except a', '* | json | fields - a , b', '* | json | sort by a , b ascending', '* | json | sort', '* | json | count_distinct(a)',
    '* | json | ["weird name"] as x', '* | json | a.b[0].c as x', '* | json | where a != b && c <> d || e', '* | json | 1h30m as d', '* | apache', '* | nginx | count by status', '* | testmultioperator',
    '* | json | where true', '* | json | where false', '  *   |   json   |   count  ', '*|json|count', '* | json | p99(x), pct50(x), percentile25(x)', '* | json | average(a) as x, avg(b)',
]


def corpus_queries():
    qs = []
    for f in glob.glob(os.path.join(aglib.REPO, 'tests', 'structured_tests', '**', '*.toml'), recursive=True):
        t = open(f, encoding='utf8').read()
        m = re.search(r'^query\s*=\s*"""(.*?)"""', t, re.M | re.S) or re.search(r"^query\s*=\s*'''(.*?)'''", t, re.M | re.S) or re.search(r'^query\s*=\s*"((?:[^"\\]|\\.)*)"', t, re.M) or re.search(r"^query\s*=\s*'(.*?)'", t, re.M)
        if m:
            q = m.group(1)
            if m.re.pattern.startswith('^query\\s*=\\s*"((?'):
                q = bytes(q, 'utf8').decode('unicode_escape').encode('latin1').decode('utf8', 'replace')
            elif m.re.pattern.startswith('^query\\s*=\\s*"""'):
                q = q.replace('\\\\', '\x00').replace('\\"', '"').replace('\\n', '\n').replace('\x00', '\\')
            qs.append(q.strip('\n'))
    readme = open(os.path.join(aglib.REPO, 'README.md'), encoding='utf8').read()
    for m in re.finditer(r"agrind '([^'\n]+)'", readme):
        qs.append(m.group(1))
    return sorted(set(qs))


def mutate(rng, q):
    q = list(q)
    for _ in range(rng.randint(1, 2)):
        k = rng.random()
        p = rng.randint(0, len(q))
        if k < 0.2:
            q.insert(p, rng.choice(UNI))
        elif k < 0.45:
            q.insert(p, rng.choice(TOKS))
        elif k < 0.65 and q:
            del q[min(p, len(q) - 1)]
        elif k < 0.8 and q:
            # delete / duplicate a whole token
            toks = re.findall(r'\s+|\w+|.', ''.join(q))
            if toks:
                i = rng.randrange(len(toks))
                if rng.random() < 0.5:
                    del toks[i]
                else:
                    toks.insert(i, toks[i])
                q = list(''.join(toks))
        else:
            q[p:p] = list(rng.choice([' extra', ' | junk(', ' ) ', ' 5 ', ' "s" ']))
    return ''.join(q)


def plant(rng, e, bad):
    """e with one sub-expression (chosen at random, at any depth) replaced by bad"""
    t = e[0]
    kids = {'not': [1], 'ar': [2, 3], 'cmp': [2, 3], 'lg': [2, 3], 'if': [1, 2, 3]}.get(t, [])
    if t == 'call' and e[2] and rng.random() < 0.8:
        args = list(e[2])
        i = rng.randrange(len(args))
        args[i] = plant(rng, args[i], bad)
        return ('call', e[1], args)
    if not kids or rng.random() < 0.25:
        return bad
    i = rng.choice(kids)
    e = list(e)
    e[i] = plant(rng, e[i], bad)
    return tuple(e)


def unknown_function_queries(rng, n):
    """valid queries in which one sub-expression, anywhere, is a call of a function that does not exist
    (sometimes in the dead branch of an if with a literal condition): all must be rejected"""
    out = []
    for _ in range(n):
        bad = ('call', rng.choice(['nosuchfn', 'lenght', 'parsehex', 'Abs', 'to_upper', 'f']), [gen.col_ref(rng)] if rng.random() < 0.8 else [])
        k = rng.random()
        if k < 0.35:
            c = lit(rng.random() < 0.5)
            good = gen.any_expr(rng, 1)
            e = ('if', c, good, bad) if c[1] else ('if', c, bad, good)
            if rng.random() < 0.5:
                e = plant(rng, gen.any_expr(rng, 2), e)
        else:
            e = plant(rng, gen.any_expr(rng, rng.randint(1, 3)), bad)
        w = rng.random()
        if w < 0.3:
            st = [('let', e, 'x')]
        elif w < 0.45:
            st = [('where', ('cmp', 'gt', e, lit(1)))]
        elif w < 0.6:
            st = [('agg', [(None, (rng.choice(['sum', 'min', 'max', 'avg', 'distinct']), e))], [])]
        elif w < 0.7:
            st = [('agg', [('n', ('count', ('cmp', 'gt', e, lit(1))))], [(None, col('k'))])]
        elif w < 0.8:
            st = [('agg', [(None, ('count', None))], [(None, e)])]
        elif w < 0.9:
            st = [('sort', [col('a'), e], None)]
        else:
            st = [('total', e, 'run')]
        pre = [('json', None)] + ([gen.inline_stage(rng)] if rng.random() < 0.3 else [])
        post = [('limit', 3)] if rng.random() < 0.2 else []
        try:
            out.append(qast.query_text(STAR, pre + st + post))
        except (ValueError, TypeError):
            pass
    return out


def impl_accepts(queries):
    outs = aglib.run_impl_many([(q, b'', 'json', ()) for q in queries])
    res = []
    for q, o in zip(queries, outs):
        err = o['err'].decode('utf8', 'replace')
        if o['timed_out']:
            res.append(('hang', err))
        elif 'panicked' in err or o['rc'] in (101, 134, -6, -11):
            res.append(('crash', err))
        elif o['rc'] == 0:
            res.append(('accept', err, o['out']))
        else:
            res.append(('reject', err, o['out']))
    return res


def explore(ctx):
    rng = ctx['rng']
    quick = ctx['tier'] == 'quick'
    n = 2500 if quick else 60000
    failures = []
    base = corpus_queries() + STATIC_OK
    # valid queries from the AST generator
    for i in range(150 if quick else 3000):
        stages = [('json', None)]
        cols = None
        for _ in range(rng.randint(1, 4)):
            r = rng.random()
            if r < 0.6:
                stages.append(gen.inline_stage(rng, cols))
            elif r < 0.85:
                st = gen.agg_stage(rng, cols, allow_pct=True)
                if st[1]:
                    stages.append(st)
                    cols = gen.agg_columns(st)
            else:
                stages.append(gen.sort_stage(rng, cols))
        try:
            base.append(qast.query_text(STAR, stages))
        except ValueError:
            pass
    planted = unknown_function_queries(rng, 200 if quick else 4000)
    # a statically wrong stage stays wrong whatever VALID stages follow it (an aggregate, a sort, a limit after it
    # must not make the error go away)
    followed = [q + t for q in STATIC_ERRORS if q.startswith('* | ') for t in (' | count', ' | count by k | sort by k', ' | sum(a) as s | limit 1')]
    planted += [q + ' | count by k' for q in planted[:60]]
    static_errors = set(STATIC_ERRORS) | set(planted) | set(followed)
    queries = list(base) + list(STATIC_ERRORS) + planted + followed
    for i in range(n):
        queries.append(mutate(rng, rng.choice(base)))
    # text left over at the very end of a query whose earlier part contains multi-byte characters (offsets in bytes
    # versus characters): a whole extra token, field or stage must be rejected or take effect, never be dropped
    TAILS = [' b', ' x y', ' 5', ', z', ' | count', ' | limit 1', ' | fields id', ' extra', ')', ' as q']
    HEADS = ['"日本語" OR * | ', 'NOT "日本語のログ行です" | ', '"żółć" OR "ł" OR * | ', '* | json | where s != "日本語日本語日本語" | ', '"😀😀" OR * | ']
    ASCII_HEADS = ['"abc" OR * | ', 'NOT "abcdefghij" | ', '"zolc" OR "l" OR * | ', '* | json | where s != "abcabcabc" | ', '"xx" OR * | ']
    twins = []
    for i in range(120 if quick else 2500):
        b = rng.choice(base)
        if not b.startswith('* | '):
            continue
        hi = rng.randrange(len(HEADS))
        tl = rng.choice(TAILS)
        queries.append(HEADS[hi] + b[4:] + tl)
        twins.append((HEADS[hi] + b[4:] + tl, ASCII_HEADS[hi] + b[4:] + tl))
    # deep nesting
    for d in (5, 20, 40):
        queries.append('* | json | ' + '(' * d + 'a' + ')' * d + ' as x')
        queries.append('* | json | ' + 'if(a, ' * d + '1' + ', 2)' * d + ' as x')
        queries.append('(' * d + 'a' + ')' * d)
        queries.append('* | json | ' + '(' * d + 'a' + ')' * (d - 1) + ' as x')
    queries = [q for q in dict.fromkeys(queries) if '\x00' not in q and len(q) < 600]
    impl = impl_accepts(queries)
    model = aglib.run_model_many([sexp.dumps([Sym('accepts'), q]) for q in queries])
    agree = 0
    unmodelled = 0
    kinds = {}
    for q, im, m in zip(queries, impl, model):
        kinds[im[0]] = kinds.get(im[0], 0) + 1
        if im[0] in ('crash', 'hang'):
            failures.append({'kind': 'spec', 'what': 'compiling the query %s: %s' % (im[0], [l for l in im[1].split('\n') if 'panicked' in l or '.rs:' in l][:2]),
                             'payload': {'query': q, 'stderr_tail': im[1][-500:]}})
            continue
        if im[0] == 'reject':
            if im[1].strip() == '':
                failures.append({'kind': 'spec', 'what': 'query rejected without any diagnostic on stderr', 'payload': {'query': q}})
                continue
            if im[2] != b'':
                failures.append({'kind': 'spec', 'what': 'rejected query wrote to stdout: %r' % im[2][:80], 'payload': {'query': q}})
                continue
        if im[0] == 'accept' and q in static_errors:
            failures.append({'kind': 'spec', 'what': 'a documented static error was accepted' + (' (a call of an unknown function inside an expression)' if q not in STATIC_ERRORS else ''), 'payload': {'query': q}})
            continue
        if im[0] == 'reject' and q in STATIC_OK:
            failures.append({'kind': 'spec', 'what': 'a valid query was rejected: %s' % im[1][-200:], 'payload': {'query': q}})
            continue
        if 'parse regex' in q or 'regex' in q:
            unmodelled += 1
            continue
        ms = str(m) if isinstance(m, Sym) else 'bad'
        if ms not in ('accept', 'reject'):
            unmodelled += 1
            continue
        if ms == im[0]:
            agree += 1
        else:
            failures.append({'kind': 'corr', 'what': 'implementation %ss, the grammar model %ss' % (im[0], ms), 'payload': {'query': q, 'stderr_tail': im[1][-300:]}})
    # whether a query is accepted cannot depend on the text INSIDE an earlier quoted keyword being ASCII or not: the
    # twin with ASCII text of the same shape must get the same verdict (a byte offset compared with a character count
    # drops a short left-over tail after multi-byte text)
    twins = [t for t in dict.fromkeys(twins) if len(t[0]) < 600]
    tw = impl_accepts([t[1] for t in twins])
    verdict = {q: im[0] for q, im in zip(queries, impl)}
    for (qm, qa), ia in zip(twins, tw):
        if qm in verdict and verdict[qm] in ('accept', 'reject') and ia[0] in ('accept', 'reject') and verdict[qm] != ia[0]:
            failures.append({'kind': 'spec', 'what': 'the query is %sed, its twin with ASCII text in the quoted keyword is %sed: the text left over at the end is %s'
                                                     % (verdict[qm], ia[0], 'silently ignored' if verdict[qm] == 'accept' else 'treated differently'),
                             'payload': {'query': qm, 'ascii_twin': qa}})
            break
    # accepted queries are fully honoured: the behaviour equals running the model's reading of the same text
    # a percentile cell is the CKMS sketch's answer (an oracle for the model): queries that feed it to a later stage are not compared
    acc = [q for q, im in zip(queries, impl) if im[0] == 'accept' and 'regex' not in q and 'now()' not in q and not re.search(r'\b(p|pct|percentile)\d+\s*\(.*\|', q)][:600 if quick else 8000]
    rows = gen.gen_rows(rng, 12)
    lines = [gen.jtext(r) for r in rows] + ['a=1 b="x y" c\n', '127.0.0.1 - frank [10/Oct/2000:13:55:36 -0700] "GET /apache_pb.gif HTTP/1.0" 200 2326\n', 'error warn ERROR a*b\n']
    inp = ''.join(lines).encode('utf8')
    outs = aglib.run_impl_many([(q, inp, 'json', ()) for q in acc])
    mres = aglib.run_model_many([sexp.dumps([Sym('runq'), q, lines]) for q in acc])
    behaved = 0
    from runner import compare_default
    for q, o, m in zip(acc, outs, mres):
        mm = aglib.parse_model_result(m)
        if mm['kind'] in ('unm', 'driver-error', 'bad-case'):
            continue
        if mm['kind'] == 'reject':
            continue     # already reported above as an accept/reject disagreement
        is_agg = mm['kind'] == 'table'
        im = aglib.parse_impl_json(o, is_agg)
        behaved += 1
        class C(object):
            pass
        if any('__dup_keys__' in r for r in im.get('rows', [])) and 'dup_agg_column_name' in ctx.get('known_classes', ()):
            continue          # KF-06: two aggregate columns with the same name
        why = compare_with_pct(None, im, mm)
        if why:
            failures.append({'kind': 'corr', 'what': 'an accepted query behaves differently from the grammar model\'s reading of it: ' + why[:400],
                             'payload': {'query': q, 'input_lines': lines}})
    nontrivial = sum(1 for q in queries if any(ord(c) > 127 for c in q)) + sum(1 for q in queries if q.count('|') >= 3)
    cov = {
        'evaluations': len(queries) + len(acc), 'distinct_nontrivial': nontrivial,
        'rule': 'valid queries (README, tests/structured_tests, an explicit list, AST generator) and their one/two-token mutations (delete, duplicate, insert operator/bracket/quote/keyword, append text), '
                'Unicode injection (non-ASCII letters, smart quotes, combining marks, 4-byte characters) at any position, nesting up to 40, the documented static errors, queries with multi-byte text early and a left-over token / field / stage at the very end, valid queries with an unknown function planted at a random position of a random expression (also in the dead branch of an if with a literal condition); '
                'observed on the real binary: no crash/hang, reject => non-empty stderr and empty stdout; accept/reject compared with the grammar model; accepted queries run and compared with the model\'s reading; '
                'non-trivial = a non-ASCII query or one with >= 3 stages',
        'samples': [{'query': q} for q in queries[len(base) + len(STATIC_ERRORS):len(base) + len(STATIC_ERRORS) + 4]],
        'implementation_outcomes': kinds, 'accept_reject_agreements': agree, 'unmodelled': unmodelled, 'behaviour_compared': behaved,
        'static_errors_checked': len(STATIC_ERRORS), 'static_errors_followed_by_valid_stages': len(followed), 'planted_unknown_function_queries': len(planted), 'valid_queries_checked': len(STATIC_OK),
    }
    return {'coverage': cov, 'failures': failures}
