"""C13 — output is deterministic."""
import os
import re
import subprocess

import aglib
import gen
import qast
from props.common import *

TRUSTED_BASE = ['repetition in fresh processes (fresh hash seeds) can miss nondeterminism with probability below ~1/N per query: the theorems carry the claim, the repetition ties them to the binary']
ASSUMPTIONS = ['queries do not call now()']

TARGETED = [
    [('agg', [(None, ('count', None))], [(None, col('obj'))])],
    [('agg', [(None, ('count', None)), (None, ('distinct', col('obj')))], [(None, col('k'))])],
    [('sort', [col('obj')], None)],
    [('agg', [(None, ('count', None))], [(None, col('k'))]), ('where', ('cmp', 'gt', col('_count'), lit(0)))],
    [('agg', [(None, ('count', None))], [(None, col('k'))]), ('let', lit(1), 'z1'), ('let', lit(2), 'a1')],
    [('agg', [(None, ('count', None))], [(None, col('s'))]), ('logfmt', col('s'))],
    [('agg', [(None, ('count', None))], [(None, col('k')), (None, col('g'))]), ('fields', 'except', ['g'])],
    [('agg', [(None, ('count', None)), (None, ('sum', col('a')))], [(None, col('arr'))])],
    [('let', col('obj'), 'o2'), ('fields', 'only', ['o2', 'id'])],
    [('agg', [(None, ('count', None))], [(None, col('k'))]), ('agg', [('n', ('count', None))], [(None, col('_count'))])],
    [('agg', [(None, ('max', col('a'))), (None, ('min', col('b')))], [(None, col('flag')), (None, col('g'))]), ('limit', 3)],
    # the TEXT of an object (or of an array holding objects), as the string functions see it
    [('let', ('call', 'concat', [col('obj'), lit('|'), col('arr2')]), 'txt'), ('fields', 'only', ['id', 'txt'])],
    [('let', ('call', 'toUpperCase', [col('obj')]), 'up'), ('let', ('call', 'substring', [col('arr2'), lit(2), lit(40)]), 'sub'), ('fields', 'only', ['id', 'up', 'sub'])],
    [('agg', [(None, ('count', None))], [(None, ('call', 'toLowerCase', [col('obj')]))])],
    [('where', ('call', 'contains', [col('obj'), lit('"p": 1, "q"')])), ('fields', 'only', ['id'])],
    [('parse', '*"q": *,*', ['x', 'y', 'z'], col('obj'), False, False), ('fields', 'only', ['id', 'x', 'y', 'z'])],
    [('let', ('call', 'concat', [col('obj', ('k', 'r'))]), 'txt'), ('agg', [(None, ('count', None))], [(None, col('txt'))])],
    # an order-sensitive stage between an aggregation and a LATER sort: it sees the groups in key order, not in hash order
    [('agg', [('s', ('sum', col('a')))], [(None, col('k'))]), ('total', col('s'), 'running'), ('sort', [col('k')], None)],
    [('agg', [(None, ('count', None))], [(None, col('k')), (None, col('g'))]), ('where', ('cmp', 'gt', col('_count'), lit(0))), ('limit', 2), ('sort', [col('k')], None)],
    [('agg', [(None, ('count', None))], [(None, col('s'))]), ('total', col('_count'), None), ('fields', 'except', ['s']), ('sort', [col('_total')], 'desc')],
    # objects whose key sets are not contained in one another, as group keys with tied counts and as sort keys:
    # only a total, antisymmetric order on objects settles these rows
    [('agg', [(None, ('count', None))], [(None, col('ob2'))])],
    [('agg', [(None, ('count', None))], [(None, col('ob2'))]), ('where', ('cmp', 'gt', col('_count'), lit(0)))],
    [('sort', [col('ob2')], None), ('fields', 'only', ['ob2'])],
    # records as they come, and sorted records: the column order of the text modes
    [],
    [('sort', [col('id')], 'desc')],
    [('where', ('cmp', 'gte', col('id'), lit(0)))],
]


def explore(ctx):
    rng = ctx['rng']
    quick = ctx['tier'] == 'quick'
    nq = 120 if quick else 2000
    runs = 6 if quick else 30
    cases = []
    for i, tail in enumerate(TARGETED):
        for rep in range(3 if quick else 12):
            rows = gen.gen_rows(rng, rng.randint(5, 30))
            for j, r in enumerate(rows):
                r['ob2'] = [{'a': 1}, {'b': 1}, {'c': 1}, {'d': 1}, {'a': 1, 'b': 2}, {'b': 1, 'c': 1}, {'d': 0}][j % 7]
                r['obj'] = {'p': rng.randint(0, 2), 'q': rng.choice(['x', 'y']), 'r': [1, {'z': rng.randint(0, 1), 'y': 2}]}
                if rng.random() < 0.7:
                    for nm in rng.sample(['Host', 'host', 'HOST', 'hOst', 'Ünit', 'ünit'], rng.randint(2, 4)):
                        r[nm] = rng.randint(0, 3)          # names that differ only in case: their column order must not be left to a hash
                r['arr2'] = [{'b': rng.randint(0, 1), 'a': 'v', 'c': None, 'd': [1]}, 7]
                r['s'] = 'x=%d y=%d z=%d w=1' % (rng.randint(0, 2), rng.randint(0, 2), rng.randint(0, 1))
            cases.append(Case('t%d-%d' % (i, rep), STAR, [('json', None)] + tail, [gen.jtext(r) for r in rows], {'targeted'}))
    for i in range(nq):
        rows = gen.gen_rows(rng, rng.randint(3, 25))
        stages = [('json', None)]
        cols = None
        for _ in range(rng.randint(1, 4)):
            r = rng.random()
            if r < 0.45:
                st = gen.agg_stage(rng, cols)
                if not st[1]:
                    continue
                cols = gen.agg_columns(st)
            elif r < 0.85:
                st = gen.inline_stage(rng, cols)
            else:
                st = gen.sort_stage(rng, cols)
            stages.append(st)
        try:
            cases.append(Case('r%d' % i, STAR, stages, [gen.jtext(r, rng) for r in rows], {'random'}))
        except ValueError:
            pass
    failures = []
    nontrivial = set()
    modes = ['json', 'legacy', 'logfmt']
    jobs = []
    for c in cases:
        mode = rng.choice(modes) if 'random' in c.tags else ('json' if c.cid.endswith('-0') else modes[int(c.cid.split('-')[-1]) % 3])
        for k in range(runs):
            extra = ()
            jobs.append((c.query, c.inp, mode, extra))
    outs = aglib.run_impl_many(jobs)
    # a second pass pinned to one CPU and with the input fed in small chunks perturbs thread timing
    for ci, c in enumerate(cases):
        got = outs[ci * runs:(ci + 1) * runs]
        first = got[0]
        for k, o in enumerate(got[1:], 1):
            if o['out'] != first['out'] or o['rc'] != first['rc']:
                failures.append({'kind': 'spec', 'what': 'the same query on the same input printed different output in run %d of %d' % (k + 1, runs),
                                 'payload': {'query': c.query, 'input_lines': c.lines, 'mode': jobs[ci * runs][2], 'output_run_1': first['out'].decode('utf8', 'replace')[:1500],
                                             'output_run_k': o['out'].decode('utf8', 'replace')[:1500]}})
                break
        if any(s[0] == 'agg' for s in c.stages) and first['out'].count(b'\n') + first['out'].count(b'},{') >= 3:
            nontrivial.add(c.query + '\0' + c.inp.decode('utf8', 'replace'))
    # timing perturbation: chunked stdin through a pipe
    chunk_checked = 0
    for c in cases[:40 if quick else 400]:
        base = outs[cases.index(c) * runs]
        mode = jobs[cases.index(c) * runs][2]
        p = subprocess.Popen(['taskset', '-c', '0', aglib.AGRIND, c.query, '-o', mode], stdin=subprocess.PIPE, stdout=subprocess.PIPE, stderr=subprocess.PIPE, env=aglib.ENV)
        data = c.inp
        step = max(1, len(data) // 7)
        try:
            for off in range(0, len(data), step):
                p.stdin.write(data[off:off + step])
                p.stdin.flush()
            p.stdin.close()
            out = p.stdout.read()
            p.wait(timeout=20)
        except Exception:
            p.kill()
            continue
        chunk_checked += 1
        if out != base['out']:
            failures.append({'kind': 'spec', 'what': 'output changed when the input arrived in chunks on a single CPU',
                             'payload': {'query': c.query, 'input_lines': c.lines, 'mode': mode}})
    # correspondence: json-mode cases through the model (the model has no hash order at all)
    jcases = [c for c in cases if 'targeted' in c.tags]
    results = run_cases(jcases)
    for r in results:
        if r['corr']:
            failures.append({'kind': 'corr', 'what': r['corr'], 'payload': payload(r)})
    cov = {
        'evaluations': len(jobs) + chunk_checked + len(jcases), 'distinct_nontrivial': len(nontrivial),
        'rule': '%d queries (targeted: objects as keys / sort keys / distinct values, the text of objects and of arrays of objects through concat/toUpperCase/toLowerCase/substring/contains/parse from, aggregation followed by where/fields/field expressions/logfmt/second aggregation; random pipelines) '
                'each run %d times in fresh processes (fresh hash seeds), output modes json/legacy/logfmt (targeted queries in each), field names differing only in case, byte comparison of stdout; plus chunked stdin pinned to one CPU; '
                'non-trivial = an aggregation with >= 3 result rows' % (len(cases), runs),
        'samples': samples_of(cases[:2] + cases[len(TARGETED) * 2:len(TARGETED) * 2 + 2]),
        'runs_per_query': runs, 'chunked_runs': chunk_checked,
        'model_vs_impl_disagreements': sum(1 for r in results if r['corr']),
    }
    # thread timing: the same big input through a consumer that keeps up and through one that stalls while the
    # pipe and the channel fill up must give the same bytes
    from props import c15
    for n in ((30000,) if quick else (30000, 120000)):
        q = '* | json | fields id'
        data = b''.join(b'{"id": %d, "pad": "xxxxxxxxxxxxxxxxxxxxxxxxxxxxxxxxxxxxxxxx"}\n' % i for i in range(n))
        fast = c15.run_scheduled(q, [(data, 0)], stall_before_read=0, timeout=120)
        slow = c15.run_scheduled(q, [(data, 0)], stall_before_read=0.8, timeout=120)
        a = [l for _t, l in fast[0]]
        b = [l for _t, l in slow[0]]
        cov['evaluations'] = cov.get('evaluations', 0) + 2
        if a != b or fast[2] != slow[2]:
            firstbad = next((i for i, (x, y) in enumerate(zip(a, b)) if x != y), min(len(a), len(b)))
            failures.append({'kind': 'spec', 'what': 'the output depends on how fast the consumer reads: %d lines with a prompt consumer, %d with a stalled one (first difference at line %d)' % (len(a), len(b), firstbad),
                             'payload': {'query': q, 'rows': n}})
    # KF-32: parseDate completes a partial date from today's date (the only way to observe "another day" in one run is
    # to see that the date printed IS today's)
    known_lines = []
    import datetime
    o = aglib.run_impl_one('* | parse "*" as t | parseDate(t) as d | fields d', b'10:30\n', 'json')
    cov['evaluations'] += 1
    today = {datetime.datetime.now().strftime('%Y-%m-%d'), datetime.datetime.utcnow().strftime('%Y-%m-%d')}
    m = re.search(rb'"d":"(\d{4}-\d{2}-\d{2})T10:30', o['out'])
    if m and m.group(1).decode() in today:
        if 'parse_date_partial_uses_today' in ctx.get('known_classes', ()):
            known_lines.append('KF-32 parseDate completes text without a full date from the CURRENT date: the output changes from day to day without now() '
                               '[witness: parseDate("10:30") -> %s]' % o['out'].decode('utf8', 'replace').strip())
        else:
            failures.append({'kind': 'spec', 'what': 'parseDate("10:30") prints today\'s date: the output depends on the day the query is run, without now()',
                             'payload': {'query': '* | parse "*" as t | parseDate(t) as d | fields d', 'input_lines': ['10:30\n'], 'output': o['out'].decode('utf8', 'replace')}})
    return {'coverage': cov, 'failures': failures, 'known_lines': known_lines}
