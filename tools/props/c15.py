"""C15 — rows stream through without loss, duplication, reordering or buffering delay."""
import os
import subprocess
import threading
import time

import aglib
import gen
from props.common import *

TRUSTED_BASE = ['OS pipes and scheduling; wall-clock measurements with generous thresholds (a row must appear within 0.5 s of its line being completed while the consumer is reading)',
                'the transition system of Stream.v abstracts the byte-level write path (std line-buffered stdout) to "one row per write"']
ASSUMPTIONS = ['latency threshold 0.5 s against a 50 ms poll interval']

LAT = 0.5


def run_scheduled(query, chunks, mode='json', stall_before_read=0.0, timeout=30, fifo=None):
    """chunks: list of (bytes, sleep_after). Returns (lines_with_times, send_times(list of (t, nbytes_total)), rc, err).
    With fifo=<path of a named pipe> the input is given as `--file <path>` instead of stdin."""
    if fifo:
        p = subprocess.Popen([aglib.AGRIND, query, '-o', mode, '--file', fifo], stdin=subprocess.DEVNULL, stdout=subprocess.PIPE, stderr=subprocess.PIPE, env=aglib.ENV)

        class W(object):
            pass
        w = W()
        opened = []
        to = threading.Thread(target=lambda: opened.append(open(fifo, 'wb', buffering=0)), daemon=True)
        to.start()
        to.join(10)
        if not opened:
            # agrind never opened the pipe: unblock our open() and report what happened
            try:
                fd = os.open(fifo, os.O_RDONLY | os.O_NONBLOCK)
                to.join(2)
                os.close(fd)
            except OSError:
                pass
            p.kill()
            return [], [], None, b'input pipe was never opened'
        w.fh = opened[0]
        w.write = w.fh.write
        w.flush = lambda: None
        w.close = w.fh.close
        p.stdin = w
    else:
        p = subprocess.Popen([aglib.AGRIND, query, '-o', mode], stdin=subprocess.PIPE, stdout=subprocess.PIPE, stderr=subprocess.PIPE, env=aglib.ENV)
    out = []
    t0 = time.time()

    def reader():
        if stall_before_read:
            time.sleep(stall_before_read)
        buf = b''
        while True:
            d = os.read(p.stdout.fileno(), 65536)
            if not d:
                break
            now = time.time() - t0
            buf += d
            while b'\n' in buf:
                line, buf = buf.split(b'\n', 1)
                out.append((now, line))
    errbuf = []
    te = threading.Thread(target=lambda: errbuf.append(p.stderr.read()), daemon=True)
    te.start()
    tr = threading.Thread(target=reader, daemon=True)
    tr.start()
    sent = []
    total = 0
    try:
        for data, delay in chunks:
            if data:
                p.stdin.write(data)
                p.stdin.flush()
                total += len(data)
                sent.append((time.time() - t0, total))
            if delay:
                time.sleep(delay)
        p.stdin.close()
    except BrokenPipeError:
        pass
    try:
        rc = p.wait(timeout=timeout)
    except subprocess.TimeoutExpired:
        p.kill()
        rc = None
    tr.join(timeout=5)
    te.join(timeout=2)
    return out, sent, rc, (errbuf[0] if errbuf else b'')


def explore(ctx):
    rng = ctx['rng']
    quick = ctx['tier'] == 'quick'
    failures = []
    nontrivial = 0
    evaluations = 0
    samples = []

    def expected_lines(query, data):
        o = aglib.run_impl_one(query, data, 'json')
        return [l for l in o['out'].split(b'\n') if l]

    pipelines = [
        ('* | json', lambda i: True),
        ('* | json | where id >= 0 | fields id, k', lambda i: True),
        ('keep | json | id * 2 as dbl', lambda i: True),
        ('* | json | where flag == true', lambda i: True),
    ]
    # 1. chunkings: splits inside lines and inside UTF-8 sequences, pauses longer than the poll timeout
    for rep in range(10 if quick else 120):
        q, _ = pipelines[rep % len(pipelines)]
        rows = gen.gen_rows(rng, rng.randint(0, 40), rich=False)
        for r in rows:
            r['k'] = rng.choice(['keep é', 'keep 日本', 'drop', 'keep'])
        data = ''.join(gen.jtext(r) for r in rows).encode('utf8')
        if rng.random() < 0.5 and data.endswith(b'\n'):
            data = data[:-1]                      # a final line without newline
        want = expected_lines(q, data)
        cuts = set(rng.sample(range(1, max(2, len(data))), min(len(data) - 1, rng.randint(0, 12)))) if len(data) > 2 else set()
        # deliberately cut INSIDE multi-byte characters too (before a continuation byte), and pause there so
        # that the two halves arrive in different reads
        inside = [i for i in range(1, len(data)) if 0x80 <= data[i] <= 0xBF]
        mid = set(rng.sample(inside, min(len(inside), 3)))
        cuts = sorted(cuts | mid)
        pieces = [data[a:b] for a, b in zip([0] + cuts, cuts + [len(data)])]
        chunks = [(pc, (0.02 if b in mid else rng.choice([0, 0, 0.005, 0.07, 0.12]))) for pc, b in zip(pieces, cuts + [len(data)])]
        fifo = None
        if rep % 3 == 2:
            # the same schedule with the input attached as `--file <named pipe>`
            import tempfile
            tmpd = tempfile.mkdtemp(prefix='agv-c15-', dir=aglib.BUILD)
            fifo = os.path.join(tmpd, 'in.fifo')
            os.mkfifo(fifo)
        try:
            out, sent, rc, err = run_scheduled(q, chunks, fifo=fifo)
        finally:
            if fifo:
                os.remove(fifo)
                os.rmdir(tmpd)
        evaluations += 1
        got = [l for _t, l in out]
        if rc != 0 or got != want:
            failures.append({'kind': 'spec', 'what': 'output depends on how the input bytes are chunked/paced (rc=%s): %d lines, expected %d' % (rc, len(got), len(want)),
                             'payload': {'query': q, 'input_attached_as': '--file <named pipe>' if fifo else 'stdin', 'chunks': [(pc.decode('utf8', 'replace'), d) for pc, d in chunks], 'got': [g.decode('utf8', 'replace') for g in got[:10]]}})
        if cuts and any(d >= 0.07 for _p, d in chunks):
            nontrivial += 1
        if rep == 0:
            samples.append({'query': q, 'chunks': [(pc.decode('utf8', 'replace')[:60], d) for pc, d in chunks[:4]]})
    # 1b. lines far larger than any internal buffer, anywhere in the input, followed by ordinary lines: every line
    #     exactly once and in order (expected output computed here, not by a second run of the implementation)
    SIZES = [0, 1, 100, 1023, 1024, 1025, 4095, 4096, 8191, 8192, 8193, 65535, 65536, 65537, 70000, 131072, 200000]
    for rep in range(6 if quick else 60):
        n = rng.randint(3, 12)
        pads = [rng.choice(SIZES) if rng.random() < 0.5 else rng.randint(0, 40) for _ in range(n)]
        if rep == 0:
            pads = [0, 70000, 0, 0, 5]
            n = len(pads)
        if not quick and rep % 10 == 0:
            pads[rng.randrange(n)] = 3 << 20
        raw = rng.random() < 0.4
        if raw:
            lines = [('L%d-' % i + 'B' * pd).encode() for i, pd in enumerate(pads)]
            q = '*'
            want = lines
        else:
            lines = [('{"id": %d, "pad": "%s"}' % (i, 'x' * pd)).encode() for i, pd in enumerate(pads)]
            q = '* | json | fields id'
            want = [b'{"id":%d}' % i for i in range(n)]
        data = b'\n'.join(lines) + (b'\n' if rng.random() < 0.7 else b'')
        o = aglib.run_impl_one(q, data, 'json' if not raw else None)
        evaluations += 1
        got = [l for l in o['out'].split(b'\n') if l]
        if o['rc'] != 0 or got != want:
            bad = next((i for i, (g, w) in enumerate(zip(got, want)) if g != w), min(len(got), len(want)))
            failures.append({'kind': 'spec', 'what': 'a line was lost, duplicated or altered around an over-long line (rc=%s): %d lines out, %d expected, first difference at line %d' % (o['rc'], len(got), len(want), bad),
                             'payload': {'query': q, 'line_lengths': [len(l) for l in lines], 'generator': 'line i = "L<i>-" + "B"*pad (raw) or {"id": i, "pad": "x"*pad}', 'pads': pads, 'raw': raw,
                                         'final_newline': data.endswith(b'\n')}})
        if max(pads) >= 65536:
            nontrivial += 1
    # 2. latency: a steady trickle (gaps below the poll timeout) and slow producers: each row within LAT of its newline
    for gap, n in ((0.01, 120), (0.03, 40), (0.2, 6)) if quick else ((0.01, 400), (0.005, 400), (0.03, 100), (0.2, 15), (0.6, 4)):
        q = '* | json | fields id'
        lines = [('{"id": %d, "pad": "%s"}\n' % (i, 'x' * rng.randint(0, 30))).encode() for i in range(n)]
        # a latency above the threshold is measured again (twice): a busy machine delays one run, buffering delays all
        for attempt in range(3):
            out, sent, rc, err = run_scheduled(q, [(l, gap) for l in lines] + [(b'', 0.3)])
            evaluations += 1
            worst = 0.0
            missing = None
            for i in range(n):
                ts = sent[i][0] if i < len(sent) else None
                if i >= len(out):
                    missing = i
                    break
                worst = max(worst, out[i][0] - ts)
            if missing is not None or rc != 0 or worst <= LAT:
                break
        if missing is not None or rc != 0:
            failures.append({'kind': 'spec', 'what': 'rows lost under a paced producer: %s of %d arrived (rc=%s)' % (len(out), n, rc), 'payload': {'query': q, 'gap_s': gap, 'lines': n}})
        elif worst > LAT:
            failures.append({'kind': 'spec', 'what': 'a row was written %.2f s after its line was complete (producer gap %.3f s): output is being buffered' % (worst, gap),
                             'payload': {'query': q, 'gap_s': gap, 'lines': n, 'first_output_at': out[0][0] if out else None, 'first_sent_at': sent[0][0]}})
        nontrivial += 1
    # 3. fast producer, stalled consumer, far more rows than the channel capacity
    for n in ((5000, 30000) if quick else (5000, 30000, 200000)):
        q = '* | json | fields id'
        data = b''.join(b'{"id": %d}\n' % i for i in range(n))
        out, sent, rc, err = run_scheduled(q, [(data, 0)], stall_before_read=0.4 if n < 10000 else 1.0, timeout=120)   # the big ones fill the pipe AND the channel while the consumer stalls
        evaluations += 1
        got = [l for _t, l in out]
        want = [b'{"id":%d}' % i for i in range(n)]
        if rc != 0 or got != want:
            firstbad = next((i for i, (a, b) in enumerate(zip(got, want)) if a != b), min(len(got), len(want)))
            failures.append({'kind': 'spec', 'what': 'with a stalled consumer and %d rows: %d lines out, first difference at %d (rc=%s)' % (n, len(got), firstbad, rc),
                             'payload': {'query': q, 'rows': n}})
        nontrivial += 1
    # 4. correspondence with the model (the reference of the transition system) on the streaming pipelines
    cases = []
    for i in range(60 if quick else 1500):
        rows = gen.gen_rows(rng, rng.randint(0, 12))
        stages = [('json', None)] + [gen.inline_stage(rng) for _ in range(rng.randint(0, 3))]
        try:
            cases.append(Case('m%d' % i, STAR, stages, [gen.jtext(r) for r in rows]))
        except ValueError:
            pass
    results = run_cases(cases)
    for r in results:
        if r['corr']:
            failures.append({'kind': 'corr', 'what': r['corr'], 'payload': payload(r)})
    cov = {
        'evaluations': evaluations + len(cases), 'distinct_nontrivial': nontrivial,
        'rule': 'the real binary behind pipes: random chunkings (cuts anywhere, also inside multi-byte characters; pauses of 0/5/70/120 ms; final line with and without newline; every third schedule with the input attached as --file <named pipe>), '
                'inputs with lines of 1 KiB .. 200 KB (thorough: 3 MiB) at random positions among ordinary lines, raw and through json, against an independently computed expected output, '
                'paced producers (one line every 5..600 ms) with per-row latency measured against %.1f s, a burst of 5000 (thorough: 200000) rows into a stalled consumer; '
                'plus record pipelines against the model; non-trivial = a schedule with a mid-line split and a pause, a paced run, or a stalled-consumer run' % LAT,
        'samples': samples,
        'traces_validated_against_impl': evaluations,
        'model_vs_impl_disagreements': sum(1 for r in results if r['corr']),
    }
    return {'coverage': cov, 'failures': failures}
