#!/usr/bin/env python3
"""fills the generated tables of DESIGN.md (between <!-- BEGIN x --> / <!-- END x --> markers):
   theorems : the statements of every Properties/Cnn.v
   matrix   : build/seed_matrix.tsv (seeded change x check)
   axioms   : axioms_reported of every evidence file"""
import glob
import json
import os
import re

HERE = os.path.dirname(os.path.dirname(os.path.abspath(__file__)))


def theorems():
    out = []
    for f in sorted(glob.glob(os.path.join(HERE, 'coq/theories/Properties/C*.v'))):
        pid = os.path.basename(f)[:-2]
        names = re.findall(r'^(?:Theorem|Example)\s+([A-Za-z0-9_\']+)', open(f).read(), re.M)
        out.append('* **%s** (%d): %s' % (pid, len(names), ', '.join('`%s`' % n for n in names)))
    return '\n'.join(out)


def matrix():
    p = os.path.join(HERE, 'build/seed_matrix.tsv')
    if not os.path.exists(p):
        return '(not run yet)'
    m = {}
    for l in open(p):
        s, c, v = l.rstrip('\n').split('\t')
        m.setdefault(s, {})[c] = v
    checks = ['C%02d' % i for i in range(1, 21)]
    rows = ['| seeded change \\ check | ' + ' | '.join(c[1:] for c in checks) + ' |', '|---|' + '---|' * len(checks)]
    sym = {'caught': '**X**', 'caught-nfif': 'x', 'quiet': '·'}
    for s in sorted(m):
        rows.append('| %s | ' % s + ' | '.join(sym.get(m[s].get(c, ''), ' ') for c in checks) + ' |')
    return '\n'.join(rows)


def own():
    # tools/seed_own_results.tsv is the committed record of the own-check runs (build/seed_own.tsv is the last run only)
    p = os.path.join(HERE, 'tools/seed_own_results.tsv')
    if not os.path.exists(p):
        return '(not run yet)'
    m = {}
    for l in open(p):
        s, v = l.rstrip('\n').split('\t')
        m[s] = v
    sym = {'caught': '**X**', 'caught-nfif': 'x', 'quiet': '·', 'does-not-apply': 'n/a'}
    rounds = ['', 'b', 'c', 'd', 'e', 'f', 'g', 'h']
    rows = ['| property | round 1 | round 2 | round 3 | round 4 | round 5 | round 6 | round 7 | round 8 |', '|---|---|---|---|---|---|---|---|---|']
    for i in range(1, 21):
        pid = 'C%02d' % i
        rows.append('| %s | ' % pid + ' | '.join(sym.get(m.get(pid + r, ''), 'withdrawn' if (pid + r) in ('C01b', 'C14c', 'C08b') else ('-' if r == 'h' else ' ')) for r in rounds) + ' |')
    return '\n'.join(rows)


def axioms():
    out = []
    for f in sorted(glob.glob(os.path.join(HERE, 'evidence/C*.json'))):
        j = json.load(open(f))
        ax = j['coverage'].get('axioms_reported') or []
        out.append('| %s | %s | %s |' % (j['property_id'], j['coverage'].get('obligations'), ', '.join('`%s`' % a for a in ax) if ax else 'none (closed under the global context)'))
    return '| property | statements checked | axioms (`Print Assumptions`) |\n|---|---|---|\n' + '\n'.join(out)


def perproperty():
    claims = json.load(open(os.path.join(HERE, 'tools/claims.json')))
    extras = json.load(open(os.path.join(HERE, 'tools/design_extras.json')))
    out = []
    for l in open(os.path.join(HERE, 'properties.jsonl')):
        j = json.loads(l)
        pid = j['id']
        out.append('### %s — %s\n' % (pid, j['title']))
        c = claims.get(pid, {})
        if c.get('claimed'):
            out.append('*Proved and tied.* ' + c['text'] + '\n')
            out.append('*Trusted / limits.* ' + c['note'] + '\n')
        if extras.get(pid):
            out.append(extras[pid] + '\n')
    return '\n'.join(out)


def main():
    p = os.path.join(HERE, 'DESIGN.md')
    s = open(p).read()
    for name, fn in (('theorems', theorems), ('matrix', matrix), ('own', own), ('axioms', axioms), ('perproperty', perproperty)):
        s = re.sub(r'(<!-- BEGIN %s -->\n).*?(<!-- END %s -->)' % (name, name), lambda m, fn=fn: m.group(1) + fn() + '\n' + m.group(2), s, flags=re.S)
    open(p, 'w').write(s)


if __name__ == '__main__':
    main()
