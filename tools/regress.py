"""Witnesses of the defects repaired by `fix:` commits (known_findings.json, "fixed").  They excuse nothing:
every check replays the witnesses tagged with its property first, on the real binary, and a witness that fails
again is an ordinary violation with that input as the replay."""
import json
import subprocess
import time

import aglib


def J(*objs):
    return ''.join(json.dumps(o) + '\n' for o in objs)


W = [
    dict(id='sort-then-limit', commit='01c24ac', props=['C03', 'C10', 'C09'], query='* | json | sort by x | limit 2',
         input=J({'x': 3}, {'x': 1}, {'x': 2}), json_lines=[[{'x': 1}, {'x': 2}]]),
    dict(id='ascending', commit='f72d69c', props=['C20', 'C09'], query='* | json | count by k | sort by k ascending',
         input=J({'k': 'b'}, {'k': 'a'}), json_lines=[[{'k': 'a', '_count': 1}, {'k': 'b', '_count': 1}]]),
    dict(id='descending', commit='f72d69c', props=['C20', 'C09'], query='* | json | count by k | sort by k descending',
         input=J({'k': 'a'}, {'k': 'b'}), json_lines=[[{'k': 'b', '_count': 1}, {'k': 'a', '_count': 1}]]),
    dict(id='space-before-comma', commit='9a2f3ee', props=['C20'], query='* | json | fields a , b',
         input=J({'a': 1, 'b': 2, 'c': 3}), json_lines=[{'a': 1, 'b': 2}]),
    dict(id='trailing-text', commit='e08667b', props=['C04'], query='* | json | fields a b | count', input=J({'a': 1}), rejected=True),
    dict(id='silent-error-operator', commit='6a3cc0b', props=['C04'], query='* | json | count by x extra', input=J({'x': 1}), rejected=True),
    dict(id='half-plus-half', commit='05069dd', props=['C05', 'C08'], query='* | json | h + h == 1 as r | fields r',
         input=J({'h': 0.5}), json_lines=[{'r': True}]),
    dict(id='int-overflow', commit='841318b', props=['C05', 'C08', 'C11'], query='* | json | x + 1 as r | fields r',
         input=J({'x': 9223372036854775807}), json_lines=[{'r': 9223372036854775808.0}]),
    dict(id='from-float-tiny', commit='71ed6f4', props=['C06', 'C08'], query='* | json', input='{"x": 1e-300}\n', json_lines=[{'x': 1e-300}]),
    dict(id='from-float-huge', commit='71ed6f4', props=['C06', 'C08'], query='* | json', input='{"x": 1e300}\n', json_lines=[{'x': 1e300}]),
    dict(id='coerce-sign-exponent', commit='b3901df', props=['C08'], query='* | json | sum(x)', input=J({'x': '-5'}, {'x': '1e3'}),
         json_lines=[[{'_sum': 995}]]),
    dict(id='coerce-sign-thousands', commit='bda0777', props=['C08'], query='* | json | sum(x)', input=J({'x': '-1,000'}), json_lines=[[{'_sum': -1000}]]),
    dict(id='huge-negative-limit', commit='8edf038', props=['C04', 'C11', 'C10'], query='* | json | limit -99999999999999', input=J({'a': 1}),
         json_lines=[{'a': 1}]),
    dict(id='read-error', commit='76f7c85', props=['C17'], query='* | json', input='', args=['-o', 'json', '--file', aglib.VERIF], stdout='', stderr_has='rror'),
    dict(id='adapter-new-columns', commit='564945f', props=['C13', 'C03'], query='* | json | count by x | logfmt from x',
         input=J({'x': 'c=3 a=1 b=2'}), json_lines=[[{'x': 'c=3 a=1 b=2', '_count': 1, 'a': 1, 'b': 2, 'c': 3}]], ordered_keys=True),
    dict(id='array-order', commit='ff51a3a', props=['C05', 'C09'], query='* | json | a == b as eq | a < b as lt | fields eq, lt',
         input=J({'a': [1], 'b': [2]}), json_lines=[{'eq': False, 'lt': True}]),
    dict(id='object-keys-sorted', commit='de59a75', props=['C13', 'C18'], query='* | json', input='{"o": {"b": 1, "a": 2, "c": {"z": 1, "y": 2}}}\n',
         stdout='{"o":{"a":2,"b":1,"c":{"y":2,"z":1}}}\n'),
    dict(id='equal-objects-one-group', commit='3771b5f', props=['C01', 'C13'], query='* | json | count by o | fields _count',
         input='{"o": {"a": 1, "b": 2}}\n{"o": {"b": 2, "a": 1}}\n', json_lines=[[{'_count': 2}]]),
    dict(id='emit-key-order', commit='e881606', props=['C13'], query='* | json | count by x | where _count > 0',
         input=J({'x': 'b'}, {'x': 'a'}, {'x': 'c'}), json_lines=[[{'x': 'a', '_count': 1}, {'x': 'b', '_count': 1}, {'x': 'c', '_count': 1}]]),
    dict(id='empty-format-flag', commit='3520330', props=['C18', 'C20'], query='* | json', input=J({'a': 1}), args=['--format', ''], rejected=True),
    dict(id='split-empty-separator', commit='60d2c87', props=['C11', 'C07', 'C04'], query='* | json | split(a) on ""', input=J({'a': 'x,y'}), rejected=True, max_s=5),
    dict(id='non-ascii-query', commit='f0502b2', props=['C04'], query='* | jsön ü|', input=J({'a': 1}), rejected=True),
    dict(id='json-float-ulp', commit='5a00d6e', props=['C06', 'C08'], query='* | json', input='{"x": 8.988465674311579e+307, "y": 2.2250738585072011e-308, "z": 1.2345678901234567e+300}\n',
         json_lines=[{'x': 8.988465674311579e+307, 'y': 2.2250738585072011e-308, 'z': 1.2345678901234567e+300}]),
    dict(id='failing-sort-key-last', commit='4cff798', props=['C09'], query='* | json | sort by x', input=J({'x': 2}, {'y': 1}, {'x': 1}),
         json_lines=[[{'x': 1, 'y': None}, {'x': 2, 'y': None}, {'x': None, 'y': 1}]]),
    dict(id='duration-div-zero', commit='c8b2097', props=['C11', 'C05'], query='* | json | 1s / 0 as r', input=J({'a': 1}), stdout='', rc=0),
    dict(id='duration-literal-range', commit='c65ae64', props=['C04', 'C11'], query='* | json | where 9223372036854775807s > 1s', input=J({'a': 1}), rejected=True),
    dict(id='long-field-legacy', commit='e357108', props=['C11'], query='* | json', input=J({'a': 'x' * 70000, 'b': 1}), args=[], rc=0),
    dict(id='sort-stream-linear', commit='c3e027b', props=['C11', 'C09'], query='* | json | sort by x | limit 1',
         input=''.join('{"x": %d}\n' % ((i * 7919) % 30011) for i in range(30000)), json_lines=[[{'x': 0}]], max_s=30),
    dict(id='nested-filter-linear', commit='72b75cd', props=['C04', 'C02', 'C11'], query='(' * 28 + 'a' + ')' * 28 + ' | count',
         input='a\nb\n', json_lines=[[{'_count': 1}]], max_s=10),
    dict(id='space-inside-parens', commit='4f14fd7', props=['C20', 'C04'], query='( a OR zzz ) | json | where ( x == 1 ) | sum( x ) as s',
         input=J({'x': 1, 'k': 'a'}, {'x': 2, 'k': 'a'}), json_lines=[[{'s': 1}]]),
    dict(id='space-after-not', commit='7a275bd', props=['C20', 'C04'], query='* | json | where ! isNull(x) | count',
         input=J({'x': 1}, {'y': 2}), json_lines=[[{'_count': 1}]]),
    dict(id='percentile-column-expression', commit='939a4f9', props=['C20', 'C04'], query='* | json | p90(x), p10(x) | p90 - p10 as spread | fields spread',
         input=J({'x': 1}, {'x': 5}, {'x': 9}), json_lines=[[{'spread': 8}]]),
    dict(id='fields-mode-whole-word', commit='a6b1cfe', props=['C20', 'C04', 'C12'], query='* | json | fields only_x',
         input=J({'only_x': 1, '_x': 2, 'a': 3}), json_lines=[{'only_x': 1}]),
    dict(id='fields-drop-prefix', commit='a6b1cfe', props=['C20', 'C04'], query='* | json | fields dropped',
         input=J({'dropped': 4, 'ped': 5, 'a': 3}), json_lines=[{'dropped': 4}]),
    dict(id='parse-as-needs-space', commit='738d329', props=['C04', 'C20'], query='* | json | parse "*" from s asx', input=J({'s': 'q'}), rejected=True),
    dict(id='keyword-prefix-names', commit='dd26194', props=['C20', 'C04', 'C05'], query='* | json | sum_total + 1 as r | where true_x == 1 and nullable == 2 | fields r, sorted',
         input=J({'sum_total': 1, 'true_x': 1, 'nullable': 2, 'sorted': 5}), json_lines=[{'r': 2, 'sorted': 5}]),
    dict(id='regex-size-limit', commit='81166bb', props=['C04', 'C11'], query='* | parse "' + '* x ' * 5000 + '" as ' + ','.join('f%d' % i for i in range(5000)),
         input='a x b x\n', rejected=True, max_s=60),
    dict(id='int-float-exact-order', commit='1274b83', props=['C13', 'C09', 'C05', 'C14'], query='* | json | count by k | fields k',
         input='{"k": 9223372036854775806}\n{"k": 9223372036854775808}\n{"k": 9223372036854775807}\n{"k": 9007199254740993}\n{"k": 2.5}\n{"k": 2}\n',
         stdout='[{"k":2},{"k":2.5},{"k":9007199254740993},{"k":9223372036854775806},{"k":9223372036854775807},{"k":9.223372036854776e18}]\n'),
    dict(id='object-text-order', commit='f3ac142', props=['C13', 'C05'], query='* | json | concat(o, "|", arr) as s | fields s',
         input='{"o":{"e":5,"a":1,"d":{"q":1,"p":"t"},"c":3,"b":[{"z":1,"x":null},"s"]}, "arr":[{"b":1,"a":2}]}\n', args=['-o', 'logfmt'],
         stdout='s={"a": Int(1), "b": Array([Obj({"x": None, "z": Int(1)}), Str("s")]), "c": Int(3), "d": Obj({"p": Str("t"), "q": Int(1)}), "e": Int(5)}|[Obj({"a": Int(2), "b": Int(1)})]\n'),
    dict(id='star-or', commit='291b1f9', props=['C02', 'C04'], query='* OR foo | count', input='foo\nbar\n', stdout='[{"_count":2}]\n'),
    dict(id='not-star', commit='291b1f9', props=['C02'], query='NOT * | count', input='foo\nbar\n', args=['-o', 'json'], stdout='[]\n'),
    dict(id='width-divisor', commit='b76788c', props=['C11', 'C19'], query='* | json | sum(s), sum(t), p50(w)', input='{"w":1e300,"s":"  12 ","t":"-1,000.5"}\n', args=[], rc=0),
    dict(id='num-exact', commit='43e6167', props=['C08'], query='* | json | num(z) as a | abs(z) as b | num(t) as c | fields a, b, c', input='{"z":9007199254740993,"t":" 9007199254740993 "}\n',
         json_lines=[{'a': 9007199254740993, 'b': 9007199254740993, 'c': 9007199254740993}]),
    dict(id='backslash-quote', commit='34af2a5', props=['C02', 'C07'], query='* | parse "a\\\\\\"b*" as x', input='a\\"bX\na"bY\n', json_lines=[{'x': 'X'}]),
    dict(id='quoted-case', commit='9cc9c86', props=['C02'], query='"ERROR" | count', input='ERROR one\nerror two\nErRoR three\n', stdout='[{"_count":1}]\n'),
    dict(id='filter-terminator', commit='0a8f710', props=['C02', 'C15'], query='"err " | count', input='err\nerr', args=['-o', 'json'], stdout='[]\n'),
    dict(id='parsedate-offset', commit='5dd747f', props=['C05'], query='* | json | parseDate(t) == parseDate(u) as same | fields same',
         input='{"t":"2021-03-05T10:30:45+05:30","u":"2021-03-05T05:00:45Z"}\n', json_lines=[{'same': True}]),
    dict(id='case-functions-text', commit='afd6031', props=['C05'], query='* | json | toUpperCase(a) as x | toLowerCase(b) == "true" as y | length(x) as n | fields x, y, n',
         input='{"a":"007","b":"TRUE"}\n', json_lines=[{'n': 3, 'x': '007', 'y': True}]),
    dict(id='logfmt-blank', commit='d4c6bb8', props=['C06'], query='* | logfmt', input='a=1\n\n   \n', stdout='{"a":1}\n{}\n{}\n'),
    dict(id='int-text-arith', commit='3ad586e', props=['C08'], query='* | json | x + 0 as a | x * 1 as b | fields a, b', input='{"x":"9007199254740993"}\n',
         json_lines=[{'a': 9007199254740993, 'b': 9007199254740993}]),
    dict(id='sort-desc-keyless', commit='2c51787', props=['C04', 'C09'], query='* | json | sort desc', input='{"x":1}\n{"x":3}\n{"x":2}\n', stdout='[{"x":3},{"x":2},{"x":1}]\n'),
    dict(id='timeslice-key-spelling', commit='af5ecd9', props=['C09', 'C20'], query='* | json | timeslice(parseDate(ts)) 1h | count by (_timeslice) | limit 1',
         input='{"ts":"2024-03-01T00:10:00Z"}\n{"ts":"2024-03-01T00:20:00Z"}\n{"ts":"2024-03-01T01:10:00Z"}\n',
         stdout='[{"(_timeslice)":"2024-03-01T00:00:00+00:00","_count":2}]\n'),
    dict(id='minmax-exact', commit='b2f85e2', props=['C01', 'C08'], query='* | json | min(v), max(v)', input='{"v":9007199254740993}\n{"v":9007199254740995}\n',
         stdout='[{"_min":9007199254740993,"_max":9007199254740995}]\n'),
    dict(id='regex-not-leftmost', commit='128c2e7', props=['C07'], query='* | parse regex "(?P<a>(?:ab)*bb)" noconvert', input='ababbb\n', json_lines=[{'a': 'ababbb'}]),
    dict(id='regex-not-leftmost-group', commit='128c2e7', props=['C07'], query='* | parse regex "(?P<x1>12)*22"', input='121222\n', json_lines=[{'x1': 12}]),
    dict(id='wildcard-newline', commit='72583f8', props=['C07'], query='* | json | parse "start * end" from msg as x | fields x', input='{"msg":"start 1\\n2 end"}\n',
         json_lines=[{'x': '1\n2'}]),
    dict(id='dtparse-panic', commit='11f8b40', props=['C11'], query='* | parse "ts=*" as ts | parseDate(ts) as d | count', input='ts=2020-01-01\nts=12:30 -\nts=10:15:PM\nts=2020-01-02\n',
         stdout='[{"_count":2}]\n'),
    dict(id='int-min-trichotomy', commit='d2a8efa', props=['C05', 'C08', 'C13'], query='* | json | a * 2 as x | x < m as lt | x == m as eq | x > m as gt | fields lt, eq, gt',
         input='{"a":-4611686018427387904,"m":-9223372036854775808}\n', json_lines=[{'eq': True, 'gt': False, 'lt': False}]),
    dict(id='no-saturated-i64-min', commit='9eb768d', props=['C05', 'C08'], query='* | json | a - d as x | fields id, x',
         input='{"id":1,"a":-9223372036854775808,"d":1}\n{"id":2,"a":-9223372036854775808,"d":2000}\n{"id":3,"a":-9223372036854775807,"d":1}\n',
         stdout='{"id":2,"x":-9.223372036854778e18}\n{"id":3,"x":-9223372036854775808}\n', stderr_has='out of range'),
    dict(id='date-is-not-a-number', commit='9840533', props=['C05'], query='* | json | parseDate(a) + parseDate(b) as r | count', input='{"a":"2021-08-11T00:00:00Z","b":"2021-08-12T00:00:00Z"}\n',
         args=['-o', 'json'], stdout='[]\n'),
    dict(id='zero-duration-text', commit='5af605b', props=['C18', 'C19'], query='* | json | parseDate(s) - parseDate(s) as z | 1500ns as t | fields z, t', input='{"s":"2021-08-11T10:00:00Z"}\n',
         args=['-o', 'logfmt'], stdout='t=1us500ns z=0s\n'),
    dict(id='duration-product-out-of-range', commit='5af605b', props=['C11'], query='* | json | 50d * n as a | fields id', input='{"n":2,"id":1}\n{"n":2147483647,"id":2}\n{"n":3,"id":3}\n',
         args=[], stdout='[id=1]\n[id=3]\n'),
    dict(id='quoted-blank-literal', commit='a0b40fc', props=['C02'], query='"a b" | count', input='a b\na\tb\naXb\n', stdout='[{"_count":1}]\n'),
    dict(id='avg-of-nothing', commit='c7662ad', props=['C01', 'C03'], query='* | json | avg(v) by k | sum(_average) as s', input='{"k":"a","v":1}\n{"k":"a","v":3}\n{"k":"b","v":"n/a"}\n{"k":"c","v":10}\n',
         stdout='[{"s":12}]\n'),
    dict(id='duration-div-integer-text', commit='46e1115', props=['C05', 'C08'], query='* | json | 1h / n as a | 1h * n as c | fields a, c', input='{"n":"2"}\n',
         stdout='{"a":"PT1800S","c":"PT7200S"}\n'),
    dict(id='sign-before-first-digit', commit='80926c1', props=['C08'], query='* | json | num(a) as a | num(b) as b | sum(c) as c',
         input='{"a":"$-1,000","b":"USD -5.50","c":"$-3"}\n{"a":"$-1,000","b":"USD -5.50","c":"$-4"}\n', stdout='[{"c":-7}]\n'),
    dict(id='sign-before-first-digit-rows', commit='80926c1', props=['C08'], query='* | json | num(a) as a | num(b) as b | fields a, b',
         input='{"a":"$-1,000","b":"USD -5.50"}\n', stdout='{"a":-1000,"b":-5.5}\n'),
    dict(id='num-of-a-date', commit='4e663c3', props=['C05'], query='* | json | parseDate(t) as d | num(d) as n | isNumeric(d) as isn | fields n, isn',
         input='{"t":"1970-01-01T00:00:01Z"}\n', stdout='{"isn":true,"n":1000}\n'),
    dict(id='date-is-no-operand', commit='4e663c3', props=['C05'], query='* | json | parseDate(t) as d | d * 2 as x | count', input='{"t":"1970-01-01T00:00:01Z"}\n',
         stdout='[]\n'),
    dict(id='errors-after-a-mere-sort', commit='64df92c', props=['C11', 'C05', 'C03'], query='* | logfmt | sort by x | z + 1 as w | fields w', input='x=2 y=1\nx=1 z=2\nx=3 y=3\n',
         stdout='[{"w":3}]\n', stderr_has='error: No value for key "z"'),
    dict(id='duration-times-a-large-integer', commit='0992468', props=['C05', 'C11'], query='* | json | 1ns * n as a | 1h / 3600000000000 as b | fields a, b', input='{"n":3000000000}\n',
         stdout='{"a":"PT3S","b":"PT0.000000001S"}\n'),
    dict(id='timeslice-of-a-far-date', commit='fa5338c', props=['C05', 'C14'], query='* | json | timeslice(parseDate(t)) 1h as a | timeslice(parseDate(u)) 20000w as b | fields a, b',
         input='{"t":"9999-12-31T23:59:59Z","u":"2021-03-01T10:20:30Z"}\n', stdout='{"a":"9999-12-31T23:00:00+00:00","b":"1970-01-01T00:00:00+00:00"}\n'),
    dict(id='fieldless-row-is-its-line', commit='8041d2a', props=['C12', 'C19', 'C18'], query='* | json', input='{"a":1}\n{}\n{"b":2}\n{}\n', args=[],
         stdout='[a=1]\n{}\n[b=2]\n{}\n'),
    dict(id='printed-line-keeps-trailing-blanks', commit='7f51c1d', props=['C15', 'C02', 'C12'], query='*', input='x  \n\t\ny\t\r\nz', args=[],
         stdout='x  \n\t\ny\t\nz\n'),
    dict(id='all-infinite-extremum', commit='04d0ab4', props=['C01', 'C08'], query='* | json | min(b/d) as lo, max(0-b/d) as hi | lo > 1000 as big | hi < 0-1000 as small | fields big, small',
         input='{"b":1,"d":0}\n{"b":2,"d":0}\n', stdout='[{"big":true,"small":true}]\n'),
    dict(id='infinite-extremum', commit='4eedbc5', props=['C01', 'C08'], query='* | json | max(b/d) as hi | hi > 1000 as big | fields big', input='{"b":100,"d":2}\n{"b":50,"d":0}\n{"b":30,"d":3}\n',
         stdout='[{"big":true}]\n'),
    dict(id='percentile-nan', commit='28baf50', props=['C01', 'C14'], query='* | parse "*" as v | p50(v)', input='3\n7\n8\n10\n2\nnan\n1\n9\n5\n6\n4\n', stdout='[{"p50":5}]\n'),
]


def run_witness(w):
    """-> None if the witness passes, else a description"""
    args = w.get('args', ['-o', 'json'])
    t0 = time.time()
    try:
        p = subprocess.run([aglib.AGRIND, w['query']] + args, input=w['input'].encode('utf8'), stdout=subprocess.PIPE,
                           stderr=subprocess.PIPE, env=aglib.ENV, timeout=w.get('max_s', 20))
    except subprocess.TimeoutExpired:
        return 'did not finish within %ss' % w.get('max_s', 20)
    out = p.stdout.decode('utf8', 'replace')
    err = p.stderr.decode('utf8', 'replace')
    if 'panicked' in err or p.returncode < 0 or p.returncode == 101:
        return 'crashed (rc %s): %s' % (p.returncode, err[-200:])
    if w.get('rejected'):
        if p.returncode == 0 or out.strip():
            return 'expected a rejection (non-zero exit, nothing on stdout); got rc %s, stdout %r' % (p.returncode, out[:120])
        return None
    if 'rc' in w and p.returncode != w['rc']:
        return 'exit status %s, expected %s (%s)' % (p.returncode, w['rc'], err[-200:])
    if 'stderr_has' in w and w['stderr_has'] not in err:
        return 'no message on stderr: %r' % err[-200:]
    if 'stdout' in w and out != w['stdout']:
        return 'stdout %r, expected %r' % (out[:200], w['stdout'][:200])
    if 'json_lines' in w:
        if p.returncode != 0:
            return 'exit status %s: %s' % (p.returncode, err[-200:])
        try:
            hook = (lambda pairs: pairs) if w.get('ordered_keys') else None
            got = [json.loads(l, object_pairs_hook=hook) for l in out.splitlines() if l.strip()]
            exp = w['json_lines']
            if w.get('ordered_keys'):
                exp = [json.loads(json.dumps(e), object_pairs_hook=hook) for e in exp]
        except ValueError as e:
            return 'output is not JSON: %r' % out[:200]
        if got != exp or [type(x) for x in _flat(got)] != [type(x) for x in _flat(exp)]:
            return 'output %r, expected %r' % (out[:300], w['json_lines'])
    return None


def _flat(x):
    if isinstance(x, dict):
        return [z for v in x.values() for z in _flat(v)]
    if isinstance(x, (list, tuple)):
        return [z for v in x for z in _flat(v)]
    return [x]


def replay_fixed(pid):
    """-> (number replayed, list of failures as runner failure dicts)"""
    fails = []
    n = 0
    for w in W:
        if pid not in w['props']:
            continue
        n += 1
        why = run_witness(w)
        if why:
            fails.append({'kind': 'spec', 'what': 'the defect repaired by %s is back (%s): %s' % (w['commit'], w['id'], why),
                          'payload': {'query': w['query'], 'input': w['input'][:2000], 'args': w.get('args', ['-o', 'json']),
                                      'witness': w['id'], 'fix_commit': w['commit']}})
    return n, fails
