#!/bin/bash
# usage: [MV=/path/to/verif-copy MR=/path/to/repo-copy] seed_own.sh [seed names...]
# every seeded change against the quick check of ITS OWN property; writes $MV/build/seed_own.tsv (seed, verdict)
set -u
MV=${MV:-/verif}; MR=${MR:-/repo}
cd $MV
export AG_REPO=$MR AGV_EVIDENCE_DIR=$MV/build/seed-evidence
SEEDS=${@:-$(ls $MV/seeded)}
OUT=$MV/build/seed_own.tsv
: > $OUT
for S in $SEEDS; do
  p=${S:0:3}
  git -C $MR status --short | grep -q . && { echo "$MR not clean"; exit 2; }
  git -C $MR apply $MV/seeded/$S/patch.diff || { printf "%s\tdoes-not-apply\n" "$S" >> $OUT; continue; }
  out=$(timeout 1800 bin/agv check $p --tier quick 2>/dev/null | grep -E "^VIOLATION" | head -1)
  v=quiet; [ -n "$out" ] && v=caught; echo "$out" | grep -q "no-failing-input-found" && v=caught-nfif
  printf "%s\t%s\n" "$S" "$v" >> $OUT
  git -C $MR checkout -- .
done
