#!/usr/bin/env python3
"""Regenerate coq/theories/Generated.v from the declarative fragments of
$AG_REPO/src (tables and constants, not algorithms).  A fragment that cannot be
located keeps its previous value and is reported as stale."""
import os
import re
import sys

HERE = os.path.dirname(os.path.dirname(os.path.abspath(__file__)))
REPO = os.environ.get('AG_REPO', '/repo')
OUT = os.path.join(HERE, 'coq', 'theories', 'Generated.v')


def read(rel):
    return open(os.path.join(REPO, rel), encoding='utf8').read()


def coq_str(s):
    return '"' + s.replace('"', '""') + '"'


def coq_list(items):
    return '[' + '; '.join(items) + ']'


def toml_unescape(t):
    """escapes of a TOML basic (multi-line) string"""
    out = []
    i = 0
    if t.startswith('\n'):
        t = t[1:]                 # a newline right after the opening delimiter is trimmed
    while i < len(t):
        c = t[i]
        if c == '\\' and i + 1 < len(t):
            e = t[i + 1]
            m = {'b': '\b', 't': '\t', 'n': '\n', 'f': '\f', 'r': '\r', '"': '"', '\\': '\\'}
            if e in m:
                out.append(m[e])
                i += 2
                continue
        out.append(c)
        i += 1
    return ''.join(out)


def fn_body(src, header_re):
    """text of the brace-balanced block following the first match of header_re"""
    m = re.search(header_re, src)
    if not m:
        return None
    i = src.index('{', m.end() - 1) if src[m.end() - 1] != '{' else m.end() - 1
    depth = 0
    for j in range(i, len(src)):
        if src[j] == '{':
            depth += 1
        elif src[j] == '}':
            depth -= 1
            if depth == 0:
                return src[i:j + 1]
    return None


def extract():
    facts = {}
    stale = []

    def put(name, val):
        if val is None:
            stale.append(name)
        else:
            facts[name] = val

    data = read('src/data.rs')
    lang = read('src/lang.rs')
    lib = read('src/lib.rs')
    tc = read('src/typecheck.rs')
    render = read('src/render.rs')
    printer = read('src/printer.rs')
    funcs = read('src/funcs.rs')

    # Value::rank
    body = fn_body(data, r'pub fn rank\(&self\) -> u8 \{')
    ranks = re.findall(r'Value::(\w+)(?:\(_\))? => (\d+)', body or '')
    put('rank_table', ranks if len(ranks) == 9 else None)

    num = lambda t: int(t.replace('_', ''))        # Rust integer literals may carry digit separators
    m = re.search(r'const DEFAULT_LIMIT: i64 = ([\d_]+);', tc)
    put('default_limit', m and num(m.group(1)))
    m = re.search(r'bounded\(([\d_]+)\)', lib)
    put('chan_capacity', m and num(m.group(1)))
    ms = re.findall(r'recv_timeout\(Duration::from_millis\(([\d_]+)\)\)', lib)
    put('poll_ms', num(ms[0]) if ms and len(set(ms)) == 1 else None)
    m = re.search(r'Duration::from_millis\(([\d_]+)\),\s*raw_printer', lib)
    put('refresh_ms', m and num(m.group(1)))
    # the one-line placeholder frame of PrintAggregateAsRows::print (live terminal, -o logfmt / -o format=)
    body = fn_body(printer, r'impl<T: RowPrinter> AggregatePrinter for PrintAggregateAsRows<T> \{')
    m = re.search(r'fn print\(&mut self[^{]*\{\s*(?://[^\n]*\n\s*)*"((?:[^"\\]|\\.)*)"\.to_string\(\)', body or '')
    put('agg_placeholder', [ord(c) for c in bytes(m.group(1), 'utf8').decode('unicode_escape')] if m else None)
    # what resize_widths_to_fit divides the remaining width by
    body = fn_body(printer, r'fn resize_widths_to_fit\(')
    m = re.search(r'remaining as f64 / \((.*?) - i\) as f64', body or '')
    put('resize_divisor', m and m.group(1).strip())
    m = re.search(r'self\.reset_sequence = "((?:\\x1b\[[0-9A-Z]+)+)"\.repeat\(num_lines\)(?: \+ "((?:\\x1b\[[0-9A-Z]+)+)")?;', render)
    if m:
        unit = re.findall(r'\\x1b\[([0-9]+[A-Z])', m.group(1))
        tail = re.findall(r'\\x1b\[([0-9]+[A-Z])', m.group(2) or '')
        put('reset_unit', unit)
        put('reset_tail', tail)
    else:
        put('reset_unit', None)
        put('reset_tail', None)
    m = re.search(r'const ELLIPSIS: &str = "(.*?)";', printer)
    put('ellipsis', m and [ord(c) for c in m.group(1)])
    m = re.search(r'None => (\d+),\s*Some\(TerminalSize \{ width, \.\. \}\) => width', printer)
    put('no_tty_width', m and int(m.group(1)))
    m = re.search(r'DisplayConfig \{ floating_points: (\d+) \},\s*min_buffer: (\d+),\s*max_buffer: (\d+),', lib)
    put('floating_points', m and int(m.group(1)))
    put('min_buffer', m and int(m.group(2)))
    put('max_buffer', m and int(m.group(3)))

    # the error bound the percentile sketch is created with, as (mantissa, decimal exponent)
    pct = read('src/operator/percentile.rs')
    m = re.search(r'CKMS::<f64>::new\(0\.(\d+)\)', pct)
    put('ckms_error', (int(m.group(1)), -len(m.group(1))) if m else None)
    # which chrono rendering each path uses for a date: Serialize, Display for Value (to_string), ValueDisplay (text output)
    forms = []
    m = re.search(r'Value::DateTime\(dt\) => serializer\.serialize_str\(dt\.(\w+)\(\)', data)
    forms.append(('Serialize', m.group(1)) if m else None)
    b1 = fn_body(data, r'impl Display for Value \{')
    m = re.search(r'Value::DateTime\(ref dt\) => write!\(f, "(\{[^"]*\})", dt\)', b1 or '')
    forms.append(('Display', m.group(1)) if m else None)
    b2 = fn_body(data, r"impl Display for ValueDisplay<'_> \{")
    m = re.search(r'Value::DateTime\(ref dt\) => write!\(f, "(\{[^"]*\})", dt\)', b2 or '')
    forms.append(('ValueDisplay', m.group(1)) if m else None)
    put('date_forms', forms if all(forms) else None)

    # default column names
    body = fn_body(lang, r'fn default_name\(&self\) -> String \{')
    names = re.findall(r'AggregateFunction::(\w+) \{ \.\. \} => "(\w+)"\.to_string\(\)', body or '')
    put('default_names', names if len(names) >= 6 else None)
    m = re.search(r'=> format!\("(\w*)\{\}", percentile_str\)', body or '')
    put('pct_prefix', m and m.group(1))

    # keyword alternatives, in source order
    def tags_of(fn_name):
        b = fn_body(lang, r'fn %s\(input: Span\) -> IResult<Span, \w+> \{' % fn_name)
        if not b:
            return None
        groups = re.findall(r'alt\(\(((?:\s*tag\("[^"]+"\),?)+)\s*\)\)\.map\(\|_\| (\w+)::(\w+)\)', b)
        return [(ctor, re.findall(r'tag\("([^"]+)"\)', g)) for g, _ty, ctor in groups] or None
    put('sort_mode_tags', tags_of('sort_mode'))
    # fields_mode: alt(( alt((tag("+"), tag("only").terminated(peek(multispace1)), ...)).map(|_| FieldMode::Only), ... ))
    b = fn_body(lang, r'fn fields_mode\(input: Span\) -> IResult<Span, \w+> \{')
    fm = None
    if b:
        groups = re.findall(r'alt\(\(((?:\s*tag\("[^"]+"\)(?:\.terminated\(peek\(multispace1\)\))?,?)+)\s*\)\)\s*\.map\(\|_\| (\w+)::(\w+)\)', b)
        fm = [(ctor, [(t, bool(w)) for t, w in re.findall(r'tag\("([^"]+)"\)(\.terminated\(peek\(multispace1\)\))?', g)]) for g, _ty, ctor in groups] or None
        if fm and sum(len(ts) for _c, ts in fm) != len(re.findall(r'tag\("', b)):
            fm = None
    put('fields_mode_tags', fm)
    b = fn_body(lang, r'fn comp_op\(input: Span\) -> IResult<Span, ComparisonOp> \{')
    put('comp_op_tags', re.findall(r'tag\("([^"]+)"\)\.map\(\|_\| ComparisonOp::(\w+)\)', b or '') or None)
    m = re.search(r'alt\(\(((?:tag\("\w+"\),? ?)+)\)\)\s*\.precedes\(with_pos\(digit1\)\)', lang)
    put('pct_tags', m and re.findall(r'tag\("(\w+)"\)', m.group(1)))
    m = re.search(r'(?:tag|word)\("(\w+)"\)\s*\.or\((?:tag|word)\("(\w+)"\)\)\s*\.precedes\(req_single_arg\("the numeric value to find the average of"\)\)', lang)
    put('avg_tags', m and [m.group(1), m.group(2)])
    # which keywords end at a word boundary: word("..") (tag + peek(not(is_ident)))
    put('word_keywords', sorted(set(re.findall(r'\bword\("(\w+)"\)', lang))) or None)
    b = fn_body(lang, r'fn duration_fragment\(input: Span\) -> IResult<Span, chrono::Duration> \{')
    sfx = re.findall(r'tag\("(\w+)"\)\.map\(move \|_\| (?:Some\()?chrono::Duration::(\w+)\(amount\)\)?\)', b or '')
    # every alternative of the alt((...)) must have been recognised, otherwise the fragment counts as not located
    put('duration_suffixes', sfx if sfx and len(sfx) == len(re.findall(r'tag\("', b or '')) else None)

    m = re.search(r'pub const VALID_AGGREGATES: &\[&str\] = &\[(.*?)\];', lang, re.S)
    put('valid_aggregates', m and re.findall(r'"(\w+)"', m.group(1)))
    m = re.search(r'pub const VALID_INLINE: &\[&str\] = &\[(.*?)\];', lang, re.S)
    put('valid_inline', m and re.findall(r'"(\w+)"', m.group(1)))
    put('func_names', re.findall(r'FunctionContainer::new\("(\w+)"', funcs) or None)

    # aliases
    aliases = []
    adir = os.path.join(REPO, 'aliases')
    for f in sorted(os.listdir(adir)):
        if f.endswith('.toml'):
            t = open(os.path.join(adir, f), encoding='utf8').read()
            kw = re.search(r'^keyword\s*=\s*"(.*)"\s*$', t, re.M)
            tm = re.search(r'^template\s*=\s*"""(.*?)"""', t, re.M | re.S) or re.search(r'^template\s*=\s*"(.*)"\s*$', t, re.M)
            if kw and tm:
                aliases.append((kw.group(1), toml_unescape(tm.group(1))))
    put('alias_table', aliases or None)
    # inventory of explicitly partial operations (unwrap / expect / panic! / unreachable! / assert! / todo!) outside
    # the test modules, per source file: C11 pins the audited inventory, so a new one breaks a proof obligation
    import glob as _glob
    inv = []
    for f in sorted(_glob.glob(os.path.join(REPO, 'src', '**', '*.rs'), recursive=True)):
        src = open(f).read()
        m = re.search(r'#\[cfg\(test\)\]\s*(?:pub\s+)?mod\s+\w+\s*\{', src)
        body = src if not m else src[:m.start()]
        n = len(re.findall(r'\.unwrap\(\)|\.expect\(|\bpanic!\(|\bunreachable!\(|\bassert(?:_eq|_ne)?!\(|\b(?:unimplemented|todo)!\(', body))
        if n:
            inv.append((os.path.relpath(f, REPO), n))
    put('panic_inventory', inv or None)
    return facts, stale


def render(facts):
    L = []
    L.append('(** GENERATED by tools/srcfacts.py from the current source of the repository -- do not edit. *)')
    L.append('From Coq Require Import List ZArith NArith Strings.String.')
    L.append('Import ListNotations.')
    L.append('Open Scope string_scope.')
    L.append('')

    def emit(name, ty, body):
        L.append('Definition %s : %s := %s.' % (name, ty, body))

    if 'rank_table' in facts:
        emit('rank_table', 'list (string * N)', coq_list('(%s, %s%%N)' % (coq_str(c), r) for c, r in facts['rank_table']))
    for k in ('default_limit', 'chan_capacity', 'poll_ms', 'refresh_ms', 'no_tty_width', 'floating_points', 'min_buffer', 'max_buffer'):
        if k in facts:
            emit(k, 'Z', '%d%%Z' % facts[k])
    for k in ('reset_unit', 'reset_tail', 'pct_tags', 'avg_tags', 'valid_aggregates', 'valid_inline', 'func_names'):
        if k in facts:
            emit(k, 'list string', coq_list(coq_str(x) for x in facts[k]))
    if 'agg_placeholder' in facts:
        emit('agg_placeholder', 'list N', coq_list('%d%%N' % c for c in facts['agg_placeholder']))
    if 'resize_divisor' in facts:
        emit('resize_divisor', 'string', coq_str(facts['resize_divisor']))
    if 'ellipsis' in facts:
        emit('ellipsis', 'list N', coq_list('%d%%N' % c for c in facts['ellipsis']))
    if 'default_names' in facts:
        emit('default_names', 'list (string * string)', coq_list('(%s, %s)' % (coq_str(a), coq_str(b)) for a, b in facts['default_names']))
    if 'word_keywords' in facts:
        emit('word_keywords', 'list string', coq_list(coq_str(x) for x in facts['word_keywords']))
    if 'panic_inventory' in facts:
        emit('panic_inventory', 'list (string * N)', coq_list('(%s, %d%%N)' % (coq_str(f), n) for f, n in facts['panic_inventory']))
    if 'pct_prefix' in facts:
        emit('pct_prefix', 'string', coq_str(facts['pct_prefix']))
    for k in ('sort_mode_tags',):
        if k in facts:
            emit(k, 'list (string * list string)', coq_list('(%s, %s)' % (coq_str(c), coq_list(coq_str(t) for t in ts)) for c, ts in facts[k]))
    if 'fields_mode_tags' in facts:
        # (tag, true) = the tag must be followed by whitespace (peek(multispace1))
        emit('fields_mode_tags', 'list (string * list (string * bool))',
             coq_list('(%s, %s)' % (coq_str(c), coq_list('(%s, %s)' % (coq_str(t), 'true' if w else 'false') for t, w in ts)) for c, ts in facts['fields_mode_tags']))
    if 'comp_op_tags' in facts:
        emit('comp_op_tags', 'list (string * string)', coq_list('(%s, %s)' % (coq_str(t), coq_str(c)) for t, c in facts['comp_op_tags']))
    if 'duration_suffixes' in facts:
        emit('duration_suffixes', 'list (string * string)', coq_list('(%s, %s)' % (coq_str(t), coq_str(c)) for t, c in facts['duration_suffixes']))
    if 'ckms_error' in facts:
        emit('ckms_error', 'Z * Z', '(%d%%Z, (%d)%%Z)' % facts['ckms_error'])
    if 'date_forms' in facts:
        emit('date_forms', 'list (string * string)', coq_list('(%s, %s)' % (coq_str(a), coq_str(b)) for a, b in facts['date_forms']))
    if 'alias_table' in facts:
        emit('alias_table', 'list (string * string)', coq_list('(%s, %s)' % (coq_str(a), coq_str(b)) for a, b in facts['alias_table']))
    return '\n'.join(L) + '\n'


def main():
    facts, stale = extract()
    text = render(facts)
    old = open(OUT).read() if os.path.exists(OUT) else None
    if stale and old is not None:
        # keep the committed definitions of the fragments that could not be located
        for name in stale:
            m = re.search(r'^Definition %s : .*$' % name, old, re.M)
            if m:
                text += m.group(0) + '\n'
    if text != old:
        open(OUT, 'w').write(text)
    print('stale:' + ','.join(stale))
    return 0


if __name__ == '__main__':
    sys.exit(main())
