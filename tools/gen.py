"""Structured random generators: JSON rows over a small typed schema,
expressions, stages and pipelines.  Every choice comes from the rng passed in."""
import json

from props.common import col, lit

WORDS = ['alpha', 'beta', 'Gamma', 'delta', 'x', '', ' pad ', 'a b', 'ERROR', 'warn', 'é', '10', 'true', 'null', "O'Brien", 'say "hi"', 'back\\slash']
NUMSTR = ['5', '-5', '1e3', '1,000', '-1,000', '3.25', ' 42 ', '$7', '0x10', '1e400', '007', '+8', '.5', '5.', 'nan', 'inf', '12abc', '',
          '0x0', '0', '0000', '0x', '0x0x1f', '0X1F', 'ff', '-0x1', '-ff', '7fffffffffffffff', '8000000000000000', ' 0x7b ', '+a', '0x0040', 'x1', '00x1', '-8000000000000000', 'DeadBeef']
KEYS = ['a', 'b', 'c']
EDGE_INTS = [0, 1, -1, 2, 7, 10, 100, -100, 2**31, -2**31, 2**53, 2**53 + 1, -2**53 - 1, 2**63 - 1, -2**63, 123456789012]
EDGE_FLOATS = [0.5, -0.5, 1.5, 2.25, 1e-3, 1e300, -1e300, 1e-300, 0.1, 0.2, 3.0000000000000004, 2.5, 3.5, -2.5, 9.007199254740993e15,
               1.7976931348623157e308, 5e-324, 123.456, 1e15 + 0.5, 0.30000000000000004]


def small_int(rng):
    return rng.choice([0, 1, 2, 3, 5, 7, 10, -1, -3, rng.randint(-20, 20), rng.randint(0, 1000)])


def any_int(rng):
    return rng.choice(EDGE_INTS) if rng.random() < 0.25 else small_int(rng)


def any_float(rng):
    if rng.random() < 0.4:
        return rng.choice(EDGE_FLOATS)
    return rng.choice([rng.randint(-50, 50) / 4.0, rng.random() * 100, rng.uniform(-1e6, 1e6)])


def scalar(rng, rich=True):
    r = rng.random()
    if r < 0.30:
        return any_int(rng) if rich else small_int(rng)
    if r < 0.45:
        return any_float(rng) if rich else rng.randint(-20, 20) / 4.0
    if r < 0.60:
        return rng.choice(WORDS)
    if r < 0.70:
        return rng.choice(NUMSTR)
    if r < 0.80:
        return rng.random() < 0.5
    if r < 0.90:
        return None
    return rng.choice(KEYS)


def nested(rng, depth=2):
    if depth == 0 or rng.random() < 0.4:
        return scalar(rng)
    if rng.random() < 0.5:
        return [nested(rng, depth - 1) for _ in range(rng.randint(0, 3))]
    return {rng.choice(['p', 'q', 'r', 'k1', 'k 2', 'ü']): nested(rng, depth - 1) for _ in range(rng.randint(0, 3))}


# names that start with (or are) a keyword of the query language: they must behave like any other name
TRICKY = ['only_x', 'dropped', 'include_me', 'except1', 'asc_col', 'descr', 'by_x', 'as_y', 'from_z', 'nodrop_q', 'limit2',
          'count_x', 'sum_total', 'p50x', 'true_x', 'nullable', 'iffy', 'android', 'orange', 'nothing', 'json_s', 'where_w',
          'on_x', 'sorted', 'total_x', 'min_v', 'splits', 'timeslice_t', 'avg_a', 'parsed', 'fields_n', 'logfmt_l', 'if', 'by', 'as', 'on']


def gen_ts(rng):
    """an RFC 3339 UTC timestamp (the one date format the model reads), sometimes before 1970, sometimes with a fraction"""
    import datetime
    base = rng.choice([0, 0, 1583000000, 1583003600, 1583007200, -86400 * 365, 4102444800, -3600])
    t = datetime.datetime(1970, 1, 1) + datetime.timedelta(seconds=base + rng.choice([0, 1, 59, 60, 3599, 3600, 86399, 1800]))
    s = t.strftime('%Y-%m-%dT%H:%M:%S')
    if rng.random() < 0.25:
        s += '.' + rng.choice(['5', '250', '001', '123456', '999999999'])
    if rng.random() < 0.2:
        return s + rng.choice(['+00:00', '+05:30', '-08:00', '+01:00', '-00:30', '+14:00'])      # a UTC offset: the text is local time
    return s + 'Z'


DATE_EXPR = ('call', 'parseDate', [('col', 'ts', [])])


def gen_row(rng, i, rich=True):
    """a row over the standard schema; fields go missing with some probability"""
    row = {'id': i}
    if rng.random() < 0.95:
        row['k'] = rng.choice(KEYS) if rng.random() < 0.9 else scalar(rng, rich)
    if rng.random() < 0.08:
        row['big'] = rng.choice([9223372036854775807, 9223372036854775808, 9223372036854775806, 18446744073709551615])
    if rng.random() < 0.9:
        row['g'] = rng.choice([1, 2, 2, 3, None, 'a'])
    if rng.random() < 0.9:
        row['a'] = small_int(rng) if rng.random() < 0.7 else scalar(rng, rich)
    if rng.random() < 0.9:
        r = rng.random()
        row['b'] = any_int(rng) if r < 0.4 else any_float(rng) if r < 0.8 else scalar(rng, rich)
    if rng.random() < 0.8:
        row['s'] = rng.choice(WORDS)
    if rng.random() < 0.6:
        row['t'] = rng.choice(NUMSTR)
    if rng.random() < 0.5:
        row['flag'] = rng.random() < 0.5
    if rng.random() < 0.4:
        row['arr'] = [scalar(rng, rich) for _ in range(rng.randint(0, 4))]
    if rng.random() < 0.4:
        row['obj'] = {'p': scalar(rng, rich), 'q': nested(rng, 2)}
    if rng.random() < 0.5:
        row['ts'] = gen_ts(rng)
    if rng.random() < 0.04:
        row['pad'] = 'p' * rng.choice([1100, 1500, 5000])      # a line longer than the reader's initial buffer
    if rng.random() < 0.3:
        for name in rng.sample(TRICKY, rng.randint(1, 3)):
            row[name] = small_int(rng)
    return row


def gen_rows(rng, n, rich=True):
    return [gen_row(rng, i, rich) for i in range(n)]


def jtext(obj, rng=None):
    return json.dumps(obj, ensure_ascii=(rng.random() < 0.3) if rng else False) + '\n'


NUM_COLS = ['a', 'b', 'g', 'id']
ANY_COLS = ['a', 'b', 'g', 'id', 'k', 's', 't', 'flag', 'arr', 'obj', 'nope', 'big']


def col_ref(rng, cols=None):
    if cols is None and rng.random() < 0.1:
        return col(rng.choice(TRICKY))
    cols = cols or ANY_COLS
    c = rng.choice(cols)
    if c == 'arr' and rng.random() < 0.6:
        return col('arr', ('ix', rng.choice([0, 1, -1, 2, 5, -5])))
    if c == 'obj' and rng.random() < 0.7:
        if rng.random() < 0.5:
            return col('obj', ('k', rng.choice(['p', 'q', 'zz'])))
        return col('obj', ('k', 'q'), rng.choice([('ix', 0), ('k', 'p'), ('ix', -1)]))
    return col(c)


def literal(rng):
    r = rng.random()
    if r < 0.5:
        return lit(rng.choice([0, 1, 2, 3, 5, 10, 100, 2**31, 2**53, 9223372036854775807]))
    if r < 0.7:
        return lit(rng.choice(WORDS + NUMSTR[:6]))
    if r < 0.85:
        return lit(rng.random() < 0.5)
    if r < 0.95:
        return lit(None)
    return lit(('dur', rng.choice([1, 1000, 60 * 10**9, 3600 * 10**9, 7 * 86400 * 10**9])))


F1_NUM = ['abs', 'ceil', 'floor', 'round', 'sqrt', 'num']
PREDICATES = ['isNull', 'isEmpty', 'isBlank', 'isNumeric']


def num_expr(rng, depth, cols=None):
    if cols is None and rng.random() < 0.04:
        return DATE_EXPR          # a DateTime where a number is expected: must be treated as non-numeric
    if depth <= 0 or rng.random() < 0.3:
        return col_ref(rng, cols or NUM_COLS) if rng.random() < 0.7 else lit(rng.choice([0, 1, 2, 3, 10, 100, 2**62]))
    r = rng.random()
    if r < 0.65:
        return ('ar', rng.choice(['add', 'sub', 'mul', 'div']), num_expr(rng, depth - 1, cols), num_expr(rng, depth - 1, cols))
    if r < 0.8:
        return ('call', rng.choice(F1_NUM), [num_expr(rng, depth - 1, cols)])
    if r < 0.83 and cols is None:
        return ('call', 'parseHex', [col_ref(rng, ['t', 't', 's', 'a'])])
    if r < 0.9:
        return ('if', bool_expr(rng, depth - 1, cols), num_expr(rng, depth - 1, cols), num_expr(rng, depth - 1, cols))
    return ('call', 'length', [col_ref(rng, ['s', 'arr', 'obj', 'k', 'a'])])


def bool_expr(rng, depth, cols=None):
    if depth <= 0 or rng.random() < 0.25:
        r = rng.random()
        if r < 0.6:
            return ('cmp', rng.choice(['eq', 'neq', 'gt', 'lt', 'gte', 'lte']), col_ref(rng, cols), literal(rng))
        if r < 0.8:
            return col('flag')
        return ('call', rng.choice(PREDICATES), [col_ref(rng, cols)])
    r = rng.random()
    if r < 0.35:
        return ('cmp', rng.choice(['eq', 'neq', 'gt', 'lt', 'gte', 'lte']), any_expr(rng, depth - 1, cols), any_expr(rng, depth - 1, cols))
    if r < 0.7:
        return ('lg', rng.choice(['and', 'or']), bool_expr(rng, depth - 1, cols), bool_expr(rng, depth - 1, cols))
    if r < 0.85:
        return ('not', bool_expr(rng, depth - 1, cols))
    if r < 0.93:
        return ('call', 'contains', [col_ref(rng, ['s', 'k', 't']), lit(rng.choice(['a', 'e', 'R', '1', '']))])
    return ('if', bool_expr(rng, depth - 1, cols), bool_expr(rng, depth - 1, cols), bool_expr(rng, depth - 1, cols))


def str_expr(rng, depth, cols=None):
    r = rng.random()
    if depth <= 0 or r < 0.4:
        if cols is None and rng.random() < 0.12:
            return col_ref(rng, ['obj', 'arr'])        # the text of a container: {:?} notation, members in key order
        return col_ref(rng, ['s', 'k', 't']) if rng.random() < 0.7 else lit(rng.choice(WORDS))
    if r < 0.6:
        return ('call', 'concat', [any_expr(rng, depth - 1, ['s', 'k', 'a', 'id', 'flag', 'nope', 'obj', 'arr']) for _ in range(rng.randint(0, 3))])
    if r < 0.8:
        args = [str_expr(rng, depth - 1, cols), lit(rng.choice([0, 1, 2, 5]))]
        if rng.random() < 0.6:
            args.append(lit(rng.choice([0, 1, 3, 8, 100])))
        return ('call', 'substring', args)
    return ('call', rng.choice(['toLowerCase', 'toUpperCase']), [str_expr(rng, depth - 1, cols)])


def any_expr(rng, depth, cols=None):
    r = rng.random()
    if cols is None and r < 0.05:
        d = DATE_EXPR
        k = rng.random()
        if k < 0.3:
            return d
        if k < 0.6:
            return ('ar', rng.choice(['add', 'sub']), d, lit(('dur', rng.choice([1000, 60 * 10**9, 3600 * 10**9, 86400 * 10**9]))))
        if k < 0.8:
            return ('ar', 'sub', d, d)
        return ('cmp', rng.choice(['eq', 'lt', 'gte']), d, d)
    if r < 0.45:
        return num_expr(rng, depth, cols)
    if r < 0.7:
        return bool_expr(rng, depth, cols)
    if r < 0.85:
        return str_expr(rng, depth, cols)
    if r < 0.93:
        return literal(rng)
    return col_ref(rng, cols)


def agg_fn(rng, cols=None, allow_pct=False):
    r = rng.random()
    numc = cols or NUM_COLS
    if cols is None and rng.random() < 0.07:
        # a DateTime argument: not a number, so it must be ignored by the numeric functions (and counted by distinct)
        return (rng.choice(['sum', 'min', 'max', 'avg', 'distinct']), DATE_EXPR)
    if r < 0.25:
        return ('count', None if rng.random() < 0.6 else bool_expr(rng, 1, cols))
    if r < 0.42:
        return ('sum', num_expr(rng, 1, numc))
    if r < 0.55:
        return ('min', num_expr(rng, 1, numc))
    if r < 0.68:
        return ('max', num_expr(rng, 1, numc))
    if r < 0.82:
        return ('avg', num_expr(rng, 1, numc))
    if r < 0.95 or not allow_pct:
        return ('distinct', col_ref(rng, cols))
    return ('pct', rng.choice([50, 90, 99, 1, 25]), num_expr(rng, 0, numc))


def agg_stage(rng, cols=None, allow_pct=False, unique_names=True):
    fns = []
    used = set()
    for _ in range(rng.randint(1, 4)):
        fn = agg_fn(rng, cols, allow_pct)
        name = None
        if rng.random() < 0.35:
            name = rng.choice(['n', 'tot', 'm', 'x1', 'vb'])
        from qast import fn_default_name
        eff = name if name is not None else fn_default_name(fn)
        if unique_names and eff in used:
            continue
        used.add(eff)
        fns.append((name, fn))
    nkeys = rng.choice([0, 1, 1, 1, 2, 3])
    keys = []
    kc = cols or ['k', 'g', 'flag', 'a', 's', 'nope']
    seen = set()
    for _ in range(nkeys):
        r = rng.random()
        if r < 0.75:
            e = col(rng.choice(kc))
        elif r < 0.85:
            e = ('cmp', 'gte', col('a'), lit(3))
        elif r < 0.92:
            e = ('ar', 'add', col('a'), col('g'))
        else:
            e = col_ref(rng, ['arr', 'obj'])
        from qast import expr_text
        h = expr_text(e)
        if h in seen or h in used:
            continue
        seen.add(h)
        keys.append((None, e))
    return ('agg', fns, keys)


def agg_columns(stage):
    from qast import fn_default_name, expr_text
    return [expr_text(e) for _h, e in stage[2]] + [(n if n is not None else fn_default_name(fn)) for n, fn in stage[1]]


def inline_stage(rng, cols=None, after_agg=False):
    """a stateless or stateful row operator that makes sense on parsed rows"""
    r = rng.random()
    if r < 0.25:
        return ('where', bool_expr(rng, 2, cols))
    if r < 0.45:
        return ('let', any_expr(rng, 2, cols), rng.choice(['r', 'r2', 'a', 'k', 'new col', 'as_y', 'sorted', 'only_x']))
    if r < 0.58:
        names = cols or (ANY_COLS + rng.sample(TRICKY, 4))
        return ('fields', rng.choice(['only', 'except']), rng.sample(names, rng.randint(1, min(3, len(names)))))
    if r < 0.72:
        return ('limit', rng.choice([1, 2, 3, 5, -1, -2, -4, None]))
    if r < 0.84:
        return ('total', num_expr(rng, 1, cols or NUM_COLS), rng.choice([None, 'run']))
    if r < 0.90:
        out = rng.choice([None, col('parts'), col('parts')])
        if cols is None and rng.random() < 0.3:
            # a path into an existing container as the target: in range, negative, and out of range either way
            out = rng.choice([col('arr', ('ix', rng.choice([0, 1, -1, 2, 3, -2, -4, -5, 4, 7, 99]))), col('obj', ('k', rng.choice(['p', 'q', 'zz']))),
                              col('obj', ('k', 'q'), ('ix', rng.choice([0, -1, 1, 5, -3]))), col('nope', ('k', 'x'))])
        return ('split', rng.choice([None, ' ', 'a', ', ']), col_ref(rng, ['s', 't', 'k']), out)
    if r < 0.95 and cols is None:
        # timestamps come in any order: the slice of a row depends on that row alone
        return ('timeslice', DATE_EXPR, rng.choice([60, 300, 3600, 86400]) * 10**9, rng.choice([None, 'slice']))
    return ('json', col_ref(rng, ['s', 't', 'nope']))


def sort_stage(rng, cols=None):
    c = cols or ['a', 'b', 'g', 'k', 's', 'id', 'flag', 'descr', 'asc_col', 'by_x']
    keys = [col(rng.choice(c)) if rng.random() < 0.85 else num_expr(rng, 1, NUM_COLS) for _ in range(rng.randint(1, 3))]
    return ('sort', keys, rng.choice([None, 'asc', 'desc']))
