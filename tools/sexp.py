"""S-expressions exchanged with the extracted Coq model (modelrun).

atom  ::= bare token | "quoted string" with escapes \\\\ \\" \\n \\t \\r \\u{HEX}
A parsed s-expression is a Python list (SList), a `Sym` (bare atom) or a `str`
(quoted atom).
"""


class Sym(str):
    """bare atom"""
    __slots__ = ()

    def __repr__(self):
        return "Sym(%s)" % str.__repr__(self)


def quote(s):
    out = ['"']
    for ch in s:
        c = ord(ch)
        if ch == '"':
            out.append('\\"')
        elif ch == '\\':
            out.append('\\\\')
        elif c < 32 or c == 127 or 0xD800 <= c <= 0xDFFF or c in (0x85, 0x2028, 0x2029):
            out.append('\\u{%x}' % c)
        else:
            out.append(ch)
    out.append('"')
    return ''.join(out)


def dumps(x):
    if isinstance(x, Sym):
        return str(x)
    if isinstance(x, str):
        return quote(x)
    if isinstance(x, bool):
        return 't' if x else 'f'
    if isinstance(x, int):
        return str(x)
    if isinstance(x, (list, tuple)):
        return '(' + ' '.join(dumps(y) for y in x) + ')'
    raise TypeError(repr(x))


def loads(text):
    pos = 0
    n = len(text)

    def skip():
        nonlocal pos
        while pos < n and text[pos] in ' \t':
            pos += 1

    def value():
        nonlocal pos
        skip()
        if pos >= n:
            raise ValueError('eof')
        c = text[pos]
        if c == '(':
            pos += 1
            items = []
            while True:
                skip()
                if pos >= n:
                    raise ValueError('eof in list')
                if text[pos] == ')':
                    pos += 1
                    return items
                items.append(value())
        if c == '"':
            pos += 1
            out = []
            while True:
                if pos >= n:
                    raise ValueError('eof in string')
                c = text[pos]
                if c == '"':
                    pos += 1
                    return ''.join(out)
                if c == '\\':
                    e = text[pos + 1]
                    pos += 2
                    if e == 'n':
                        out.append('\n')
                    elif e == 't':
                        out.append('\t')
                    elif e == 'r':
                        out.append('\r')
                    elif e == 'u':
                        assert text[pos] == '{'
                        j = text.index('}', pos)
                        out.append(chr(int(text[pos + 1:j], 16)))
                        pos = j + 1
                    else:
                        out.append(e)
                else:
                    out.append(c)
                    pos += 1
        if c == ')':
            raise ValueError('unexpected )')
        j = pos
        while j < n and text[j] not in ' \t()"':
            j += 1
        tok = text[pos:j]
        pos = j
        return Sym(tok)

    v = value()
    skip()
    if pos < n:
        raise ValueError('trailing input at %d' % pos)
    return v
