#!/bin/bash
# background sweep: the thorough exploration of every property (no clean rebuild / coqchk), evidence under build/
cd /verif
export AGV_DEEP_ONLY=1 AGV_EVIDENCE_DIR=/verif/build/deep-evidence
for p in "$@"; do
  /usr/bin/time -f "$p %es" timeout 7200 bin/agv check $p --tier thorough 2>&1 | grep -E "^(VIOLATION|KNOWN|C[0-9]+ )|thorough:|[0-9]s$" | cut -c1-400
done
