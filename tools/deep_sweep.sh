#!/bin/bash
# background sweep: the thorough exploration of every property (no clean rebuild / coqchk), evidence under build/.
# With MV=/path/to/verif-clone MR=/path/to/repo-worktree it runs on scratch copies, so that work in /verif and /repo
# (building, applying seeds, committing fixes) cannot disturb it -- and it cannot disturb them.
MV=${MV:-/verif}; MR=${MR:-/repo}
cd $MV
export AG_REPO=$MR AGV_DEEP_ONLY=1 AGV_EVIDENCE_DIR=$MV/build/deep-evidence
for p in "$@"; do
  /usr/bin/time -f "$p %es" timeout 7200 bin/agv check $p --tier thorough 2>&1 | grep -E "^(VIOLATION|KNOWN|C[0-9]+ )|thorough:|[0-9]s$" | cut -c1-400
done
