#!/usr/bin/env python3
"""scratch tool: random pipelines through implementation and model, print disagreements"""
import random
import sys
import os
sys.path.insert(0, os.path.dirname(os.path.abspath(__file__)))
import aglib, gen, qast
from runner import Case, run_cases
from props.common import STAR

seed = int(sys.argv[1]) if len(sys.argv) > 1 else 1
n = int(sys.argv[2]) if len(sys.argv) > 2 else 300
kind = sys.argv[3] if len(sys.argv) > 3 else 'pipe'
rng = random.Random(seed)
aglib.build_impl(); aglib.build_model()
cases = []
for i in range(n):
    rows = gen.gen_rows(rng, rng.randint(0, 12), rich=(kind != 'simple'))
    lines = [gen.jtext(r, rng) for r in rows]
    if rng.random() < 0.1:
        lines.insert(rng.randint(0, len(lines)), 'not json\n')
    stages = [('json', None)]
    cols = None
    for _ in range(rng.randint(1, 5)):
        r = rng.random()
        if r < 0.6:
            stages.append(gen.inline_stage(rng, cols))
        elif r < 0.85:
            st = gen.agg_stage(rng, cols)
            if not st[1]:
                continue
            stages.append(st)
            cols = gen.agg_columns(st)
        else:
            stages.append(gen.sort_stage(rng, cols))
    try:
        cases.append(Case('r%d' % i, STAR, stages, lines))
    except ValueError:
        pass
res = run_cases(cases)
kinds = {}
bad = 0
for r in res:
    k = (r['impl']['kind'], r['model']['kind'])
    kinds[k] = kinds.get(k, 0) + 1
    if r['corr']:
        bad += 1
        if bad <= int(os.environ.get('SHOW', '5')):
            print('---', r['case'].query)
            print('   input:', r['case'].lines)
            print('   ', r['corr'][:1500])
print(kinds, 'disagreements', bad, 'of', len(res))
