#!/usr/bin/env python3
"""sanity check before committing: every evidence file is a clean record of a quick run on the unchanged tree,
MANIFEST.json and the evidence files validate against the schemas"""
import glob
import json
import os
import subprocess
import sys

HERE = os.path.dirname(os.path.dirname(os.path.abspath(__file__)))
bad = 0
for f in sorted(glob.glob(os.path.join(HERE, 'evidence', 'C*.json'))):
    j = json.load(open(f))
    c = j['coverage']
    if not (c['discharged'] == c['obligations'] >= 1 and j['violations'] == 0 and c.get('evaluations', 0) > 0):
        print('BAD evidence', f, c['obligations'], c['discharged'], j['violations'])
        bad += 1
m = json.load(open(os.path.join(HERE, 'MANIFEST.json')))
ids = [c['property_id'] for c in m['checks']] + [n['property_id'] for n in m['not_applicable']]
if sorted(ids) != ['C%02d' % i for i in range(1, 21)]:
    print('BAD manifest: properties', ids)
    bad += 1
code = '''
import json, sys, jsonschema
m = json.load(open(sys.argv[1])); jsonschema.validate(m, json.load(open('/root/.vp/MANIFEST.schema.json')))
import glob
s = json.load(open('/root/.vp/EVIDENCE.schema.json'))
for f in glob.glob(sys.argv[2] + '/C*.json'):
    jsonschema.validate(json.load(open(f)), s)
print('schemas ok')
'''
r = subprocess.run(['python3-vt', '-c', code, os.path.join(HERE, 'MANIFEST.json'), os.path.join(HERE, 'evidence')], capture_output=True, text=True)
print((r.stdout + r.stderr).strip()[-600:])
if r.returncode != 0:
    bad += 1
st = subprocess.run(['git', '-C', '/repo', 'status', '--short'], capture_output=True, text=True).stdout.strip()
if st:
    print('NOTE: /repo working tree is not clean:', st[:200])
sys.exit(1 if bad else 0)
