#!/bin/bash
# usage: seed_verify.sh Cxx [name]   — confirm a seeded change in its scratch worktree /tmp/seed/Cxx
# (tests pass with the change, demo fails with it and passes without), then store it under /verif/seeded/<name>/
set -u
export SEED_ROOT=${SEED_ROOT:-/tmp/seed}
P=$1; NAME=${2:-$1}
R=${SEED_ROOT:-/tmp/seed}
D=$R/$P
export CARGO_NET_OFFLINE=true RUST_BACKTRACE=0 CARGO_TARGET_DIR=$D/target
cd $D || exit 2
git diff -- src Cargo.toml > $R/$P.check.diff
# the delivered patch.diff is what gets tested and stored: the worktree is reset to HEAD and the patch applied afresh
# (worktrees of one repository share `git stash`, so a worktree may hold another agent's change)
if ! diff -q $R/$P.check.diff $D/seed_out/patch.diff >/dev/null; then echo "NOTE: patch.diff differs from the worktree diff; testing patch.diff on a clean worktree"; fi
git checkout -- . && git apply $D/seed_out/patch.diff || { echo "patch.diff does not apply to HEAD"; exit 1; }
cargo build --offline >/dev/null 2>&1 || { echo "BUILD FAILED"; exit 1; }
bash $D/seed_out/demo.sh $D/target/debug/agrind >/dev/null 2>&1; CH=$?
bash $D/seed_out/demo.sh /verif/build/target-repo/debug/agrind >/dev/null 2>&1; OR=$?
T=$(cargo test --offline 2>&1 | grep "^test result" | awk '{p+=$4; f+=$6} END {print p" passed "f" failed"}')
echo "$P: demo original=$OR changed=$CH tests: $T"
if [ "$OR" = 0 ] && [ "$CH" != 0 ] && [ "$T" = "179 passed 0 failed" ]; then
  mkdir -p /verif/seeded/$NAME
  cp $D/seed_out/patch.diff $D/seed_out/demo.sh /verif/seeded/$NAME/
  python3 - "$P" "$NAME" "$OR" "$CH" "$T" <<'PY'
import json,sys
p,name,orr,ch,t=sys.argv[1:6]
import os
m=json.load(open('%s/%s/seed_out/meta.json'%(os.environ.get('SEED_ROOT','/tmp/seed'),p)))
m.update({'property':p,'confirmed':{'demo_exit_original_binary':int(orr),'demo_exit_changed_binary':int(ch),'cargo_test_with_change':t,
  'how':'tools/seed_verify.sh: built the change in a scratch worktree outside /repo and /verif, ran demo.sh against it and against the binary built from /repo HEAD, ran cargo test --offline with the change'}})
json.dump(m,open('/verif/seeded/%s/meta.json'%name,'w'),indent=1)
PY
  echo "stored /verif/seeded/$NAME"
else
  echo "NOT CONFIRMED"
fi
