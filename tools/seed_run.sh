#!/bin/bash
# usage: seed_run.sh <seed name> <property ids...> — apply a seeded change to /repo, run the quick checks, undo it
set -u
S=$1; shift
cd /verif
export AGV_EVIDENCE_DIR=/verif/build/seed-evidence   # never overwrite the committed evidence with a run against a seeded tree
git -C /repo apply /verif/seeded/$S/patch.diff || { echo "patch does not apply"; exit 2; }
for p in "$@"; do
  out=$(bin/agv check $p --tier quick 2>/dev/null | grep -E "^VIOLATION" | head -1)
  echo "seed=$S check=$p -> ${out:-quiet}"
done
git -C /repo checkout -- .
git -C /repo status --short | head -3
