"""Generic check flow (DESIGN 2.7): proof obligations, known findings,
corpus + generated cases through implementation and model, verdict, evidence."""
import importlib
import json
import os
import random
import subprocess
import sys
import time
import traceback

import aglib
import qast
import sexp
from aglib import log


class Case(object):
    """one differential case: a query AST + input lines"""

    def __init__(self, cid, filt, stages, lines, tags=(), mode='json', note=None):
        self.cid = cid
        self.filt = filt
        self.stages = stages
        self.lines = lines        # list of str, each normally ending in \n
        self.tags = set(tags)
        self.mode = mode
        self.note = note
        self.query = qast.query_text(filt, stages)
        self.inp = ''.join(lines).encode('utf8')

    def sexp(self):
        return qast.case_sexp(self.filt, self.stages, self.lines)

    def to_json(self):
        return {'id': self.cid, 'query': self.query, 'input': self.lines, 'mode': self.mode,
                'filter': self.filt, 'stages': self.stages, 'tags': sorted(self.tags), 'note': self.note}


def case_from_json(d):
    def tup(x):
        if isinstance(x, list):
            return [tup(y) for y in x]
        return x

    def fix(x):
        # json turns tuples into lists; ASTs are positional so lists work too
        if isinstance(x, list):
            return tuple(fix(y) for y in x) if x and isinstance(x[0], str) and not all(isinstance(y, str) for y in x[1:2]) else [fix(y) for y in x]
        return x
    return Case(d['id'], d['filter'], d['stages'], d['input'], d.get('tags', ()), d.get('mode', 'json'), d.get('note'))


def compare_default(case, impl, model):
    """default equivalence: same kind, same stderr error-line count, same rows in order,
    same columns (for tables with at least one row)"""
    if model['kind'] in ('unm', 'driver-error', 'bad-case'):
        return None
    if model['kind'] == 'reject':
        return None if impl['kind'] == 'reject' else 'model rejects the query statically, implementation %s' % impl['kind']
    if model['kind'] == 'panic':
        return None if impl['kind'] == 'crash' else 'model predicts a panic, implementation %s' % impl['kind']
    if impl['kind'] != model['kind']:
        return 'outcome kind: implementation %s, model %s' % (impl['kind'], model['kind'])
    if impl.get('err') != model.get('err'):
        return 'error lines on stderr: implementation %s, model %s' % (impl.get('err'), model.get('err'))
    if len(impl['rows']) != len(model['rows']):
        return 'row count: implementation %d, model %d' % (len(impl['rows']), len(model['rows']))
    for i, (a, b) in enumerate(zip(impl['rows'], model['rows'])):
        if model['kind'] == 'table':
            # a table row printed by -o json carries every column (missing cell = null)
            b = {c: b.get(c) for c in model['cols']}
        if not aglib.same(a, b):
            return 'row %d differs: implementation %r, model %r' % (i, a, b)
    if model['kind'] == 'table' and impl['rows'] and impl.get('cols') is not None:
        if impl['cols'] != model['cols']:
            return 'columns: implementation %r, model %r' % (impl['cols'], model['cols'])
    return None


def run_cases(cases, compare=compare_default, binary=None):
    """returns list of dict(case, impl, model, corr)"""
    jobs = [(c.query, c.inp, c.mode, ()) for c in cases]
    t0 = time.time()
    impl_raw = aglib.run_impl_many(jobs, binary=binary)
    t1 = time.time()
    model_raw = aglib.run_model_many([c.sexp() for c in cases])
    t2 = time.time()
    out = []
    for c, ir, mr in zip(cases, impl_raw, model_raw):
        impl = aglib.parse_impl_json(ir, aglib.is_agg_query(c.stages))
        model = aglib.parse_model_result(mr)
        out.append({'case': c, 'impl': impl, 'model': model, 'corr': compare(c, impl, model)})
    log('  ran %d cases: implementation %.1fs, model %.1fs' % (len(cases), t1 - t0, t2 - t1))
    return out


def replay_units(x, out):
    """every dict of a replay file that names a query (or a command line) is one unit to run again"""
    if isinstance(x, dict):
        if isinstance(x.get('query'), str) or isinstance(x.get('args'), list):
            out.append(x)
        else:
            for v in x.values():
                replay_units(v, out)
    elif isinstance(x, list):
        for y in x:
            replay_units(y, out)
    return out


def unit_run(u):
    """run the implementation on what a replay unit records -> (result dict, text describing the command) or None"""
    q = u.get('query')
    lines = u.get('input_lines')
    if isinstance(u.get('input'), str):
        lines = [u['input']]
    elif isinstance(u.get('input'), list):
        lines = u['input']
    lines = [l for l in (lines or []) if isinstance(l, str) and l != '...']
    inp = ''.join(lines).encode('utf8')
    mode = u.get('mode') or u.get('output_mode') or 'json'
    if not isinstance(mode, str) or mode in ('legacy', 'text'):
        mode = None
    if q is None:
        if not isinstance(u.get('args'), list):
            return None
        p = subprocess.run([aglib.AGRIND] + [str(a) for a in u['args']], input=inp, stdout=subprocess.PIPE, stderr=subprocess.PIPE, env=aglib.ENV, timeout=60)
        return {'rc': p.returncode, 'out': p.stdout, 'err': p.stderr, 'timed_out': False}, 'agrind %s' % ' '.join(repr(str(a)) for a in u['args'])
    extra = ()
    if isinstance(u.get('args'), list):          # a recorded command line: the options as they were
        mode, extra = None, [str(a) for a in u['args']]
    o = aglib.run_impl_one(q, inp, mode, extra)
    return o, 'query: %s   (%d input lines, %s)' % (q, len(lines), ('-o ' + mode) if mode else ' '.join(extra) or 'default output')


def observe(payload):
    """what the implementation prints on the recorded input at the time of the failure: a later --replay compares with it"""
    try:
        if isinstance(payload, dict) and isinstance(payload.get('query'), str) and 'witness' not in payload and 'observed_stdout' not in payload \
                and (payload.get('input_lines') is not None or payload.get('input') is not None):
            r = unit_run(payload)
            if r and not r[0]['timed_out']:
                payload = dict(payload)
                payload['observed_stdout'] = r[0]['out'].decode('utf8', 'replace')[:20000]
                payload['observed_rc'] = r[0]['rc']
    except Exception:
        pass
    return payload


def replay_file(pid, path):
    """bin/agv check Cnn --replay FILE: run what the file recorded against the binary built from /repo as it is now
    (and against the model, when the file carries the model's case); exit 1 when the recorded failure shows again"""
    import regress
    from props.common import compare_with_pct
    j = json.load(open(path))
    print('replay of %s: %s' % (path, j.get('kind', '')), flush=True)
    if j.get('what'):
        print('  recorded: %s' % str(j['what'])[:600])
    if j.get('broken_theorem_or_file'):
        print('  recorded proof break: %s' % str(j['broken_theorem_or_file'])[:600])
        hyg = aglib.hygiene()
        proof = aglib.check_property_file(pid)
        if hyg or not proof['ok']:
            print('  the property file still does not check: %s' % (hyg or proof.get('broken') or proof.get('bad_axioms')))
            print('VIOLATION property=%s replay=%s no-failing-input-found' % (pid, path), flush=True)
            return 1
        print('  the property file checks now (%s statements)' % proof['obligations'])
    again = 0
    undecided = 0
    units = replay_units({k: v for k, v in j.items() if k != 'run'}, [])
    for n, u in enumerate(units):
        q = u.get('query')
        wid = u.get('witness')
        if wid:
            w = [w for w in regress.W if w['id'] == wid]
            why = regress.run_witness(w[0]) if w else 'witness %s is no longer in tools/regress.py' % wid
            print('  [%d] regression witness %s: %s' % (n, wid, why or 'passes now'))
            again += 1 if why else 0
            continue
        r = unit_run(u)
        if r is None:
            continue
        o, descr = r
        print('  [%d] %s' % (n, descr))
        out = o['out'].decode('utf8', 'replace')
        print('      now: rc=%s%s stdout=%r stderr=%r' % (o['rc'], ' TIMED OUT' if o['timed_out'] else '', out[:400], o['err'].decode('utf8', 'replace')[-300:]))
        decided = False
        if 'observed_stdout' in u and 'expected_stdout' not in u:
            decided = True
            if out[:20000] == u['observed_stdout'] and o['rc'] == u.get('observed_rc'):
                print('      exactly what was observed when the failure was recorded')
                again += 1
            else:
                print('      differs from what was observed when the failure was recorded (rc=%s stdout=%r)' % (u.get('observed_rc'), u['observed_stdout'][:300]))
        if 'expected_stdout' in u:
            decided = True
            if out[:2000] != u['expected_stdout']:
                print('      still not the expected output %r' % u['expected_stdout'][:400])
                again += 1
            else:
                print('      the expected output')
        if isinstance(u.get('model_case'), str) and q is not None:
            decided = True
            mr = aglib.run_model_many([u['model_case']])[0]
            model = aglib.parse_model_result(mr)
            impl = aglib.parse_impl_json(o, any(isinstance(st, list) and st and str(st[0]) in ('agg', 'sort') for st in sexp.loads(u['model_case'])[2]))
            why = compare_with_pct(None, impl, model)
            if why:
                print('      model and implementation still differ: %s' % why)
                again += 1
            else:
                print('      model and implementation agree')
        if not decided:
            undecided += 1
            print('      (no recorded expectation to compare with: judge from the description above, or run the check itself: %s)'
                  % (j.get('run') or {}).get('how', 'bin/agv check %s' % pid))
    if not units:
        print('  the file names no single input (a history or a schedule): run %s' % (j.get('run') or {}).get('how', 'bin/agv check %s' % pid))
    if again:
        print('VIOLATION property=%s replay=%s%s' % (pid, path, '' if j.get('kind') == 'concrete failing input' else ' no-failing-input-found'), flush=True)
        return 1
    print('replay: nothing recorded in the file fails now (%d unit(s), %d without a recorded expectation)' % (len(units), undecided), flush=True)
    return 0


def main(pid, tier, seed, replay=None):
    t_start = time.time()
    mod = importlib.import_module('props.' + pid.lower())
    rng = random.Random((seed * 1000003) ^ hash(pid) % 100000 ^ int(pid[1:]))
    violations = []
    known_lines = []
    coverage = {}
    assumptions = list(getattr(mod, 'ASSUMPTIONS', []))

    # 1. proof obligations (Generated.v is re-extracted from the source first).  Steps 1 and 2 write shared files
    # (Generated.v, .vo files, the two binaries): concurrent checks take turns here, explorations run side by side.
    import fcntl
    os.makedirs(aglib.BUILD, exist_ok=True)
    lockf = open(os.path.join(aglib.BUILD, '.agv.lock'), 'w')
    fcntl.flock(lockf, fcntl.LOCK_EX)
    stale = aglib.regen_facts()
    coverage['facts_stale'] = stale
    deep_only = bool(os.environ.get('AGV_DEEP_ONLY'))      # exploration depth of the thorough tier without the clean rebuild + coqchk
    if tier == 'thorough' and not deep_only:
        aglib.sh(['make', 'clean'], cwd=aglib.COQ, check=False)
    hyg = aglib.hygiene()
    proof = aglib.check_property_file(pid)
    proof_ok = proof['ok'] and not hyg
    coverage.update({
        'obligations': proof['obligations'], 'discharged': proof['discharged'],
        'theorems': proof.get('names', []),
        'checker_cmd': 'make -C coq theories/Properties/%s.vo && coqc -Q theories AG theories/Properties/%s.v (Coq 8.16.1 kernel; Print Assumptions under every theorem)' % (pid, pid),
        'axioms_reported': proof.get('axioms', []),
        'trusted_base': getattr(mod, 'TRUSTED_BASE', []) + aglib_trusted_base(),
        'hygiene_problems': hyg,
    })
    if tier == 'thorough' and proof_ok and not deep_only:
        rc, chk = aglib.coqchk(pid)
        coverage['coqchk'] = chk[-1500:]
        if rc != 0:
            proof_ok = False
            proof['broken'] = 'coqchk rejected the compiled development'
            proof['log'] = chk[-1500:]
    if not proof_ok:
        why = hyg or proof.get('bad_axioms') or proof.get('broken') or 'proof check failed'
        log('PROOF BREAK for %s: %s\n%s' % (pid, why, proof.get('log', '')[-1500:]))

    # 2. builds
    aglib.build_impl()
    if tier == 'thorough' and getattr(mod, 'NEEDS_RELEASE', False):
        aglib.build_impl(release=True)
    aglib.build_model()
    fcntl.flock(lockf, fcntl.LOCK_UN)
    lockf.close()

    aglib.REPLAY_META.update({'verif_seed': seed, 'tier': tier, 'how': 'VERIF_SEED=%s bin/agv check %s --tier %s' % (seed, pid, tier)})
    if replay:
        return replay_file(pid, replay)

    # 3..5 property specific exploration
    from props.common import replay_known
    kl, kclasses = replay_known(pid)
    known_lines.extend(kl)
    ctx = {'pid': pid, 'tier': tier, 'seed': seed, 'rng': rng, 'replay': replay, 'known_classes': kclasses}
    import regress
    n_fixed, fixed_fail = regress.replay_fixed(pid)
    import corpus
    n_corpus, corpus_fail = corpus.replay(pid)
    fixed_fail = fixed_fail + corpus_fail
    try:
        res = mod.explore(ctx)
    except Exception:                      # the harness could not interpret what the implementation did
        import traceback
        tb = traceback.format_exc()
        log('exploration aborted:\n' + tb)
        res = {'coverage': {'evaluations': 0, 'distinct_nontrivial': 0, 'rule': 'exploration aborted by an exception in the harness'},
               'failures': [{'kind': 'corr', 'what': 'the harness could not interpret the behaviour of the implementation', 'payload': {'traceback': tb[-3000:]}}]}
    coverage.update(res['coverage'])
    coverage['fixed_witnesses_replayed'] = n_fixed
    coverage['regression_corpus_cases_replayed'] = n_corpus
    failures = fixed_fail + res['failures']          # list of dict(kind='spec'|'corr', what, case/replay payload, known=None|id)
    for line in res.get('known_lines', []):
        if line not in known_lines:
            known_lines.append(line)

    spec_fail = [f for f in failures if f['kind'] == 'spec' and not f.get('known')]
    corr_fail = [f for f in failures if f['kind'] == 'corr' and not f.get('known')]
    out_lines = []
    for kl in known_lines:
        out_lines.append('KNOWN-FINDING: property=%s %s' % (pid, kl))
    if spec_fail:
        f = spec_fail[0]
        path = aglib.write_replay(pid, {'property': pid, 'kind': 'concrete failing input', 'what': f['what'],
                                        'replay': observe(f['payload']), 'more': len(spec_fail) - 1})
        out_lines.append('VIOLATION property=%s replay=%s' % (pid, path))
        violations.append(f['what'])
    elif corr_fail or not proof_ok:
        payload = {'property': pid, 'kind': 'proof or correspondence no longer checks',
                   'proof_ok': proof_ok,
                   'broken_theorem_or_file': None if proof_ok else (proof.get('broken') or proof.get('bad_axioms') or hyg),
                   'proof_log_tail': None if proof_ok else proof.get('log', '')[-1500:],
                   'correspondence': [dict(what=f['what'], replay=f['payload']) for f in corr_fail[:5]],
                   'search': res.get('search_note', 'directed search around the disagreeing cases found no input on which the property itself fails')}
        path = aglib.write_replay(pid, payload)
        out_lines.append('VIOLATION property=%s replay=%s no-failing-input-found' % (pid, path))
        violations.append('proof/correspondence break')
    coverage['known_findings_reported'] = known_lines
    wall = time.time() - t_start
    aglib.write_evidence(pid, tier, seed, coverage, wall, len(violations), assumptions)
    for l in out_lines:
        print(l, flush=True)
    log('%s %s: %s in %.1fs' % (pid, tier, 'VIOLATION' if violations else 'ok', wall))
    return 1 if violations else 0


def aglib_trusted_base():
    return [
        'Coq 8.16.1 kernel (coqc); vm_compute used only inside closed Examples; no native_compute',
        'Coq extraction to OCaml with ExtrOcamlBasic only (no Extract Constant / Extract Inductive of our own), OCaml 4.13.1, modelrun/driver.ml',
        'correspondence check: tools/*.py generators, the -o json parser and comparator; the model is hand-written, not generated from the Rust source',
        'rustc/cargo build of /repo working tree; dependencies (regex, serde_json, chrono, im, ordered-float, crossbeam) are modelled by their documented behaviour, not verified',
    ]
