"""Generic check flow (DESIGN 2.7): proof obligations, known findings,
corpus + generated cases through implementation and model, verdict, evidence."""
import importlib
import json
import os
import random
import sys
import time
import traceback

import aglib
import qast
from aglib import log


class Case(object):
    """one differential case: a query AST + input lines"""

    def __init__(self, cid, filt, stages, lines, tags=(), mode='json', note=None):
        self.cid = cid
        self.filt = filt
        self.stages = stages
        self.lines = lines        # list of str, each normally ending in \n
        self.tags = set(tags)
        self.mode = mode
        self.note = note
        self.query = qast.query_text(filt, stages)
        self.inp = ''.join(lines).encode('utf8')

    def sexp(self):
        return qast.case_sexp(self.filt, self.stages, self.lines)

    def to_json(self):
        return {'id': self.cid, 'query': self.query, 'input': self.lines, 'mode': self.mode,
                'filter': self.filt, 'stages': self.stages, 'tags': sorted(self.tags), 'note': self.note}


def case_from_json(d):
    def tup(x):
        if isinstance(x, list):
            return [tup(y) for y in x]
        return x

    def fix(x):
        # json turns tuples into lists; ASTs are positional so lists work too
        if isinstance(x, list):
            return tuple(fix(y) for y in x) if x and isinstance(x[0], str) and not all(isinstance(y, str) for y in x[1:2]) else [fix(y) for y in x]
        return x
    return Case(d['id'], d['filter'], d['stages'], d['input'], d.get('tags', ()), d.get('mode', 'json'), d.get('note'))


def compare_default(case, impl, model):
    """default equivalence: same kind, same stderr error-line count, same rows in order,
    same columns (for tables with at least one row)"""
    if model['kind'] in ('unm', 'driver-error', 'bad-case'):
        return None
    if model['kind'] == 'reject':
        return None if impl['kind'] == 'reject' else 'model rejects the query statically, implementation %s' % impl['kind']
    if model['kind'] == 'panic':
        return None if impl['kind'] == 'crash' else 'model predicts a panic, implementation %s' % impl['kind']
    if impl['kind'] != model['kind']:
        return 'outcome kind: implementation %s, model %s' % (impl['kind'], model['kind'])
    if impl.get('err') != model.get('err'):
        return 'error lines on stderr: implementation %s, model %s' % (impl.get('err'), model.get('err'))
    if len(impl['rows']) != len(model['rows']):
        return 'row count: implementation %d, model %d' % (len(impl['rows']), len(model['rows']))
    for i, (a, b) in enumerate(zip(impl['rows'], model['rows'])):
        if model['kind'] == 'table':
            # a table row printed by -o json carries every column (missing cell = null)
            b = {c: b.get(c) for c in model['cols']}
        if not aglib.same(a, b):
            return 'row %d differs: implementation %r, model %r' % (i, a, b)
    if model['kind'] == 'table' and impl['rows'] and impl.get('cols') is not None:
        if impl['cols'] != model['cols']:
            return 'columns: implementation %r, model %r' % (impl['cols'], model['cols'])
    return None


def run_cases(cases, compare=compare_default, binary=None):
    """returns list of dict(case, impl, model, corr)"""
    jobs = [(c.query, c.inp, c.mode, ()) for c in cases]
    t0 = time.time()
    impl_raw = aglib.run_impl_many(jobs, binary=binary)
    t1 = time.time()
    model_raw = aglib.run_model_many([c.sexp() for c in cases])
    t2 = time.time()
    out = []
    for c, ir, mr in zip(cases, impl_raw, model_raw):
        impl = aglib.parse_impl_json(ir, aglib.is_agg_query(c.stages))
        model = aglib.parse_model_result(mr)
        out.append({'case': c, 'impl': impl, 'model': model, 'corr': compare(c, impl, model)})
    log('  ran %d cases: implementation %.1fs, model %.1fs' % (len(cases), t1 - t0, t2 - t1))
    return out


def main(pid, tier, seed, replay=None):
    t_start = time.time()
    mod = importlib.import_module('props.' + pid.lower())
    rng = random.Random((seed * 1000003) ^ hash(pid) % 100000 ^ int(pid[1:]))
    violations = []
    known_lines = []
    coverage = {}
    assumptions = list(getattr(mod, 'ASSUMPTIONS', []))

    # 1. proof obligations (Generated.v is re-extracted from the source first).  Steps 1 and 2 write shared files
    # (Generated.v, .vo files, the two binaries): concurrent checks take turns here, explorations run side by side.
    import fcntl
    os.makedirs(aglib.BUILD, exist_ok=True)
    lockf = open(os.path.join(aglib.BUILD, '.agv.lock'), 'w')
    fcntl.flock(lockf, fcntl.LOCK_EX)
    stale = aglib.regen_facts()
    coverage['facts_stale'] = stale
    deep_only = bool(os.environ.get('AGV_DEEP_ONLY'))      # exploration depth of the thorough tier without the clean rebuild + coqchk
    if tier == 'thorough' and not deep_only:
        aglib.sh(['make', 'clean'], cwd=aglib.COQ, check=False)
    hyg = aglib.hygiene()
    proof = aglib.check_property_file(pid)
    proof_ok = proof['ok'] and not hyg
    coverage.update({
        'obligations': proof['obligations'], 'discharged': proof['discharged'],
        'theorems': proof.get('names', []),
        'checker_cmd': 'make -C coq theories/Properties/%s.vo && coqc -Q theories AG theories/Properties/%s.v (Coq 8.16.1 kernel; Print Assumptions under every theorem)' % (pid, pid),
        'axioms_reported': proof.get('axioms', []),
        'trusted_base': getattr(mod, 'TRUSTED_BASE', []) + aglib_trusted_base(),
        'hygiene_problems': hyg,
    })
    if tier == 'thorough' and proof_ok and not deep_only:
        rc, chk = aglib.coqchk(pid)
        coverage['coqchk'] = chk[-1500:]
        if rc != 0:
            proof_ok = False
            proof['broken'] = 'coqchk rejected the compiled development'
            proof['log'] = chk[-1500:]
    if not proof_ok:
        why = hyg or proof.get('bad_axioms') or proof.get('broken') or 'proof check failed'
        log('PROOF BREAK for %s: %s\n%s' % (pid, why, proof.get('log', '')[-1500:]))

    # 2. builds
    aglib.build_impl()
    if tier == 'thorough' and getattr(mod, 'NEEDS_RELEASE', False):
        aglib.build_impl(release=True)
    aglib.build_model()
    fcntl.flock(lockf, fcntl.LOCK_UN)
    lockf.close()

    # 3..5 property specific exploration
    from props.common import replay_known
    kl, kclasses = replay_known(pid)
    known_lines.extend(kl)
    ctx = {'pid': pid, 'tier': tier, 'seed': seed, 'rng': rng, 'replay': replay, 'known_classes': kclasses}
    import regress
    n_fixed, fixed_fail = regress.replay_fixed(pid)
    import corpus
    n_corpus, corpus_fail = corpus.replay(pid)
    fixed_fail = fixed_fail + corpus_fail
    try:
        res = mod.explore(ctx)
    except Exception:                      # the harness could not interpret what the implementation did
        import traceback
        tb = traceback.format_exc()
        log('exploration aborted:\n' + tb)
        res = {'coverage': {'evaluations': 0, 'distinct_nontrivial': 0, 'rule': 'exploration aborted by an exception in the harness'},
               'failures': [{'kind': 'corr', 'what': 'the harness could not interpret the behaviour of the implementation', 'payload': {'traceback': tb[-3000:]}}]}
    coverage.update(res['coverage'])
    coverage['fixed_witnesses_replayed'] = n_fixed
    coverage['regression_corpus_cases_replayed'] = n_corpus
    failures = fixed_fail + res['failures']          # list of dict(kind='spec'|'corr', what, case/replay payload, known=None|id)
    for line in res.get('known_lines', []):
        if line not in known_lines:
            known_lines.append(line)

    spec_fail = [f for f in failures if f['kind'] == 'spec' and not f.get('known')]
    corr_fail = [f for f in failures if f['kind'] == 'corr' and not f.get('known')]
    out_lines = []
    for kl in known_lines:
        out_lines.append('KNOWN-FINDING: property=%s %s' % (pid, kl))
    if spec_fail:
        f = spec_fail[0]
        path = aglib.write_replay(pid, {'property': pid, 'kind': 'concrete failing input', 'what': f['what'],
                                        'replay': f['payload'], 'more': len(spec_fail) - 1})
        out_lines.append('VIOLATION property=%s replay=%s' % (pid, path))
        violations.append(f['what'])
    elif corr_fail or not proof_ok:
        payload = {'property': pid, 'kind': 'proof or correspondence no longer checks',
                   'proof_ok': proof_ok,
                   'broken_theorem_or_file': None if proof_ok else (proof.get('broken') or proof.get('bad_axioms') or hyg),
                   'proof_log_tail': None if proof_ok else proof.get('log', '')[-1500:],
                   'correspondence': [dict(what=f['what'], replay=f['payload']) for f in corr_fail[:5]],
                   'search': res.get('search_note', 'directed search around the disagreeing cases found no input on which the property itself fails')}
        path = aglib.write_replay(pid, payload)
        out_lines.append('VIOLATION property=%s replay=%s no-failing-input-found' % (pid, path))
        violations.append('proof/correspondence break')
    coverage['known_findings_reported'] = known_lines
    wall = time.time() - t_start
    aglib.write_evidence(pid, tier, seed, coverage, wall, len(violations), assumptions)
    for l in out_lines:
        print(l, flush=True)
    log('%s %s: %s in %.1fs' % (pid, tier, 'VIOLATION' if violations else 'ok', wall))
    return 1 if violations else 0


def aglib_trusted_base():
    return [
        'Coq 8.16.1 kernel (coqc); vm_compute used only inside closed Examples; no native_compute',
        'Coq extraction to OCaml with ExtrOcamlBasic only (no Extract Constant / Extract Inductive of our own), OCaml 4.13.1, modelrun/driver.ml',
        'correspondence check: tools/*.py generators, the -o json parser and comparator; the model is hand-written, not generated from the Rust source',
        'rustc/cargo build of /repo working tree; dependencies (regex, serde_json, chrono, im, ordered-float, crossbeam) are modelled by their documented behaviour, not verified',
    ]
