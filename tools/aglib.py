"""Shared machinery: builds, running the implementation and the model,
canonicalisation, comparison, evidence, verdicts."""
import base64
import hashlib
import json
import math
import os
import random
import re
import struct
import subprocess
import sys
import time
from concurrent.futures import ThreadPoolExecutor

import sexp
from sexp import Sym
import qast

VERIF = os.path.dirname(os.path.dirname(os.path.abspath(__file__)))
REPO = os.environ.get('AG_REPO', '/repo')
BUILD = os.path.join(VERIF, 'build')
COQ = os.path.join(VERIF, 'coq')
TARGET = os.path.join(BUILD, 'target-repo')
AGRIND = os.path.join(TARGET, 'debug', 'agrind')
AGRIND_REL = os.path.join(TARGET, 'release', 'agrind')
MODELRUN = os.path.join(BUILD, 'modelrun', 'modelrun')
NPROC = int(os.environ.get('AGV_JOBS', '16'))
GUARD = 'ag_verif'

ENV = dict(os.environ, CARGO_NET_OFFLINE='true', RUST_BACKTRACE='0', NO_COLOR='1')


def log(*a):
    print(*a, file=sys.stderr, flush=True)


def sh(cmd, cwd=None, timeout=3600, env=None, check=True, quiet=True):
    p = subprocess.run(cmd, cwd=cwd, timeout=timeout, env=env or ENV, shell=isinstance(cmd, str),
                       stdout=subprocess.PIPE, stderr=subprocess.STDOUT)
    out = p.stdout.decode('utf8', 'replace')
    if check and p.returncode != 0:
        raise BuildError('command failed (%d): %s\n%s' % (p.returncode, cmd, out[-4000:]))
    return p.returncode, out


class BuildError(Exception):
    pass


# ------------------------------------------------------------------- builds
def build_impl(release=False):
    """(re)build agrind from $AG_REPO's current working tree into build/target-repo"""
    cmd = ['cargo', 'build', '--offline', '--manifest-path', os.path.join(REPO, 'Cargo.toml'),
           '--bin', 'agrind', '--target-dir', TARGET]
    if release:
        cmd.append('--release')
    env = dict(ENV)
    env['RUSTFLAGS'] = (env.get('RUSTFLAGS', '') + ' --cfg ' + GUARD).strip()
    t = time.time()
    sh(cmd, env=env, timeout=3000)
    return time.time() - t


def coq_sources():
    out = []
    for root, _d, files in os.walk(os.path.join(COQ, 'theories')):
        for f in files:
            if f.endswith('.v'):
                out.append(os.path.join(root, f))
    return sorted(out)


def ensure_makefile():
    mk = os.path.join(COQ, 'Makefile')
    proj = os.path.join(COQ, '_CoqProject')
    if (not os.path.exists(mk)) or os.path.getmtime(mk) < os.path.getmtime(proj):
        sh(['coq_makefile', '-f', '_CoqProject', '-o', 'Makefile'], cwd=COQ)


def build_coq(targets=None, timeout=2400):
    """full .vo build of the requested targets (default: everything)"""
    ensure_makefile()
    cmd = ['make', '-j%d' % NPROC]
    if targets:
        cmd += targets
    t = time.time()
    rc, out = sh(cmd, cwd=COQ, timeout=timeout, check=False)
    return rc, out, time.time() - t


def build_model():
    """extract the model and compile the OCaml runner (only when stale)"""
    rc, out, _ = build_coq(['theories/Entry2.vo'])
    if rc != 0:
        raise BuildError('model does not compile:\n' + out[-3000:])
    mdir = os.path.join(BUILD, 'modelrun')
    os.makedirs(mdir, exist_ok=True)
    stamp = os.path.join(mdir, 'stamp')
    h = hashlib.sha256()
    for f in coq_sources() + [os.path.join(COQ, 'extract', 'Extract.v'),
                              os.path.join(VERIF, 'modelrun', 'driver.ml')]:
        if '/Properties/' in f or f.endswith('_proofs.v'):
            continue
        h.update(open(f, 'rb').read())
    digest = h.hexdigest()
    if os.path.exists(stamp) and open(stamp).read() == digest and os.path.exists(MODELRUN):
        return False
    sh(['coqc', '-Q', '../theories', 'AG', 'Extract.v'], cwd=os.path.join(COQ, 'extract'), timeout=600)
    for f in ('agmodel.ml', 'agmodel.mli'):
        os.replace(os.path.join(COQ, 'extract', f), os.path.join(mdir, f))
    sh(['cp', os.path.join(VERIF, 'modelrun', 'driver.ml'), mdir])
    sh(['ocamlfind', 'ocamlopt', '-O3', '-w', '-a', 'agmodel.mli', 'agmodel.ml', 'driver.ml', '-o', 'modelrun'],
       cwd=mdir, timeout=600)
    open(stamp, 'w').write(digest)
    return True


def regen_facts():
    """tie, way 1: re-extract the table-shaped source fragments into Generated.v"""
    rc, out = sh([sys.executable, os.path.join(VERIF, 'tools', 'srcfacts.py')], check=True)
    m = re.search(r'stale:(.*)', out)
    return [x for x in (m.group(1).split(',') if m else []) if x]


def coqchk(pid, timeout=3000):
    """independent re-check of the compiled property file and everything it depends on"""
    rc, out = sh(['coqchk', '-silent', '-o', '-Q', 'theories', 'AG', 'AG.Properties.' + pid], cwd=COQ,
                 timeout=timeout, check=False)
    return rc, out


# ------------------------------------------------------- proof obligations
FORBIDDEN = re.compile(r'\b(Admitted|admit|Axiom|Axioms|Parameter|Parameters|Conjecture|Conjectures|'
                       r'Hypothesis|Hypotheses|Variable|Variables)\b|Unset\s+Guard|bypass_check|'
                       r'Admit\s+Obligations|type-in-type|impredicative-set|Unset\s+Universe|Unset\s+Positivity')
ALLOWED_AXIOMS = {
    'ClassicalDedekindReals.sig_forall_dec', 'ClassicalDedekindReals.sig_not_dec',
    'FunctionalExtensionality.functional_extensionality_dep', 'Classical_Prop.classic',
}


def strip_comments(src):
    out = []
    depth = 0
    i = 0
    while i < len(src):
        if src.startswith('(*', i):
            depth += 1
            i += 2
        elif src.startswith('*)', i) and depth:
            depth -= 1
            i += 2
        else:
            if depth == 0:
                out.append(src[i])
            i += 1
    return ''.join(out)


def hygiene():
    """no admitted proofs, no declared axioms, no switched-off checks anywhere"""
    problems = []
    for f in coq_sources() + [os.path.join(COQ, '_CoqProject'), os.path.join(COQ, 'extract', 'Extract.v')]:
        src = open(f).read()
        body = strip_comments(src) if f.endswith('.v') else src
        in_section = 0
        for ln, line in enumerate(body.splitlines(), 1):
            if re.match(r'\s*Section\b', line):
                in_section += 1
            if re.match(r'\s*End\b', line) and in_section:
                in_section -= 1
            m = FORBIDDEN.search(line)
            if m:
                word = m.group(0)
                if word.startswith(('Variable', 'Hypothes', 'Context')) and in_section:
                    continue
                problems.append('%s:%d: %s' % (os.path.relpath(f, VERIF), ln, line.strip()[:120]))
    return problems


def check_property_file(pid):
    """compile Properties/<pid>.v afresh; returns dict(obligations, discharged, axioms, log, ok)"""
    rel = 'theories/Properties/%s.v' % pid
    path = os.path.join(COQ, rel)
    src = strip_comments(open(path).read())
    names = re.findall(r'^\s*(?:Theorem|Lemma|Example|Corollary)\s+([A-Za-z0-9_\']+)', src, re.M)
    deps_rc, deps_out, _ = build_coq([rel + 'o'])
    res = {'obligations': len(names), 'names': names, 'discharged': 0, 'axioms': [], 'ok': False, 'log': ''}
    if deps_rc != 0:
        res['log'] = deps_out[-3000:]
        m = re.search(r'File "([^"]+)", line (\d+)', deps_out)
        res['broken'] = m.group(0) if m else 'make failed'
        return res
    # re-run coqc on the property file itself to capture Print Assumptions (make may have cached it)
    rc, out = sh(['coqc', '-Q', 'theories', 'AG', rel], cwd=COQ, timeout=900, check=False)
    res['log'] = out[-3000:]
    if rc != 0:
        m = re.search(r'File "([^"]+)", line (\d+)', out)
        res['broken'] = m.group(0) if m else 'coqc failed'
        return res
    axioms = set()
    in_block = False
    for line in out.splitlines():
        if line.startswith('Axioms:'):
            in_block = True
            continue
        if line.startswith('Closed under the global context'):
            in_block = False
            continue
        if in_block:
            m = re.match(r'^([A-Za-z_][\w.\']*)\s*(:|$)', line)
            if m:
                axioms.add(m.group(1))
            elif line and not line[0].isspace():
                in_block = False
    res['axioms'] = sorted(axioms)
    bad = [a for a in axioms if a not in ALLOWED_AXIOMS]
    res['bad_axioms'] = bad
    res['n_assumption_reports'] = len(re.findall(r'Closed under the global context|Axioms:', out))
    res['discharged'] = len(names)
    res['ok'] = not bad
    return res


# -------------------------------------------------- running the implementation
def run_impl_one(query, inp, mode='json', extra_args=(), binary=None, timeout=20):
    """run the real binary; returns dict(rc, out, err, timed_out)"""
    # options first, then `--`, then the query: a query that starts with `-` is a query, not an option
    args = [binary or AGRIND]
    if mode is not None:
        args += ['-o', mode]
    args += list(extra_args) + ['--', query]
    try:
        p = subprocess.run(args, input=inp, stdout=subprocess.PIPE, stderr=subprocess.PIPE,
                           timeout=timeout, env=ENV)
        return {'rc': p.returncode, 'out': p.stdout, 'err': p.stderr, 'timed_out': False}
    except subprocess.TimeoutExpired as e:
        return {'rc': None, 'out': e.stdout or b'', 'err': e.stderr or b'', 'timed_out': True}


def run_impl_many(jobs, binary=None, timeout=20):
    """jobs: list of (query, input_bytes, mode, extra_args)"""
    with ThreadPoolExecutor(NPROC) as ex:
        outs = list(ex.map(lambda j: run_impl_one(j[0], j[1], j[2], j[3] if len(j) > 3 else (),
                                                  binary=binary, timeout=timeout), jobs))
    # a slow or busy machine is not a hang: whatever ran out of time is run once more, alone, with five times the time
    # (a run that really never ends still ends up as timed_out)
    for k, (j, o) in enumerate(zip(jobs, outs)):
        if o['timed_out']:
            outs[k] = run_impl_one(j[0], j[1], j[2], j[3] if len(j) > 3 else (), binary=binary, timeout=timeout * 5)
    return outs


def run_model_many(case_lines):
    """case_lines: list of s-expression strings; returns list of parsed results"""
    if not case_lines:
        return []
    nshard = min(NPROC, max(1, len(case_lines) // 20))
    shards = [case_lines[i::nshard] for i in range(nshard)]

    def run(shard):
        data = ('\n'.join(shard) + '\n').encode('utf8')
        p = subprocess.run(['bash', '-c', 'ulimit -s unlimited 2>/dev/null; exec ' + MODELRUN],
                           input=data, stdout=subprocess.PIPE, stderr=subprocess.PIPE, timeout=3000)
        lines = p.stdout.decode('utf8').split('\n')
        if lines and lines[-1] == '':
            lines.pop()
        if len(lines) != len(shard):
            raise BuildError('modelrun returned %d lines for %d cases (rc=%s): %s'
                             % (len(lines), len(shard), p.returncode, p.stderr.decode()[-500:]))
        return [sexp.loads(l) for l in lines]
    with ThreadPoolExecutor(nshard) as ex:
        outs = list(ex.map(run, shards))
    res = [None] * len(case_lines)
    for k, o in enumerate(outs):
        for j, r in enumerate(o):
            res[k + j * nshard] = r
    return res


# ----------------------------------------------------------- canonical values
class F(object):
    """a float compared by bit pattern (all NaNs equal)"""
    __slots__ = ('bits',)

    def __init__(self, x):
        self.bits = 0x7ff8000000000000 if x != x else qast.f2bits(x)

    def __eq__(self, o):
        return isinstance(o, F) and o.bits == self.bits

    def __hash__(self):
        return hash(self.bits)

    def __repr__(self):
        return 'F(%r)' % qast.bits2f(self.bits)


def rfc3339(ns):
    """chrono DateTime<Utc>::to_rfc3339() (SecondsFormat::AutoSi)"""
    import datetime
    secs, frac = divmod(ns, 10**9)
    dt = datetime.datetime(1970, 1, 1) + datetime.timedelta(seconds=secs)
    s = dt.strftime('%Y-%m-%dT%H:%M:%S')
    if dt.year < 1000:
        s = '%04d' % dt.year + s[s.index('-'):]
    if frac:
        if frac % 10**6 == 0:
            s += '.%03d' % (frac // 10**6)
        elif frac % 10**3 == 0:
            s += '.%06d' % (frac // 10**3)
        else:
            s += '.%09d' % frac
    return s + '+00:00'


def chrono_duration_text(ns):
    """chrono TimeDelta Display (ISO 8601 flavoured): PT3600S, PT0.000001S, P0D, -PT5S"""
    sign = '-' if ns < 0 else ''
    ns = abs(ns)
    secs, nanos = divmod(ns, 10**9)
    if secs == 0 and nanos == 0:
        return sign + 'P0D'
    out = sign + 'PT%d' % secs
    if nanos:
        out += '.' + ('%09d' % nanos).rstrip('0')
    return out + 'S'


def model_value(x):
    """model value s-expression -> canonical python (what -o json would show)"""
    if isinstance(x, Sym):
        if x == 'n':
            return None
        raise ValueError(x)
    tag = x[0]
    if tag == 's':
        return x[1]
    if tag == 'i':
        return int(x[1])
    if tag == 'f':
        f = qast.bits2f(int(x[1]))
        if f != f or f in (float('inf'), float('-inf')):
            return None          # serde_json writes non-finite numbers as null
        return F(f)
    if tag == 'b':
        return x[1] == 't'
    if tag == 'a':
        return [model_value(y) for y in x[1]]
    if tag == 'o':
        return {k: model_value(v) for k, v in x[1]}
    if tag == 'd':
        return rfc3339(int(x[1]))
    if tag == 'u':
        return chrono_duration_text(int(x[1]))
    raise ValueError(x)


def json_value(x):
    """python json.loads output -> canonical python"""
    if isinstance(x, float):
        return F(x)
    if isinstance(x, list):
        return [json_value(y) for y in x]
    if isinstance(x, dict):
        return {k: json_value(v) for k, v in x.items()}
    return x


def same(a, b):
    """strict structural equality: bool != int, int != float"""
    if type(a) is not type(b):
        return False
    if isinstance(a, list):
        return len(a) == len(b) and all(same(x, y) for x, y in zip(a, b))
    if isinstance(a, dict):
        return a.keys() == b.keys() and all(same(a[k], b[k]) for k in a)
    return a == b


def canon_key(v):
    """a hashable rendering for multiset comparison"""
    return json.dumps(v, sort_keys=True, default=lambda o: {'__f': o.bits} if isinstance(o, F) else repr(o))


def parse_model_result(r):
    """-> dict(kind=rows|table|unm|panic|reject|bad, err=int, cols=[..], rows=[dict])"""
    if isinstance(r, Sym):
        return {'kind': str(r)}
    kind = str(r[0])
    if kind == 'driver-error':
        return {'kind': 'driver-error', 'msg': r[1]}
    err = int(r[1][1])
    if kind == 'rows':
        return {'kind': 'rows', 'err': err, 'rows': [{k: model_value(v) for k, v in rec[1:]} for rec in r[2:]]}
    if kind == 'table':
        cols = list(r[2][1:])
        return {'kind': 'table', 'err': err, 'cols': cols,
                'rows': [{k: model_value(v) for k, v in rec[1:]} for rec in r[3:]]}
    raise ValueError(r)


def _pairs_no_dups(pairs):
    d = {}
    for k, v in pairs:
        if k in d:
            d.setdefault('__dup_keys__', []).append(k)
        d[k] = v
    return d


def parse_impl_json(res, is_agg):
    """-> dict(kind=rows|table|crash|reject|hang, err=int, rows=[...], cols)"""
    if res['timed_out']:
        return {'kind': 'hang'}
    err_text = res['err'].decode('utf8', 'replace')
    if res['rc'] != 0:
        if 'panicked' in err_text or res['rc'] not in (1, 2):
            return {'kind': 'crash', 'rc': res['rc'], 'stderr': err_text[-600:]}
        return {'kind': 'reject', 'rc': res['rc'], 'stderr': err_text[-600:]}
    if 'panicked' in err_text:
        return {'kind': 'crash', 'rc': 0, 'stderr': err_text[-600:]}
    nerr = sum(1 for l in err_text.splitlines() if l.startswith('error:'))
    out = res['out'].decode('utf8', 'replace')
    try:
        if is_agg:
            stripped = out.strip()
            if stripped == '':
                return {'kind': 'garbled', 'stdout': out[:400]}
            rows_raw = json.loads(stripped, object_pairs_hook=_pairs_no_dups)
            rows = [json_value(r) for r in rows_raw]
            cols = None
            if rows_raw:
                cols = [k for k in rows_raw[0].keys() if k != '__dup_keys__']
            return {'kind': 'table', 'err': nerr, 'rows': rows, 'cols': cols}
        rows = [json_value(json.loads(l, object_pairs_hook=_pairs_no_dups)) for l in out.split('\n') if l != '']
        return {'kind': 'rows', 'err': nerr, 'rows': rows}
    except ValueError as e:
        return {'kind': 'garbled', 'stdout': out[:400], 'why': str(e)}


def is_agg_query(stages):
    return any(s[0] in ('agg', 'sort') for s in stages)


# ------------------------------------------------------------------ evidence
def write_evidence(pid, tier, seed, coverage, wall, violations, assumptions):
    evdir = os.environ.get('AGV_EVIDENCE_DIR') or os.path.join(VERIF, 'evidence')   # the seed rehearsal points this at build/
    os.makedirs(evdir, exist_ok=True)
    ev = {'property_id': pid, 'tier': tier, 'seed': seed, 'level': 'proof', 'coverage': coverage,
          'assumptions': assumptions, 'wall_s': round(wall, 2), 'violations': violations}
    path = os.path.join(evdir, pid + '.json')
    with open(path, 'w') as f:
        json.dump(ev, f, indent=1, sort_keys=True, default=str)
        f.write('\n')
    return path


REPLAY_META = {}


def write_replay(pid, payload):
    payload = dict(payload)
    payload.setdefault('run', dict(REPLAY_META))      # seed and tier: a history or schedule is reproduced by the same run
    d = os.path.join(BUILD, 'replay')
    os.makedirs(d, exist_ok=True)
    blob = json.dumps(payload, sort_keys=True, default=str, indent=1)
    name = '%s-%s.json' % (pid, hashlib.sha1(blob.encode()).hexdigest()[:12])
    path = os.path.join(d, name)
    open(path, 'w').write(blob + '\n')
    return path


def load_known():
    p = os.path.join(VERIF, 'known_findings.json')
    if not os.path.exists(p):
        return []
    return json.load(open(p)).get('findings', [])
