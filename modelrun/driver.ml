(* Driver around the extracted model: one s-expression case per input line,
   one s-expression result per output line.  Links only agmodel.ml. *)
let rec pos_of_int (n : int) : Agmodel.positive =
  if n = 1 then Agmodel.XH
  else if n land 1 = 0 then Agmodel.XO (pos_of_int (n lsr 1))
  else Agmodel.XI (pos_of_int (n lsr 1))

let n_of_int (n : int) : Agmodel.n = if n = 0 then Agmodel.N0 else Agmodel.Npos (pos_of_int n)

let rec int_of_pos (p : Agmodel.positive) : int =
  match p with Agmodel.XH -> 1 | Agmodel.XO q -> 2 * int_of_pos q | Agmodel.XI q -> 2 * int_of_pos q + 1

let int_of_n (x : Agmodel.n) : int = match x with Agmodel.N0 -> 0 | Agmodel.Npos p -> int_of_pos p

(* UTF-8 decoding of a byte string into code points (lenient) *)
let decode_utf8 (s : Stdlib.String.t) : int list =
  let n = Stdlib.String.length s in
  let rec go i acc =
    if i >= n then List.rev acc
    else
      let c = Char.code s.[i] in
      if c < 0x80 then go (i + 1) (c :: acc)
      else if c < 0xE0 && i + 1 < n then
        go (i + 2) ((((c land 0x1F) lsl 6) lor (Char.code s.[i+1] land 0x3F)) :: acc)
      else if c < 0xF0 && i + 2 < n then
        go (i + 3) ((((c land 0x0F) lsl 12) lor ((Char.code s.[i+1] land 0x3F) lsl 6)
                     lor (Char.code s.[i+2] land 0x3F)) :: acc)
      else if i + 3 < n then
        go (i + 4) ((((c land 0x07) lsl 18) lor ((Char.code s.[i+1] land 0x3F) lsl 12)
                     lor ((Char.code s.[i+2] land 0x3F) lsl 6) lor (Char.code s.[i+3] land 0x3F)) :: acc)
      else go (i + 1) (0xFFFD :: acc)
  in go 0 []

let encode_utf8 (b : Buffer.t) (c : int) : unit =
  if c < 0x80 then Buffer.add_char b (Char.chr c)
  else if c < 0x800 then begin
    Buffer.add_char b (Char.chr (0xC0 lor (c lsr 6)));
    Buffer.add_char b (Char.chr (0x80 lor (c land 0x3F))) end
  else if c < 0x10000 then begin
    Buffer.add_char b (Char.chr (0xE0 lor (c lsr 12)));
    Buffer.add_char b (Char.chr (0x80 lor ((c lsr 6) land 0x3F)));
    Buffer.add_char b (Char.chr (0x80 lor (c land 0x3F))) end
  else begin
    Buffer.add_char b (Char.chr (0xF0 lor (c lsr 18)));
    Buffer.add_char b (Char.chr (0x80 lor ((c lsr 12) land 0x3F)));
    Buffer.add_char b (Char.chr (0x80 lor ((c lsr 6) land 0x3F)));
    Buffer.add_char b (Char.chr (0x80 lor (c land 0x3F))) end

exception Parse_error of Stdlib.String.t

open Agmodel

(* parser over the code points of the line *)
let parse_sexp (cps : int array) : sexp =
  let n = Array.length cps in
  let pos = ref 0 in
  let peek () = if !pos < n then cps.(!pos) else -1 in
  let rec skip () = if !pos < n && (cps.(!pos) = 32 || cps.(!pos) = 9) then (incr pos; skip ()) in
  let hexv c =
    if c >= 48 && c <= 57 then c - 48 else if c >= 97 && c <= 102 then c - 87
    else if c >= 65 && c <= 70 then c - 55 else raise (Parse_error "hex") in
  let rec value () : sexp =
    skip ();
    let c = peek () in
    if c = 40 then begin
      incr pos;
      let items = ref [] in
      let rec loop () =
        skip ();
        if peek () = 41 then incr pos
        else if peek () = -1 then raise (Parse_error "eof in list")
        else (items := value () :: !items; loop ()) in
      loop ();
      SList (List.rev !items) end
    else if c = 34 then begin
      incr pos;
      let acc = ref [] in
      let rec loop () =
        let c = peek () in
        if c = -1 then raise (Parse_error "eof in string")
        else if c = 34 then incr pos
        else if c = 92 then begin
          incr pos;
          let e = peek () in
          incr pos;
          (if e = 110 then acc := 10 :: !acc
           else if e = 116 then acc := 9 :: !acc
           else if e = 114 then acc := 13 :: !acc
           else if e = 117 then begin
             (* \u{HEX} *)
             if peek () <> 123 then raise (Parse_error "\\u{");
             incr pos;
             let v = ref 0 in
             while peek () <> 125 do
               if peek () = -1 then raise (Parse_error "eof in \\u");
               v := !v * 16 + hexv (peek ()); incr pos done;
             incr pos;
             acc := !v :: !acc end
           else acc := e :: !acc);
          loop () end
        else (acc := c :: !acc; incr pos; loop ()) in
      loop ();
      SAtom (true, List.rev_map n_of_int !acc) end
    else if c = -1 || c = 41 then raise (Parse_error "unexpected")
    else begin
      let acc = ref [] in
      while (let c = peek () in c <> -1 && c <> 32 && c <> 9 && c <> 40 && c <> 41 && c <> 34) do
        acc := peek () :: !acc; incr pos done;
      SAtom (false, List.rev_map n_of_int !acc) end
  in
  let v = value () in
  skip ();
  if !pos < n then raise (Parse_error "trailing input");
  v

let rec print_sexp (b : Buffer.t) (x : sexp) : unit =
  match x with
  | SAtom (false, s) -> List.iter (fun c -> encode_utf8 b (int_of_n c)) s
  | SAtom (true, s) ->
      Buffer.add_char b '"';
      List.iter (fun c ->
        let c = int_of_n c in
        if c = 34 then Buffer.add_string b "\\\""
        else if c = 92 then Buffer.add_string b "\\\\"
        else if c < 32 || c = 127 || (c >= 0xD800 && c <= 0xDFFF) || c > 0x10FFFF then
          Buffer.add_string b (Printf.sprintf "\\u{%x}" c)
        else encode_utf8 b c) s;
      Buffer.add_char b '"'
  | SList l ->
      Buffer.add_char b '(';
      List.iteri (fun i y -> if i > 0 then Buffer.add_char b ' '; print_sexp b y) l;
      Buffer.add_char b ')'

let () =
  let b = Buffer.create 65536 in
  (try
    while true do
      let line = input_line stdin in
      Buffer.clear b;
      (try
        let cps = Array.of_list (decode_utf8 line) in
        let c = parse_sexp cps in
        print_sexp b (run_case2 c)
      with
      | Parse_error m -> Buffer.clear b; Buffer.add_string b ("(driver-error \"parse: " ^ m ^ "\")")
      | Stack_overflow -> Buffer.clear b; Buffer.add_string b "(driver-error \"stack overflow\")"
      | Out_of_memory -> Buffer.clear b; Buffer.add_string b "(driver-error \"out of memory\")");
      print_string (Buffer.contents b);
      print_newline ()
    done
  with End_of_file -> ())
